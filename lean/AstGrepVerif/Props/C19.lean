/-
C19 — tree navigation and positions are mutually consistent on every tree.

Model: `Model/Cursor.lean` (tree-sitter cursor as a zipper scoped to its start node, node-level
`parent` / `next_sibling` / `prev_sibling` / `child_with_descendant`), `Model/Traversal.lean`
(`Pre`, `Post`, `Level`, `Visit`), `Model/Nav.lean`, `Model/Position.lean`.
Specifications (`Spec/TreeOrder.lean`, `Tree.preorder`): recursive pre- / post- / level-order,
outermost / innermost matches, unique ids, ordered ranges — none of them mentions a cursor.

Every theorem is for an arbitrary tree `n` (a traversal started at *any* node of a document only
sees that node's subtree, because a tree-sitter cursor is scoped to the node it was created at;
`uniqueIds_of_mem` transports `UniqueIds` from the document to the start node).
-/
import AstGrepVerif.Lemmas.Pre
import AstGrepVerif.Lemmas.Nav
import AstGrepVerif.Lemmas.Post
import AstGrepVerif.Lemmas.Level
import AstGrepVerif.Lemmas.Position
import AstGrepVerif.Lemmas.Outermost
import AstGrepVerif.Lemmas.PostVisit
import AstGrepVerif.Lemmas.PostInnermost
import AstGrepVerif.Lemmas.PostVisitFixed
import AstGrepVerif.Lemmas.PostInnermostFixed

namespace AGV.C19
open AGV Tree

/-! ## unique ids are inherited by every node of a document -/

theorem uniqueIds_of_mem {t n : Tree} (hu : t.UniqueIds) (hn : n ∈ t.preorder) : n.UniqueIds := by
  obtain ⟨ctx, rfl⟩ := exists_ctx t n hn
  exact uniqueIds_plugOut hu

/-! ## pre-order -/

/-- `node.dfs()` = the recursive pre-order of the start node's subtree; no panic (depth
underflow), no loop runs longer than the budget `2 * size + 2`. -/
theorem pre_eq_preorder (n : Tree) (hu : n.UniqueIds) : Pre.toList n = .ok n.preorder := by
  have h := Pre.collect_eq n hu (travFuel n) (by unfold travFuel; omega) (travFuel n) (Pre.new n)
    (by simp [Pre.Inv, Pre.new, Cursor.new, Cursor.root, plugAll])
    (by simp [Pre.remaining, Pre.new, Cursor.new, restPre, Tree.length_preorder, travFuel]; omega)
  simpa [Pre.toList, Pre.remaining, Pre.new, Cursor.new, restPre] using h

/-- the traversal never leaves the subtree and visits each node exactly once -/
theorem pre_inside_once (n : Tree) (hu : n.UniqueIds) :
    ∃ l, Pre.toList n = .ok l ∧ (∀ x ∈ l, x ∈ n.preorder) ∧ (l.map Tree.id).Nodup ∧ l.length = n.size :=
  ⟨n.preorder, pre_eq_preorder n hu, fun _ h => h, hu, n.length_preorder⟩

/-- the invariant behind `pre_eq_preorder`, one `next` at a time: on a running machine whose
cursor is inside `n` with `current_depth` = the focus' depth below `n`, `next` yields the focus,
the focus is the first node of `preorder n` not yet emitted, and the invariant holds again. -/
theorem pre_step_invariant (n : Tree) (hu : n.UniqueIds) (p : Pre) (s : Nat)
    (hs : p.startId = some s) (hinv : p.Inv n) (hex : p.Exact) :
    ∃ p', Pre.next (travFuel n) p = .ok (some p.cursor.focus, p')
      ∧ p.remaining = p.cursor.focus :: p'.remaining ∧ p'.Inv n ∧ p'.Exact := by
  obtain ⟨⟨t, path⟩, sid, d⟩ := p
  simp only at hs; subst hs
  have hsid : s = n.id := hinv.1
  subst hsid
  obtain ⟨hid, hd, hsz⟩ := Pre.inv_idsOk hu hinv
  refine ⟨Pre.afterNext n.id t path d, Pre.next_eq n.id t path d _ hid hd (by unfold travFuel; omega),
    (Pre.afterNext_remaining n.id t path d).symm, Pre.afterNext_inv n t path d (Pre.inv_root hinv) hd,
    Pre.afterNext_exact n.id t path d (hex (by simp))⟩

/-! ## the non-reentrant visit (pre-order) -/

/-- the predicate `Visit::next` tests: `named_only` filter, then the matcher -/
def passes (named : Bool) (m : Tree → Bool) : Tree → Bool := fun t => (!named || t.named) && m t

/-- `Visitor::new(m).reentrant(false).named_only(k).visit(n)` reports exactly the outermost
matches of the subtree, in document order: `calibrate_for_match` skips the matched subtree. -/
theorem pre_nonreentrant_outermost (n : Tree) (hu : n.UniqueIds) (named : Bool) (m : Tree → Bool) :
    Pre.visit false named m n = .ok (outermost (passes named m) n) := by
  have h := Pre.visitCollect_nonreentrant n hu (travFuel n) (by unfold travFuel; omega) named m
    (travFuel n) (Pre.new n)
    (by simp [Pre.Inv, Pre.new, Cursor.new, Cursor.root, plugAll])
    (by simp [Pre.remaining, Pre.new, Cursor.new, restPre, Tree.length_preorder, travFuel]; omega)
  unfold passes
  simpa [Pre.visit, Pre.outRemaining, Pre.new, Cursor.new, outRest] using h

/-- the recursive `outermost` says what the text says: reported are exactly the nodes of the
subtree that pass the test and have no proper ancestor *inside the subtree* that passes it -/
theorem pre_nonreentrant_no_matching_ancestor (n : Tree) (hu : n.UniqueIds) (named : Bool) (m : Tree → Bool) :
    ∃ l, Pre.visit false named m n = .ok l ∧ l.Sublist n.preorder ∧
      ∀ x, x ∈ l ↔ x ∈ n.preorder ∧ passes named m x = true ∧
        ∀ a ∈ n.preorder, Below x a → passes named m a = false :=
  ⟨_, pre_nonreentrant_outermost n hu named m, outermost_sublist _ n,
    mem_outermost_iff _ n.size n (Nat.le_refl _) hu⟩

/-- with `reentrant = true` (the default) the visit is the traversal filtered by the test -/
theorem pre_reentrant_filter (n : Tree) (hu : n.UniqueIds) (named : Bool) (m : Tree → Bool) :
    Pre.visit true named m n = .ok (n.preorder.filter (passes named m)) := by
  have h := Pre.visitCollect_reentrant n hu (travFuel n) (by unfold travFuel; omega) named m
    (travFuel n) (Pre.new n)
    (by simp [Pre.Inv, Pre.new, Cursor.new, Cursor.root, plugAll])
    (by simp [Pre.remaining, Pre.new, Cursor.new, restPre, Tree.length_preorder, travFuel]; omega)
  unfold passes
  simpa [Pre.visit, Pre.remaining, Pre.new, Cursor.new, restPre] using h

/-! ## children / parent / ancestors -/

/-- `children()` (cursor walk with `count = child_count`) is the child list -/
theorem children_eq (n : Tree) : Nav.children n = n.children := childrenViaCursor_eq n

/-- every child's `parent()` is the node, for every node of a document with unique ids -/
theorem children_parent (t n : Tree) (hu : t.UniqueIds) (hn : n ∈ t.preorder) :
    ∀ c ∈ Nav.children n, Nav.parent t c = some n := by
  intro c hc
  rw [children_eq] at hc
  obtain ⟨ctx, rfl⟩ := exists_ctx t n hn
  obtain ⟨l, r, hlr⟩ := List.append_of_mem hc
  have hplug : n = Frame.plug ⟨n.info, l.reverse, r⟩ c := by
    cases n with
    | node i cs => simp [Tree.children] at hlr; simp [Frame.plug, Tree.info, hlr]
  rw [hplug] at hu ⊢
  exact parent_plugOut ctx _ c hu

/-- `ancestors()` (top-down `child_with_descendant` walk, reversed) is the chain of parents -/
theorem ancestors_eq_parent_chain (t n : Tree) (hu : t.UniqueIds) (hn : n ∈ t.preorder) :
    Nav.ancestors t n = .ok (parentChain t t.size n) := by
  obtain ⟨ctx, rfl⟩ := exists_ctx t n hn
  have hsz := size_plugOut ctx n
  have := n.size_pos
  have h1 := ancestorsDown_plugOut n ctx ((plugOut ctx n).size + 1) hu (by omega)
  have h2 := parentChain_plugOut ctx.length ctx n (plugOut ctx n).size rfl hu (by omega)
  simp only [Nav.ancestors, h1, h2]

/-! ## siblings -/

/-- a node with a parent is the hole of a frame of that parent -/
theorem exists_frame {t n p : Tree} (hu : t.UniqueIds) (hn : n ∈ t.preorder)
    (hp : Nav.parent t n = some p) :
    ∃ ctx i l r, t = plugOut ctx (Frame.plug ⟨i, l, r⟩ n) ∧ p = Frame.plug ⟨i, l, r⟩ n := by
  obtain ⟨ctx0, rfl⟩ := exists_ctx t n hn
  rcases list_nil_or_concat ctx0 with rfl | ⟨ctx, ⟨i, l, r⟩, rfl⟩
  · simp [Nav.parent, plugOut, parent_root] at hp
  · have hroot : plugOut (ctx ++ [⟨i, l, r⟩]) n = plugOut ctx (Frame.plug ⟨i, l, r⟩ n) := by
      rw [plugOut_append]; rfl
    rw [hroot] at hu hp ⊢
    rw [Nav.parent, parent_plugOut ctx _ n hu] at hp
    exact ⟨ctx, i, l, r, rfl, (Option.some.inj hp).symm⟩

/-- `next_all()` = `next()` iterated, when the node has non-zero width and its parent's children
are ordered (the byte-positioned cursor then lands on the node itself). -/
theorem nextAll_eq_iterate_next (t n p : Tree) (hu : t.UniqueIds) (hn : n ∈ t.preorder)
    (hp : Nav.parent t n = some p) (hord : p.ChildrenOrdered) (hw : n.start < n.stop) :
    Nav.nextAll t n = .ok (iterNext t t.size n) := by
  obtain ⟨ctx, i, l, r, rfl, rfl⟩ := exists_frame hu hn hp
  have hl : ∀ k ∈ l, k.stop ≤ n.start := by
    intro k hk
    have := hord.1
    simp only [Frame.plug, Tree.children, List.pairwise_append] at this
    exact this.2.2 k (List.mem_reverse.2 hk) n (by simp)
  have hsz : r.length < (plugOut ctx (Frame.plug ⟨i, l, r⟩ n)).size := by
    have h1 := size_plugOut ctx (Frame.plug ⟨i, l, r⟩ n)
    have h2 := Frame.size_plug ⟨i, l, r⟩ n
    have h3 : r.length ≤ sizeList r := by
      clear h1 h2 hl hord hu hn hp
      induction r with
      | nil => simp
      | cons x xs ih => have := x.size_pos; simp only [sizeList, List.length_cons]; omega
    simp only at h2; omega
  have hhp : Nav.hasParent (plugOut ctx (Frame.plug ⟨i, l, r⟩ n)) n = true := by simp [Nav.hasParent, hp]
  rw [Nav.nextAll, hhp, if_pos rfl, siblingCursor_plugOut ctx i l r n hu hl hw,
    iterNextSibling_eq i r n l _ (by omega), iterNext_plugOut ctx i r l n _ hu hsz]

/-- `prev_all()` = `prev()` iterated (nearest first), under the same guard -/
theorem prevAll_eq_iterate_prev (t n p : Tree) (hu : t.UniqueIds) (hn : n ∈ t.preorder)
    (hp : Nav.parent t n = some p) (hord : p.ChildrenOrdered) (hw : n.start < n.stop) :
    Nav.prevAll t n = .ok (iterPrev t t.size n) := by
  obtain ⟨ctx, i, l, r, rfl, rfl⟩ := exists_frame hu hn hp
  have hl : ∀ k ∈ l, k.stop ≤ n.start := by
    intro k hk
    have := hord.1
    simp only [Frame.plug, Tree.children, List.pairwise_append] at this
    exact this.2.2 k (List.mem_reverse.2 hk) n (by simp)
  have hsz : l.length < (plugOut ctx (Frame.plug ⟨i, l, r⟩ n)).size := by
    have h1 := size_plugOut ctx (Frame.plug ⟨i, l, r⟩ n)
    have h2 := Frame.size_plug ⟨i, l, r⟩ n
    have h3 : l.length ≤ sizeList l := by
      clear h1 h2 hl hord hu hn hp
      induction l with
      | nil => simp
      | cons x xs ih => have := x.size_pos; simp only [sizeList, List.length_cons]; omega
    simp only at h2; omega
  have hhp : Nav.hasParent (plugOut ctx (Frame.plug ⟨i, l, r⟩ n)) n = true := by simp [Nav.hasParent, hp]
  rw [Nav.prevAll, hhp, if_pos rfl, siblingCursor_plugOut ctx i l r n hu hl hw,
    iterPrevSibling_eq i l n r _ (by omega), iterPrev_plugOut ctx i l r n _ hu hsz]

/-- the property's form of the guard: no child of the parent has zero width -/
theorem nextAll_prevAll_of_noZeroWidth (t n p : Tree) (hu : t.UniqueIds) (hn : n ∈ t.preorder)
    (hp : Nav.parent t n = some p) (hord : p.ChildrenOrdered) (hz : p.NoZeroWidthChildren) :
    Nav.nextAll t n = .ok (iterNext t t.size n) ∧ Nav.prevAll t n = .ok (iterPrev t t.size n) := by
  have hw : n.start < n.stop := by
    obtain ⟨ctx, i, l, r, rfl, rfl⟩ := exists_frame hu hn hp
    exact hz n (Frame.mem_children_plug _ n)
  exact ⟨nextAll_eq_iterate_next t n p hu hn hp hord hw, prevAll_eq_iterate_prev t n p hu hn hp hord hw⟩

/-! ## post-order and level-order -/

/-- `Post::new(&n)` iterated = the recursive post-order; no panic, within the budget -/
theorem post_eq_postorder (n : Tree) (hu : n.UniqueIds) : Post.toList n = .ok n.postorder := by
  have hF : n.size ≤ travFuel n := by unfold travFuel; omega
  have hnew : Post.new (travFuel n) n
      = .ok ⟨leftmost (travFuel n) n [], some n.id, (leftmost (travFuel n) n []).path.length, 0⟩ := by
    simp [Post.new, Cursor.new, traceDown_eq (some n.id) 0 (travFuel n) n [] 0 hF]
  have hinv : Post.Inv n ⟨leftmost (travFuel n) n [], some n.id, (leftmost (travFuel n) n []).path.length, 0⟩ := by
    simp [Post.Inv, leftmost_root, plugAll]
  have hrem : Post.remaining ⟨leftmost (travFuel n) n [], some n.id, (leftmost (travFuel n) n []).path.length, 0⟩
      = n.postorder := by
    simp [Post.remaining, leftmost_remaining (travFuel n) n [] hF, restPost]
  have h := Post.collect_eq n hu (travFuel n) hF (travFuel n) _ hinv
    (by have := Post.remaining_le hinv; unfold travFuel at *; omega)
  simp only [Post.toList, hnew, h, hrem]

/-- the reentrant post-order visit is the post-order filtered by the test (with or without
debug assertions: `calibrate_for_match` is never called) -/
theorem post_reentrant_filter (n : Tree) (hu : n.UniqueIds) (dbg named : Bool) (m : Tree → Bool) :
    Post.visit dbg true named m n = .ok (n.postorder.filter (passes named m)) := by
  have hF : n.size ≤ travFuel n := by unfold travFuel; omega
  have hnew : Post.new (travFuel n) n
      = .ok ⟨leftmost (travFuel n) n [], some n.id, (leftmost (travFuel n) n []).path.length, 0⟩ := by
    simp [Post.new, Cursor.new, traceDown_eq (some n.id) 0 (travFuel n) n [] 0 hF]
  have hinv : Post.Inv n ⟨leftmost (travFuel n) n [], some n.id, (leftmost (travFuel n) n []).path.length, 0⟩ := by
    simp [Post.Inv, leftmost_root, plugAll]
  have hrem : Post.remaining ⟨leftmost (travFuel n) n [], some n.id, (leftmost (travFuel n) n []).path.length, 0⟩
      = n.postorder := by
    simp [Post.remaining, leftmost_remaining (travFuel n) n [] hF, restPost]
  have h := Post.visitCollect_reentrant n hu (travFuel n) (by unfold travFuel; omega) dbg named m (travFuel n) _ hinv
    (by have := Post.remaining_le hinv; unfold travFuel at *; omega)
  unfold passes
  simp only [Post.visit, hnew, h, hrem]

/-- `Level::new(&n)` iterated = layer by layer, each layer left to right.  (No id test in this
machine: it holds for every tree.) -/
theorem level_eq_levelorder (n : Tree) : Level.toList n = .ok n.levelorder := by
  have h := Level.collect_layers n.height [n] (travFuel n) (by simp [heightList])
    (by simp [sizeList, travFuel]; omega)
  simpa [Level.toList, Level.new, levelorder, layersList_eq, layersFrom_eq] using h

/-- **What the post-order visit with `reentrant = false` implements**: the fold `foldNR` of
`Spec/PostVisit.lean` over the recursive post-order annotated with depth and "no next sibling"
(`postItems`), started with `match_depth = 0`, for builds with (`dbg = true`) and without debug
assertions — including the panic.  It is *not* the recursive `innermost`
(`post_nonreentrant_counterexample` below). -/
theorem post_nonreentrant_fold (n : Tree) (hu : n.UniqueIds) (dbg named : Bool) (m : Tree → Bool) :
    Post.visit dbg false named m n = foldNR dbg (passes named m) (postItems 0 true n) 0 false := by
  have hF : n.size ≤ travFuel n := by unfold travFuel; omega
  have hnew : Post.new (travFuel n) n
      = .ok ⟨leftmost (travFuel n) n [], some n.id, (leftmost (travFuel n) n []).path.length, 0⟩ := by
    simp [Post.new, Cursor.new, traceDown_eq (some n.id) 0 (travFuel n) n [] 0 hF]
  have hinv : Post.Inv n ⟨leftmost (travFuel n) n [], some n.id, (leftmost (travFuel n) n []).path.length, 0⟩ := by
    simp [Post.Inv, leftmost_root, plugAll]
  have hitems : Post.items ⟨leftmost (travFuel n) n [], some n.id, (leftmost (travFuel n) n []).path.length, 0⟩
      = postItems 0 true n := by
    simp [Post.items, leftmost_items (travFuel n) n [] hF, restItems, lastOf]
  have h := Post.visitCollect_fold n hu (travFuel n) (by unfold travFuel; omega) dbg named m (travFuel n) _ hinv
    (by have := Post.remaining_le hinv; unfold travFuel at *; omega)
  unfold passes
  simp only [Post.visit, hnew, h, hitems]

/-- the restriction under which the post-order non-reentrant visit *is* "innermost matches only":
no node of the subtree that passes the test is the last child of its parent (then no reported
match is ever followed directly by its parent, the debug assertion cannot fail, and nothing is
skipped untested). -/
theorem post_nonreentrant_innermost_partial (n : Tree) (hu : n.UniqueIds) (dbg named : Bool)
    (m : Tree → Bool) (hH : NoPassingLastChild (passes named m) n) :
    Post.visit dbg false named m n = .ok (innermost (passes named m) n) := by
  rw [post_nonreentrant_fold n hu]
  have h := tree_lemma dbg (passes named m) n.size n (Nat.le_refl _) hH 0 true 0 [] (Nat.le_refl _)
    (fun _ => Or.inr rfl)
  rw [List.append_nil] at h
  rw [h]
  split
  · next he => simp [foldNR, List.isEmpty_iff.1 he]
  · simp [foldNR, consAll]

/-! ## the repaired post-order visit (`Post.visitFixed`: `calibrate_for_match` without the early
`return` after a match)

`Post.visit` above is the machine of the pinned code (v0.37.0) and the three theorems above stay
as regression theorems about it.  `Post.visitFixed` (`Model/Traversal.lean`) differs in one place:
after `match_depth = depth` the calibration falls through to the test
`current_depth >= match_depth` and the loop that skips the ancestors. -/

/-- the repair does not touch the reentrant visit (`calibrate_for_match` is not called) -/
theorem post_fixed_reentrant_filter (n : Tree) (hu : n.UniqueIds) (dbg named : Bool) (m : Tree → Bool) :
    Post.visitFixed dbg true named m n = .ok (n.postorder.filter (passes named m)) := by
  rw [Post.visitFixed_reentrant, post_reentrant_filter n hu]

/-- the repaired visit with `reentrant = false` is the repaired fold (`foldNRFixed` of
`Spec/PostVisit.lean`), for builds with and without debug assertions -/
theorem post_fixed_nonreentrant_fold (n : Tree) (hu : n.UniqueIds) (dbg named : Bool) (m : Tree → Bool) :
    Post.visitFixed dbg false named m n
      = foldNRFixed dbg (passes named m) (postItems 0 true n) 0 false := by
  have hF : n.size ≤ travFuel n := by unfold travFuel; omega
  have hnew : Post.new (travFuel n) n
      = .ok ⟨leftmost (travFuel n) n [], some n.id, (leftmost (travFuel n) n []).path.length, 0⟩ := by
    simp [Post.new, Cursor.new, traceDown_eq (some n.id) 0 (travFuel n) n [] 0 hF]
  have hinv : Post.Inv n ⟨leftmost (travFuel n) n [], some n.id, (leftmost (travFuel n) n []).path.length, 0⟩ := by
    simp [Post.Inv, leftmost_root, plugAll]
  have hitems : Post.items ⟨leftmost (travFuel n) n [], some n.id, (leftmost (travFuel n) n []).path.length, 0⟩
      = postItems 0 true n := by
    simp [Post.items, leftmost_items (travFuel n) n [] hF, restItems, lastOf]
  have h := Post.visitCollectFixed_fold n hu (travFuel n) (by unfold travFuel; omega) dbg named m (travFuel n) _ hinv
    (by have := Post.remaining_le hinv; unfold travFuel at *; omega)
  unfold passes
  simp only [Post.visitFixed, hnew, h, hitems]

/-- **The repaired post-order visit with `reentrant = false` reports exactly the innermost
matches**, for every tree with unique node ids, every test and every start node — no restriction
on where the matches sit (compare `post_nonreentrant_innermost_partial` for the pinned code).  The
result is `.ok` for `dbg = true` as well: `debug_assert!(depth >= self.match_depth)` never fires,
the depth counter never underflows and no loop exceeds the budget. -/
theorem post_nonreentrant_innermost (n : Tree) (hu : n.UniqueIds) (dbg named : Bool) (m : Tree → Bool) :
    Post.visitFixed dbg false named m n = .ok (innermost (passes named m) n) := by
  rw [post_fixed_nonreentrant_fold n hu, foldNRFixed_innermost]

/-- the recursive `innermost` says what the text says: it is the post-order of the subtree
filtered by "passes the test and no proper descendant passes it" — as a sub-list, as a membership
statement with the descendant relation `Below`, and as a literal `filter`
(`noPassingBelow f x` = every node of `preorderList x.children` fails `f`). -/
theorem innermost_spec (f : Tree → Bool) (n : Tree) :
    (innermost f n).Sublist n.postorder ∧
    (∀ x, x ∈ innermost f n ↔ x ∈ n.preorder ∧ f x = true ∧ ∀ y, Below y x → f y = false) ∧
    innermost f n = n.postorder.filter (fun x => f x && x.noPassingBelow f) := by
  have h := Tree.innermost_eq_filter f n
  refine ⟨by rw [h]; exact List.filter_sublist, ?_, h⟩
  intro x
  rw [h, List.mem_filter, Tree.mem_postorder_iff, Bool.and_eq_true, Tree.noPassingBelow_iff]

/-- the two together, readable without the model's specification functions: the repaired visit
never panics and reports, in post-order, exactly the nodes of the subtree that pass the test and
have no proper descendant that passes it -/
theorem post_nonreentrant_no_matching_descendant (n : Tree) (hu : n.UniqueIds) (dbg named : Bool)
    (m : Tree → Bool) :
    ∃ l, Post.visitFixed dbg false named m n = .ok l ∧ l.Sublist n.postorder ∧
      ∀ x, x ∈ l ↔ x ∈ n.preorder ∧ passes named m x = true ∧
        ∀ y, Below y x → passes named m y = false :=
  ⟨_, post_nonreentrant_innermost n hu dbg named m, (innermost_spec _ n).1, (innermost_spec _ n).2.1⟩

/-! ## positions -/

open Position in
/-- `start_pos()` / `end_pos()`: for a text that is the encoding of the characters `cs` by a
UTF-8-shaped encoder and an offset on the boundary after `k` characters, the line is the number
of newline characters before it and `column(&node)` is the number of characters since the last
newline (the backward byte scan of `get_char_column` never panics there). -/
theorem position_consistent (enc : Char → Bytes) (he : Utf8Like enc) (cs : List Char) (k : Nat) :
    lineCol (encode enc cs) (encode enc (cs.take k)).length
      = some (lineOfChars (cs.take k), colOf (cs.take k)) := by
  have hle : (encode enc (cs.take k)).length ≤ (encode enc cs).length := by
    have : encode enc cs = encode enc (cs.take k) ++ encode enc (cs.drop k) := by
      unfold encode; rw [← List.flatMap_append, List.take_append_drop]
    rw [this]; simp
  have hscan := scan_encode he (cs.take k).reverse 0
  simp only [List.reverse_reverse, Nat.zero_add] at hscan
  simp only [lineCol, charColumn, Nat.not_lt.2 hle, ↓reduceIte, encode_take, hscan, lineOf,
    count_NL_encode he, lineOfChars, colOf]

open Position in
/-- the same for Lean's own UTF-8 encoder (`String.utf8EncodeChar`, the encoding of Rust's
`String`): it has the required shape (`Position.utf8_shape`, all 2^21 code points) -/
theorem position_consistent_utf8 (cs : List Char) (k : Nat) :
    lineCol (cs.flatMap String.utf8EncodeChar) ((cs.take k).flatMap String.utf8EncodeChar).length
      = some ((cs.take k).count '\n', ((cs.take k).reverse.takeWhile (· ≠ '\n')).length) :=
  position_consistent String.utf8EncodeChar utf8_shape cs k

/-! ## where the full statements fail (witnesses by evaluation) -/

private def mk (id kind s e : Nat) (cs : List Tree) : Tree :=
  .node ⟨kind, true, false, false, s, e, none, id⟩ cs

/-- ids of a result, `none` for a panic / exhausted budget -/
def idsOf : TM (List Tree) → Option (List Nat)
  | .ok l => some (l.map Tree.id)
  | .error _ => none

/-- a parent `[0,2)` with children `a [0,1)`, `z [1,1)` (zero width), `b [1,2)` -/
def zwDoc : Tree := mk 0 1 0 2 [mk 1 2 0 1 [], mk 2 3 1 1 [], mk 3 2 1 2 []]
def zwNode : Tree := mk 2 3 1 1 []

/-- why the guard is in the property: on a zero-width node the byte-positioned cursor lands on
the *next* child (`b`, the first child that ends after byte 1), so `next_all` misses `b` and
`prev_all` reports the node itself — although ids are unique and the ranges are ordered. -/
theorem zero_width_counterexample :
    zwDoc.UniqueIds ∧ RangesWF zwDoc ∧ zwNode ∈ zwDoc.preorder ∧
    idsOf (Nav.nextAll zwDoc zwNode) = some [] ∧ (iterNext zwDoc zwDoc.size zwNode).map Tree.id = [3] ∧
    idsOf (Nav.prevAll zwDoc zwNode) = some [2, 1] ∧ (iterPrev zwDoc zwDoc.size zwNode).map Tree.id = [1] := by
  refine ⟨by unfold UniqueIds; decide, ?_, by simp [zwDoc, zwNode, mk, Tree.preorder, preorderList],
    by decide, by decide, by decide, by decide⟩
  intro p hp
  simp [zwDoc, mk, Tree.preorder, preorderList] at hp
  rcases hp with rfl | rfl | rfl | rfl <;>
    simp [ChildrenOrdered, ChildrenNested, Tree.children, Tree.start, Tree.stop, Tree.info]

/-- a document root with two statements -/
def rootDoc : Tree := mk 0 1 0 4 [mk 1 2 0 2 [], mk 2 2 2 4 []]

/-- a node *without parent* (the document root) has no siblings: `next_all()` / `prev_all()`
yield nothing, as `next()` / `prev()` iterated do (`has_parent && ...`, the fix eb8fb43; before
it the cursor fell back to the node itself, `goto_first_child_for_byte` descended into it and
the root's own children `[1..]` were reported as its following siblings). -/
theorem nextAll_prevAll_without_parent (t n : Tree) (k : Nat) (hp : Nav.parent t n = none) :
    Nav.nextAll t n = .ok (iterNext t k n) ∧ Nav.prevAll t n = .ok (iterPrev t k n) := by
  have h1 : iterNext t k n = [] := by
    cases k with
    | zero => rfl
    | succ k => simp only [iterNext, Nav.next, Tree.nextSibling]; simp only [Nav.parent] at hp; rw [hp]
  have h2 : iterPrev t k n = [] := by
    cases k with
    | zero => rfl
    | succ k => simp only [iterPrev, Nav.prev, Tree.prevSibling]; simp only [Nav.parent] at hp; rw [hp]
  simp [Nav.nextAll, Nav.prevAll, Nav.hasParent, hp, h1, h2]

example : Nav.parent rootDoc rootDoc = none ∧ idsOf (Nav.nextAll rootDoc rootDoc) = some [] := by
  refine ⟨by rfl, by decide⟩

/-- `a = b = c`: `program(expression_statement(assignment(a, =, assignment(b, =, c))))`,
kind 9 = assignment; the inner assignment is the *last child* of the outer one -/
def assignDoc : Tree :=
  mk 0 1 0 9 [mk 1 2 0 9 [mk 2 9 0 9 [mk 3 5 0 1 [], mk 4 6 2 3 [],
    mk 5 9 4 9 [mk 6 5 4 5 [], mk 7 6 6 7 [], mk 8 5 8 9 []]]]]

/-- `command(command_name(word), word)`: kind 5 = word; the first `word` is the last (only)
child of `command_name` -/
def commandDoc : Tree := mk 0 1 0 5 [mk 1 2 0 2 [mk 2 5 0 2 []], mk 3 5 3 5 []]

/-- The post-order visit with `reentrant = false` does **not** implement "innermost matches
only" (the recursive `innermost`, which is what `test_post_order_visitor` compares with):
when a reported match is the last child of its parent, `Visit::next` tests the parent right
away instead of skipping it.
 * the parent matches too: a debug build panics on `debug_assert!(depth >= self.match_depth)`,
   a release build reports the nested outer match as well;
 * the parent does not match: `match_depth` stays one level too deep and the next sibling
   (`word` below) is skipped without being tested — a match is lost. -/
theorem post_nonreentrant_counterexample :
    assignDoc.UniqueIds ∧ commandDoc.UniqueIds ∧
    Post.visit true false false (fun t => t.kind == 9) assignDoc = .error .debugAssert ∧
    idsOf (Post.visit false false false (fun t => t.kind == 9) assignDoc) = some [5, 2] ∧
    (innermost (fun t => t.kind == 9) assignDoc).map Tree.id = [5] ∧
    idsOf (Post.visit true false false (fun t => t.kind == 5) commandDoc) = some [2] ∧
    idsOf (Post.visit false false false (fun t => t.kind == 5) commandDoc) = some [2] ∧
    (innermost (fun t => t.kind == 5) commandDoc).map Tree.id = [2, 3] := by
  refine ⟨by unfold UniqueIds; decide, by unfold UniqueIds; decide, by rfl, by decide, by decide,
    by decide, by decide, by decide⟩

/-- where no match is a last child the same machine does report the innermost matches
(an instance of the hypothesis of `post_nonreentrant_innermost_partial`) -/
example : idsOf (Post.visit true false false (fun t => t.kind == 6) assignDoc) = some [4, 7] ∧
    (innermost (fun t => t.kind == 6) assignDoc).map Tree.id = [4, 7] := by decide

example : NoPassingLastChild (passes false (fun t => t.kind == 6)) assignDoc := by
  intro p hp c hc
  simp [assignDoc, mk, Tree.preorder, preorderList] at hp
  rcases hp with rfl | rfl | rfl | rfl | rfl | rfl | rfl | rfl | rfl <;>
    simp [Tree.children] at hc <;> subst hc <;> rfl

/-- regression: on the two counter-example documents the repaired visit reports the innermost
matches, with debug assertions (no panic) and without -/
example :
    idsOf (Post.visitFixed true false false (fun t => t.kind == 9) assignDoc) = some [5] ∧
    idsOf (Post.visitFixed false false false (fun t => t.kind == 9) assignDoc) = some [5] ∧
    idsOf (Post.visitFixed true false false (fun t => t.kind == 5) commandDoc) = some [2, 3] ∧
    idsOf (Post.visitFixed false false false (fun t => t.kind == 5) commandDoc) = some [2, 3] ∧
    Post.visitFixed true false false (fun t => t.kind == 9) assignDoc
      = .ok (innermost (fun t => t.kind == 9) assignDoc) ∧
    Post.visitFixed true false false (fun t => t.kind == 5) commandDoc
      = .ok (innermost (fun t => t.kind == 5) commandDoc) := by
  refine ⟨by decide, by decide, by decide, by decide, by rfl, by rfl⟩

/-- both documents are outside the guard of `post_nonreentrant_innermost_partial` (a passing node
is a last child) and inside the only hypothesis of `post_nonreentrant_innermost` (unique ids, first
two clauses of `post_nonreentrant_counterexample`) -/
example : ¬ NoPassingLastChild (passes false (fun t => t.kind == 9)) assignDoc := by
  intro h
  have := h (mk 2 9 0 9 [mk 3 5 0 1 [], mk 4 6 2 3 [],
    mk 5 9 4 9 [mk 6 5 4 5 [], mk 7 6 6 7 [], mk 8 5 8 9 []]])
    (by simp [assignDoc, mk, Tree.preorder, preorderList])
    (mk 5 9 4 9 [mk 6 5 4 5 [], mk 7 6 6 7 [], mk 8 5 8 9 []]) (by simp [mk, Tree.children])
  revert this; decide

example : ¬ NoPassingLastChild (passes false (fun t => t.kind == 5)) commandDoc := by
  intro h
  have := h (mk 1 2 0 2 [mk 2 5 0 2 []]) (by simp [commandDoc, mk, Tree.preorder, preorderList])
    (mk 2 5 0 2 []) (by simp [mk, Tree.children])
  revert this; decide

/-- the repaired machine agrees with the pinned one where the pinned one was right -/
example : idsOf (Post.visitFixed true false false (fun t => t.kind == 6) assignDoc) = some [4, 7] := by decide

/-- `innermost_spec` on a document: the filter form evaluates to the same list -/
example : (assignDoc.postorder.filter
      (fun x => (fun t : Tree => t.kind == 9) x && x.noPassingBelow (fun t => t.kind == 9))).map Tree.id = [5] := by
  decide

/-! ## non-vacuity -/

/-- the hypotheses of the sibling theorems hold for an inner node of a well-formed document -/
example : ∃ t n p, t.UniqueIds ∧ n ∈ t.preorder ∧ Nav.parent t n = some p ∧ p.ChildrenOrdered ∧
    p.NoZeroWidthChildren ∧ n.start < n.stop ∧ (iterNext t t.size n).length = 2 := by
  refine ⟨mk 0 1 0 9 [mk 1 5 0 1 [], mk 2 5 2 6 [], mk 3 5 7 8 []], mk 1 5 0 1 [],
    mk 0 1 0 9 [mk 1 5 0 1 [], mk 2 5 2 6 [], mk 3 5 7 8 []],
    by unfold UniqueIds; decide, by simp [mk, Tree.preorder, preorderList], by rfl, ?_, ?_, by decide, by decide⟩
  · simp [ChildrenOrdered, mk, Tree.children, Tree.start, Tree.stop, Tree.info]
  · simp [NoZeroWidthChildren, mk, Tree.children, Tree.start, Tree.stop, Tree.info]

/-- a UTF-8-shaped encoder exists: ASCII / Latin-1 as one byte below 0x80, everything else as a
lead byte and one continuation byte (enough to instantiate `position_consistent`) -/
example : ∃ enc, Position.Utf8Like enc :=
  ⟨fun c => if c = '\n' then [NL] else if c = 'a' then [0x61] else [0xC3, 0xA9], by
    constructor
    · intro c
      by_cases h1 : c = '\n'
      · exact ⟨NL, [], by simp [h1], by decide, by simp⟩
      · by_cases h2 : c = 'a'
        · exact ⟨0x61, [], by simp [h2], by decide, by simp⟩
        · exact ⟨0xC3, [0xA9], by simp [h1, h2], by decide, by decide⟩
    · simp
    · intro c hc
      by_cases h1 : c = '\n'
      · exact h1
      · by_cases h2 : c = 'a'
        · simp [h2, NL] at hc
        · simp [h1, h2, NL] at hc⟩


/-- `f(g(h(1)), g(2))`-like shape: kind 7 nests -/
def callDoc : Tree :=
  mk 0 1 0 9 [mk 1 7 0 9 [mk 2 5 0 1 [], mk 3 7 2 6 [mk 4 5 2 3 [], mk 5 7 4 5 []], mk 6 7 7 8 []]]

example : callDoc.UniqueIds := by unfold UniqueIds; decide
example : idsOf (Pre.toList callDoc) = some [0, 1, 2, 3, 4, 5, 6] := by decide
example : idsOf (Post.toList callDoc) = some [2, 4, 5, 3, 6, 1, 0] := by decide
example : idsOf (Level.toList callDoc) = some [0, 1, 2, 3, 6, 4, 5] := by decide
example : (callDoc.levelorder).map Tree.id = [0, 1, 2, 3, 6, 4, 5] := by decide
example : idsOf (Pre.visit false false (fun t => t.kind == 7) callDoc) = some [1] := by decide
example : idsOf (Pre.visit true false (fun t => t.kind == 7) callDoc) = some [1, 3, 5, 6] := by decide
/-- started at an inner node the traversal stays inside it -/
example : idsOf (Pre.toList (mk 3 7 2 6 [mk 4 5 2 3 [], mk 5 7 4 5 []])) = some [3, 4, 5] := by decide
example : idsOf (Nav.ancestors callDoc (mk 5 7 4 5 [])) = some [3, 1, 0] := by decide
example : (parentChain callDoc callDoc.size (mk 5 7 4 5 [])).map Tree.id = [3, 1, 0] := by decide
example : idsOf (Nav.nextAll callDoc (mk 2 5 0 1 [])) = some [3, 6] := by decide
example : idsOf (Nav.prevAll callDoc (mk 6 7 7 8 [])) = some [3, 2] := by decide
/-- `"é\nab"` with the 2-byte `é`: offset 4 is line 1, column 1 -/
example : Position.lineCol [0xC3, 0xA9, 0x0A, 0x61, 0x62] 4 = some (1, 1) := by decide
example : Position.lineCol [0xC3, 0xA9, 0x0A, 0x61, 0x62] 2 = some (0, 1) := by decide
/-- beyond the text: the slice panics -/
example : Position.lineCol [0x61] 2 = none := by decide

end AGV.C19
