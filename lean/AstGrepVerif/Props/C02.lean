/-
C02 — code with holes matches the code it was cut from, binding each hole exactly.

`cut src hs t` (Model/Pattern.lean) is the pattern obtained from the code `t` by replacing the
sub-expressions listed in `hs` with `$NAME` holes (or a run of siblings with `$$$NAME`).  The
theorems say that the matcher model, at each of the five strictness levels, matches `cut src hs t`
against `t` and binds every variable to the node(s) it replaced.
Property theorems only; the induction over the child-alignment loop is in
`AstGrepVerif/Lemmas/CutMatch.lean` (`matchNode_cut` / `matchLoop_cutList`).
-/
import AstGrepVerif.Lemmas.CutMatch

set_option linter.unusedSimpArgs false
set_option linter.unusedVariables false

namespace AGV.C02

open AGV

/-! ## Fuel -/

/-- an explicit recursion budget that suffices for matching a cut pattern against its origin:
one node of `t` costs at most four call levels (`matchNode`, `matchNodes`, `matchLoop`,
`matchSingle`) -/
def cutFuel (t : Tree) : Nat := 4 * t.size

/-- the model's default budget `matchFuel` is at least `cutFuel` -/
theorem cutFuel_le_matchFuel (p : PNode) (t : Tree) : cutFuel t ≤ matchFuel p t := by
  unfold cutFuel matchFuel
  have h : 4 * (t.size + 1) ≤ 4 * (p.size + 1) * (t.size + 1) := by
    rw [Nat.mul_assoc]
    exact Nat.mul_le_mul_left _ (Nat.le_mul_of_pos_left _ (by omega))
  omega

/-! ## Hypotheses -/

/-- no node of `t` is a zero-width `MISSING` node inserted by error recovery -/
def NoMissing (t : Tree) : Prop := ∀ n ∈ t.preorder, n.info.missing = false

instance (t : Tree) : Decidable (NoMissing t) := by unfold NoMissing; infer_instance

/-- The *hole nodes* of `t`: for every outermost node (in `cut`'s top-down sense) whose byte
range is the range of a single hole, the pair (variable name, node), in pre-order.  These are
exactly the places where `cut` puts a `$NAME`. -/
abbrev holeNodes (hs : List Hole) (t : Tree) : List (Name × Tree) := bindsS hs t

/-- The *run nodes* of `t`: (variable name, children `a ..= b`) for every node outside the hole
nodes whose id carries a run hole.  These are exactly the places where `cut` puts a `$$$NAME`. -/
abbrev runNodes (hs : List Hole) (t : Tree) : List (Name × List Tree) := bindsM hs t

/-- hole `h` is placed exactly once in the pattern `cut src hs t`: it has exactly one hole node
(resp. run node) in `t` -/
def placedOnce (t : Tree) (hs : List Hole) (h : Hole) : Bool :=
  match h.run with
  | none => ((holeNodes hs t).map Prod.fst).count h.name == 1
  | some _ => ((runNodes hs t).map Prod.fst).count h.name == 1

/-- The holes `hs` are a legitimate way of abstracting parts of `t` (a checkable predicate):
* distinct holes have distinct names;
* `cutOK`: every hole node is a *named* node, no child outside the hole nodes is `MISSING`,
  and a run `a ..= b` satisfies `a ≤ b < number of children` and is followed only by unnamed
  leaf tokens (the closing tokens) that are not holes themselves;
* every hole is placed exactly once (so its byte range *is* the range of a named node of `t`,
  and no variable is written twice). -/
def HolesOK (t : Tree) (hs : List Hole) : Bool :=
  decide ((hs.map (·.name)).Nodup) && cutOK hs t && hs.all (placedOnce t hs)

/-! ## Theorems -/

/-- **Code free of holes matches itself** at every strictness level, from every environment,
and binds nothing. -/
theorem self_match (s : Strictness) (src : Bytes) (t : Tree) (hnm : NoMissing t) (env : Env)
    (fuel : Nat) (hf : cutFuel t ≤ fuel) :
    matchPatternEnv s src fuel (cut src [] t) t env = .ok (some env) := by
  have hr : ∀ id, findRunHole [] id = none := fun _ => rfl
  have hS : bindsS [] t = [] := by
    apply List.eq_nil_iff_forall_not_mem.2
    rintro ⟨nm, n⟩ h
    obtain ⟨_, h', hf', _⟩ := mem_bindsS t h
    simp [findSingleHole] at hf'
  have hM : bindsM [] t = [] := by
    apply List.eq_nil_iff_forall_not_mem.2
    rintro ⟨nm, l⟩ h
    obtain ⟨p, _, a, b, hf', _⟩ := mem_bindsM t h
    rw [hr] at hf'
    cases hf'
  have hok : cutOK [] t = true := cutOK_of_noMissing hr t hnm (by rw [hS]; simp)
  have := matchNode_cut s src [] t hok env fuel (by rw [hS]; exact FreshKeys.nil _)
    (by rw [hM]; exact FreshKeys.nil _) hf
  simp only [matchPatternEnv, this, hS, hM, Env.bind_nil]

/-- **Generalisation over the incoming environment**: matching `cut src hs t` against `t` from
`env` succeeds and yields `env` extended by exactly the bindings of the hole nodes and run nodes
of `t`, provided their names are pairwise distinct and not yet bound in `env`. -/
theorem cut_matches_from (s : Strictness) (src : Bytes) (t : Tree) (hs : List Hole) (env : Env)
    (hok : cutOK hs t = true)
    (hS : FreshKeys ((holeNodes hs t).map Prod.fst) env.single)
    (hM : FreshKeys ((runNodes hs t).map Prod.fst) env.multi)
    (fuel : Nat) (hf : cutFuel t ≤ fuel) :
    matchPatternEnv s src fuel (cut src hs t) t env =
      .ok (some (env.bind (holeNodes hs t) (runNodes hs t))) := by
  simp only [matchPatternEnv, matchNode_cut s src hs t hok env fuel hS hM hf]

theorem name_inj {hs : List Hole} (hnd : (hs.map (·.name)).Nodup) {h₁ h₂ : Hole}
    (m₁ : h₁ ∈ hs) (m₂ : h₂ ∈ hs) (e : h₁.name = h₂.name) : h₁ = h₂ := by
  induction hs with
  | nil => cases m₁
  | cons x xs ih =>
    simp only [List.map_cons, List.nodup_cons, List.mem_map, not_exists, not_and] at hnd
    rcases List.mem_cons.1 m₁ with e₁ | m₁ <;> rcases List.mem_cons.1 m₂ with e₂ | m₂
    · rw [e₁, e₂]
    · exact absurd (e₁ ▸ e).symm (hnd.1 _ m₂)
    · exact absurd (e₂ ▸ e) (hnd.1 _ m₁)
    · exact ih hnd.2 m₁ m₂

/-- **Holes, single and run** (`$NAME` and `$$$NAME`): under `HolesOK`, the cut pattern matches
the code at every strictness level; every `$NAME` is bound to a named node of `t` with exactly
the byte range of the sub-expression it replaced, and every `$$$NAME` standing for the children
`a ..= b` of the node with id `pid` is bound to exactly those children (the closing tokens after
`b`, all unnamed, are left out). -/
theorem cut_matches_ellipsis (s : Strictness) (src : Bytes) (t : Tree) (hs : List Hole)
    (hok : HolesOK t hs = true) (fuel : Nat) (hf : cutFuel t ≤ fuel) :
    ∃ env', matchPatternEnv s src fuel (cut src hs t) t Env.empty = .ok (some env') ∧
      (∀ h ∈ hs, h.run = none →
        ∃ n, alookup h.name env'.single = some n ∧ n.start = h.start ∧ n.stop = h.stop ∧
          n.named = true ∧ n ∈ t.preorder) ∧
      (∀ h ∈ hs, ∀ pid a b, h.run = some (pid, a, b) →
        ∃ p ∈ t.preorder, p.id = pid ∧ a ≤ b ∧ b < p.children.length ∧
          (∀ c ∈ p.children.drop (b + 1), c.named = false) ∧
          alookup h.name env'.multi = some ((p.children.drop a).take (b + 1 - a))) := by
  simp only [HolesOK, Bool.and_eq_true, decide_eq_true_eq, List.all_eq_true] at hok
  obtain ⟨⟨hnd, hcut⟩, hplaced⟩ := hok
  -- every placed single name belongs to a single hole, every placed run name to a run hole
  have ownerS : ∀ nm n, (nm, n) ∈ bindsS hs t → ∃ h ∈ hs, h.run = none ∧ h.name = nm ∧
      h.start = n.start ∧ h.stop = n.stop := by
    intro nm n hmem
    obtain ⟨_, h, hfind, hname⟩ := mem_bindsS t hmem
    obtain ⟨h1, h2, h3, h4⟩ := findSingleHole_some hfind
    exact ⟨h, h1, h2, hname, h3, h4⟩
  have ownerM : ∀ nm l, (nm, l) ∈ bindsM hs t → ∃ h ∈ hs, ∃ p ∈ t.preorder, ∃ a b,
      h.run = some (p.id, a, b) ∧ h.name = nm ∧ l = (p.children.drop a).take (b + 1 - a) ∧
      a ≤ b ∧ b < p.children.length ∧ (p.children.drop (b + 1)).all (trailTok hs) = true := by
    intro nm l hmem
    obtain ⟨p, hp, a, b, hfind, hl, hab, hlen, ht⟩ := mem_bindsM_ok t hcut hmem
    obtain ⟨h, h1, h2, h3⟩ := findRunHole_some hfind
    exact ⟨h, h1, p, hp, a, b, h2, h3, hl, hab, hlen, ht⟩
  have ndS : ((bindsS hs t).map Prod.fst).Nodup := by
    rw [List.nodup_iff_count]
    intro nm
    by_cases hm : nm ∈ (bindsS hs t).map Prod.fst
    · obtain ⟨⟨nm', n⟩, hmem, rfl⟩ := List.mem_map.1 hm
      obtain ⟨h, hh, hrun, hname, _⟩ := ownerS _ _ hmem
      have := hplaced h hh
      simp only [placedOnce, holeNodes, runNodes, hrun, beq_iff_eq, hname] at this
      exact Nat.le_of_eq this
    · rw [List.count_eq_zero.2 hm]; omega
  have ndM : ((bindsM hs t).map Prod.fst).Nodup := by
    rw [List.nodup_iff_count]
    intro nm
    by_cases hm : nm ∈ (bindsM hs t).map Prod.fst
    · obtain ⟨⟨nm', l⟩, hmem, rfl⟩ := List.mem_map.1 hm
      obtain ⟨h, hh, p, _, a, b, hrun, hname, _⟩ := ownerM _ _ hmem
      have := hplaced h hh
      simp only [placedOnce, holeNodes, runNodes, hrun, beq_iff_eq, hname] at this
      exact Nat.le_of_eq this
    · rw [List.count_eq_zero.2 hm]; omega
  refine ⟨_, cut_matches_from s src t hs Env.empty hcut ⟨ndS, fun _ _ => rfl⟩ ⟨ndM, fun _ _ => rfl⟩
    fuel hf, ?_, ?_⟩
  · intro h hh hrun
    have hp := hplaced h hh
    simp only [placedOnce, holeNodes, runNodes, hrun, beq_iff_eq] at hp
    have hm : h.name ∈ (bindsS hs t).map Prod.fst := List.count_pos_iff.1 (by omega)
    obtain ⟨⟨nm', n⟩, hmem, hnm⟩ := List.mem_map.1 hm
    simp only at hnm
    subst hnm
    obtain ⟨h', hh', _, hname', hst, hsp⟩ := ownerS _ _ hmem
    have : h' = h := name_inj hnd hh' hh hname'
    subst this
    exact ⟨n, alookup_extend_of_mem _ ndS hmem, hst.symm, hsp.symm,
      named_of_mem_bindsS t hcut hmem, (mem_bindsS t hmem).1⟩
  · intro h hh pid a b hrun
    have hp := hplaced h hh
    simp only [placedOnce, holeNodes, runNodes, hrun, beq_iff_eq] at hp
    have hm : h.name ∈ (bindsM hs t).map Prod.fst := List.count_pos_iff.1 (by omega)
    obtain ⟨⟨nm', l⟩, hmem, hnm⟩ := List.mem_map.1 hm
    simp only at hnm
    subst hnm
    obtain ⟨h', hh', p, hpre, a', b', hrun', hname', hl, hab, hlen, ht⟩ := ownerM _ _ hmem
    have : h' = h := name_inj hnd hh' hh hname'
    subst this
    rw [hrun] at hrun'
    simp only [Option.some.injEq, Prod.mk.injEq] at hrun'
    obtain ⟨rfl, rfl, rfl⟩ := hrun'
    refine ⟨p, hpre, rfl, hab, hlen, ?_, ?_⟩
    · intro c hc
      have := List.all_eq_true.1 ht c hc
      simp only [trailTok, Bool.and_eq_true, Bool.not_eq_true'] at this
      exact this.1.1.1
    · rw [← hl]
      exact alookup_extend_of_mem _ ndM hmem

/-- **Single holes** (`$NAME` only): the cut pattern matches the code at every strictness level
and each variable is bound to a node with exactly the byte range of the sub-expression it
replaced. -/
theorem cut_matches (s : Strictness) (src : Bytes) (t : Tree) (hs : List Hole)
    (hsingle : ∀ h ∈ hs, h.run = none) (hok : HolesOK t hs = true)
    (fuel : Nat) (hf : cutFuel t ≤ fuel) :
    ∃ env', matchPatternEnv s src fuel (cut src hs t) t Env.empty = .ok (some env') ∧
      ∀ h ∈ hs, ∃ n, alookup h.name env'.single = some n ∧ n.start = h.start ∧ n.stop = h.stop ∧
        n ∈ t.preorder := by
  obtain ⟨env', hm, hS, _⟩ := cut_matches_ellipsis s src t hs hok fuel hf
  refine ⟨env', hm, fun h hh => ?_⟩
  obtain ⟨n, h1, h2, h3, _, h5⟩ := hS h hh (hsingle h hh)
  exact ⟨n, h1, h2, h3, h5⟩


/-- `HolesOK` in the terms of the informal statement, for `$NAME` holes only: distinct names, no
`MISSING` node, every hole node named, every hole placed exactly once. -/
theorem holesOK_of_noMissing (t : Tree) (hs : List Hole) (hsingle : ∀ h ∈ hs, h.run = none)
    (hnd : (hs.map (·.name)).Nodup) (hnm : NoMissing t)
    (hnamed : ∀ b ∈ holeNodes hs t, b.2.named = true)
    (hplaced : ∀ h ∈ hs, ((holeNodes hs t).map Prod.fst).count h.name = 1) :
    HolesOK t hs = true := by
  simp only [HolesOK, Bool.and_eq_true, decide_eq_true_eq, List.all_eq_true]
  refine ⟨⟨hnd, cutOK_of_noMissing (findRunHole_none_of_single hsingle) t hnm hnamed⟩, fun h hh => ?_⟩
  simp only [placedOnce, hsingle h hh, beq_iff_eq]
  exact hplaced h hh

/-! ## Non-vacuity: a concrete four-level tree, two `$NAME` holes and one `$$$NAME` run

The code is `x = foo(a, b)` (bytes written out: string literals do not reduce in the kernel),
the pattern `$X = $F($$$W)`. -/

namespace Ex

/-- `x = foo(a, b)` -/
def src : Bytes := [120, 32, 61, 32, 102, 111, 111, 40, 97, 44, 32, 98, 41]

def leaf (kind : Nat) (named : Bool) (start stop id : Nat) : Tree :=
  .node { kind, named, comment := false, missing := false, start, stop, field := none, id } []

/-- kinds: 1 identifier, 2 `=`, 3 `(`, 4 `,`, 5 `)`, 10 assignment, 11 call, 12 arguments -/
def args : Tree :=
  .node { kind := 12, named := true, comment := false, missing := false, start := 7, stop := 13,
          field := none, id := 5 }
    [leaf 3 false 7 8 6, leaf 1 true 8 9 7, leaf 4 false 9 10 8, leaf 1 true 11 12 9,
     leaf 5 false 12 13 10]

def call : Tree :=
  .node { kind := 11, named := true, comment := false, missing := false, start := 4, stop := 13,
          field := none, id := 3 }
    [leaf 1 true 4 7 4, args]

def tree : Tree :=
  .node { kind := 10, named := true, comment := false, missing := false, start := 0, stop := 13,
          field := none, id := 0 }
    [leaf 1 true 0 1 1, leaf 2 false 2 3 2, call]

def hX : Hole := { start := 0, stop := 1, name := ['X'] }
def hF : Hole := { start := 4, stop := 7, name := ['F'] }
/-- `$$$W` for the children 1 ..= 3 (`a`, `,`, `b`) of the `arguments` node (id 5) -/
def hW : Hole := { start := 8, stop := 12, name := ['W'], run := some (5, 1, 3) }

example : NoMissing tree := by decide
example : HolesOK tree [hX, hF] = true := by decide
example : HolesOK tree [hX, hF, hW] = true := by decide

/-- the pattern really is `$X = $F($$$W)` -/
example : cut src [hX, hF, hW] tree =
    .internal 10 [.metaVar (.capture ['X'] true), .terminal [61] false 2,
      .internal 11 [.metaVar (.capture ['F'] true),
        .internal 12 [.terminal [40] false 3, .metaVar (.multiCapture ['W']), .terminal [41] false 5]]] := by
  rfl

/-- the hypotheses of the three theorems are satisfiable -/
example (s : Strictness) : matchPatternEnv s src (cutFuel tree) (cut src [] tree) tree Env.empty
    = .ok (some Env.empty) :=
  self_match s src tree (by decide) _ _ (Nat.le_refl _)

example (s : Strictness) :
    ∃ env', matchPatternEnv s src (cutFuel tree) (cut src [hX, hF] tree) tree Env.empty = .ok (some env') ∧
      ∀ h ∈ [hX, hF], ∃ n, alookup h.name env'.single = some n ∧ n.start = h.start ∧ n.stop = h.stop ∧
        n ∈ tree.preorder :=
  cut_matches s src tree [hX, hF] (by decide) (by decide) _ (Nat.le_refl _)

example (s : Strictness) :=
  cut_matches_ellipsis s src tree [hX, hF, hW] (by decide) _ (Nat.le_refl _)

/-- independent of the theorems: run the model and look at the bindings (ids of the bound nodes) -/
def boundIds (s : Strictness) : Option (List (Name × Nat) × List (Name × List Nat)) :=
  match matchPatternEnv s src (matchFuel (cut src [hX, hF, hW] tree) tree) (cut src [hX, hF, hW] tree)
      tree Env.empty with
  | .ok (some env) => some (env.single.map fun p => (p.1, p.2.id), env.multi.map fun p => (p.1, p.2.map (·.id)))
  | _ => none

example : ([Strictness.cst, .smart, .ast, .relaxed, .signature].all fun s =>
    boundIds s == some ([(['X'], 1), (['F'], 4)], [(['W'], [7, 8, 9])])) = true := by decide

/-! ### The hypotheses are needed: counter-examples, evaluated in the model -/

/-- `some true` = matched, `some false` = no match, `none` = abnormal -/
def outcome (s : Strictness) (src : Bytes) (hs : List Hole) (t : Tree) : Option Bool :=
  match matchPatternEnv s src (matchFuel (cut src hs t) t) (cut src hs t) t Env.empty with
  | .ok (some _) => some true
  | .ok none => some false
  | .error _ => none

def all5 : List Strictness := [.cst, .smart, .ast, .relaxed, .signature]

/-- `NoMissing`: `cut` drops a `MISSING` child, the matcher still sees it as a candidate; under
`cst` and `ast` (no trailing skip) the code does not match its own pattern. -/
def tMissing : Tree :=
  .node { kind := 20, named := true, comment := false, missing := false, start := 0, stop := 1,
          field := none, id := 0 }
    [leaf 1 true 0 1 1,
     .node { kind := 6, named := false, comment := false, missing := true, start := 1, stop := 1,
             field := none, id := 2 } []]

example : all5.map (fun s => outcome s src [] tMissing) =
    [some false, some true, some false, some true, some true] := by decide

/-- hole nodes must be named: a `$E` in place of the `=` token never matches (the hole is
`capture _ true`, it refuses unnamed nodes) -/
def hEq : Hole := { start := 2, stop := 3, name := ['E'] }
example : HolesOK tree [hEq] = false := by decide
example : all5.map (fun s => outcome s src [hEq] tree) =
    [some false, some false, some false, some false, some false] := by decide

/-- distinct holes need distinct names: `$X = $X(a, b)` does not match `x = foo(a, b)` -/
def hF' : Hole := { start := 4, stop := 7, name := ['X'] }
example : HolesOK tree [hX, hF'] = false := by decide
example : all5.map (fun s => outcome s src [hX, hF'] tree) =
    [some false, some false, some false, some false, some false] := by decide

/-- a run must be *trailing* (followed by closing tokens only): the pattern `foo($$$W, b)` cut
from `foo(b, b)` does not match it — the ellipsis stops at the first `b` (no backtracking). -/
def src2 : Bytes := [102, 111, 111, 40, 98, 44, 32, 98, 41]
def call2 : Tree :=
  .node { kind := 11, named := true, comment := false, missing := false, start := 0, stop := 9,
          field := none, id := 0 }
    [leaf 1 true 0 3 1,
     .node { kind := 12, named := true, comment := false, missing := false, start := 3, stop := 9,
             field := none, id := 2 }
       [leaf 3 false 3 4 3, leaf 1 true 4 5 4, leaf 4 false 5 6 5, leaf 1 true 7 8 6,
        leaf 5 false 8 9 7]]
def hW2 : Hole := { start := 4, stop := 5, name := ['W'], run := some (2, 1, 1) }
example : HolesOK call2 [hW2] = false := by decide
example : all5.map (fun s => outcome s src2 [hW2] call2) =
    [some false, some false, some false, some false, some false] := by decide

end Ex

end AGV.C02
