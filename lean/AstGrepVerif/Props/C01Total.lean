/-
C01, unconditional forms: the search-completeness theorems of `Props/C01.lean` are stated
"whenever the unaccelerated search terminates normally" (a kind gate can hide an abnormal outcome:
`findAll_error_masked_counterexample`).  With the totality of the evaluator
(`Lemmas/CoreTotal.lean`: ranked registries, explicit fuel) both searches end normally and return
the same list — nodes, environments, document order.
-/
import AstGrepVerif.Props.C01
import AstGrepVerif.Lemmas.CoreTotal

set_option linter.unusedSimpArgs false
set_option linter.unusedVariables false

namespace AGV.C01

open AGV Spec AGV.RuleFuelReg

/-- the loop ends normally when the matcher does on every candidate -/
theorem findAllLoop_ok (ctx : RCtx) (fuel : Nat) (core : RuleCore) (kinds : Option (List Nat)) :
    ∀ cands : List Tree, (∀ n ∈ cands, ∃ v, matchCore ctx fuel core n Env.empty = .ok v) →
      ∃ found, findAllLoop ctx fuel core kinds cands = .ok found
  | [], _ => ⟨[], rfl⟩
  | c :: cs, h => by
    obtain ⟨rest, hrest⟩ := findAllLoop_ok ctx fuel core kinds cs (fun n hn => h n (List.mem_cons_of_mem _ hn))
    simp only [findAllLoop]
    split
    · exact ⟨rest, hrest⟩
    · obtain ⟨v, hv⟩ := h c List.mem_cons_self
      obtain ⟨o, env⟩ := v
      rw [hv, hrest]
      cases o with
      | none => exact ⟨rest, rfl⟩
      | some m => exact ⟨(m, env) :: rest, rfl⟩

/-- the explicit fuel of a search: the bound of `matchCore` on a node, which does not depend on the
node (`K`: variables, `Kr`: a bound on the ranks the core refers to) -/
def searchBound (ctx : RCtx) (K : List Name) (Kr : Nat) (core : RuleCore) : Nat := coreBound ctx K Kr core

/-- both searches end normally from `searchBound` on -/
theorem findAll_total (ctx : RCtx) (rank : Name → Nat) (hrank : RegRanked ctx rank) (K : List Name)
    (core : RuleCore) (hK : VarsIn K (scanVars ctx core)) (Kr : Nat)
    (hrk : coreRefsBelow rank Kr core) (start : Tree) (hs : start ∈ ctx.root.preorder)
    (fuel : Nat) (hf : searchBound ctx K Kr core ≤ fuel) :
    (∃ found, findAllNodes ctx fuel core start = .ok found) ∧
    (∃ found, bruteForce ctx fuel core start = .ok found) := by
  have hin : ∀ n ∈ start.preorder, n ∈ ctx.root.preorder :=
    fun n hn => InDoc.below (root := ctx.root) hs hn
  constructor
  · exact findAllLoop_ok ctx fuel core _ start.preorder (fun n hn =>
      matchCore_total_doc ctx rank hrank K core hK Kr hrk n (hin n hn) fuel hf)
  · exact findAllLoop_ok ctx fuel { core with kinds := none } none start.preorder (fun n hn =>
      matchCore_total_doc ctx rank hrank K { core with kinds := none } hK Kr hrk n (hin n hn) fuel hf)

/-- **`findAll_eq_bruteForce`, unconditional**: over ranked (acyclic) registries, with fuel from
`searchBound` on, `node.find_all(core)` and the ungated matcher tried on every node of the subtree
BOTH end normally and return the same list — same nodes, same environments, same order.
Hypotheses: `CoreKindsSound` (the core's own `kinds` is sound, as in `findAll_complete`), the rank
(`RegAcyclicAll ctx` is the decidable instance with `rank := regRank ctx`), the references of the
core ranked below `Kr`, `K` ⊇ the variables (`scanVars ctx core` always works), `start` a node of
the document. -/
theorem findAll_eq_bruteForce_total (ctx : RCtx) (rank : Name → Nat) (hrank : RegRanked ctx rank)
    (K : List Name) (core : RuleCore) (hc : CoreKindsSound ctx core)
    (hK : VarsIn K (scanVars ctx core)) (Kr : Nat) (hrk : coreRefsBelow rank Kr core)
    (start : Tree) (hs : start ∈ ctx.root.preorder) (fuel : Nat)
    (hf : searchBound ctx K Kr core ≤ fuel) :
    ∃ found, findAllNodes ctx fuel core start = .ok found ∧
      bruteForce ctx fuel core start = .ok found := by
  obtain ⟨_, ⟨found, hb⟩⟩ := findAll_total ctx rank hrank K core hK Kr hrk start hs fuel hf
  exact ⟨found, findAll_complete ctx fuel core hc start found hb, hb⟩

/-- with the computed rank and the computed variable list: every hypothesis is decidable -/
theorem findAll_eq_bruteForce_total_doc (ctx : RCtx) (hacyc : RegAcyclicAll ctx) (core : RuleCore)
    (hk : core.kinds = potentialKinds ctx.locals ctx.globals 64 core.rule) (Kr : Nat)
    (hrk : coreRefsBelow (regRank ctx) Kr core) (fuel : Nat)
    (hf : searchBound ctx (scanVars ctx core) Kr core ≤ fuel) :
    ∃ found, findAllNodes ctx fuel core ctx.root = .ok found ∧
      bruteForce ctx fuel core ctx.root = .ok found :=
  findAll_eq_bruteForce_total ctx (regRank ctx) hacyc (scanVars ctx core) core
    (coreKindsSound_of_eq ctx core hk) (VarsIn.refl _) Kr hrk ctx.root
    (Tree.self_in_preorder ctx.root) fuel hf

/-! ## combined scans -/

/-- what is asked of each rule of a combined scan (each rule has its own registries) -/
structure ScanRuleOK (src : Bytes) (root : Tree) (regex : Nat → Tree → Bool) (fuel : Nat)
    (r : ScanRule) : Prop where
  /-- the registries of the rule are acyclic through every operator -/
  acyclic : RegAcyclicAll (r.ctx src root regex)
  /-- … and `Kr` bounds the ranks the rule refers to -/
  refs : ∃ Kr, coreRefsBelow (regRank (r.ctx src root regex)) Kr r.core ∧
    searchBound (r.ctx src root regex) (scanVars (r.ctx src root regex) r.core) Kr r.core ≤ fuel
  /-- the rule is indexed (`CombinedScan::new`: "must have kind") -/
  kinds : potentialKinds r.locals r.globals 64 r.core.rule ≠ none
  /-- its own kind gate is sound -/
  gate : CoreKindsSound (r.ctx src root regex) r.core

/-- **`combined_complete`, unconditional**: when every rule of the list satisfies `ScanRuleOK`
(acyclic registries, enough fuel — `fuel` is at least the maximum of the per-rule bounds — indexed,
sound gate), the combined scan ends normally, every single-rule brute-force search ends normally,
and the hits recorded under a rule's index are exactly its brute-force result: same nodes, same
environments, document order — whatever the other rules are. -/
theorem combined_complete_total (src : Bytes) (root : Tree) (regex : Nat → Tree → Bool) (fuel : Nat)
    (rules : List ScanRule) (hall : ∀ r ∈ rules, ScanRuleOK src root regex fuel r) :
    ∃ hits, combinedScan src root regex fuel rules = .ok hits ∧
      ∀ idx r, (sortScanRules rules)[idx]? = some r →
        bruteForce (r.ctx src root regex) fuel r.core root = .ok (hitsOf idx hits) := by
  have hone : ∀ r ∈ rules, ∃ found, findAllNodes (r.ctx src root regex) fuel r.core root = .ok found ∧
      bruteForce (r.ctx src root regex) fuel r.core root = .ok found := by
    intro r hr
    obtain ⟨hac, ⟨Kr, hrk, hf⟩, _, hg⟩ := hall r hr
    exact findAll_eq_bruteForce_total (r.ctx src root regex) _ hac _ r.core hg (VarsIn.refl _) Kr hrk
      root (Tree.self_in_preorder root) fuel hf
  obtain ⟨hits, hh⟩ := combined_ok src root regex fuel rules
    (fun r hr => (hone r hr).imp fun _ h => h.1)
  refine ⟨hits, hh, fun idx r hidx => ?_⟩
  have hr : r ∈ rules :=
    (AGV.sortScanRules_perm rules).mem_iff.1 (List.mem_iff_getElem?.2 ⟨idx, hidx⟩)
  obtain ⟨found, _, hb⟩ := hone r hr
  have := combined_complete src root regex fuel rules hits hh idx r hidx (hall r hr).kinds
    (hall r hr).gate found hb
  rw [this]; exact hb

/-- … for every order of the rule list (pairwise distinct ids): the same scan result -/
theorem combined_complete_total_order (src : Bytes) (root : Tree) (regex : Nat → Tree → Bool)
    (fuel : Nat) (rules1 rules2 : List ScanRule) (hp : rules1.Perm rules2)
    (hn : (rules1.map (·.id)).Nodup) (hall : ∀ r ∈ rules1, ScanRuleOK src root regex fuel r) :
    ∃ hits, combinedScan src root regex fuel rules1 = .ok hits ∧
      combinedScan src root regex fuel rules2 = .ok hits ∧
      ∀ idx r, (sortScanRules rules2)[idx]? = some r →
        bruteForce (r.ctx src root regex) fuel r.core root = .ok (hitsOf idx hits) := by
  obtain ⟨hits, h1, h2⟩ := combined_complete_total src root regex fuel rules1 hall
  obtain ⟨hs, hc⟩ := combined_order_irrelevant src root regex fuel rules1 rules2 hp hn
  exact ⟨hits, h1, hc ▸ h1, fun idx r hidx => h2 idx r (hs ▸ hidx)⟩

/-! ## non-vacuity -/

namespace TotalEx

/-- the document `ab`: a root with the named leaves `a` (kind 1) and `b` (kind 2) -/
abbrev c1 : Tree := .node ⟨1, true, false, false, 0, 1, none, 1⟩ []
abbrev c2 : Tree := .node ⟨2, true, false, false, 1, 2, none, 2⟩ []
abbrev doc : Tree := .node ⟨0, true, false, false, 0, 2, none, 0⟩ [c1, c2]

/-- a local utility `u := kind 2`, a global one `g := {rule: matches u}` -/
def ctx : RCtx :=
  { src := [97, 98], root := doc, regex := fun _ _ => false,
    locals := [(['u'], .kind 2)], globals := [(['g'], { rule := .matches ['u'] })] }

/-- `rule: {pattern: $A}`, `constraints: {A: {matches: g}}` — a core WITH a constraint that goes
through a global and a local utility -/
def core : RuleCore :=
  { rule := .pattern (.metaVar (.capture ['A'] true)) none .smart,
    constraints := [(['A'], .matches ['g'])], kinds := none }

theorem ctx_acyclic : RegAcyclicAll ctx := by decide +kernel
theorem core_refs : coreRefsBelow (regRank ctx) 2 core := by decide +kernel
theorem bound_value : searchBound ctx (scanVars ctx core) 2 core = 10 := by decide +kernel

/-- every hypothesis of `findAll_eq_bruteForce_total_doc` holds: with fuel 10 (or more) both
searches end normally with the same result -/
theorem findAll_total_example : ∀ fuel, 10 ≤ fuel →
    ∃ found, findAllNodes ctx fuel core ctx.root = .ok found ∧
      bruteForce ctx fuel core ctx.root = .ok found := by
  intro fuel hf
  exact findAll_eq_bruteForce_total_doc ctx ctx_acyclic core rfl 2 core_refs fuel
    (by rw [bound_value]; exact hf)

/-- … and the result is the node `b` (the only one satisfying the constraint), computed -/
theorem findAll_total_example_value :
    (match findAllNodes ctx 10 core ctx.root with
      | .ok [(m, _)] => m.id == 2 | _ => false) = true := by decide +kernel

/-- two rules of a combined scan -/
def ruleA : ScanRule := { id := ['a'], hasFix := false, core := { rule := .kind 1, kinds := some [1] } }
def ruleB : ScanRule :=
  { id := ['b'], hasFix := true, locals := [(['u'], .kind 2)],
    core := { rule := .all [.matches ['u'], .kind 2] (some [2]), kinds := some [2] } }

theorem ruleA_ok : ScanRuleOK [97, 98] doc (fun _ _ => false) 20 ruleA where
  acyclic := by decide +kernel
  refs := ⟨0, by decide +kernel, by decide +kernel⟩
  kinds := by decide +kernel
  gate := coreKindsSound_of_eq _ _ (by decide +kernel)

theorem ruleB_ok : ScanRuleOK [97, 98] doc (fun _ _ => false) 20 ruleB where
  acyclic := by decide +kernel
  refs := ⟨1, by decide +kernel, by decide +kernel⟩
  kinds := by decide +kernel
  gate := coreKindsSound_of_eq _ _ (by decide +kernel)

/-- every hypothesis of `combined_complete_total` holds for `[ruleB, ruleA]` -/
theorem combined_total_example :
    ∃ hits, combinedScan [97, 98] doc (fun _ _ => false) 20 [ruleB, ruleA] = .ok hits ∧
      ∀ idx r, (sortScanRules [ruleB, ruleA])[idx]? = some r →
        bruteForce (r.ctx [97, 98] doc (fun _ _ => false)) 20 r.core doc = .ok (hitsOf idx hits) := by
  refine combined_complete_total [97, 98] doc (fun _ _ => false) 20 [ruleB, ruleA] ?_
  intro r hr
  simp only [List.mem_cons, List.not_mem_nil, or_false] at hr
  rcases hr with rfl | rfl
  · exact ruleB_ok
  · exact ruleA_ok

end TotalEx

end AGV.C01
