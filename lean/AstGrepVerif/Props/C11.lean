/-
C11 — no YAML makes ast-grep crash: bad config is an error, good config never panics.

The model (`Model/Loader.lean`) is the load pipeline of a rule document as an outcome function
`load : SDoc → ok | err | panic`, for the code **after** the repairs FIX_C11_1..7 / FIX_C12_1..2;
`loadPreFix` is the pinned code.  The theorems:

  * `load_total`               the repaired loader never panics, for every document of the modelled class
  * `load_panic_*_prefix_example` / `load_err_*_example`
                               each repaired panic, as a concrete document on which the pinned
                               loader panics and the repaired one returns the documented error
  * `topo_detects_cycles`      the topological sort: success ⇒ duplicate-free order of exactly the keys
                               that respects the dependencies, hence no dependency cycle; failure ⇒ the
                               reported key lies on a cycle; it never runs out of fuel
  * `getOrder_ok_iff_acyclic`  so the sort succeeds exactly on acyclic maps
  * `utils_accepted_acyclic`   instantiated for utilities with the *declarative* same-node reference
                               relation `RefsSame` (all / any / not / matches / nthChild.ofRule)
  * `parseAnB_in_i32`          a position accepted by the repaired `parse_an_b` fits `i32`
                               (C20 `isMatched_no_overflow` relates the machine arithmetic to `Int`)
  * `updown_divergence`        the accepted registry `A := inside(matches B, end)`, `B := has(matches A,
                               end)` makes `matchRule` run out of fuel for EVERY fuel: the formal content
                               of "the termination proof is a finding" (H9, known finding)
  * `scan_terminates_partial`  without `matches` the evaluator never runs out of fuel, with an explicit
                               bound (rule size × tree size)
-/
import AstGrepVerif.Lemmas.LoaderTotal
import AstGrepVerif.Lemmas.CheckVar
import AstGrepVerif.Model.Rule
import AstGrepVerif.Lemmas.RuleFuel
import AstGrepVerif.Lemmas.TreeClosed
import AstGrepVerif.Lemmas.AnB
import AstGrepVerif.Lemmas.RuleTotal

namespace AGV.C11

open AGV AGV.Loader AGV.Loader.Spec

/-! ## the loader never panics -/

/-- **C11, load half.** For every document of the modelled class the repaired loader returns
`ok` or `err`, never `panic` — in particular the topological sorts never run out of fuel, the
`expect("must exist")` / `map[key]` look-ups of the sorted ids never fail, and the i32 arithmetic
of `nthChild` cannot overflow. -/
theorem load_total (doc : SDoc) : ∀ s, load doc ≠ .panic s :=
  loadWith_noPanic Fixes.all ⟨rfl, rfl, rfl⟩ doc

/-- the same for any subset of the repairs that contains the three panic-removing ones -/
theorem loadWith_total (fx : Fixes) (h : fx.panicFree) (doc : SDoc) : ∀ s, loadWith fx doc ≠ .panic s :=
  loadWith_noPanic fx h doc

/-! ### the repaired panics, as concrete documents -/

/-- `rule: {pattern: foo($A)}` as the harness would describe it -/
def callRule : SRule := .mk [.pattern true [['A']] (some [1])]

/-- `transform: {X: {substring: {source: ""}}}` (H3) -/
def docEmptySource : SDoc :=
  { core := { rule := callRule, transform := some [(['X'], .substring [])] } }

/-- `transform: {X: {substring: {source: "é"}}}` (H3, multi-byte first char) -/
def docMultibyteSource : SDoc :=
  { core := { rule := callRule, transform := some [(['X'], .substring ['é'])] } }

/-- `rule: {kind: identifier, nthChild: "99999999999"}` (H8) -/
def docNthOverflow : SDoc :=
  { core := { rule := .mk [.kind true 1, .nthChild (.functional ['9','9','9','9','9','9','9','9','9','9','9']) none false] } }

/-- two rewriters with the same id -/
def docDupRewriter : SDoc :=
  { core := { rule := callRule },
    rewriters := some [⟨['r'], { rule := .mk [.kind true 1], fix := some (.str [0x78]) }⟩,
                       ⟨['r'], { rule := .mk [.kind true 2], fix := some (.str [0x79]) }⟩] }

/-- `transform: {X: {replace: {source: $A, replace: "(", by: x}}}` (H2): accepted by the pinned
loader, the regex is compiled with `unwrap()` at match time -/
def docBadReplaceRegex : SDoc :=
  { core := { rule := callRule, transform := some [(['X'], .replace ['$', 'A'] false)] } }

theorem load_panic_empty_source_prefix_example :
    (loadPreFix docEmptySource).verdict = .panic .usedVarsSlice := by decide
theorem load_err_empty_source_example :
    (load docEmptySource).verdict = .err (.core (.transform .malformedVar)) := by decide

theorem load_panic_multibyte_source_prefix_example :
    (loadPreFix docMultibyteSource).verdict = .panic .usedVarsSlice := by decide
theorem load_err_multibyte_source_example :
    (load docMultibyteSource).verdict = .err (.core (.transform .malformedVar)) := by decide

theorem load_panic_nthchild_overflow_prefix_example :
    (loadPreFix docNthOverflow).verdict = .panic .anbOverflow := by decide
theorem load_err_nthchild_overflow_example :
    (load docNthOverflow).verdict = .err (.core (.rule .nthInvalidSyntax)) := by decide

theorem load_panic_duplicate_rewriter_prefix_example :
    (loadPreFix docDupRewriter).verdict = .panic .insertRewriterExpect := by decide
theorem load_err_duplicate_rewriter_example :
    (load docDupRewriter).verdict = .err (.rewriter (.rule .duplicateRule) ['r']) := by decide

/-- H2: the pinned loader accepts the invalid regex (the panic happens in a walker thread at
match time, the CLI then hangs); the repaired loader reports it -/
theorem replace_regex_accepted_prefix_example : (loadPreFix docBadReplaceRegex).verdict = .ok () := by decide
theorem load_err_replace_regex_example :
    (load docBadReplaceRegex).verdict = .err (.core (.transform .invalidRegex)) := by decide

/-- each of the three repairs is needed for `load_total` -/
theorem loadWith_total_needs_usedVarsSafe :
    ∃ doc s, (loadWith { Fixes.all with usedVarsSafe := false } doc).verdict = .panic s :=
  ⟨docEmptySource, .usedVarsSlice, by decide⟩
theorem loadWith_total_needs_anbChecked :
    ∃ doc s, (loadWith { Fixes.all with anbChecked := false } doc).verdict = .panic s :=
  ⟨docNthOverflow, .anbOverflow, by decide⟩
theorem loadWith_total_needs_rewriterErr :
    ∃ doc s, (loadWith { Fixes.all with rewriterErr := false } doc).verdict = .panic s :=
  ⟨docDupRewriter, .insertRewriterExpect, by decide⟩

/-! ## the topological sort detects exactly the cycles -/

/-- **C11 / C12.** `TopologicalSort::get_order` on a dependency map `g`:
success ⇒ the order has no duplicates, consists of exactly the keys, every key stands after the
keys it depends on, and there is no dependency cycle; failure ⇒ the reported key lies on a
cycle; the recursion depth never exceeds the number of keys. -/
theorem topo_detects_cycles (g : Graph) :
    (∀ o, getOrder g = .ok o →
        o.Nodup ∧ (∀ k, k ∈ o ↔ IsKey g k) ∧
        (∀ pre k post, o = pre ++ k :: post → ∀ d, Edge g k d → IsKey g d → d ∈ pre) ∧
        (∀ k, ¬ Reach g k k)) ∧
    (∀ k, getOrder g = .error (.cyclic k) → Reach g k k) ∧
    getOrder g ≠ .error .fuel := by
  refine ⟨fun o h => ?_, fun k h => getOrder_cyclic g k h, getOrder_ne_fuel g⟩
  obtain ⟨hord, hkeys⟩ := getOrder_ok g o h
  refine ⟨hord.nodup, hkeys, ?_, hord.acyclic fun k hk => (hkeys k).mpr hk⟩
  intro pre k post ho d ⟨deps, hd, hm⟩ hkd
  exact hord.before pre k post ho deps hd d hm hkd

/-- the sort succeeds exactly on the maps without dependency cycle -/
theorem getOrder_ok_iff_acyclic (g : Graph) : (∃ o, getOrder g = .ok o) ↔ ∀ k, ¬ Reach g k k := by
  constructor
  · rintro ⟨o, h⟩
    exact ((topo_detects_cycles g).1 o h).2.2.2
  · intro hac
    cases h : getOrder g with
    | ok o => exact ⟨o, rfl⟩
    | error e =>
      cases e with
      | cyclic k => exact absurd (getOrder_cyclic g k h) (hac k)
      | fuel => exact absurd h (getOrder_ne_fuel g)

/-- non-vacuity: a three-key map with a chain `c → b → a` is sorted dependencies-first -/
example : (match getOrder [(['c'], [['b']]), (['a'], []), (['b'], [['a'], ['x']])] with
    | .ok o => o == [['a'], ['b'], ['c']] | .error _ => false) = true := by
  decide
/-- and a cycle through a third key is reported on a key of the cycle -/
example : (match getOrder [(['a'], [['b']]), (['b'], [['c']]), (['c'], [['a']])] with
    | .error (.cyclic k) => k == ['a'] | _ => false) = true := by
  decide

/-! ### utilities: the graph the sort sees is the declarative same-node reference relation -/

/-- the dependency map `with_utils` hands to the sort -/
def utilGraph (fx : Fixes) (utils : List (Name × SRule)) : Graph := utils.map fun kv => (kv.1, depIds fx kv.2)

theorem alookup_map_snd {β γ} (f : β → γ) (k : Name) (l : List (Name × β)) :
    alookup k (l.map fun kv => (kv.1, f kv.2)) = (alookup k l).map f := by
  induction l with
  | nil => rfl
  | cons hd tl ih =>
    obtain ⟨k', v⟩ := hd
    by_cases h : k' = k <;> simp [alookup, h, ih]

/-- an edge of the sorted graph = "utility `a` refers to `b` on the same node", in the vocabulary
of the rule reference (`RefsSame`: through all / any / not / matches / several keys, and through
`nthChild.ofRule` with FIX_C11_6) -/
theorem utilGraph_edge_iff (fx : Fixes) (utils : List (Name × SRule)) (a b : Name) :
    Edge (utilGraph fx utils) a b ↔ ∃ rule, alookup a utils = some rule ∧ RefsSame fx.ofRuleCycle rule b := by
  unfold Edge utilGraph
  rw [alookup_map_snd]
  constructor
  · rintro ⟨deps, hd, hm⟩
    cases hl : alookup a utils with
    | none => rw [hl] at hd; cases hd
    | some rule =>
      rw [hl] at hd
      simp only [Option.map_some, Option.some.injEq] at hd
      subst hd
      exact ⟨rule, rfl, (mem_depIds_iff fx rule b).mp hm⟩
  · rintro ⟨rule, hl, hr⟩
    exact ⟨depIds fx rule, by simp [hl], (mem_depIds_iff fx rule b).mpr hr⟩

/-- **no accepted utility can require itself on the same node**, directly or through other
utilities: if `with_utils` succeeds, the same-node reference graph of the utilities has no cycle;
and if it reports `CyclicRule` from the sort, there is one. -/
theorem utils_accepted_acyclic (fx : Fixes) (globals : List GlobalUtil) (utils : List (Name × SRule))
    (reg reg' : Registry) (h : withUtils fx globals utils reg = .ok reg') :
    ∀ k, ¬ Reach (utilGraph fx utils) k k := by
  unfold withUtils at h
  cases ho : getOrder (utilGraph fx utils) with
  | ok order => exact ((topo_detects_cycles _).1 order ho).2.2.2
  | error e =>
    unfold utilGraph at ho
    rw [ho] at h
    cases e <;> simp at h

theorem utils_cycle_rejected (fx : Fixes) (globals : List GlobalUtil) (utils : List (Name × SRule))
    (reg : Registry) (k : Name) (hc : Reach (utilGraph fx utils) k k) :
    ∃ e, withUtils fx globals utils reg = .err e ∨ ∃ s, withUtils fx globals utils reg = .panic s := by
  cases h : withUtils fx globals utils reg with
  | ok reg' => exact absurd hc (utils_accepted_acyclic fx globals utils reg reg' h k)
  | err e => exact ⟨e, Or.inl rfl⟩
  | panic s => exact ⟨.cyclicRule, Or.inr ⟨s, rfl⟩⟩

/-- the H9 registry `A := inside(matches B, end)`, `B := has(matches A, end)` has NO same-node
cycle: the loader accepts it, correctly by its own criterion — and the scan diverges
(`updown_divergence` below) -/
def updownUtils : List (Name × SRule) :=
  [(['A'], .mk [.inside (.mk [.matches ['B']]) .end_ .absent]),
   (['B'], .mk [.has (.mk [.matches ['A']]) .end_ .absent])]

theorem updown_accepted :
    (load { core := { rule := .mk [.kind true 1, .matches ['A']], utils := some updownUtils } }).verdict = .ok () := by
  decide

/-- the cycle through `nthChild.ofRule` (evaluated on the node itself) is rejected with FIX_C11_6 and
accepted by the pinned loader, whose `potential_kinds` then recurses without end (stack overflow
while loading: not representable in this model, replayed on the real code by the harness) -/
def ofRuleUtils : List (Name × SRule) :=
  [(['U'], .mk [.nthChild (.numeric 1) (some (.mk [.matches ['U']])) false])]

theorem ofRule_cycle_rejected_example :
    (load { core := { rule := .mk [.kind true 1, .matches ['U']], utils := some ofRuleUtils } }).verdict
      = .err (.core (.utils .cyclicRule)) := by decide
theorem ofRule_cycle_accepted_prefix_example :
    (loadPreFix { core := { rule := .mk [.kind true 1, .matches ['U']], utils := some ofRuleUtils } }).verdict
      = .ok () := by decide

/-! ## positions accepted by the repaired `parse_an_b` fit `i32` -/

/-- **FIX_C11_3.** Whatever the repaired `parse_an_b` accepts has both coefficients in the `i32`
range — the digits that would overflow are reported as `InvalidSyntax` (`parseAnBChecked`), never
wrapped; `isMatched` on such operands is the mathematical function (C20 `isMatched_no_overflow`
covers the pinned `i32` computation for |A|,|B| < 2^30, the repaired code computes in `i64`:
C20 `isMatchedI64_exact`).  The proof lives in `Lemmas/AnB.lean` (`parseAnBChecked_in_i32`). -/
theorem parseAnB_in_i32 (input : List Char) (a b : Int) (h : parseAnBChecked input = .ok (a, b)) :
    inI32 a = true ∧ inI32 b = true :=
  parseAnBChecked_in_i32 input a b h

/-- non-vacuity: `2147483647n-2147483647` is accepted, `99999999999` and `2147483648n` are not -/
example : (match parseAnBChecked ['2','1','4','7','4','8','3','6','4','7','n','-','2','1','4','7','4','8','3','6','4','7'] with
    | .ok v => v == (2147483647, -2147483647) | .error _ => false) = true := by decide
example : (match parseAnBChecked ['9','9','9','9','9','9','9','9','9','9','9'] with
    | .error e => e == .invalidSyntax | .ok _ => false) = true := by decide
example : (match parseAnB ['9','9','9','9','9','9','9','9','9','9','9'] with
    | .error e => e == .overflow | .ok _ => false) = true := by decide

/-- the pinned `i32` computation of `is_matched` overflows at match time on an accepted position
(`nthChild: "n-2147483647"`, H8): `none` = panic in a debug build -/
theorem isMatched_overflow_prefix_example : isMatchedI32 1 (-2147483647) 1 = none := by decide
/-- the repaired computation (in `i64`) is the mathematical one -/
theorem isMatched_fixed_example : isMatchedChecked 1 (-2147483647) 1 = true := by decide

/-! ## an accepted rule set on which the scan cannot terminate (H9, known finding) -/

def mkInfo (kind id : Nat) : Info :=
  { kind := kind, named := true, comment := false, missing := false, start := 0, stop := 1, field := none, id := id }

def leaf : Tree := .node (mkInfo 3 2) []
def mid : Tree := .node (mkInfo 2 1) [leaf]
def root3 : Tree := .node (mkInfo 1 0) [mid]

def nameA : Name := ['A']
def nameB : Name := ['B']
def ruleA : Rule := .inside (.matches nameB) .end_ none
def ruleB : Rule := .has (.matches nameA) .end_ none

def updownCtx : RCtx :=
  { src := [0x61], root := root3, regex := fun _ _ => false,
    locals := [(nameA, ruleA), (nameB, ruleB)] }

theorem anc_leaf : ancestorsOf root3 leaf = [mid, root3] := rfl
theorem parent_leaf : parentOf root3 leaf = some mid := rfl
theorem pre_mid : mid.preorder.drop 1 = [leaf] := rfl
theorem anc_leaf' : ancestorsOf updownCtx.root leaf = [mid, root3] := rfl
theorem parent_leaf' : parentOf updownCtx.root leaf = some mid := rfl

abbrev Div {α} (x : Except Abn α) : Prop := x = .error .fuel

/-- all eleven frames of the up-down recursion run out of fuel, whatever the fuel -/
def Frames (f : Nat) : Prop :=
  (∀ env, Div (matchRule updownCtx f (.matches nameA) leaf env)) ∧
  (∀ env, Div (matchRule updownCtx f ruleA leaf env)) ∧
  (∀ env, Div (matchInside updownCtx f (.matches nameB) .end_ none leaf env)) ∧
  (∀ env eid, Div (stopByFind updownCtx f .end_ (.matches nameB) none eid (some mid) [mid, root3] env)) ∧
  (∀ env eid, Div (findMapRule updownCtx f (.matches nameB) none eid [mid, root3] env)) ∧
  (∀ env eid, Div (finderStep updownCtx f (.matches nameB) none eid mid env)) ∧
  (∀ env, Div (matchRule updownCtx f (.matches nameB) mid env)) ∧
  (∀ env, Div (matchRule updownCtx f ruleB mid env)) ∧
  (∀ env, Div (matchHas updownCtx f (.matches nameA) .end_ none mid env)) ∧
  (∀ env eid, Div (findMapRule updownCtx f (.matches nameA) none eid [leaf] env)) ∧
  (∀ env eid, Div (finderStep updownCtx f (.matches nameA) none eid leaf env))

theorem frames_zero : Frames 0 := by
  refine ⟨?_, ?_, ?_, ?_, ?_, ?_, ?_, ?_, ?_, ?_, ?_⟩ <;> intros <;>
    simp [Div, matchRule, matchInside, stopByFind, findMapRule, finderStep, matchHas]

theorem frames_succ (f : Nat) (h : Frames f) : Frames (f + 1) := by
  obtain ⟨h1, h2, h3, h4, h5, h6, h7, h8, h9, h10, h11⟩ := h
  refine ⟨?_, ?_, ?_, ?_, ?_, ?_, ?_, ?_, ?_, ?_, ?_⟩
  · intro env
    show matchRule updownCtx (f + 1) (.matches nameA) leaf env = _
    simp only [matchRule]
    have : alookup nameA updownCtx.locals = some ruleA := rfl
    rw [this]
    exact h2 env
  · intro env
    show matchRule updownCtx (f + 1) (.inside (.matches nameB) .end_ none) leaf env = _
    simp only [matchRule]
    rw [h3 env]
    simp [withLabel]
  · intro env
    simp only [matchInside]
    have h : leaf.id = 2 := rfl
    rw [parent_leaf', anc_leaf']
    exact h4 env _
  · intro env eid
    simp only [stopByFind]
    exact h5 env eid
  · intro env eid
    simp only [findMapRule]
    rw [h6 env eid]
  · intro env eid
    simp only [finderStep]
    exact h7 env
  · intro env
    simp only [matchRule]
    have : alookup nameB updownCtx.locals = some ruleB := rfl
    rw [this]
    exact h8 env
  · intro env
    show matchRule updownCtx (f + 1) (.has (.matches nameA) .end_ none) mid env = _
    simp only [matchRule]
    rw [h9 env]
    simp [withLabel]
  · intro env
    simp only [matchHas]
    rw [pre_mid]
    exact h10 env 0
  · intro env eid
    simp only [findMapRule]
    rw [h11 env eid]
  · intro env eid
    simp only [finderStep]
    exact h1 env

theorem frames_all : ∀ f, Frames f
  | 0 => frames_zero
  | f + 1 => frames_succ f (frames_all f)

/-- **The termination proof is a finding.** For the registry `A := inside(matches B, stopBy end)`,
`B := has(matches A, stopBy end)` — accepted by the loader (`updown_accepted`: its cycle check
follows only same-node references) — and the three-node chain `root3 > mid > leaf`, evaluating
`matches: A` on the leaf runs out of fuel **for every fuel**: the evaluator goes up to `mid`, down
to `leaf`, up again, without end.  In the implementation this is unbounded recursion (stack
overflow, SIGABRT), replayed on the real code by the harness witness `h9`. -/
theorem updown_divergence :
    ∀ fuel env, matchRule updownCtx fuel (.matches nameA) leaf env = .error .fuel :=
  fun fuel env => (frames_all fuel).1 env

theorem updown_divergence_empty :
    ∀ fuel, matchRule updownCtx fuel (.matches nameA) leaf Env.empty = .error .fuel :=
  fun fuel => updown_divergence fuel Env.empty

/-- the same registry terminates on the root (no ancestor to go up to): the divergence needs a
node below the top -/
example : ∃ fuel, matchRule updownCtx fuel (.matches nameA) root3 Env.empty ≠ .error .fuel :=
  ⟨5, by simp [matchRule, matchInside, stopByFind, findMapRule, withLabel, updownCtx, alookup, nameA, nameB,
    ruleA, ancestorsOf, parentOf, pathTo, root3, mkInfo, Tree.id, Tree.info]⟩

/-! ## without `matches`, the scan terminates within an explicit bound -/

open AGV.RuleFuel in
/-- **C11, scan half, partial.** Let `S` be a set of nodes closed under the navigation the evaluator
performs (ancestors, children, descendants, siblings, field children) in which every candidate
list has at most `W` elements (`Closed`; for a document: its nodes and its size).  For a rule
without any `matches`, evaluated on a node of `S` with fuel at least `cost W r` — a sum over the
rule's operators of `W + 6` per relational / `ofRule` operator and `1`–`2` per other operator, i.e.
bounded by (rule size) × (document size + 6) — the evaluator never runs out of fuel, unless the
*pattern* matcher runs out of its own fuel `matchFuel` on one of the rule's patterns (`PatsOK`,
C03's concern; vacuous for rules without patterns).

With `matches` the statement is false (`updown_divergence`): utilities may recurse through
relational rules, and nothing in the loader bounds that recursion. -/
theorem scan_terminates_partial (ctx : RCtx) (S : List Tree) (W : Nat) (hcl : Closed ctx S W)
    (r : Rule) (hnm : noMatches r = true) (hp : PatsOK ctx r)
    (n : Tree) (hn : n ∈ S) (env : Env) (fuel : Nat) (hf : cost W r ≤ fuel) :
    matchRule ctx fuel r n env ≠ .error .fuel :=
  main hcl r hnm hp n hn env fuel hf

open AGV.RuleFuel in
/-- ... and every document is such a set: for ANY tree, any of its nodes, any environment and any
`matches`-free rule, fuel `cost (size of the document) r` suffices. -/
theorem scan_terminates_document (ctx : RCtx) (r : Rule) (hnm : noMatches r = true) (hp : PatsOK ctx r)
    (n : Tree) (hn : n ∈ ctx.root.preorder) (env : Env) (fuel : Nat) (hf : cost ctx.root.size r ≤ fuel) :
    matchRule ctx fuel r n env ≠ .error .fuel :=
  scan_terminates_partial ctx ctx.root.preorder ctx.root.size (closed_of_tree ctx) r hnm hp n hn env fuel hf

/-- the nodes of the three-node chain -/
def chainNodes : List Tree := [root3, mid, leaf]

theorem chain_closed : AGV.RuleFuel.Closed updownCtx chainNodes 3 := by
  have hr : root3 ∈ chainNodes := List.mem_cons_self
  have hm : mid ∈ chainNodes := List.mem_cons_of_mem _ List.mem_cons_self
  have hl : leaf ∈ chainNodes := List.mem_cons_of_mem _ (List.mem_cons_of_mem _ List.mem_cons_self)
  have hcases : ∀ m ∈ chainNodes, m = root3 ∨ m = mid ∨ m = leaf := by
    intro m h
    simpa [chainNodes] using h
  refine ⟨?_, ?_, ?_, ?_, ?_, ?_⟩
  · intro m h
    rcases hcases m h with rfl | rfl | rfl
    · have e : ancestorsOf updownCtx.root root3 = [] := rfl
      rw [e]
      refine ⟨?_, Nat.zero_le _⟩
      intro a ha
      exact absurd ha List.not_mem_nil
    · have e : ancestorsOf updownCtx.root mid = [root3] := rfl
      rw [e]
      exact ⟨by intro a ha; simp only [List.mem_singleton] at ha; subst ha; exact hr, by simp⟩
    · rw [anc_leaf']
      refine ⟨?_, by simp⟩
      intro a ha
      simp only [List.mem_cons, List.not_mem_nil, or_false] at ha
      rcases ha with rfl | rfl
      · exact hm
      · exact hr
  · intro m h
    rcases hcases m h with rfl | rfl | rfl
    · refine ⟨?_, by decide⟩
      intro c hc
      have e : root3.children = [mid] := rfl
      rw [e] at hc; simp only [List.mem_singleton] at hc; subst hc; exact hm
    · refine ⟨?_, by decide⟩
      intro c hc
      have e : mid.children = [leaf] := rfl
      rw [e] at hc; simp only [List.mem_singleton] at hc; subst hc; exact hl
    · refine ⟨?_, by decide⟩
      intro c hc
      have e : leaf.children = [] := rfl
      rw [e] at hc; cases hc
  · intro m h
    rcases hcases m h with rfl | rfl | rfl
    · have e : root3.preorder = [root3, mid, leaf] := rfl
      rw [e]
      refine ⟨?_, by simp⟩
      intro d hd; exact hd
    · have e : mid.preorder = [mid, leaf] := rfl
      rw [e]
      refine ⟨?_, by simp⟩
      intro d hd
      simp only [List.mem_cons, List.not_mem_nil, or_false] at hd
      rcases hd with rfl | rfl
      · exact hm
      · exact hl
    · have e : leaf.preorder = [leaf] := rfl
      rw [e]
      refine ⟨?_, by simp⟩
      intro d hd; simp only [List.mem_singleton] at hd; subst hd; exact hl
  · intro m h
    rcases hcases m h with rfl | rfl | rfl
    · have e : nextAllOf updownCtx.root root3 = [] := rfl
      have e2 : nextOf updownCtx.root root3 = none := rfl
      rw [e, e2]; simp
    · have e : nextAllOf updownCtx.root mid = [] := rfl
      have e2 : nextOf updownCtx.root mid = none := rfl
      rw [e, e2]; simp
    · have e : nextAllOf updownCtx.root leaf = [] := rfl
      have e2 : nextOf updownCtx.root leaf = none := rfl
      rw [e, e2]; simp
  · intro m h
    rcases hcases m h with rfl | rfl | rfl
    · have e : prevAllOf updownCtx.root root3 = [] := rfl
      have e2 : prevOf updownCtx.root root3 = none := rfl
      rw [e, e2]; simp
    · have e : prevAllOf updownCtx.root mid = [] := rfl
      have e2 : prevOf updownCtx.root mid = none := rfl
      rw [e, e2]; simp
    · have e : prevAllOf updownCtx.root leaf = [] := rfl
      have e2 : prevOf updownCtx.root leaf = none := rfl
      rw [e, e2]; simp
  · intro m h f c hc
    rcases hcases m h with rfl | rfl | rfl
    · have e : childByField root3 f = none := rfl
      rw [e] at hc; cases hc
    · have e : childByField mid f = none := rfl
      rw [e] at hc; cases hc
    · have e : childByField leaf f = none := rfl
      rw [e] at hc; cases hc

/-- non-vacuity: on the chain, the `matches`-free rule `inside: {kind: 1, stopBy: end}`,
`has: {not: {kind: 9}, stopBy: {kind: 3}}` never runs out of fuel from the bound on -/
example : ∀ fuel, 26 ≤ fuel →
    matchRule updownCtx fuel
      (.all [.inside (.kind 1) .end_ none, .has (.not (.kind 9)) (.rule (.kind 3)) none] none) leaf Env.empty
      ≠ .error .fuel := by
  intro fuel hf
  refine scan_terminates_partial updownCtx chainNodes 3 chain_closed _ (by decide) ?_ leaf
    (List.mem_cons_of_mem _ (List.mem_cons_of_mem _ List.mem_cons_self)) Env.empty fuel ?_
  · simp [AGV.RuleFuel.PatsOK, AGV.RuleFuel.PatsOKList, AGV.RuleFuel.PatsOKStop]
  · have : AGV.RuleFuel.cost 3
        (.all [.inside (.kind 1) .end_ none, .has (.not (.kind 9)) (.rule (.kind 3)) none] none) = 26 := by
      decide
    omega

/-! ## with `matches`: termination over a registry whose FULL reference graph is acyclic

The loader's cycle check only follows same-node references (`all`/`any`/`not`/`matches`/`ofRule`),
and `updown_divergence` shows that this is not enough.  With the stronger, decidable hypothesis
that the reference graph *through every operator* is ranked (`RegRanked`, `RegAcyclicAll`), the
evaluator never runs out of fuel, for local and global utilities, with the explicit bound
`costG (mcost …) …` (`Lemmas/RuleFuelReg.lean`, `Lemmas/RuleTotal.lean`). -/

open AGV.RuleFuelReg in
/-- **termination with utilities.**  `rank`: every utility refers only to utilities of smaller
rank; `K`: the variable names of all patterns (the constraint loop of a global utility walks over
the bound variables: `K.length` bounds their number); `PpK … (· = .fuel)`: the pattern matcher
does not run out of *its* fuel (as `PatsOK` in `scan_terminates_partial`); global utilities
without constraints (`rule_noFuel` is the general statement); references of `r` have rank below
`Kr`; the caller's environment binds distinct names of `K`. -/
theorem scan_terminates_registry (ctx : RCtx) (rank : Name → Nat) (hrank : RegRanked ctx rank)
    (K : List Name) (hreg : RegPats ctx (PpK ctx (· = .fuel) K)) (hnc : NoConstraints ctx)
    (Kr : Nat) (r : Rule) (hr : refsBelow rank Kr r = true)
    (hp : PatsAll (PpK ctx (· = .fuel) K) r) (n : Tree) (hn : n ∈ ctx.root.preorder) (env : Env)
    (henv : EnvK K env) (fuel : Nat)
    (hf : costG (mcost ctx ctx.root.size K.length Kr) ctx.root.size r ≤ fuel) :
    matchRule ctx fuel r n env ≠ .error .fuel :=
  matchRule_noBad_document ctx (· = .fuel) rank hrank K hreg hnc Kr r hr hp n hn env henv fuel hf
    .fuel rfl

/-- a two-level registry over the three-node chain: the local `a := has(matches b, end)`,
the local `b := kind 3`, the global `g := all [matches a, kind 1]` -/
def regCtx : RCtx :=
  { updownCtx with
    locals := [(['a'], .has (.matches ['b']) .end_ none), (['b'], .kind 3)],
    globals := [(['g'], { rule := .all [.matches ['a'], .kind 1] none })] }

open AGV.RuleFuelReg in
theorem regCtx_acyclic : RegAcyclicAll regCtx := by decide +kernel

open AGV.RuleFuelReg in
/-- non-vacuity: `inside(matches g, end)` from the leaf, with every fuel from the bound on -/
theorem scan_terminates_registry_example :
    ∀ fuel, 100 ≤ fuel →
      matchRule regCtx fuel (.inside (.matches ['g']) .end_ none) leaf Env.empty ≠ .error .fuel := by
  intro fuel hf
  have hcost : costG (mcost regCtx regCtx.root.size ([] : List Name).length 3) regCtx.root.size
      (.inside (.matches ['g']) .end_ none) ≤ 100 := by decide +kernel
  refine scan_terminates_registry regCtx (regRank regCtx) regCtx_acyclic [] ?_ ?_ 3 _ (by decide +kernel)
    ?_ leaf ?_ Env.empty (EnvK.empty []) fuel (by omega)
  · refine ⟨fun id q h => ?_, fun id core h => ?_⟩
    · simp only [regCtx, alookup] at h
      split at h
      · simp only [Option.some.injEq] at h; subst h; simp [PatsAll, PatsAllStop]
      · split at h
        · simp only [Option.some.injEq] at h; subst h; simp [PatsAll]
        · cases h
    · simp only [regCtx, alookup] at h
      split at h
      · simp only [Option.some.injEq] at h; subst h
        exact ⟨by simp [PatsAll, PatsAllList], fun v m hv => by simp [alookup] at hv⟩
      · cases h
  · intro id core h
    simp only [regCtx, alookup] at h
    split at h
    · simp only [Option.some.injEq] at h; subst h; rfl
    · cases h
  · simp [PatsAll, PatsAllStop]
  · show leaf ∈ root3.preorder
    simp [root3, mid, leaf, Tree.preorder, Tree.preorderList]

end AGV.C11
