/-
C04, unconditional forms: with the totality of the evaluator (ranked registries, explicit fuel:
`Lemmas/CoreTotal.lean`) the oracle comparison `isolate_agrees_full` and the no-trace trichotomy
lose their "whenever both end normally" premises.
-/
import AstGrepVerif.Props.C04
import AstGrepVerif.Lemmas.RuleIsolateTotal

set_option linter.unusedSimpArgs false
set_option linter.unusedVariables false

namespace AGV.C04

open AGV AGV.RuleFuelReg

/-- isolating the registries preserves the rank of every utility (hence acyclicity) -/
theorem isoCtx_ranked (ctx : RCtx) (rank : Name → Nat) (h : RegRanked ctx rank) :
    RegRanked (isoCtx ctx) rank :=
  regRanked_isoCtx ctx rank h

/-- … and the variables of the patterns: the same `K` serves both sides -/
theorem isoCtx_vars (ctx : RCtx) (core : RuleCore) :
    scanVars (isoCtx ctx) (Spec.isolateCore core) = scanVars ctx core :=
  scanVars_isoCtx ctx core

/-- the fuel of the oracle's side: the bound of the isolated core in the isolated context (the
singleton `all`s cost a little more than the rule itself) -/
def isoBound (ctx : RCtx) (K : List Name) (Kr : Nat) (core : RuleCore) : Nat :=
  coreBound (isoCtx ctx) K Kr (Spec.isolateCore core)

/-- **`isolate_agrees_full`, unconditional.**  Over ranked (acyclic) registries — `isoCtx` keeps
the ranks, `NoConstraints` is NOT needed: constraints of the core and of the global utilities are
covered — with fuel `isoBound` on the oracle's side and `coreBound` on the evaluator's side, for
every node of the document: BOTH `matchCore` runs end normally, and they agree on the verdict, on
the single bindings, on the multi bindings once `secondary` is filtered out, on `transformed`. -/
theorem isolate_agrees_total (ctx : RCtx) (rank : Name → Nat) (hrank : RegRanked ctx rank)
    (hreg : RegIsoOK ctx) (K : List Name) (core : RuleCore) (hc : CoreIsoOK core)
    (hK : VarsIn K (scanVars ctx core)) (Kr : Nat) (hrk : coreRefsBelow rank Kr core)
    (n : Tree) (hn : n ∈ ctx.root.preorder) (fuel fuel' : Nat)
    (hf : isoBound ctx K Kr core ≤ fuel) (hf' : coreBound ctx K Kr core ≤ fuel') :
    ∃ res e res' e',
      matchCore (isoCtx ctx) fuel (Spec.isolateCore core) n Env.empty = .ok (res, e) ∧
      matchCore ctx fuel' core n Env.empty = .ok (res', e') ∧
      res.isSome = res'.isSome ∧ e.single = e'.single ∧
      e.multi.filter (fun kv => kv.1 != secondaryLabel)
        = e'.multi.filter (fun kv => kv.1 != secondaryLabel) ∧
      e.transformed = e'.transformed := by
  obtain ⟨⟨res, e⟩, h1⟩ := matchCore_total_doc (isoCtx ctx) rank (regRanked_isoCtx ctx rank hrank) K
    (Spec.isolateCore core) (by rw [scanVars_isoCtx]; exact hK) Kr
    (coreRefsBelow_isolateCore rank Kr core hrk) n hn fuel hf
  obtain ⟨⟨res', e'⟩, h2⟩ := matchCore_total_doc ctx rank hrank K core hK Kr hrk n hn fuel' hf'
  exact ⟨res, e, res', e', h1, h2, isolate_agrees_full ctx hreg fuel fuel' core hc n Env.empty
    res res' e e' h1 h2⟩

/-- with the computed rank and variable list: every hypothesis decidable -/
theorem isolate_agrees_total_doc (ctx : RCtx) (hacyc : RegAcyclicAll ctx) (hreg : RegIsoOK ctx)
    (core : RuleCore) (hc : CoreIsoOK core) (Kr : Nat)
    (hrk : coreRefsBelow (regRank ctx) Kr core) (n : Tree) (hn : n ∈ ctx.root.preorder)
    (fuel : Nat) (hf : isoBound ctx (scanVars ctx core) Kr core ≤ fuel)
    (hf' : coreBound ctx (scanVars ctx core) Kr core ≤ fuel) :
    ∃ res e res' e',
      matchCore (isoCtx ctx) fuel (Spec.isolateCore core) n Env.empty = .ok (res, e) ∧
      matchCore ctx fuel core n Env.empty = .ok (res', e') ∧
      res.isSome = res'.isSome ∧ e.single = e'.single ∧
      e.multi.filter (fun kv => kv.1 != secondaryLabel)
        = e'.multi.filter (fun kv => kv.1 != secondaryLabel) ∧
      e.transformed = e'.transformed :=
  isolate_agrees_total ctx (regRank ctx) hacyc hreg (scanVars ctx core) core hc (VarsIn.refl _) Kr hrk
    n hn fuel fuel hf hf'

/-- the same for rules (through `matches`) -/
theorem isolate_agrees_rule_total (ctx : RCtx) (rank : Name → Nat) (hrank : RegRanked ctx rank)
    (hreg : RegIsoOK ctx) (K : List Name) (r : Rule) (hr : r.isoOK = true)
    (hK : VarsIn K (docVars ctx r)) (Kr : Nat) (hrk : refsBelow rank Kr r = true)
    (n : Tree) (hn : n ∈ ctx.root.preorder) (fuel fuel' : Nat)
    (hf : costG (mcost (isoCtx ctx) ctx.root.size K.length Kr) ctx.root.size (Spec.isolate r) ≤ fuel)
    (hf' : costG (mcost ctx ctx.root.size K.length Kr) ctx.root.size r ≤ fuel') :
    ∃ res e res' e',
      matchRule (isoCtx ctx) fuel (Spec.isolate r) n Env.empty = .ok (res, e) ∧
      matchRule ctx fuel' r n Env.empty = .ok (res', e') ∧
      res.isSome = res'.isSome ∧ e.single = e'.single ∧
      (∀ v, v ≠ secondaryLabel → alookup v e.multi = alookup v e'.multi) ∧
      e.transformed = e'.transformed := by
  have hK' : VarsIn K (docVars (isoCtx ctx) (Spec.isolate r)) := by
    simp only [docVars, allVars_isolate, regVars_isoCtx]; exact hK
  obtain ⟨⟨res, e⟩, h1⟩ := matchRule_total_env (isoCtx ctx) rank (regRanked_isoCtx ctx rank hrank) K
    (Spec.isolate r) hK' Kr (by rw [refsBelow_isolate]; exact hrk) n hn Env.empty
    (EnvKS.empty K _) fuel hf
  obtain ⟨⟨res', e'⟩, h2⟩ := matchRule_total_env ctx rank hrank K r hK Kr hrk n hn Env.empty
    (EnvKS.empty K _) fuel' hf'
  exact ⟨res, e, res', e', h1, h2, isolate_agrees ctx hreg fuel fuel' r hr n Env.empty res res' e e'
    h1 h2⟩

/-- **`no_trace`, as a trichotomy without error branch**: over ranked registries, with enough
fuel, from an environment whose single bindings are keyed by distinct names of `K` and bind nodes
of the document, a rule either fails and hands the caller's environment back, or succeeds and
extends it — there is no third outcome -/
theorem no_trace_total (ctx : RCtx) (rank : Name → Nat) (hrank : RegRanked ctx rank)
    (K : List Name) (r : Rule) (hK : VarsIn K (docVars ctx r)) (Kr : Nat)
    (hrk : refsBelow rank Kr r = true) (n : Tree) (hn : n ∈ ctx.root.preorder) (env : Env)
    (henv : EnvKS K ctx.root.preorder env) (fuel : Nat)
    (hf : costG (mcost ctx ctx.root.size K.length Kr) ctx.root.size r ≤ fuel) :
    matchRule ctx fuel r n env = .ok (none, env) ∨
    ∃ m env', matchRule ctx fuel r n env = .ok (some m, env') ∧ EnvLe ctx.src env env' := by
  obtain ⟨⟨res, env'⟩, h⟩ := matchRule_total_env ctx rank hrank K r hK Kr hrk n hn env henv fuel hf
  cases res with
  | none =>
    have := no_trace ctx fuel r n env env' h
    subst this; exact .inl h
  | some m => exact .inr ⟨m, env', h, match_extends ctx fuel r n m env env' h⟩

/-- from the empty environment -/
theorem no_trace_total_empty (ctx : RCtx) (hacyc : RegAcyclicAll ctx) (r : Rule) (Kr : Nat)
    (hrk : refsBelow (regRank ctx) Kr r = true) (n : Tree) (hn : n ∈ ctx.root.preorder) (fuel : Nat)
    (hf : costG (mcost ctx ctx.root.size (docVars ctx r).length Kr) ctx.root.size r ≤ fuel) :
    matchRule ctx fuel r n Env.empty = .ok (none, Env.empty) ∨
    ∃ m env', matchRule ctx fuel r n Env.empty = .ok (some m, env') :=
  (no_trace_total ctx (regRank ctx) hacyc (docVars ctx r) r (VarsIn.refl _) Kr hrk n hn Env.empty
    (EnvKS.empty _ _) fuel hf).imp id (fun ⟨m, e, h, _⟩ => ⟨m, e, h⟩)

/-! ### non-vacuity: the leaking instance of the original finding, now total -/

open Ex in
/-- every hypothesis of `isolate_agrees_total_doc` holds for the core `u` of `Props/C04.lean`
(`rule: {pattern: $A}`, `constraints: {A: {kind: 2}}`) scanned over `ctxLeak`, whose global
registry contains that same utility WITH its constraint -/
theorem isolate_agrees_total_example :
    ∃ res e res' e',
      matchCore (isoCtx ctxLeak) 30 (Spec.isolateCore util) c2 Env.empty = .ok (res, e) ∧
      matchCore ctxLeak 30 util c2 Env.empty = .ok (res', e') ∧
      res.isSome = res'.isSome ∧ e.single = e'.single ∧
      e.multi.filter (fun kv => kv.1 != secondaryLabel)
        = e'.multi.filter (fun kv => kv.1 != secondaryLabel) ∧
      e.transformed = e'.transformed := by
  have hsec : secondaryLabel = ['s', 'e', 'c', 'o', 'n', 'd', 'a', 'r', 'y'] := by rfl
  have hreg : RegIsoOK ctxLeak := by
    refine ⟨fun id q h => by simp [ctxLeak, alookup] at h, fun id core h => ?_⟩
    simp only [ctxLeak, alookup] at h
    split at h
    · simp only [Option.some.injEq] at h; subst h
      refine ⟨by simp [util, Rule.isoOK, PNode.vars, MetaVar.capNames, hsec], fun v m hv => ?_⟩
      simp only [util, alookup] at hv
      split at hv
      · simp only [Option.some.injEq] at hv; subst hv; rfl
      · cases hv
    · cases h
  have hc : CoreIsoOK util := by
    refine ⟨by simp [util, Rule.isoOK, PNode.vars, MetaVar.capNames, hsec], fun v m hv => ?_⟩
    simp only [util, alookup] at hv
    split at hv
    · simp only [Option.some.injEq] at hv; subst hv; rfl
    · cases hv
  refine isolate_agrees_total_doc ctxLeak (by decide +kernel) hreg util hc 0 (by decide +kernel) c2
    ?_ 30 (by decide +kernel) (by decide +kernel)
  show c2 ∈ doc.preorder
  simp [Tree.preorder, Tree.preorderList]

end AGV.C04
