/-
C11, scan half, with the matcher hypothesis discharged.

`Props/C11.lean` proves `scan_terminates_partial` / `scan_terminates_document` under `PatsOK`
("the pattern matcher does not run out of its fuel on the patterns of the rule") and
`scan_terminates_registry` under `RegPats ctx (PpK …)` / `PatsAll (PpK …) r`.  After
`Lemmas/MatchTotal.lean` (`matchPatternEnv_no_error`: with `matchFuel` the matcher ends normally on
every pattern, candidate, environment) `PatsOK` holds for every rule and `PpK` is its variable
clause, `VarsIn K (docVars ctx r)` — true by definition for `K := docVars ctx r`.
-/
import AstGrepVerif.Props.C11
import AstGrepVerif.Lemmas.RuleMatchTotal
import AstGrepVerif.Lemmas.CoreTotal

set_option linter.unusedSimpArgs false
set_option linter.unusedVariables false

namespace AGV.C11

open AGV AGV.RuleFuelReg

/-! ## rules without `matches` -/

open AGV.RuleFuel in
mutual
/-- `PatsOK` holds for every rule -/
theorem patsOK_all (ctx : RCtx) : ∀ r : Rule, PatsOK ctx r
  | .pattern p _ s => by
    simp only [PatsOK]
    exact fun n env => MatchTotal.matchPatternEnv_no_error s ctx.src p n env .fuel
  | .kind _ => by simp [PatsOK]
  | .regex _ => by simp [PatsOK]
  | .range _ _ _ _ => by simp [PatsOK]
  | .nthChild _ _ none _ => by simp [PatsOK]
  | .nthChild _ _ (some r) _ => by simp only [PatsOK]; exact patsOK_all ctx r
  | .inside r st _ => by simp only [PatsOK]; exact ⟨patsOK_all ctx r, patsOKStop_all ctx st⟩
  | .has r st _ => by simp only [PatsOK]; exact ⟨patsOK_all ctx r, patsOKStop_all ctx st⟩
  | .precedes r st => by simp only [PatsOK]; exact ⟨patsOK_all ctx r, patsOKStop_all ctx st⟩
  | .follows r st => by simp only [PatsOK]; exact ⟨patsOK_all ctx r, patsOKStop_all ctx st⟩
  | .all rs _ => by simp only [PatsOK]; exact patsOKList_all ctx rs
  | .any rs _ => by simp only [PatsOK]; exact patsOKList_all ctx rs
  | .not r => by simp only [PatsOK]; exact patsOK_all ctx r
  | .matches _ => by simp [PatsOK]
theorem patsOKStop_all (ctx : RCtx) : ∀ st : StopBy, PatsOKStop ctx st
  | .neighbor => by simp [PatsOKStop]
  | .end_ => by simp [PatsOKStop]
  | .rule r => by simp only [PatsOKStop]; exact patsOK_all ctx r
theorem patsOKList_all (ctx : RCtx) : ∀ rs : List Rule, PatsOKList ctx rs
  | [] => by simp [PatsOKList]
  | r :: rs => by simp only [PatsOKList]; exact ⟨patsOK_all ctx r, patsOKList_all ctx rs⟩
end

open AGV.RuleFuel in
/-- **C11, scan half, rules without `matches`**: `scan_terminates_partial` without `PatsOK` -/
theorem scan_terminates_closed (ctx : RCtx) (S : List Tree) (W : Nat) (hcl : Closed ctx S W)
    (r : Rule) (hnm : noMatches r = true)
    (n : Tree) (hn : n ∈ S) (env : Env) (fuel : Nat) (hf : cost W r ≤ fuel) :
    matchRule ctx fuel r n env ≠ .error .fuel :=
  scan_terminates_partial ctx S W hcl r hnm (patsOK_all ctx r) n hn env fuel hf

open AGV.RuleFuel in
/-- for ANY document, any of its nodes, any environment and any `matches`-free rule — whatever its
patterns — fuel `cost (size of the document) r` suffices -/
theorem scan_terminates_document_total (ctx : RCtx) (r : Rule) (hnm : noMatches r = true)
    (n : Tree) (hn : n ∈ ctx.root.preorder) (env : Env) (fuel : Nat)
    (hf : cost ctx.root.size r ≤ fuel) :
    matchRule ctx fuel r n env ≠ .error .fuel :=
  scan_terminates_document ctx r hnm (patsOK_all ctx r) n hn env fuel hf

/-! ## with `matches`, over an acyclic registry -/

/-- **termination with utilities, matcher hypothesis discharged.**  `rank`: every utility refers
only to utilities of smaller rank; `K` lists the variables of all patterns of `r` and of the
registries (`VarsIn K (docVars ctx r)`, decidable); global utilities without constraints;
references of `r` have rank below `Kr`; the caller's environment binds distinct names of `K`. -/
theorem scan_terminates_registry_vars (ctx : RCtx) (rank : Name → Nat) (hrank : RegRanked ctx rank)
    (K : List Name) (r : Rule) (hK : VarsIn K (docVars ctx r)) (hnc : NoConstraints ctx)
    (Kr : Nat) (hr : refsBelow rank Kr r = true) (n : Tree) (hn : n ∈ ctx.root.preorder) (env : Env)
    (henv : EnvK K env) (fuel : Nat)
    (hf : costG (mcost ctx ctx.root.size K.length Kr) ctx.root.size r ≤ fuel) :
    matchRule ctx fuel r n env ≠ .error .fuel :=
  scan_terminates_registry ctx rank hrank K (regPats_of_vars ctx _ K hK.right) hnc Kr r hr
    (patsAll_of_vars ctx _ K r hK.left) n hn env henv fuel hf

/-- … and it ends **normally**: no abnormal outcome of any kind (the evaluator has no panic site of
its own since FIX_C11_3, and the matcher has none reachable: `matchNode_no_panic`) -/
theorem scan_total_registry_vars (ctx : RCtx) (rank : Name → Nat) (hrank : RegRanked ctx rank)
    (K : List Name) (r : Rule) (hK : VarsIn K (docVars ctx r)) (hnc : NoConstraints ctx)
    (Kr : Nat) (hr : refsBelow rank Kr r = true) (n : Tree) (hn : n ∈ ctx.root.preorder) (env : Env)
    (henv : EnvK K env) (fuel : Nat)
    (hf : costG (mcost ctx ctx.root.size K.length Kr) ctx.root.size r ≤ fuel) :
    ∃ res, matchRule ctx fuel r n env = .ok res := by
  have h := matchRule_noBad_document_vars ctx (fun _ => True) rank hrank K r hK hnc Kr hr n hn env
    henv fuel hf
  rcases hm : matchRule ctx fuel r n env with e | res
  · exact absurd hm (h e trivial)
  · exact ⟨res, rfl⟩

/-- with the computed rank and the computed `K := docVars ctx r`, from the empty environment:
every hypothesis left is a decidable property of the registries, the rule and the node -/
theorem scan_terminates_registry_doc (ctx : RCtx) (hacyc : RegAcyclicAll ctx) (r : Rule)
    (hnc : NoConstraints ctx) (Kr : Nat) (hr : refsBelow (regRank ctx) Kr r = true)
    (n : Tree) (hn : n ∈ ctx.root.preorder) (fuel : Nat)
    (hf : costG (mcost ctx ctx.root.size (docVars ctx r).length Kr) ctx.root.size r ≤ fuel) :
    ∃ res, matchRule ctx fuel r n Env.empty = .ok res :=
  scan_total_registry_vars ctx (regRank ctx) hacyc (docVars ctx r) r (VarsIn.refl _) hnc Kr hr n hn
    Env.empty (EnvK.empty _) fuel hf

/-! ### non-vacuity -/

/-- the registry of `scan_terminates_registry_example` with patterns that capture: the local
`a := has(all [matches b, pattern $X], end)`, the local `b := kind 3`, the global
`g := all [matches a, pattern $$$Y]` -/
def patCtx : RCtx :=
  { updownCtx with
    locals := [(['a'], .has (.all [.matches ['b'],
                  .pattern (.metaVar (.capture ['X'] false)) none .smart] none) .end_ none),
               (['b'], .kind 3)],
    globals := [(['g'], { rule := .all [.matches ['a'],
                  .pattern (.metaVar (.multiCapture ['Y'])) none .relaxed] none })] }

/-- `all: [{pattern: $Z}, {inside: {matches: g, stopBy: {pattern: $W}}}]` -/
def patRule : Rule :=
  .all [.pattern (.metaVar (.capture ['Z'] true)) none .ast,
        .inside (.matches ['g']) (.rule (.pattern (.metaVar (.capture ['W'] true)) none .cst)) none] none

theorem patCtx_acyclic : RegAcyclicAll patCtx := by decide +kernel

theorem docVars_patRule : docVars patCtx patRule = [['Z'], ['W'], ['X'], ['Y']] := by decide +kernel

theorem patCtx_noConstraints : NoConstraints patCtx := by
  intro id core h
  simp only [patCtx, alookup] at h
  split at h
  · simp only [Option.some.injEq] at h; subst h; rfl
  · cases h

theorem leaf_in_patCtx : leaf ∈ patCtx.root.preorder := by
  show leaf ∈ root3.preorder
  simp [root3, mid, leaf, Tree.preorder, Tree.preorderList]

/-- every hypothesis of `scan_terminates_registry_doc` holds: the evaluator ends normally from the
leaf with every fuel from the bound on -/
theorem scan_terminates_registry_doc_example : ∀ fuel, 200 ≤ fuel →
    ∃ res, matchRule patCtx fuel patRule leaf Env.empty = .ok res := by
  intro fuel hf
  have hcost : costG (mcost patCtx patCtx.root.size (docVars patCtx patRule).length 3)
      patCtx.root.size patRule ≤ 200 := by decide +kernel
  exact scan_terminates_registry_doc patCtx patCtx_acyclic patRule patCtx_noConstraints 3
    (by decide +kernel) leaf leaf_in_patCtx fuel (by omega)

/-- the general form: a larger `K`, a caller's environment that already binds `Z` -/
theorem scan_terminates_registry_vars_example : ∀ fuel, 200 ≤ fuel →
    matchRule patCtx fuel patRule leaf ⟨[(['Z'], leaf)], [], []⟩ ≠ .error .fuel := by
  intro fuel hf
  have hcost : costG (mcost patCtx patCtx.root.size
      ([['Q'], ['Z'], ['W'], ['X'], ['Y']] : List Name).length 3) patCtx.root.size patRule ≤ 200 := by
    decide +kernel
  refine scan_terminates_registry_vars patCtx (regRank patCtx) patCtx_acyclic
    [['Q'], ['Z'], ['W'], ['X'], ['Y']] patRule (by decide +kernel) patCtx_noConstraints 3
    (by decide +kernel) leaf leaf_in_patCtx _ ⟨?_, ?_⟩ fuel (by omega)
  · intro v hv
    simp only [keysOf, List.map_cons, List.map_nil, List.mem_singleton] at hv
    subst hv; simp
  · simp [keysOf]

/-- `scan_terminates_document_total` on a `matches`-free rule with patterns -/
example : ∀ fuel, 40 ≤ fuel →
    matchRule updownCtx fuel
      (.all [.inside (.pattern (.metaVar (.capture ['P'] true)) none .smart) .end_ none,
             .has (.not (.pattern (.internal 2 [.metaVar .multiple]) none .signature))
               (.rule (.kind 3)) none] none) leaf Env.empty ≠ .error .fuel := by
  intro fuel hf
  refine scan_terminates_document_total updownCtx _ (by decide) leaf ?_ Env.empty fuel ?_
  · show leaf ∈ root3.preorder
    simp [root3, mid, leaf, Tree.preorder, Tree.preorderList]
  · have : AGV.RuleFuel.cost updownCtx.root.size
        (.all [.inside (.pattern (.metaVar (.capture ['P'] true)) none .smart) .end_ none,
             .has (.not (.pattern (.internal 2 [.metaVar .multiple]) none .signature))
               (.rule (.kind 3)) none] none) ≤ 40 := by decide +kernel
    omega

/-! ## global utilities WITH constraints

The theorems above ask `NoConstraints ctx`.  With the invariant "bound nodes are nodes of the
document" (`EnvKS`, kept because captured nodes lie in the candidate's subtree:
`matchPatternEnv_values`) the constraint loop of a global utility runs its constraint rules on
nodes of the document, and the hypothesis disappears (`Lemmas/RuleTotal.lean`:
`matchRule_noBad_document'`; `Lemmas/CoreTotal.lean`).  What changes for the caller: the
environment it passes must bind nodes of the document (`EnvKS K ctx.root.preorder env` instead of
`EnvK K env`); the empty environment does. -/

/-- `scan_terminates_registry_vars` without `NoConstraints` -/
theorem scan_terminates_registry_vars_cons (ctx : RCtx) (rank : Name → Nat) (hrank : RegRanked ctx rank)
    (K : List Name) (r : Rule) (hK : VarsIn K (docVars ctx r))
    (Kr : Nat) (hr : refsBelow rank Kr r = true) (n : Tree) (hn : n ∈ ctx.root.preorder) (env : Env)
    (henv : EnvKS K ctx.root.preorder env) (fuel : Nat)
    (hf : costG (mcost ctx ctx.root.size K.length Kr) ctx.root.size r ≤ fuel) :
    matchRule ctx fuel r n env ≠ .error .fuel :=
  matchRule_noBad_document' ctx (· = .fuel) rank hrank K (regPats_of_vars ctx _ K hK.right) Kr r hr
    (patsAll_of_vars ctx _ K r hK.left) n hn env henv fuel hf .fuel rfl

/-- `scan_total_registry_vars` without `NoConstraints`: the evaluator ends normally -/
theorem scan_total_registry_vars_cons (ctx : RCtx) (rank : Name → Nat) (hrank : RegRanked ctx rank)
    (K : List Name) (r : Rule) (hK : VarsIn K (docVars ctx r))
    (Kr : Nat) (hr : refsBelow rank Kr r = true) (n : Tree) (hn : n ∈ ctx.root.preorder) (env : Env)
    (henv : EnvKS K ctx.root.preorder env) (fuel : Nat)
    (hf : costG (mcost ctx ctx.root.size K.length Kr) ctx.root.size r ≤ fuel) :
    ∃ res, matchRule ctx fuel r n env = .ok res :=
  matchRule_total_env ctx rank hrank K r hK Kr hr n hn env henv fuel hf

/-- `scan_terminates_registry_doc` without `NoConstraints`: computed rank, computed `K`, empty
environment — every hypothesis decidable -/
theorem scan_terminates_registry_doc_cons (ctx : RCtx) (hacyc : RegAcyclicAll ctx) (r : Rule)
    (Kr : Nat) (hr : refsBelow (regRank ctx) Kr r = true)
    (n : Tree) (hn : n ∈ ctx.root.preorder) (fuel : Nat)
    (hf : costG (mcost ctx ctx.root.size (docVars ctx r).length Kr) ctx.root.size r ≤ fuel) :
    ∃ res, matchRule ctx fuel r n Env.empty = .ok res :=
  scan_total_registry_vars_cons ctx (regRank ctx) hacyc (docVars ctx r) r (VarsIn.refl _) Kr hr n hn
    Env.empty (EnvKS.empty _ _) fuel hf

/-- the same for a whole rule core (rule, then its own constraint loop) -/
theorem scan_total_core_doc (ctx : RCtx) (hacyc : RegAcyclicAll ctx) (core : RuleCore) (Kr : Nat)
    (hr : coreRefsBelow (regRank ctx) Kr core) (n : Tree) (hn : n ∈ ctx.root.preorder) (fuel : Nat)
    (hf : coreBound ctx (scanVars ctx core) Kr core ≤ fuel) :
    ∃ res, matchCore ctx fuel core n Env.empty = .ok res :=
  matchCore_total_doc ctx (regRank ctx) hacyc (scanVars ctx core) core (VarsIn.refl _) Kr hr n hn
    fuel hf

/-- `patCtx` with a CONSTRAINED global utility `h := {rule: {pattern: $V}, constraints: {V:
{matches: a}}}` (the constraint goes through the local `a`, which goes through `b`) -/
def consCtx : RCtx :=
  { patCtx with
    globals := patCtx.globals ++
      [(['h'], { rule := .pattern (.metaVar (.capture ['V'] true)) none .smart,
                 constraints := [(['V'], .matches ['a'])] })] }

/-- `all: [{pattern: $Z}, {inside: {matches: h, stopBy: end}}]` -/
def consRule : Rule :=
  .all [.pattern (.metaVar (.capture ['Z'] true)) none .ast, .inside (.matches ['h']) .end_ none] none

theorem consCtx_acyclic : RegAcyclicAll consCtx := by decide +kernel

/-- the constrained global utility -/
def consCoreH : RuleCore :=
  { rule := .pattern (.metaVar (.capture ['V'] true)) none .smart,
    constraints := [(['V'], .matches ['a'])] }

/-- the registry really has a constraint -/
theorem consCtx_has_constraints : ¬ NoConstraints consCtx := by
  intro h
  have hl : alookup ['h'] consCtx.globals = some consCoreH := by
    simp [consCtx, patCtx, alookup, consCoreH]
  have := h ['h'] consCoreH hl
  simp [consCoreH] at this

/-- every hypothesis of `scan_terminates_registry_doc_cons` holds: normal outcome from the leaf,
with every fuel from the bound on, although a global utility carries a constraint -/
theorem scan_terminates_registry_doc_cons_example : ∀ fuel, 300 ≤ fuel →
    ∃ res, matchRule consCtx fuel consRule leaf Env.empty = .ok res := by
  intro fuel hf
  have hcost : costG (mcost consCtx consCtx.root.size (docVars consCtx consRule).length 3)
      consCtx.root.size consRule ≤ 300 := by decide +kernel
  refine scan_terminates_registry_doc_cons consCtx consCtx_acyclic consRule 3 (by decide +kernel) leaf
    ?_ fuel (by omega)
  show leaf ∈ root3.preorder
  simp [root3, mid, leaf, Tree.preorder, Tree.preorderList]

/-- the general form, from an environment that already binds `Z` to a node of the document -/
theorem scan_terminates_registry_vars_cons_example : ∀ fuel, 300 ≤ fuel →
    matchRule consCtx fuel consRule leaf ⟨[(['Z'], leaf)], [], []⟩ ≠ .error .fuel := by
  intro fuel hf
  have hcost : costG (mcost consCtx consCtx.root.size (docVars consCtx consRule).length 3)
      consCtx.root.size consRule ≤ 300 := by decide +kernel
  have hleaf : leaf ∈ consCtx.root.preorder := by
    show leaf ∈ root3.preorder
    simp [root3, mid, leaf, Tree.preorder, Tree.preorderList]
  refine scan_terminates_registry_vars_cons consCtx (regRank consCtx) consCtx_acyclic
    (docVars consCtx consRule) consRule (VarsIn.refl _) 3 (by decide +kernel) leaf hleaf _
    ⟨⟨?_, ?_⟩, ?_⟩ fuel (by omega)
  · intro v hv
    simp only [keysOf, List.map_cons, List.map_nil, List.mem_singleton] at hv
    subst hv; decide +kernel
  · simp [keysOf]
  · intro kv hkv
    simp only [List.mem_singleton] at hkv
    subst hkv; exact hleaf

end AGV.C11
