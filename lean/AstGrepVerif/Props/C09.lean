/-
C09 — all front ends report the same findings; the language server publishes the newest
version.

This file currently holds the **LSP histories** half ("After any sequence of
open/change/close notifications, the diagnostics last published for a document are those of
the highest-version text received").  The "all front ends report the same findings" half is
added in its own section below (model `Model/Frontends`), by its own builder.

Model: `Model/Lsp.lean`; specification: `Spec/LspLatest.lean`; lemmas: `Lemmas/Lsp.lean`.
-/
import AstGrepVerif.Model.Lsp
import AstGrepVerif.Spec.LspLatest
import AstGrepVerif.Lemmas.Lsp

set_option linter.unusedSimpArgs false
set_option linter.unusedVariables false

namespace AGV.C09

/-! ## LSP histories -/
section LspHistories

open AGV AGV.Lsp AGV.Spec.Lsp

/-- the server can serve `u` at all: language inferable from the uri, document inside the
workspace (both are constants of the uri) -/
def Accepted (cfg : Config) (u : Uri) : Prop := cfg.langKnown u = true ∧ cfg.outside u = false

/-- **lsp_latest_code** — the statement as the code behaves, for every history and every uri.
Cut the history at the last `didOpen u` (`h = pre ++ open u v t :: post`, no `didOpen u` in
`post`).  The *session* is that open followed by the `didChange u` messages up to the first
`didClose u`, each with the text of its **first** content change.  Then the last
`publishDiagnostics` for `u` in the whole run carries the version and text of the session's
greatest version, the latest among equals (an equal version replaces); the map holds exactly
that entry while `u` is open, and nothing once it is closed.  No notification crashes the
server as long as no `didChange` has an empty `contentChanges`. -/
theorem lsp_latest_code (cfg : Config) (u : Uri) (hacc : Accepted cfg u)
    (pre post : List Op) (v : Version) (t : Text)
    (hlast : ∀ op ∈ post, isOpenOf u op = false)
    (hne : NoEmptyChange (pre ++ Op.open u v t :: post)) :
    ∃ m, lastPub u (run cfg (pre ++ Op.open u v t :: post)).pubs = some m ∧
      IsLatestMax ((v, t) :: changesUntilClose headText u post) m ∧
      (run cfg (pre ++ Op.open u v t :: post)).crashed = false ∧
      lookup (run cfg (pre ++ Op.open u v t :: post)).state u
        = (if closedIn u post then none else some m) := by
  unfold run
  have hpre : (runFrom cfg [] [] pre).crashed = false :=
    runFrom_not_crashed cfg pre [] [] hne.append_left
  rw [runFrom_append cfg pre _ [] [] hpre]
  generalize (runFrom cfg [] [] pre).state = s0
  generalize (runFrom cfg [] [] pre).pubs = acc0
  have hstep : step cfg s0 (Op.open u v t) = .ok (insert s0 u v t, [⟨u, v, t⟩]) := by
    simp [step, onOpen, hacc.1, hacc.2]
  simp only [runFrom, hstep]
  have hne' : NoEmptyChange post := (hne.append_right).tail
  have := session_inv cfg u hacc.1 post (insert s0 u v t) (acc0 ++ [⟨u, v, t⟩]) [(v, t)] (v, t)
    (lookup_insert_self s0 u v t) (lastPub_append_self u acc0 v t) (isLatestMax_single _) hlast hne'
  simpa using this

/-- every `didChange` carries exactly one content change (what clients send under
`TextDocumentSyncKind.Full`, the only mode the server announces) -/
def SingleChanges (h : List Op) : Prop := ∀ u v ts, Op.change u v ts ∈ h → ∃ t, ts = [t]

theorem SingleChanges.noEmpty {h : List Op} (hs : SingleChanges h) : NoEmptyChange h := by
  intro u v hm
  obtain ⟨t, ht⟩ := hs u v [] hm
  cases ht

theorem changesUntilClose_single (u : Uri) : ∀ (post : List Op), SingleChanges post →
    changesUntilClose headText u post = changesUntilClose changeText u post
  | [], _ => rfl
  | op :: ops, hs => by
    have hs' : SingleChanges ops := fun u v ts hm => hs u v ts (List.mem_cons_of_mem _ hm)
    have ih := changesUntilClose_single u ops hs'
    cases op with
    | «open» u' v t => simpa [changesUntilClose] using ih
    | close u' => by_cases e : u' = u <;> simp [changesUntilClose, e, ih]
    | change u' v ts =>
      obtain ⟨t, rfl⟩ := hs u' v ts (by simp)
      by_cases e : u' = u <;> simp [changesUntilClose, e, ih, headText, changeText]

/-- **lsp_latest** — against the specification (`Spec/LspLatest`): for every history whose
`didChange`s carry one content change, and every accepted uri that has been opened: the
diagnostics last published for the document are those of the highest-version text received
*since the document was last opened* (until it was closed), the latest among equal versions. -/
theorem lsp_latest (cfg : Config) (u : Uri) (hacc : Accepted cfg u)
    (pre post : List Op) (v : Version) (t : Text)
    (hlast : ∀ op ∈ post, isOpenOf u op = false)
    (hs : SingleChanges (pre ++ Op.open u v t :: post)) :
    ∃ m, lastPub u (run cfg (pre ++ Op.open u v t :: post)).pubs = some m ∧
      IsLatestMax ((v, t) :: changesUntilClose changeText u post) m ∧
      (run cfg (pre ++ Op.open u v t :: post)).crashed = false := by
  obtain ⟨m, h1, h2, h3, _⟩ := lsp_latest_code cfg u hacc pre post v t hlast hs.noEmpty
  have hsp : SingleChanges post := fun u' v' ts hm =>
    hs u' v' ts (List.mem_append_right _ (List.mem_cons_of_mem _ hm))
  rw [changesUntilClose_single u post hsp] at h2
  exact ⟨m, h1, h2, h3⟩

theorem received_eq_session (u : Uri) (v : Version) (t : Text) :
    ∀ (pre : List Op), (∀ op ∈ pre, op.uri ≠ u) →
      ∀ (post : List Op), (∀ op ∈ post, isOpenOf u op = false) → closedIn u post = false →
      received u (pre ++ Op.open u v t :: post) = (v, t) :: changesUntilClose changeText u post
  | op :: pre, hpre, post, hpost, hcl => by
    have h1 : op.uri ≠ u := hpre op (by simp)
    have ih := received_eq_session u v t pre (fun o h => hpre o (List.mem_cons_of_mem _ h)) post hpost hcl
    cases op with
    | «open» u' v' t' => simp only [Op.uri] at h1; simpa [received, h1] using ih
    | change u' v' ts => simp only [Op.uri] at h1; simpa [received, h1] using ih
    | close u' => simpa [received] using ih
  | [], _, post, hpost, hcl => by
    simp only [List.nil_append, received, ↓reduceIte, List.cons.injEq, true_and]
    induction post with
    | nil => rfl
    | cons op ops ih =>
      have hpost' : ∀ o ∈ ops, isOpenOf u o = false := fun o h => hpost o (List.mem_cons_of_mem _ h)
      have hcl' : closedIn u ops = false := by
        simp only [closedIn, List.any_cons, Bool.or_eq_false_iff] at hcl; exact hcl.2
      cases op with
      | «open» u' v' t' =>
        have := hpost (Op.open u' v' t') (by simp)
        simp [isOpenOf] at this
        simp [received, changesUntilClose, this, ih hpost' hcl']
      | change u' v' ts =>
        by_cases e : u' = u <;> simp [received, changesUntilClose, e, ih hpost' hcl']
      | close u' =>
        have : u' ≠ u := by
          simp only [closedIn, List.any_cons, Bool.or_eq_false_iff, isCloseOf, decide_eq_false_iff_not] at hcl
          exact hcl.1
        simp [received, changesUntilClose, this, ih hpost' hcl']

/-- **lsp_latest_literal_partial** — the property *as literally worded* ("the highest-version
text received", over the whole history) holds for histories that use the document the way
the protocol prescribes: opened once, never closed, one content change per `didChange`
(versions may arrive in any order, with repetitions). -/
theorem lsp_latest_literal_partial (cfg : Config) (u : Uri) (hacc : Accepted cfg u)
    (pre post : List Op) (v : Version) (t : Text)
    (hpre : ∀ op ∈ pre, op.uri ≠ u)
    (hlast : ∀ op ∈ post, isOpenOf u op = false) (hopen : closedIn u post = false)
    (hs : SingleChanges (pre ++ Op.open u v t :: post)) :
    ∃ m, lastPub u (run cfg (pre ++ Op.open u v t :: post)).pubs = some m ∧
      IsLatestMax (received u (pre ++ Op.open u v t :: post)) m := by
  obtain ⟨m, h1, h2, _⟩ := lsp_latest cfg u hacc pre post v t hlast hs
  rw [received_eq_session u v t pre hpre post hlast hopen]
  exact ⟨m, h1, h2⟩

/-- the literal reading of the property for one history and uri -/
def LiteralClaim (cfg : Config) (h : List Op) (u : Uri) : Prop :=
  ∃ m, lastPub u (run cfg h).pubs = some m ∧ IsLatestMax (received u h) m

/-- **lsp_stale_ignored** — a `didChange` whose version is smaller than the session's current
maximum changes nothing: no publish, same map. -/
theorem lsp_stale_ignored (cfg : Config) (u : Uri) (hacc : Accepted cfg u)
    (pre post : List Op) (v : Version) (t : Text)
    (hlast : ∀ op ∈ post, isOpenOf u op = false) (hopen : closedIn u post = false)
    (hne : NoEmptyChange (pre ++ Op.open u v t :: post))
    (m : Version × Text) (hm : IsLatestMax ((v, t) :: changesUntilClose headText u post) m)
    (v' : Version) (ts : List Text) (hts : ts ≠ []) (hstale : v' < m.1) :
    run cfg ((pre ++ Op.open u v t :: post) ++ [Op.change u v' ts])
      = run cfg (pre ++ Op.open u v t :: post) := by
  obtain ⟨m', _, hmax, hcr, hlk⟩ := lsp_latest_code cfg u hacc pre post v t hlast hne
  have hmm : m' = m := IsLatestMax.unique hmax hm
  subst hmm
  rw [hopen] at hlk
  unfold run at *
  rw [runFrom_append cfg _ _ [] [] hcr]
  generalize runFrom cfg [] [] (pre ++ Op.open u v t :: post) = R at *
  cases ts with
  | nil => exact absurd rfl hts
  | cons t0 ts' =>
    obtain ⟨s, acc, cr⟩ := R
    simp only at hcr hlk
    subst hcr
    have hgt : m'.1 > v' := hstale
    simp [runFrom, step, onChange, hacc.1, hlk, hgt]

/-- **lsp_equal_version_replaces** — the comparison is strict: an equal version is accepted -/
theorem lsp_equal_version_replaces (cfg : Config) (u : Uri) (hacc : Accepted cfg u)
    (v : Version) (t t' : Text) :
    lastPub u (run cfg [Op.open u v t, Op.change u v [t']]).pubs = some (v, t') := by
  simp [run, runFrom, step, onOpen, onChange, hacc.1, hacc.2, lookup_insert_self, lastPub,
    List.filter_cons, List.getLast?]

/-- **lsp_closed_nothing_stored** — after `didClose u` (with no later `didOpen u`) the map
has no entry for `u`, whatever else happened; and nothing more is published for `u`. -/
theorem lsp_closed_nothing_stored (cfg : Config) (u : Uri) (pre post : List Op)
    (hlast : ∀ op ∈ post, isOpenOf u op = false)
    (hne : NoEmptyChange (pre ++ Op.close u :: post)) :
    lookup (run cfg (pre ++ Op.close u :: post)).state u = none ∧
    lastPub u (run cfg (pre ++ Op.close u :: post)).pubs = lastPub u (run cfg pre).pubs := by
  unfold run
  have hpre : (runFrom cfg [] [] pre).crashed = false :=
    runFrom_not_crashed cfg pre [] [] hne.append_left
  rw [runFrom_append cfg pre _ [] [] hpre]
  generalize (runFrom cfg [] [] pre).state = s0
  generalize (runFrom cfg [] [] pre).pubs = acc0
  simp only [runFrom, step, onClose, List.append_nil]
  have := closed_inv cfg u post (remove s0 u) acc0 (lookup_remove_self s0 u) hlast (hne.append_right).tail
  exact ⟨this.2.2, this.1⟩

/-- **lsp_never_opened_silent** — a uri that was never opened (or cannot be served: unknown
language, outside the workspace) gets no publish and no entry, whatever is sent for it. -/
theorem lsp_never_opened_silent (cfg : Config) (u : Uri) (h : List Op)
    (hno : ∀ op ∈ h, isOpenOf u op = false) (hne : NoEmptyChange h) :
    lastPub u (run cfg h).pubs = none ∧ lookup (run cfg h).state u = none := by
  have := closed_inv cfg u h [] [] rfl hno hne
  exact ⟨this.1, this.2.2⟩

/-! ### Where the code departs from the literal wording -/

def cfgAll : Config := { langKnown := fun _ => true, outside := fun _ => false }

private theorem not_latest_of_lt {S : List (Version × Text)} {m p : Version × Text}
    (hp : p ∈ S) (hlt : m.1 < p.1) : ¬ IsLatestMax S m :=
  fun h => absurd hlt (Int.not_lt.mpr (IsLatestMax.le h p hp))

/-- Re-opening with a smaller version (editors restart version numbers when a document is
re-opened): the server publishes the re-opened text, the literal reading would demand the
old, higher-versioned one.  Here the code is right and the wording must be read per
open…close session — which is what `lsp_latest` states. -/
theorem lsp_literal_reopen_counterexample :
    ¬ LiteralClaim cfgAll [Op.open 0 5 [0x61], Op.close 0, Op.open 0 1 [0x62]] 0 := by
  rintro ⟨m, h1, h2⟩
  have e : lastPub 0 (run cfgAll [Op.open 0 5 [0x61], Op.close 0, Op.open 0 1 [0x62]]).pubs
      = some (1, [0x62]) := by decide
  rw [e] at h1; cases h1
  exact not_latest_of_lt (p := (5, [0x61])) (by simp [received]) (by decide) h2

/-- A `didChange` for a document that is not open (here: after `didClose`) is dropped: the
last publish stays the one of the closed session. -/
theorem lsp_literal_change_after_close_counterexample :
    ¬ LiteralClaim cfgAll [Op.open 0 1 [0x61], Op.close 0, Op.change 0 2 [[0x62]]] 0 := by
  rintro ⟨m, h1, h2⟩
  have e : lastPub 0 (run cfgAll [Op.open 0 1 [0x61], Op.close 0, Op.change 0 2 [[0x62]]]).pubs
      = some (1, [0x61]) := by decide
  rw [e] at h1; cases h1
  exact not_latest_of_lt (p := (2, [0x62])) (by simp [received, changeText]) (by decide) h2

/-- Several content changes in one `didChange`: under full sync the resulting document is the
**last** element's text; the server reads element 0. -/
theorem lsp_multi_change_counterexample :
    ¬ LiteralClaim cfgAll [Op.open 0 1 [0x61], Op.change 0 2 [[0x62], [0x63]]] 0 := by
  rintro ⟨m, h1, h2⟩
  have e : lastPub 0 (run cfgAll [Op.open 0 1 [0x61], Op.change 0 2 [[0x62], [0x63]]]).pubs
      = some (2, [0x62]) := by decide
  rw [e] at h1; cases h1
  have hmem := IsLatestMax.mem h2
  simp [received, changeText] at hmem

/-- An empty `contentChanges` array makes `on_change` index out of bounds: the handler panics,
`tower-lsp` does not catch it, the server stops serving — every later notification
(here a perfectly good `didChange` to version 3) is lost. -/
theorem lsp_empty_change_crashes :
    (run cfgAll [Op.open 0 1 [0x61], Op.change 0 2 [], Op.change 0 3 [[0x62]]]).crashed = true ∧
    lastPub 0 (run cfgAll [Op.open 0 1 [0x61], Op.change 0 2 [], Op.change 0 3 [[0x62]]]).pubs
      = some (1, [0x61]) := by decide

/-! ### Non-vacuity -/

/-- a history with staleness, an equal version, another uri interleaved, a close and a
re-open: the hypotheses of `lsp_latest` hold and the conclusion is the expected entry -/
def exHistory : List Op :=
  [Op.open 0 7 [0x61], Op.close 0, Op.open 1 1 [0x78]] ++
  Op.open 0 2 [0x62] ::
  [Op.change 0 5 [[0x63]], Op.change 1 2 [[0x79]], Op.change 0 3 [[0x64]], Op.change 0 5 [[0x65]],
   Op.change 0 4 [[0x66]]]

example : lastPub 0 (run cfgAll exHistory).pubs = some (5, [0x65]) := by decide
example : lookup (run cfgAll exHistory).state 0 = some (5, [0x65]) := by decide
example : (run cfgAll exHistory).pubs.length = 6 := by decide

example : ∃ m, lastPub 0 (run cfgAll exHistory).pubs = some m ∧
    IsLatestMax ((2, [0x62]) :: changesUntilClose changeText 0
      [Op.change 0 5 [[0x63]], Op.change 1 2 [[0x79]], Op.change 0 3 [[0x64]],
       Op.change 0 5 [[0x65]], Op.change 0 4 [[0x66]]]) m ∧
    (run cfgAll exHistory).crashed = false :=
  lsp_latest cfgAll 0 ⟨rfl, rfl⟩ [Op.open 0 7 [0x61], Op.close 0, Op.open 1 1 [0x78]]
    [Op.change 0 5 [[0x63]], Op.change 1 2 [[0x79]], Op.change 0 3 [[0x64]],
     Op.change 0 5 [[0x65]], Op.change 0 4 [[0x66]]] 2 [0x62]
    (by decide)
    (by
      intro u v ts hm
      simp at hm
      rcases hm with ⟨_, _, rfl⟩ | ⟨_, _, rfl⟩ | ⟨_, _, rfl⟩ | ⟨_, _, rfl⟩ | ⟨_, _, rfl⟩ <;>
        exact ⟨_, rfl⟩)

/-- instance of `lsp_stale_ignored`: version 4 after 5 leaves the run unchanged -/
example : run cfgAll ([Op.open 0 2 [0x62], Op.change 0 5 [[0x63]]] ++ [Op.change 0 4 [[0x66]]])
    = run cfgAll [Op.open 0 2 [0x62], Op.change 0 5 [[0x63]]] := by decide

end LspHistories

end AGV.C09
