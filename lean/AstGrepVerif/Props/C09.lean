/-
C09 — all front ends report the same findings; the language server publishes the newest
version.

This file holds the **LSP histories** half ("After any sequence of open/change/close
notifications, the diagnostics last published for a document are those of the
highest-version text received").  The "all front ends report the same findings" half lives in
`Props/C09a.lean` (model `Model/Frontends`), by its own builder.

Model: `Model/Lsp.lean` (the server after fix 72c38ee: last content change, empty change list
ignored, handlers dispatched one after the other); specification: `Spec/LspLatest.lean`;
lemmas: `Lemmas/Lsp.lean`.
-/
import AstGrepVerif.Model.Lsp
import AstGrepVerif.Spec.LspLatest
import AstGrepVerif.Lemmas.Lsp

set_option linter.unusedSimpArgs false
set_option linter.unusedVariables false

namespace AGV.C09

/-! ## LSP histories -/
section LspHistories

open AGV AGV.Lsp AGV.Spec.Lsp

/-- the server can serve `u` at all: language inferable from the uri, document inside the
workspace (both are constants of the uri) -/
def Accepted (cfg : Config) (u : Uri) : Prop := cfg.langKnown u = true ∧ cfg.outside u = false

/-- **lsp_latest** — for **every** history and every uri the server can serve.
Cut the history at the last `didOpen u` (`h = pre ++ open u v t :: post`, no `didOpen u` in
`post`).  The *session* is that open followed by the texts received by `didChange u` up to the
first `didClose u` (the text of a `didChange` is its last content change; one without content
changes carries none).  Then the last `publishDiagnostics` for `u` in the whole run carries
the version and text of the session's greatest version, the latest among equals
(`IsLatestMax`, a declarative specification); the map holds exactly that entry while `u` is
open, and nothing once it is closed. -/
theorem lsp_latest (cfg : Config) (u : Uri) (hacc : Accepted cfg u)
    (pre post : List Op) (v : Version) (t : Text)
    (hlast : ∀ op ∈ post, isOpenOf u op = false) :
    ∃ m, lastPub u (run cfg (pre ++ Op.open u v t :: post)).pubs = some m ∧
      IsLatestMax ((v, t) :: changesUntilClose u post) m ∧
      lookup (run cfg (pre ++ Op.open u v t :: post)).state u
        = (if closedIn u post then none else some m) := by
  unfold run
  rw [runFrom_append cfg pre _ [] []]
  generalize (runFrom cfg [] [] pre).state = s0
  generalize (runFrom cfg [] [] pre).pubs = acc0
  have hstep : step cfg s0 (Op.open u v t) = (insert s0 u v t, [⟨u, v, t⟩]) := by
    simp [step, onOpen, hacc.1, hacc.2]
  simp only [runFrom, hstep]
  have := session_inv cfg u hacc.1 post (insert s0 u v t) (acc0 ++ [⟨u, v, t⟩]) [(v, t)] (v, t)
    (lookup_insert_self s0 u v t) (lastPub_append_self u acc0 v t) (isLatestMax_single _) hlast
  simpa using this

theorem received_eq_session (u : Uri) (v : Version) (t : Text) :
    ∀ (pre : List Op), (∀ op ∈ pre, op.uri ≠ u) →
      ∀ (post : List Op), (∀ op ∈ post, isOpenOf u op = false) → closedIn u post = false →
      received u (pre ++ Op.open u v t :: post) = (v, t) :: changesUntilClose u post
  | op :: pre, hpre, post, hpost, hcl => by
    have h1 : op.uri ≠ u := hpre op (by simp)
    have ih := received_eq_session u v t pre (fun o h => hpre o (List.mem_cons_of_mem _ h)) post hpost hcl
    cases op with
    | «open» u' v' t' => simp only [Op.uri] at h1; simpa [received, h1] using ih
    | change u' v' ts => simp only [Op.uri] at h1; simpa [received, h1] using ih
    | close u' => simpa [received] using ih
  | [], _, post, hpost, hcl => by
    simp only [List.nil_append, received, ↓reduceIte, List.cons.injEq, true_and]
    induction post with
    | nil => rfl
    | cons op ops ih =>
      have hpost' : ∀ o ∈ ops, isOpenOf u o = false := fun o h => hpost o (List.mem_cons_of_mem _ h)
      have hcl' : closedIn u ops = false := by
        simp only [closedIn, List.any_cons, Bool.or_eq_false_iff] at hcl; exact hcl.2
      cases op with
      | «open» u' v' t' =>
        have := hpost (Op.open u' v' t') (by simp)
        simp [isOpenOf] at this
        simp [received, changesUntilClose, this, ih hpost' hcl']
      | change u' v' ts =>
        by_cases e : u' = u
        · cases hts : changeText ts <;> simp [received, changesUntilClose, e, hts, ih hpost' hcl']
        · simp [received, changesUntilClose, e, ih hpost' hcl']
      | close u' =>
        have : u' ≠ u := by
          simp only [closedIn, List.any_cons, Bool.or_eq_false_iff, isCloseOf, decide_eq_false_iff_not] at hcl
          exact hcl.1
        simp [received, changesUntilClose, this, ih hpost' hcl']

/-- **lsp_latest_literal_partial** — the property *as literally worded* ("the highest-version
text received", over the whole history) holds for histories that use the document the way
the protocol prescribes: opened once, never closed (versions may arrive in any order, with
repetitions; any number of content changes per `didChange`). -/
theorem lsp_latest_literal_partial (cfg : Config) (u : Uri) (hacc : Accepted cfg u)
    (pre post : List Op) (v : Version) (t : Text)
    (hpre : ∀ op ∈ pre, op.uri ≠ u)
    (hlast : ∀ op ∈ post, isOpenOf u op = false) (hopen : closedIn u post = false) :
    ∃ m, lastPub u (run cfg (pre ++ Op.open u v t :: post)).pubs = some m ∧
      IsLatestMax (received u (pre ++ Op.open u v t :: post)) m := by
  obtain ⟨m, h1, h2, _⟩ := lsp_latest cfg u hacc pre post v t hlast
  rw [received_eq_session u v t pre hpre post hlast hopen]
  exact ⟨m, h1, h2⟩

/-- the literal reading of the property for one history and uri -/
def LiteralClaim (cfg : Config) (h : List Op) (u : Uri) : Prop :=
  ∃ m, lastPub u (run cfg h).pubs = some m ∧ IsLatestMax (received u h) m

theorem run_snoc (cfg : Config) (h : List Op) (op : Op) :
    run cfg (h ++ [op]) =
      ⟨(step cfg (run cfg h).state op).1, (run cfg h).pubs ++ (step cfg (run cfg h).state op).2⟩ := by
  unfold run
  rw [runFrom_append]
  rfl

/-- **lsp_stale_ignored** — a `didChange` whose version is smaller than the session's current
maximum changes nothing: no publish, same map. -/
theorem lsp_stale_ignored (cfg : Config) (u : Uri) (hacc : Accepted cfg u)
    (pre post : List Op) (v : Version) (t : Text)
    (hlast : ∀ op ∈ post, isOpenOf u op = false) (hopen : closedIn u post = false)
    (m : Version × Text) (hm : IsLatestMax ((v, t) :: changesUntilClose u post) m)
    (v' : Version) (ts : List Text) (hstale : v' < m.1) :
    run cfg ((pre ++ Op.open u v t :: post) ++ [Op.change u v' ts])
      = run cfg (pre ++ Op.open u v t :: post) := by
  obtain ⟨m', _, hmax, hlk⟩ := lsp_latest cfg u hacc pre post v t hlast
  have hmm : m' = m := IsLatestMax.unique hmax hm
  subst hmm
  rw [hopen] at hlk
  rw [run_snoc]
  generalize run cfg (pre ++ Op.open u v t :: post) = R at *
  obtain ⟨s, acc⟩ := R
  simp only at hlk
  have hgt : m'.1 > v' := hstale
  cases hts : ts.getLast? <;> simp [step, onChange, hts, hacc.1, hlk, hgt]

/-- **lsp_empty_change_ignored** — a `didChange` without content changes changes nothing,
whatever the history, the uri and the version (formerly: index panic, server gone). -/
theorem lsp_empty_change_ignored (cfg : Config) (h : List Op) (u : Uri) (v : Version) :
    run cfg (h ++ [Op.change u v []]) = run cfg h := by
  rw [run_snoc]
  simp [step, onChange]

/-- **lsp_multi_change_uses_last** — of several content changes the last one is the document
(formerly: element 0 was used). -/
theorem lsp_multi_change_uses_last (cfg : Config) (u : Uri) (hacc : Accepted cfg u)
    (v v' : Version) (t t' : Text) (ts : List Text) (hv : v ≤ v') :
    lastPub u (run cfg [Op.open u v t, Op.change u v' (ts ++ [t'])]).pubs = some (v', t') := by
  have hng : ¬ v > v' := Int.not_lt.mpr hv
  simp [run, runFrom, step, onOpen, onChange, hacc.1, hacc.2, lookup_insert_self, hng]
  exact lastPub_append_self u [⟨u, v, t⟩] v' t'

/-- **lsp_equal_version_replaces** — the comparison is strict: an equal version is accepted -/
theorem lsp_equal_version_replaces (cfg : Config) (u : Uri) (hacc : Accepted cfg u)
    (v : Version) (t t' : Text) :
    lastPub u (run cfg [Op.open u v t, Op.change u v [t']]).pubs = some (v, t') :=
  lsp_multi_change_uses_last cfg u hacc v v t t' [] (Int.le_refl v)

/-- **lsp_closed_nothing_stored** — after `didClose u` (with no later `didOpen u`) the map
has no entry for `u`, whatever else happened; and nothing more is published for `u`. -/
theorem lsp_closed_nothing_stored (cfg : Config) (u : Uri) (pre post : List Op)
    (hlast : ∀ op ∈ post, isOpenOf u op = false) :
    lookup (run cfg (pre ++ Op.close u :: post)).state u = none ∧
    lastPub u (run cfg (pre ++ Op.close u :: post)).pubs = lastPub u (run cfg pre).pubs := by
  unfold run
  rw [runFrom_append cfg pre _ [] []]
  generalize (runFrom cfg [] [] pre).state = s0
  generalize (runFrom cfg [] [] pre).pubs = acc0
  simp only [runFrom, step, onClose, List.append_nil]
  have := closed_inv cfg u post (remove s0 u) acc0 (lookup_remove_self s0 u) hlast
  exact ⟨this.2, this.1⟩

/-- **lsp_never_opened_silent** — a uri that was never opened gets no publish and no entry,
whatever is sent for it. -/
theorem lsp_never_opened_silent (cfg : Config) (u : Uri) (h : List Op)
    (hno : ∀ op ∈ h, isOpenOf u op = false) :
    lastPub u (run cfg h).pubs = none ∧ lookup (run cfg h).state u = none :=
  closed_inv cfg u h [] [] rfl hno

/-- **lsp_unserved_silent** — a uri the server cannot serve (unknown language, or outside the
workspace) gets no publish and no entry, even when it is opened. -/
theorem lsp_unserved_silent (cfg : Config) (u : Uri)
    (hun : cfg.langKnown u = false ∨ cfg.outside u = true) :
    ∀ (h : List Op) (s : State) (acc : List Publish), lookup s u = none →
      lastPub u (runFrom cfg s acc h).pubs = lastPub u acc ∧
      lookup (runFrom cfg s acc h).state u = none
  | [], s, acc, hl => ⟨rfl, hl⟩
  | op :: ops, s, acc, hl => by
    simp only [runFrom]
    by_cases hu : op.uri = u
    · have hs : (step cfg s op).1 = s ∨ (step cfg s op).1 = remove s u := by
        cases op with
        | «open» u' v t =>
          simp only [Op.uri] at hu; subst hu
          rcases hun with h1 | h1 <;> simp [step, onOpen, h1]
        | change u' v ts =>
          simp only [Op.uri] at hu; subst hu
          cases hts : ts.getLast? <;> by_cases hk : cfg.langKnown u' = true <;>
            simp [step, onChange, hts, hk, hl]
        | close u' =>
          simp only [Op.uri] at hu; subst hu
          exact Or.inr rfl
      have hp : (step cfg s op).2 = [] := by
        cases op with
        | «open» u' v t =>
          simp only [Op.uri] at hu; subst hu
          rcases hun with h1 | h1 <;> simp [step, onOpen, h1]
        | change u' v ts =>
          simp only [Op.uri] at hu; subst hu
          cases hts : ts.getLast? <;> by_cases hk : cfg.langKnown u' = true <;>
            simp [step, onChange, hts, hk, hl]
        | close u' => rfl
      have hl' : lookup (step cfg s op).1 u = none := by
        rcases hs with e | e <;> rw [e]
        · exact hl
        · exact lookup_remove_self s u
      rw [hp, List.append_nil]
      exact lsp_unserved_silent cfg u hun ops _ acc hl'
    · have hl' : lookup (step cfg s op).1 u = none := by
        rw [step_lookup_other cfg s op u hu]; exact hl
      have hpu : ∀ p ∈ (step cfg s op).2, p.uri ≠ u := fun p hp => by
        rw [step_pubs_uri cfg s op p hp]; exact hu
      have ih := lsp_unserved_silent cfg u hun ops _ (acc ++ (step cfg s op).2) hl'
      rw [lastPub_append_other u acc _ hpu] at ih
      exact ih

/-! ### Where the code departs from the literal wording (documented readings) -/

def cfgAll : Config := { langKnown := fun _ => true, outside := fun _ => false }

private theorem not_latest_of_lt {S : List (Version × Text)} {m p : Version × Text}
    (hp : p ∈ S) (hlt : m.1 < p.1) : ¬ IsLatestMax S m :=
  fun h => absurd hlt (Int.not_lt.mpr (IsLatestMax.le h p hp))

/-- Re-opening with a smaller version (editors restart version numbers when a document is
re-opened): the server publishes the re-opened text, the literal reading would demand the
old, higher-versioned one.  Here the code is right and the wording must be read per
open…close session — which is what `lsp_latest` states. -/
theorem lsp_literal_reopen_counterexample :
    ¬ LiteralClaim cfgAll [Op.open 0 5 [0x61], Op.close 0, Op.open 0 1 [0x62]] 0 := by
  rintro ⟨m, h1, h2⟩
  have e : lastPub 0 (run cfgAll [Op.open 0 5 [0x61], Op.close 0, Op.open 0 1 [0x62]]).pubs
      = some (1, [0x62]) := by decide
  rw [e] at h1; cases h1
  exact not_latest_of_lt (p := (5, [0x61])) (by simp [received]) (by decide) h2

/-- A `didChange` for a document that is not open (here: after `didClose`) is dropped: the
last publish stays the one of the closed session. -/
theorem lsp_literal_change_after_close_counterexample :
    ¬ LiteralClaim cfgAll [Op.open 0 1 [0x61], Op.close 0, Op.change 0 2 [[0x62]]] 0 := by
  rintro ⟨m, h1, h2⟩
  have e : lastPub 0 (run cfgAll [Op.open 0 1 [0x61], Op.close 0, Op.change 0 2 [[0x62]]]).pubs
      = some (1, [0x61]) := by decide
  rw [e] at h1; cases h1
  exact not_latest_of_lt (p := (2, [0x62])) (by simp [received, changeText]) (by decide) h2

/-! ### Non-vacuity -/

/-- a history with staleness, an equal version, another uri interleaved, a close and a
re-open, a multi-element and an empty `didChange`: the hypotheses of `lsp_latest` hold and
the conclusion is the expected entry -/
def exHistory : List Op :=
  [Op.open 0 7 [0x61], Op.close 0, Op.open 1 1 [0x78]] ++
  Op.open 0 2 [0x62] ::
  [Op.change 0 5 [[0x63]], Op.change 1 2 [[0x79]], Op.change 0 3 [[0x64]],
   Op.change 0 5 [[0x67], [0x65]], Op.change 0 9 [], Op.change 0 4 [[0x66]]]

example : lastPub 0 (run cfgAll exHistory).pubs = some (5, [0x65]) := by decide
example : lookup (run cfgAll exHistory).state 0 = some (5, [0x65]) := by decide
example : (run cfgAll exHistory).pubs.length = 6 := by decide

example : ∃ m, lastPub 0 (run cfgAll exHistory).pubs = some m ∧
    IsLatestMax ((2, [0x62]) :: changesUntilClose 0
      [Op.change 0 5 [[0x63]], Op.change 1 2 [[0x79]], Op.change 0 3 [[0x64]],
       Op.change 0 5 [[0x67], [0x65]], Op.change 0 9 [], Op.change 0 4 [[0x66]]]) m ∧
    lookup (run cfgAll exHistory).state 0 = some m :=
  lsp_latest cfgAll 0 ⟨rfl, rfl⟩ [Op.open 0 7 [0x61], Op.close 0, Op.open 1 1 [0x78]]
    [Op.change 0 5 [[0x63]], Op.change 1 2 [[0x79]], Op.change 0 3 [[0x64]],
     Op.change 0 5 [[0x67], [0x65]], Op.change 0 9 [], Op.change 0 4 [[0x66]]] 2 [0x62]
    (by decide)

/-- instance of `lsp_stale_ignored`: version 4 after 5 leaves the run unchanged -/
example : run cfgAll ([Op.open 0 2 [0x62], Op.change 0 5 [[0x63]]] ++ [Op.change 0 4 [[0x66]]])
    = run cfgAll [Op.open 0 2 [0x62], Op.change 0 5 [[0x63]]] := by decide

end LspHistories

end AGV.C09
