/-
C04 — meta-variable bindings are coherent and failed alternatives leave no trace.

Statements over the rule evaluator of `Model/Rule.lean` (`matchRule` and its helpers; the model
reflects the repaired code: `not` and `nthChild.ofRule` run their inner rule on a scratch
environment).  The simultaneous inductions on the fuel live in `Lemmas/RuleEnv.lean`.

Every evaluator function returns the environment the *caller* sees afterwards, also on failure;
"no trace" = on failure that environment is the one the caller passed in.
-/
import AstGrepVerif.Lemmas.RuleEnv
import AstGrepVerif.Lemmas.RuleIsolate

set_option linter.unusedSimpArgs false
set_option linter.unusedVariables false

namespace AGV.C04

open AGV

/-! ## 1. No trace -/

/-- **A failed rule leaves the caller's environment exactly as it was** — for every rule form,
node, environment, fuel and registry.  (Before the repair of `RuleCore::do_match` this needed
"no global utility carries constraints": see `matchCore_constraint_failure_restores_env`.) -/
theorem no_trace (ctx : RCtx) (fuel : Nat) (r : Rule) (n : Tree)
    (env env' : Env) (h : matchRule ctx fuel r n env = .ok (none, env')) : env' = env :=
  (all_notrace ctx fuel).1 r n env env' h

/-- the same for every helper of the evaluator that hands an environment back -/
theorem no_trace_helpers (ctx : RCtx) (fuel : Nat) :
    (∀ r field eid c env env', finderStep ctx fuel r field eid c env = .ok (none, env') → env' = env) ∧
    (∀ r field eid cs env env',
      findMapRule ctx fuel r field eid cs env = .ok (none, env') → env' = env) ∧
    (∀ r s field eid st cs env env',
      findMapUntil ctx fuel r s field eid st cs env = .ok (none, env') → env' = env) ∧
    (∀ stop r field eid once multi env env',
      stopByFind ctx fuel stop r field eid once multi env = .ok (none, env') → env' = env) ∧
    (∀ r stop field n env env', matchInside ctx fuel r stop field n env = .ok (none, env') → env' = env) ∧
    (∀ r stop field n env env', matchHas ctx fuel r stop field n env = .ok (none, env') → env' = env) ∧
    (∀ r s cs env env', hasUntil ctx fuel r s cs env = .ok (none, env') → env' = env) ∧
    (∀ core n env env', matchCore ctx fuel core n env = .ok (none, env') → env' = env) :=
  (all_notrace ctx fuel).2

/-- `allLoop` (the loop of `All`) is *not* trace-free by itself — it returns the environment
reached after the successful prefix — but its only caller drops it: what it guarantees is that
the failing branch left no trace on top of the chain of the successful ones. -/
theorem allLoop_failure (ctx : RCtx) (fuel : Nat) (rs : List Rule)
    (n : Tree) (env env' : Env) (h : allLoop ctx fuel rs n env = .ok (false, env')) :
    ∃ pre r post, rs = pre ++ r :: post ∧ AllChain ctx fuel n pre env env' ∧
      matchRule ctx fuel r n env' = .ok (none, env') := by
  obtain ⟨pre, r, post, env1, e1, e2, e3⟩ := allLoop_false ctx fuel rs n env env' h
  have := no_trace ctx fuel r n env1 env' e3
  subst this
  exact ⟨pre, r, post, e1, e2, e3⟩

/-- (kept from before the repair of `do_match`; now a special case of `no_trace`) the atomic rules
and `all` / `any` / `not` return the caller's environment itself on failure by construction
(copy-on-write scratch) -/
theorem no_trace_partial (ctx : RCtx) (fuel : Nat) (r : Rule) (n : Tree) (env env' : Env)
    (hr : (∃ p k s, r = .pattern p k s) ∨ (∃ k, r = .kind k) ∨ (∃ i, r = .regex i) ∨
      (∃ a b c d, r = .range a b c d) ∨ (∃ rs k, r = .all rs k) ∨ (∃ rs k, r = .any rs k) ∨
      (∃ q, r = .not q) ∨ (∃ a b rev, r = .nthChild a b none rev))
    (h : matchRule ctx fuel r n env = .ok (none, env')) : env' = env := by
  cases fuel with
  | zero => simp [matchRule] at h
  | succ fuel =>
    rcases hr with ⟨p, k, s, rfl⟩ | ⟨k, rfl⟩ | ⟨i, rfl⟩ | ⟨a, b, c, d, rfl⟩ | ⟨rs, k, rfl⟩ |
      ⟨rs, k, rfl⟩ | ⟨q, rfl⟩ | ⟨a, b, rev, rfl⟩
    · cases k <;>
      · simp only [matchRule] at h
        split at h
        · simp only [Except.ok.injEq, Prod.mk.injEq, true_and] at h; exact h.symm
        · split at h
          · cases h
          · simp at h
          · simp only [Except.ok.injEq, Prod.mk.injEq, true_and] at h; exact h.symm
    · simp only [matchRule, Except.ok.injEq, Prod.mk.injEq] at h; exact h.2.symm
    · simp only [matchRule, Except.ok.injEq, Prod.mk.injEq] at h; exact h.2.symm
    · simp only [matchRule] at h
      split at h
      · simp only [Except.ok.injEq, Prod.mk.injEq, true_and] at h; exact h.symm
      · split at h
        · simp only [Except.ok.injEq, Prod.mk.injEq, true_and] at h; exact h.symm
        · simp at h
    · simp only [matchRule] at h
      split at h
      · simp only [Except.ok.injEq, Prod.mk.injEq, true_and] at h; exact h.symm
      · split at h
        · cases h
        · simp at h
        · simp only [Except.ok.injEq, Prod.mk.injEq, true_and] at h; exact h.symm
    · simp only [matchRule] at h
      split at h
      · simp only [Except.ok.injEq, Prod.mk.injEq, true_and] at h; exact h.symm
      · split at h
        · cases h
        · simp at h
        · simp only [Except.ok.injEq, Prod.mk.injEq, true_and] at h; exact h.symm
    · simp only [matchRule] at h
      split at h
      · cases h
      · simp only [Except.ok.injEq, Prod.mk.injEq, true_and] at h; exact h.symm
      · simp at h
    · simp only [matchRule] at h
      split at h
      · simp only [Except.ok.injEq, Prod.mk.injEq, true_and] at h; exact h.symm
      · split at h
        · simp only [Except.ok.injEq, Prod.mk.injEq, true_and] at h; exact h.symm
        · split at h
          · simp only [Except.ok.injEq, Prod.mk.injEq, true_and] at h; exact h.symm
          · simp at h

/-- a failure extends the environment (trivially now: it returns it unchanged, `no_trace`) -/
theorem failure_extends (ctx : RCtx) (fuel : Nat) (r : Rule) (n : Tree) (env env' : Env)
    (h : matchRule ctx fuel r n env = .ok (none, env')) : EnvLe ctx.src env env' :=
  (all_ex ctx fuel).1 r n env _ h

/-! ## 2. Success only extends -/

/-- A successful rule only adds bindings or overwrites a binding with a node that `exactMatch`
accepted: every single binding `(v, t)` of `env` is bound in `env'` to a node linked to `t` by
`exactMatch` steps, every multi binding except the `secondary` label is preserved up to
`match_multi_var`, `transformed` is untouched. -/
theorem match_extends (ctx : RCtx) (fuel : Nat) (r : Rule) (n m : Tree) (env env' : Env)
    (h : matchRule ctx fuel r n env = .ok (some m, env')) : EnvLe ctx.src env env' :=
  (all_ex ctx fuel).1 r n env _ h

/-- the single-variable part, spelled out -/
theorem match_extends_single (ctx : RCtx) (fuel : Nat) (r : Rule) (n m : Tree) (env env' : Env)
    (h : matchRule ctx fuel r n env = .ok (some m, env')) (v : Name) (t : Tree)
    (hv : alookup v env.single = some t) :
    ∃ t', alookup v env'.single = some t' ∧ ExactChain ctx.src t t' :=
  (match_extends ctx fuel r n m env env' h).1 v t hv

/-- the same for a pattern alone -/
theorem pattern_extends (s : Strictness) (src : Bytes) (fuel : Nat) (p : PNode) (c : Tree)
    (env env' : Env) (h : matchPatternEnv s src fuel p c env = .ok (some env')) :
    EnvLe src env env' :=
  matchPatternEnv_le s src fuel p c env env' h

/-- and for the rule core (rule, then constraints) -/
theorem matchCore_extends (ctx : RCtx) (fuel : Nat) (core : RuleCore) (n : Tree) (env : Env)
    (x : Option Tree × Env) (h : matchCore ctx fuel core n env = .ok x) : EnvLe ctx.src env x.2 :=
  (all_ex ctx fuel).2.2.2.2.2.2.2.2.2.2.1 core n env x h

theorem exactMatch_refl (src : Bytes) (t : Tree) : exactMatch src t t = true :=
  AGV.exactMatch_refl src t

/-- `Env.insert` replaces a binding only after `exactMatch` accepted the new node, binds `v` to
it, and touches no other binding -/
theorem insert_coherent (src : Bytes) (env : Env) (v : Name) (n : Tree) (env' : Env)
    (h : Env.insert src env v n = some env') :
    (∀ m, alookup v env.single = some m → exactMatch src m n = true) ∧
    alookup v env'.single = some n ∧
    (∀ w, w ≠ v → alookup w env'.single = alookup w env.single) :=
  let ⟨h1, h2, h3, _, _⟩ := AGV.insert_coherent src env v n env' h
  ⟨h1, h2, h3⟩

/-! ## 3. What `any` and `all` expose -/

/-- `any` success: the resulting environment is the environment of the *first* alternative that
succeeds when started from the caller's environment; every alternative before it fails when
started from the caller's environment (so none of their bindings is in the result: the result is
produced by `r` from `env` alone).  Fuel: the inner runs are reported at the outer fuel
(`matchRule_fuel_mono`). -/
theorem any_exposes_winner (ctx : RCtx) (fuel : Nat) (rs : List Rule) (kinds : Option (List Nat))
    (n m : Tree) (env env' : Env)
    (h : matchRule ctx fuel (.any rs kinds) n env = .ok (some m, env')) :
    m = n ∧ kindsGate kinds n = true ∧
    ∃ pre r post m₁, rs = pre ++ r :: post ∧
      (∀ q ∈ pre, ∃ e, matchRule ctx fuel q n env = .ok (none, e)) ∧
      matchRule ctx fuel r n env = .ok (some m₁, env') := by
  cases fuel with
  | zero => simp [matchRule] at h
  | succ fuel =>
    simp only [matchRule] at h
    split at h
    · simp at h
    · next hk =>
      split at h
      · cases h
      · next env1 ha =>
        simp only [Except.ok.injEq, Prod.mk.injEq, Option.some.injEq] at h
        obtain ⟨rfl, rfl⟩ := h
        obtain ⟨pre, r, post, m₁, e1, e2, e3⟩ := anyLoop_winner ctx fuel rs n env env1 ha
        refine ⟨rfl, by simpa using hk, pre, r, post, m₁, e1, fun q hq => ?_,
          matchRule_fuel_mono ctx (Nat.le_succ _) e3⟩
        obtain ⟨e, he⟩ := e2 q hq
        exact ⟨e, matchRule_fuel_mono ctx (Nat.le_succ _) he⟩
      · simp at h

/-- the failing alternatives return the caller's environment -/
theorem any_exposes_winner' (ctx : RCtx) (fuel : Nat)
    (rs : List Rule) (kinds : Option (List Nat)) (n m : Tree) (env env' : Env)
    (h : matchRule ctx fuel (.any rs kinds) n env = .ok (some m, env')) :
    ∃ pre r post m₁, rs = pre ++ r :: post ∧
      (∀ q ∈ pre, matchRule ctx fuel q n env = .ok (none, env)) ∧
      matchRule ctx fuel r n env = .ok (some m₁, env') := by
  obtain ⟨_, _, pre, r, post, m₁, e1, e2, e3⟩ := any_exposes_winner ctx fuel rs kinds n m env env' h
  refine ⟨pre, r, post, m₁, e1, fun q hq => ?_, e3⟩
  obtain ⟨e, he⟩ := e2 q hq
  have := no_trace ctx fuel q n env e he
  subst this; exact he

/-- `any` failure: every alternative fails from the caller's environment, which is returned -/
theorem any_failure (ctx : RCtx) (fuel : Nat) (rs : List Rule) (kinds : Option (List Nat))
    (n : Tree) (env env' : Env)
    (h : matchRule ctx fuel (.any rs kinds) n env = .ok (none, env')) :
    env' = env ∧ (kindsGate kinds n = false ∨
      ∀ q ∈ rs, ∃ e, matchRule ctx fuel q n env = .ok (none, e)) := by
  cases fuel with
  | zero => simp [matchRule] at h
  | succ fuel =>
    simp only [matchRule] at h
    split at h
    · next hk =>
      simp only [Except.ok.injEq, Prod.mk.injEq, true_and] at h
      exact ⟨h.symm, .inl (by simpa using hk)⟩
    · split at h
      · cases h
      · simp at h
      · next ha =>
        simp only [Except.ok.injEq, Prod.mk.injEq, true_and] at h
        refine ⟨h.symm, .inr fun q hq => ?_⟩
        obtain ⟨e, he⟩ := anyLoop_none ctx fuel rs n env ha q hq
        exact ⟨e, matchRule_fuel_mono ctx (Nat.le_succ _) he⟩

/-- `all` success: the resulting environment is the fold of the branches in order, each started
from its predecessor's environment (`AllChain`), starting from the caller's environment. -/
theorem all_exposes_union (ctx : RCtx) (fuel : Nat) (rs : List Rule) (kinds : Option (List Nat))
    (n m : Tree) (env env' : Env)
    (h : matchRule ctx fuel (.all rs kinds) n env = .ok (some m, env')) :
    m = n ∧ kindsGate kinds n = true ∧ AllChain ctx fuel n rs env env' := by
  cases fuel with
  | zero => simp [matchRule] at h
  | succ fuel =>
    simp only [matchRule] at h
    split at h
    · simp at h
    · next hk =>
      split at h
      · cases h
      · next env1 ha =>
        simp only [Except.ok.injEq, Prod.mk.injEq, Option.some.injEq] at h
        obtain ⟨rfl, rfl⟩ := h
        exact ⟨rfl, by simpa using hk, (allLoop_true_chain ctx fuel rs n env env1 ha).mono ctx (Nat.le_succ _)⟩
      · simp at h

/-- conversely a chain of successes makes `all` succeed with that environment -/
theorem all_of_chain (ctx : RCtx) (fuel : Nat) (rs : List Rule) (kinds : Option (List Nat))
    (n : Tree) (env env' : Env) (hk : kindsGate kinds n = true)
    (h : AllChain ctx fuel n rs env env') :
    matchRule ctx (fuel + rs.length + 2) (.all rs kinds) n env = .ok (some n, env') := by
  simp only [matchRule, hk, Bool.not_true, Bool.false_eq_true, ↓reduceIte]
  rw [allLoop_of_chain ctx fuel rs n env env' h]

/-- every environment along the chain extends its predecessor: the union only grows -/
theorem allChain_extends (ctx : RCtx) (fuel : Nat) (n : Tree) (rs : List Rule) (env env' : Env)
    (h : AllChain ctx fuel n rs env env') : EnvLe ctx.src env env' := by
  induction rs generalizing env with
  | nil => cases h; exact EnvLe.refl _ _
  | cons r rs ih =>
    obtain ⟨m, env1, h1, h2⟩ := h
    exact (match_extends ctx fuel r n m env env1 h1).trans (ih _ h2)

/-- **Relations expose the winning candidate only.**  A successful `has` / `inside` /
`precedes` / `follows` returns the match `m` of its sub-rule on one candidate `c`, and the
environment is the one the sub-rule produces on `c` *from the caller's environment* (plus the
`secondary` label): the candidates rejected before `c` contributed nothing.  Candidates: strict
descendants / ancestors / later / earlier siblings (`nextOf` is the head of `nextAllOf`, see C05). -/
theorem relation_exposes_winner (ctx : RCtx) (fuel : Nat)
    (r : Rule) (stop : StopBy) (field : Option Nat) (n m : Tree) (env env' : Env) :
    (matchRule ctx fuel (.has r stop field) n env = .ok (some m, env') →
      ∃ c ∈ Tree.preorderList n.children, ∃ env1,
        matchRule ctx fuel r c env = .ok (some m, env1) ∧ env' = env1.addLabel secondaryLabel m) ∧
    (matchRule ctx fuel (.inside r stop field) n env = .ok (some m, env') →
      ∃ c ∈ ancestorsOf ctx.root n, ∃ env1,
        matchRule ctx fuel r c env = .ok (some m, env1) ∧ env' = env1.addLabel secondaryLabel m) ∧
    (matchRule ctx fuel (.precedes r stop) n env = .ok (some m, env') →
      ∃ c, (nextOf ctx.root n = some c ∨ c ∈ nextAllOf ctx.root n) ∧ ∃ env1,
        matchRule ctx fuel r c env = .ok (some m, env1) ∧ env' = env1.addLabel secondaryLabel m) ∧
    (matchRule ctx fuel (.follows r stop) n env = .ok (some m, env') →
      ∃ c, (prevOf ctx.root n = some c ∨ c ∈ prevAllOf ctx.root n) ∧ ∃ env1,
        matchRule ctx fuel r c env = .ok (some m, env1) ∧ env' = env1.addLabel secondaryLabel m) := by
  cases fuel with
  | zero => simp [matchRule]
  | succ fuel =>
    refine ⟨fun h => ?_, fun h => ?_, fun h => ?_, fun h => ?_⟩
    · simp only [matchRule] at h
      obtain ⟨env1, h1, rfl⟩ := withLabel_some h
      obtain ⟨c, hc, hm⟩ := matchHas_winner ctx fuel r stop field n env m env1 h1
      exact ⟨c, hc, env1, matchRule_fuel_mono ctx (Nat.le_succ _) hm, rfl⟩
    · simp only [matchRule] at h
      obtain ⟨env1, h1, rfl⟩ := withLabel_some h
      cases fuel with
      | zero => simp [matchInside] at h1
      | succ fuel =>
        simp only [matchInside] at h1
        obtain ⟨c, hc, hm⟩ := stopByFind_winner ctx fuel stop r field n.id _ _ env m env1 h1
        refine ⟨c, ?_, env1, matchRule_fuel_mono ctx (by omega) hm, rfl⟩
        rcases hc with hc | hc
        · unfold parentOf at hc; exact List.mem_of_head? hc
        · exact hc
    · simp only [matchRule] at h
      obtain ⟨env1, h1, rfl⟩ := withLabel_some h
      obtain ⟨c, hc, hm⟩ := stopByFind_winner ctx fuel stop r none n.id _ _ env m env1 h1
      exact ⟨c, hc, env1, matchRule_fuel_mono ctx (Nat.le_succ _) hm, rfl⟩
    · simp only [matchRule] at h
      obtain ⟨env1, h1, rfl⟩ := withLabel_some h
      obtain ⟨c, hc, hm⟩ := stopByFind_winner ctx fuel stop r none n.id _ _ env m env1 h1
      exact ⟨c, hc, env1, matchRule_fuel_mono ctx (Nat.le_succ _) hm, rfl⟩

/-! ## 4. Constraints run after the rule -/

/-- `RuleCore::do_match`, case by case: the kinds gate fails; the rule fails; the rule succeeds
with `env1` and all constraints hold (the environment after the constraints is committed); the
rule succeeds and a constraint fails.  In all three failing cases the caller's environment comes
back untouched: rule and constraints work on a scratch copy. -/
theorem constraints_after_rule (ctx : RCtx) (fuel : Nat) (core : RuleCore) (n : Tree) (env : Env)
    (res : Option Tree) (env' : Env) (h : matchCore ctx fuel core n env = .ok (res, env')) :
    (kindsGate core.kinds n = false ∧ res = none ∧ env' = env) ∨
    (kindsGate core.kinds n = true ∧
      ((∃ env1, matchRule ctx fuel core.rule n env = .ok (none, env1) ∧ res = none ∧ env' = env) ∨
       (∃ ret env1, matchRule ctx fuel core.rule n env = .ok (some ret, env1) ∧
          ((constraintLoop ctx fuel core.constraints (sortByName env1.single) env1 = .ok (true, env') ∧
              res = some ret) ∨
           (∃ env2, constraintLoop ctx fuel core.constraints (sortByName env1.single) env1 = .ok (false, env2) ∧
              res = none ∧ env' = env))))) :=
  matchCore_cases ctx fuel core n env res env' h

/-- a rule core that fails — kinds gate, rule or constraint — leaves no trace -/
theorem matchCore_no_trace (ctx : RCtx) (fuel : Nat) (core : RuleCore) (n : Tree) (env env' : Env)
    (h : matchCore ctx fuel core n env = .ok (none, env')) : env' = env :=
  (all_notrace ctx fuel).2.2.2.2.2.2.2.2 core n env env' h

/-- (name kept) a rule core whose rule fails leaves no trace -/
theorem matchCore_rule_failure (ctx : RCtx) (fuel : Nat)
    (core : RuleCore) (n : Tree) (env env' e : Env)
    (h : matchCore ctx fuel core n env = .ok (none, env'))
    (hr : matchRule ctx fuel core.rule n env = .ok (none, e)) : env' = env :=
  matchCore_no_trace ctx fuel core n env env' h

/-- without constraints `matchCore` is the kinds gate followed by the rule -/
theorem constraintLoop_nil (ctx : RCtx) (fuel : Nat) (l : List (Name × Tree)) (env : Env) (b : Bool)
    (env' : Env) (h : constraintLoop ctx fuel [] l env = .ok (b, env')) : b = true ∧ env' = env :=
  AGV.constraintLoop_nil ctx fuel l env b env' h

/-! ## 4b. The oracle: a rule and its isolated form agree

`Spec.isolate` (`Spec/PureRule.lean`) wraps every sub-rule in a singleton `all … none`, which is
trace-free by construction; the C04 oracle (`Driver/RuleIO.lean`, `opOracleIsolate`) runs
`matchCore` on `Spec.isolateCore core` in the context `isoCtx ctx` — every local utility mapped by
`Spec.isolate`, every global one by `Spec.isolateCore` — and compares the verdict, the single
bindings and the multi bindings other than `secondary` with the implementation's.
Fragment (`Rule.isoOK`, `RegIsoOK`, `CoreIsoOK`): no pattern variable is called `secondary`
(`matches` is allowed).  The `secondary` label itself is not compared: it records the node a
relation's sub-rule *returned*, and a wrapped sub-rule returns the candidate instead of the node
it found (`isolate_example`). -/

/-- the context of the oracle is `isoCtx` -/
theorem isoCtx_is_the_oracle_context (ctx : RCtx) :
    isoCtx ctx = { ctx with locals := ctx.locals.map fun (k, r) => (k, Spec.isolate r),
                            globals := ctx.globals.map fun (k, c) => (k, Spec.isolateCore c) } := rfl

/-- whenever the isolated rule (in the isolated context) ends normally, the rule itself ends
normally with the same fuel, the same verdict, and the same environment up to the `secondary`
label -/
theorem isolate_simulates (ctx : RCtx) (hreg : RegIsoOK ctx) (f : Nat) (r : Rule)
    (hr : r.isoOK = true) (n : Tree) (env : Env) (x : Option Tree × Env)
    (h : matchRule (isoCtx ctx) f (Spec.isolate r) n env = .ok x) :
    ∃ y, matchRule ctx f r n env = .ok y ∧ x.1.isSome = y.1.isSome ∧ EqNS x.2 y.2 :=
  isolate_simulates' ctx hreg f r hr n env x h

/-- rules, through `matches`: whenever both evaluations end normally (any two fuels) they agree
on success/failure, on the single bindings (the whole list), on every multi binding other than
the label `secondary`, and on `transformed` -/
theorem isolate_agrees (ctx : RCtx) (hreg : RegIsoOK ctx) (fuel fuel' : Nat) (r : Rule)
    (hr : r.isoOK = true) (n : Tree) (env : Env) (res res' : Option Tree) (e e' : Env)
    (h : matchRule (isoCtx ctx) fuel (Spec.isolate r) n env = .ok (res, e))
    (h' : matchRule ctx fuel' r n env = .ok (res', e')) :
    res.isSome = res'.isSome ∧ e.single = e'.single ∧
    (∀ v, v ≠ secondaryLabel → alookup v e.multi = alookup v e'.multi) ∧
    e.transformed = e'.transformed := by
  obtain ⟨h1, h2⟩ := isolate_agrees' ctx hreg fuel fuel' r hr n env _ _ h h'
  exact ⟨h1, h2.lookups⟩

/-- **what the oracle compares** (`opOracleIsolate`): `matchCore` on the isolated core in the
isolated context against `matchCore` on the core itself — rule, constraints and registries all
isolated on one side.  Whenever both end normally: same verdict, same single bindings, same multi
bindings once the `secondary` label is filtered out (the driver's `projected`). -/
theorem isolate_agrees_full (ctx : RCtx) (hreg : RegIsoOK ctx) (fuel fuel' : Nat) (core : RuleCore)
    (hc : CoreIsoOK core) (n : Tree) (env : Env) (res res' : Option Tree) (e e' : Env)
    (h : matchCore (isoCtx ctx) fuel (Spec.isolateCore core) n env = .ok (res, e))
    (h' : matchCore ctx fuel' core n env = .ok (res', e')) :
    res.isSome = res'.isSome ∧ e.single = e'.single ∧
    e.multi.filter (fun kv => kv.1 != secondaryLabel) = e'.multi.filter (fun kv => kv.1 != secondaryLabel) ∧
    e.transformed = e'.transformed := by
  obtain ⟨h1, h2⟩ := isolateCore_agrees' ctx hreg fuel fuel' core hc n env _ _ h h'
  refine ⟨h1, h2.single, ?_, h2.transformed⟩
  have hm : restrictL nsV e.multi = restrictL nsV e'.multi := congrArg Env.multi
    (show restrictMulti nsV e = restrictMulti nsV e' from h2)
  have hf : ∀ l : List (Name × List Tree),
      l.filter (fun kv => kv.1 != secondaryLabel) = restrictL nsV l := by
    intro l; unfold restrictL; congr 1; funext kv
    by_cases hk : kv.1 = secondaryLabel <;> simp [nsV, hk]
  rw [hf, hf]; exact hm

/-- the simulation for cores: a normal outcome of the oracle's run gives a normal outcome of the
evaluator at the same fuel -/
theorem isolateCore_simulates (ctx : RCtx) (hreg : RegIsoOK ctx) (f : Nat) (core : RuleCore)
    (hc : CoreIsoOK core) (n : Tree) (env : Env) (x : Option Tree × Env)
    (h : matchCore (isoCtx ctx) f (Spec.isolateCore core) n env = .ok x) :
    ∃ y, matchCore ctx f core n env = .ok y ∧ x.1.isSome = y.1.isSome ∧ EqNS x.2 y.2 :=
  isolateCore_simulates' ctx hreg f core hc n env x h

/-! ## 5. Counter-examples and non-vacuity

`matchRule` is compiled by well-founded recursion, so the kernel cannot evaluate it (`decide`
does not apply); the concrete runs below are computed by rewriting with the defining equations.
The pattern matcher and `exactMatch` do reduce: those parts are by `rfl` / `decide`. -/

namespace Ex

/-- the document `ab`: a root with the two named leaves `a` (kind 1) and `b` (kind 2) -/
abbrev c1 : Tree := .node ⟨1, true, false, false, 0, 1, none, 1⟩ []
abbrev c2 : Tree := .node ⟨2, true, false, false, 1, 2, none, 2⟩ []
abbrev doc : Tree := .node ⟨0, true, false, false, 0, 2, none, 0⟩ [c1, c2]
/-- the pattern `$A` -/
abbrev pA : PNode := .metaVar (.capture ['A'] true)
abbrev pB : PNode := .metaVar (.capture ['B'] true)
/-- global utility `u`: `rule: {pattern: $A}`, `constraints: {A: {kind: 2}}` -/
def util : RuleCore := { rule := .pattern pA none .smart, constraints := [(['A'], .kind 2)] }
def ctxLeak : RCtx :=
  { src := [97, 98], root := doc, regex := fun _ _ => false, globals := [(['u'], util)] }
/-- the same utility without the constraint, and a local utility -/
def ctxOK : RCtx :=
  { src := [97, 98], root := doc, regex := fun _ _ => false,
    locals := [(['l'], .kind 2)], globals := [(['u'], { rule := .pattern pA none .smart })] }

abbrev envA (t : Tree) : Env := ⟨[(['A'], t)], [], []⟩

theorem pA_c1 : matchPatternEnv .smart [97, 98] (matchFuel pA c1) pA c1 Env.empty
    = .ok (some (envA c1)) := by rfl
theorem pA_c2 : matchPatternEnv .smart [97, 98] (matchFuel pA c2) pA c2 Env.empty
    = .ok (some (envA c2)) := by rfl
theorem pA_c2' : matchPatternEnv .smart [97, 98] (matchFuel pA c2) pA c2 (envA c1)
    = .ok none := by rfl
theorem pA_c1' : matchPatternEnv .smart [97, 98] (matchFuel pA c1) pA c1 (envA c1)
    = .ok (some (envA c1)) := by rfl
theorem pB_c1' : matchPatternEnv .smart [97, 98] (matchFuel pB c1) pB c1 (envA c1)
    = .ok (some ⟨[(['A'], c1), (['B'], c1)], [], []⟩) := by rfl

end Ex

open Ex

/-- **regression** (was `matchCore_constraint_failure_keeps_rule_bindings`): the rule `$A` of the
utility matches the node `a` and binds `A`, the constraint `A: kind 2` fails — and the caller gets
its own (here: empty) environment back.  Before the repair `RuleCore::do_match` returned `None`
without undoing the bindings the rule had made in the caller's `Cow`. -/
theorem matchCore_constraint_failure_restores_env :
    matchCore ctxLeak 9 util c1 Env.empty = .ok (none, Env.empty) := by
  simp [matchRule, matchCore, constraintLoop, sortByName, insertByName, alookup, ctxLeak, util, kindsGate, pA_c1,
    Tree.kind, Tree.info]

/-- **regression** (was `no_trace_counterexample`): through `matches` the failure of a global
utility with a constraint leaves the caller's environment alone -/
theorem matches_constraint_failure_no_trace :
    matchRule ctxLeak 10 (.matches ['u']) c1 Env.empty = .ok (none, Env.empty) := by
  simp [matchRule, matchCore, constraintLoop, sortByName, insertByName, alookup, ctxLeak, util, kindsGate, pA_c1,
    Tree.kind, Tree.info]

/-- **regression** (was the finding `rejected_candidate_influences_outcome`): `has: {matches: u}`
on the root of `ab`.  Candidate `a` is rejected by the constraint of `u` and leaves no trace;
candidate `b` is then judged from the caller's environment and accepted — with the very
environment `matches: u` produces on `b` alone, and the same result as the rule wrapped in `all`.
(On the binary: `utils/u.yml = {id: u, rule: {pattern: $A}, constraints: {A: {kind: number}}}`,
`rule: {kind: arguments, has: {matches: u}}` now accepts `foo(x, 1)` like `foo(1, x)`.) -/
theorem rejected_candidate_leaves_no_trace :
    matchRule ctxLeak 12 (.has (.matches ['u']) .neighbor none) doc Env.empty
      = .ok (some c2, (envA c2).addLabel secondaryLabel c2) ∧
    matchRule ctxLeak 12 (.matches ['u']) c2 Env.empty = .ok (some c2, envA c2) ∧
    matchRule ctxLeak 12 (.has (.all [.matches ['u']] none) .neighbor none) doc Env.empty
      = .ok (some c2, (envA c2).addLabel secondaryLabel c2) := by
  refine ⟨?_, ?_, ?_⟩
  · simp [matchRule, matchHas, findMapRule, finderStep, withLabel, matchCore, constraintLoop, sortByName, insertByName,
      alookup, ctxLeak, util, kindsGate, pA_c1, pA_c2, Tree.children, Tree.kind, Tree.info]
  · simp [matchRule, matchCore, constraintLoop, sortByName, insertByName, alookup, ctxLeak, util, kindsGate, pA_c2,
      Tree.kind, Tree.info]
  · simp [matchRule, matchHas, findMapRule, finderStep, withLabel, matchCore, constraintLoop, sortByName, insertByName,
      allLoop, alookup, ctxLeak, util, kindsGate, pA_c1, pA_c2, Tree.children, Tree.kind, Tree.info]

/-- `exactMatch` is not transitive (a named leaf is compared by text, inner nodes by
structure, which ignores the trivia between the children): in `x x  x`, the leaf `x␣`, the node
`x␣` with child `x`, and the node `x` with child `x`. -/
theorem exactMatch_not_trans_example :
    let src : Bytes := [120, 32, 120, 32, 32, 120]
    let a : Tree := .node ⟨1, true, false, false, 0, 2, none, 1⟩ []
    let b : Tree := .node ⟨2, true, false, false, 2, 4, none, 2⟩
      [.node ⟨3, true, false, false, 2, 3, none, 3⟩ []]
    let c : Tree := .node ⟨2, true, false, false, 5, 6, none, 4⟩
      [.node ⟨3, true, false, false, 5, 6, none, 5⟩ []]
    exactMatch src a b = true ∧ exactMatch src b c = true ∧ exactMatch src a c = false := by
  decide

/-! ### the hypotheses are satisfiable, the conclusions are not vacuous -/

/-- `no_trace` at work: `has: {matches: u}` (no constraint here) with a further `kind` test fails
on every candidate although `$A` matched each of them; the caller's environment comes back -/
example : matchRule ctxOK 12 (.has (.all [.matches ['u'], .kind 9] none) .neighbor none) doc
    Env.empty = .ok (none, Env.empty) := by
  simp [matchRule, matchHas, findMapRule, finderStep, withLabel, matchCore, constraintLoop, sortByName, insertByName,
    allLoop, alookup, ctxOK, kindsGate, pA_c1, pA_c2, Tree.children, Tree.kind, Tree.info]

/-- `match_extends` / `all_exposes_union` at work: `all: [{pattern: $A}, {pattern: $B}]` on `a` -/
example : matchRule ctxOK 5 (.all [.pattern pA none .smart, .pattern pB none .smart] none) c1
    Env.empty = .ok (some c1, ⟨[(['A'], c1), (['B'], c1)], [], []⟩) := by
  simp [matchRule, allLoop, ctxOK, kindsGate, pA_c1, pB_c1']

/-- `any_exposes_winner` at work: the first alternative fails, the second wins -/
example : matchRule ctxOK 5 (.any [.kind 9, .pattern pA none .smart] none) c1 Env.empty
    = .ok (some c1, envA c1) := by
  simp [matchRule, anyLoop, ctxOK, kindsGate, pA_c1, Tree.kind, Tree.info]

/-- `insert_coherent` at work: rebinding `A` to the same node is accepted, to a different text
refused -/
example : Env.insert [97, 98] (envA c1) ['A'] c1 = some (envA c1) := by rfl
example : (Env.insert [97, 98] (envA c1) ['A'] c2).isNone = true := by decide

/-- `constraints_after_rule` at work: the constraint holds for `b` -/
example : matchCore ctxLeak 9 util c2 Env.empty = .ok (some c2, envA c2) := by
  simp [matchRule, matchCore, constraintLoop, sortByName, insertByName, alookup, ctxLeak, util, kindsGate, pA_c2,
    Tree.kind, Tree.info]

/-- the registries of `ctxOK` are in the fragment -/
theorem ctxOK_regIsoOK : RegIsoOK ctxOK := by
  have hsec : secondaryLabel = ['s', 'e', 'c', 'o', 'n', 'd', 'a', 'r', 'y'] := by rfl
  refine ⟨fun id q h => ?_, fun id core h => ?_⟩
  · simp only [ctxOK, alookup] at h
    split at h
    · simp only [Option.some.injEq] at h; subst h; rfl
    · cases h
  · simp only [ctxOK, alookup] at h
    split at h
    · simp only [Option.some.injEq] at h; subst h
      exact ⟨by simp [Rule.isoOK, PNode.vars, MetaVar.capNames, hsec],
        fun v m hv => by simp [alookup] at hv⟩
    · cases h

/-- `isolate_agrees` at work through `matches`, and why the returned node is not compared:
`has: {matches: u}` (`u = {pattern: $A}`) on the root of `ab` returns the child `a` it found; the
isolated form (a singleton `all` around the relation, in the isolated context) returns the root
itself.  Verdict and bindings are the same. -/
theorem isolate_example :
    (Rule.has (.matches ['u']) .neighbor none).isoOK = true ∧
    matchRule (isoCtx ctxOK) 16 (Spec.isolate (.has (.matches ['u']) .neighbor none)) doc Env.empty
      = .ok (some doc, (envA c1).addLabel secondaryLabel c1) ∧
    matchRule ctxOK 16 (.has (.matches ['u']) .neighbor none) doc Env.empty
      = .ok (some c1, (envA c1).addLabel secondaryLabel c1) := by
  refine ⟨?_, ?_, ?_⟩
  · simp [Rule.isoOK, StopBy.isoOK]
  · simp [Spec.isolate, Spec.isolateStop, Spec.isolateCore, isoCtx, matchRule, matchCore, allLoop,
      matchHas, findMapRule, finderStep, constraintLoop, sortByName, insertByName, withLabel, ctxOK,
      alookup, kindsGate, pA_c1, Tree.children]
  · simp [matchRule, matchCore, matchHas, findMapRule, finderStep, constraintLoop, sortByName,
      insertByName, withLabel, ctxOK, alookup, kindsGate, pA_c1, Tree.children]

end AGV.C04
