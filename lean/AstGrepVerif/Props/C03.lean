/-
C03 — a reported pattern match is justified: the matcher is sound against the alignment
specification `Spec.Aligns` (`Spec/Align.lean`), for every strictness level and both
aggregators.  Property theorems only; the simultaneous induction on the fuel lives in
`AstGrepVerif/Lemmas/MatchSound.lean`.
-/
import AstGrepVerif.Lemmas.MatchSound
import AstGrepVerif.Lemmas.MatchNodes

set_option linter.unusedSimpArgs false
set_option linter.unusedVariables false

namespace AGV.C03

open AGV Spec

/-! ## Soundness -/

/-- Whatever the aggregator (as long as a successful hole binding guarantees `ok`), whatever the
strictness, source and fuel: if the matcher reports `matchedBoth` for a well-formed pattern,
the pattern is aligned with the candidate in the sense of the specification. -/
theorem match_sound {σ : Type} (agg : Agg σ) (ok : MetaVar → Tree → Prop)
    (hagg : ∀ st mv c st', agg.metaVar st mv c = some st' → ok mv c)
    (s : Strictness) (src : Bytes) (fuel : Nat) (p : PNode) (hwf : PatternWF p) (c : Tree)
    (st st' : σ) (h : matchNode agg s src fuel p c st = .ok (.matchedBoth, st')) :
    Aligns s src ok p c :=
  matchNode_sound agg s src ok hagg fuel p hwf c st st' h

/-- the other verdicts of `matchNode` are justified too: a goal is only declared skippable when
the specification allows skipping it between candidates, and likewise a candidate -/
theorem match_skip_sound {σ : Type} (agg : Agg σ)
    (s : Strictness) (src : Bytes) (fuel : Nat) (p : PNode) (c : Tree)
    (st st' : σ) (r : MatchOne) (h : matchNode agg s src fuel p c st = .ok (r, st')) :
    ((r = .skipGoal ∨ r = .skipBoth) → goalSkippableMid s p = true) ∧
    ((r = .skipCandidate ∨ r = .skipBoth) → candSkippable s c = true) :=
  ((all_inv agg s src (fun _ _ => True) (fun _ _ _ _ _ => trivial) fuel).1 p c st r st' h).2

/-- list level: a successful `matchNodes` aligns the child lists -/
theorem match_nodes_sound {σ : Type} (agg : Agg σ) (ok : MetaVar → Tree → Prop)
    (hagg : ∀ st mv c st', agg.metaVar st mv c = some st' → ok mv c)
    (s : Strictness) (src : Bytes) (fuel : Nat) (ps : List PNode) (hne : ps ≠ [])
    (hwf : PNode.wfList ps = true) (cs : List Tree) (st st' : σ)
    (h : matchNodes agg s src fuel ps cs st = .ok (true, st')) :
    AlignsL s src ok ps cs :=
  (all_inv agg s src ok hagg fuel).2.1 ps cs st st' h hne hwf

/-- The well-formedness hypothesis is needed: an inner pattern node without children is
reported as a match (`mayMatchEllipsis` returns on `goals = []` without looking at the
candidates) although, under `cst`, the candidate's named child is left unmatched.
(`convert_node_to_pattern` turns a childless node into a `Terminal`, so it produces such an
`Internal` only for an inner node all of whose children are MISSING nodes, which it filters
out.) -/
theorem empty_internal_counterexample :
    let p := PNode.internal 1 []
    let c := Tree.node ⟨1, true, false, false, 0, 1, none, 0⟩
      [Tree.node ⟨2, true, false, false, 0, 1, none, 1⟩ []]
    (match matchNode (envAgg []) .cst [] 4 p c Env.empty with
      | .ok (.matchedBoth, _) => true
      | _ => false) = true ∧
    ¬ Aligns .cst [] holeNamedOK p c := by
  refine ⟨by decide, ?_⟩
  intro h
  cases h with
  | internal _ _ _ _ _ hl =>
    simp only [Tree.children] at hl
    generalize hps : ([] : List PNode) = ps at hl
    generalize hcs : [Tree.node ⟨2, true, false, false, 0, 1, none, 1⟩ []] = cs at hl
    cases hl with
    | done _ ht => subst hcs; have := ht _ (List.mem_singleton.2 rfl); simp [trailingSkippable] at this
    | goalsLeft => cases hcs
    | both => cases hps
    | skipCand _ _ _ hc => simp [candSkippable] at hc
    | skipGoal => cases hps
    | ellipsis => simp at hps

/-! ## The two real aggregators -/

/-- environment aggregator: holes marked *named* bind named nodes only -/
theorem match_sound_env (s : Strictness) (src : Bytes) (fuel : Nat) (p : PNode)
    (hwf : PatternWF p) (c : Tree) (env env' : Env)
    (h : matchNode (envAgg src) s src fuel p c env = .ok (.matchedBoth, env')) :
    Aligns s src holeNamedOK p c :=
  match_sound (envAgg src) holeNamedOK (envAgg_metaVar_ok src) s src fuel p hwf c env env' h

/-- end-offset aggregator (`ComputeEnd`, used by `get_match_len`) -/
theorem match_sound_end (s : Strictness) (src : Bytes) (fuel : Nat) (p : PNode)
    (hwf : PatternWF p) (c : Tree) (e e' : Nat)
    (h : matchNode endAgg s src fuel p c e = .ok (.matchedBoth, e')) :
    Aligns s src (fun _ _ => True) p c :=
  match_sound endAgg (fun _ _ => True) (fun _ _ _ _ _ => trivial) s src fuel p hwf c e e' h

/-- `match_node_non_recursive`: a reported match is an alignment -/
theorem pattern_match_sound (s : Strictness) (src : Bytes) (fuel : Nat) (p : PNode)
    (hwf : PatternWF p) (c : Tree) (env env' : Env)
    (h : matchPatternEnv s src fuel p c env = .ok (some env')) :
    Aligns s src holeNamedOK p c := by
  unfold matchPatternEnv at h
  split at h
  · cases h
  · next env1 hm => exact match_sound_env s src fuel p hwf c env env1 hm
  · cases h

/-- `match_end_non_recursive` / `get_match_len`: a reported length belongs to an alignment -/
theorem match_end_sound (s : Strictness) (src : Bytes) (fuel : Nat) (p : PNode)
    (hwf : PatternWF p) (c : Tree) (e : Nat)
    (h : matchEnd s src fuel p c = .ok (some e)) :
    Aligns s src (fun _ _ => True) p c := by
  unfold matchEnd at h
  split at h
  · cases h
  · next e1 hm => exact match_sound_end s src fuel p hwf c 0 e1 hm
  · cases h

theorem match_len_sound (s : Strictness) (src : Bytes) (fuel : Nat) (p : PNode)
    (hwf : PatternWF p) (c : Tree) (n : Nat)
    (h : matchLen s src fuel p c = .ok (some n)) :
    Aligns s src (fun _ _ => True) p c := by
  unfold matchLen at h
  split at h
  · cases h
  · cases h
  · next e he => exact match_end_sound s src fuel p hwf c e he

/-! ## What may stay unmatched inside the aligned region -/

/-- never a named non-comment node: a candidate the alignment leaves unmatched between matched
children is unnamed or a comment -/
theorem no_named_skipped (s : Strictness) (c : Tree) (h : candSkippable s c = true) :
    c.named = false ∨ c.info.comment = true := by
  cases s <;> simp [candSkippable] at h <;> simp [h]

/-- and a comment only from `relaxed` on -/
theorem named_comment_skipped_only_relaxed (s : Strictness) (c : Tree)
    (h : candSkippable s c = true) (hn : c.named = true) : s = .relaxed ∨ s = .signature := by
  cases s <;> simp [candSkippable, hn] at h <;> simp

/-- under `cst` nothing is skippable, on either side, anywhere -/
theorem cst_nothing_skippable (c : Tree) (p : PNode) :
    candSkippable .cst c = false ∧ trailingSkippable .cst c = false ∧
    goalSkippableMid .cst p = false ∧ goalSkippableEnd .cst p = false :=
  ⟨rfl, rfl, by cases p <;> rfl, rfl⟩

/-! ## `$$$` binds consecutive siblings -/

/-- Run the matcher with any aggregator wrapped by `logged` (which records, next to the
aggregator's own state, every node list a successful `ellipsis` call received).  Every list
that one `mayMatchEllipsis` call (with the `ellipsisScan` it starts) adds to the log is a
contiguous sub-list of the candidate list the call started with — or, for the `ellipsis`
calls made while comparing a goal with one of these candidates, a contiguous sub-list of the
children of one node below them. -/
theorem ellipsis_consecutive {σ : Type} (agg : Agg σ) (s : Strictness) (src : Bytes) (fuel : Nat)
    (goals : List PNode) (cands : List Tree) (st : σ) (lg : Log)
    (flow : Option Flow) (goals' : List PNode) (cands' : List Tree) (st' : σ) (lg' : Log)
    (h : mayMatchEllipsis (logged agg) s src fuel goals cands (st, lg)
      = .ok (flow, goals', cands', (st', lg'))) :
    ∃ new, lg' = lg ++ new ∧
      ∀ l ∈ new, l <:+: cands ∨ ∃ t ∈ Tree.preorderList cands, l <:+: t.children := by
  obtain ⟨new, e, hn⟩ := ((all_log agg s src fuel).2.2.2.1 _ _ _ _ h).1
  exact ⟨new, e, fun l hl => (hn l hl).spec⟩

/-- Sharper, since the trial comparison inside `may_match_ellipsis_impl`'s final loop runs on a
copy of the aggregator (`agg.clone()`): one `mayMatchEllipsis` call keeps only its own `ellipsis`
call, so every list it adds to the log is a contiguous sub-list of the candidate list it
started with — the second alternative of `ellipsis_consecutive` never occurs. -/
theorem ellipsis_consecutive_direct {σ : Type} (agg : Agg σ) (s : Strictness) (src : Bytes)
    (fuel : Nat) (goals : List PNode) (cands : List Tree) (st : σ) (lg : Log)
    (flow : Option Flow) (goals' : List PNode) (cands' : List Tree) (st' : σ) (lg' : Log)
    (h : mayMatchEllipsis (logged agg) s src fuel goals cands (st, lg)
      = .ok (flow, goals', cands', (st', lg'))) :
    ∃ new, lg' = lg ++ new ∧ ∀ l ∈ new, l <:+: cands :=
  may_log_direct agg s src fuel _ _ _ _ h

/-- the same for a whole `matchNode` run: every list handed to `ellipsis` is a contiguous run
of the children of one node of the candidate's subtree -/
theorem ellipsis_consecutive_node {σ : Type} (agg : Agg σ) (s : Strictness) (src : Bytes)
    (fuel : Nat) (p : PNode) (c : Tree) (st : σ) (lg : Log) (r : MatchOne) (st' : σ) (lg' : Log)
    (h : matchNode (logged agg) s src fuel p c (st, lg) = .ok (r, (st', lg'))) :
    ∃ new, lg' = lg ++ new ∧ ∀ l ∈ new, ∃ t ∈ c.preorder, l <:+: t.children := by
  obtain ⟨new, e, hn⟩ := (all_log agg s src fuel).1 _ _ _ _ h
  refine ⟨new, e, fun l hl => ?_⟩
  rw [Tree.preorder_eq]
  rcases (hn l hl).spec with h1 | ⟨t, ht, h2⟩
  · exact ⟨c, by simp, h1⟩
  · exact ⟨t, by simp [ht], h2⟩

/-- the wrapper is transparent: forgetting the log, the logged run is the plain run -/
theorem logged_transparent {σ : Type} (agg : Agg σ) (s : Strictness) (src : Bytes) (fuel : Nat)
    (p : PNode) (c : Tree) (st : σ) (lg : Log) :
    (matchNode (logged agg) s src fuel p c (st, lg)).map dropLog1
      = matchNode agg s src fuel p c st :=
  (all_sim agg s src fuel).1 p c (st, lg)

/-- For the environment aggregator itself: every run of `matchNode (envAgg src)` is the
projection of a logged run, and every node list `envAgg`'s `ellipsis` accepted in it (the list
whose first `len - skipped` nodes are bound to `$$$NAME`) is a contiguous run of the children
of one node of the candidate's subtree. -/
theorem ellipsis_consecutive_env (s : Strictness) (src : Bytes) (fuel : Nat) (p : PNode)
    (c : Tree) (env env' : Env) (r : MatchOne)
    (h : matchNode (envAgg src) s src fuel p c env = .ok (r, env')) :
    ∃ calls, matchNode (logged (envAgg src)) s src fuel p c (env, []) = .ok (r, (env', calls)) ∧
      ∀ l ∈ calls, ∃ t ∈ c.preorder, l <:+: t.children := by
  have hs := logged_transparent (envAgg src) s src fuel p c env []
  rw [h] at hs
  rcases hr : matchNode (logged (envAgg src)) s src fuel p c (env, []) with e | ⟨r1, env1, calls⟩
  · rw [hr] at hs; cases hs
  · rw [hr] at hs
    simp only [Except.map, dropLog1, Except.ok.injEq, Prod.mk.injEq] at hs
    obtain ⟨rfl, rfl⟩ := hs
    obtain ⟨new, e, hn⟩ := ellipsis_consecutive_node (envAgg src) s src fuel p c env [] _ _ _ hr
    exact ⟨calls, rfl, by simpa [e] using hn⟩

/-- what `envAgg` actually binds (the received list minus the skipped trailing trivia) is still
a contiguous run -/
theorem bound_run_infix {l cs : List Tree} (k : Nat) (h : l <:+: cs) : l.take k <:+: cs :=
  (List.take_prefix k l).isInfix.trans h

/-! ## Under `cst` the child lists correspond one to one -/

/-- one-to-one correspondence of child lists, an ellipsis standing for a run of siblings:
`Spec.AlignsL` without any skipping and without the leniency for unnamed tokens written
directly after an ellipsis -/
inductive AlignsStrict (R : PNode → Tree → Prop) : List PNode → List Tree → Prop
  | nil : AlignsStrict R [] []
  | both {p : PNode} {c : Tree} {ps : List PNode} {cs : List Tree} :
      R p c → AlignsStrict R ps cs → AlignsStrict R (p :: ps) (c :: cs)
  | ellipsis {p : PNode} {ps : List PNode} (run : List Tree) {cs : List Tree} :
      isEllipsis p = true → AlignsStrict R ps cs → AlignsStrict R (p :: ps) (run ++ cs)

/-- no unnamed token directly after an ellipsis -/
def noTriviaAfterEllipsis : List PNode → Bool
  | [] => true
  | p :: ps =>
    (match ps with
      | [] => true
      | q :: _ => !(isEllipsis p && q.isTrivial)) && noTriviaAfterEllipsis ps

/-- under `cst` no node is skipped on either side: for child lists without an unnamed token
directly after an ellipsis, an alignment is a one-to-one correspondence -/
theorem cst_strict (src : Bytes) (ok : MetaVar → Tree → Prop) (ps : List PNode)
    (hps : noTriviaAfterEllipsis ps = true) (cs : List Tree)
    (h : AlignsL .cst src ok ps cs) : AlignsStrict (Aligns .cst src ok) ps cs := by
  induction ps generalizing cs with
  | nil =>
    generalize hq : ([] : List PNode) = qs at h
    cases h with
    | done _ ht =>
      cases cs with
      | nil => exact .nil
      | cons c cs => have := ht c (by simp); simp [trailingSkippable] at this
    | goalsLeft => subst hq; exact .nil
    | both => cases hq
    | skipCand _ _ _ hc => simp [candSkippable] at hc
    | skipGoal => cases hq
    | ellipsis => simp at hq
  | cons p ps ih =>
    have hps' : noTriviaAfterEllipsis ps = true := by
      simp only [noTriviaAfterEllipsis, Bool.and_eq_true] at hps; exact hps.2
    generalize hq : p :: ps = qs at h
    cases h with
    | done => cases hq
    | goalsLeft _ hg =>
      subst hq
      have := hg p (by simp)
      simp [goalSkippableEnd] at this
    | both p' c ps' cs' ha hl =>
      cases hq
      exact .both ha (ih hps' _ hl)
    | skipCand _ _ _ hc => simp [candSkippable] at hc
    | skipGoal p' _ _ hg => rw [(cst_nothing_skippable default p').2.2.1] at hg; cases hg
    | ellipsis p' trivs ps' run cs' he ht hl =>
      cases trivs with
      | nil =>
        simp only [List.cons_append, List.nil_append, List.cons.injEq] at hq
        obtain ⟨rfl, rfl⟩ := hq
        exact .ellipsis run he (ih hps' _ hl)
      | cons t ts =>
        simp only [List.cons_append, List.cons.injEq] at hq
        obtain ⟨rfl, rfl⟩ := hq
        have htt := ht t (by simp)
        simp [noTriviaAfterEllipsis, he, htt] at hps

/-- in a one-to-one correspondence the last pattern child, if not an ellipsis, is related to
the last candidate -/
theorem AlignsStrict.last {R : PNode → Tree → Prop} (ps : List PNode) (p : PNode)
    (hp : isEllipsis p = false) (cs : List Tree) (h : AlignsStrict R (ps ++ [p]) cs) :
    ∃ cs' c, cs = cs' ++ [c] ∧ R p c := by
  induction ps generalizing cs with
  | nil =>
    generalize hq : [] ++ [p] = qs at h
    cases h with
    | nil => cases hq
    | both hr hl =>
      cases hq
      cases hl with
      | nil => exact ⟨[], _, rfl, hr⟩
    | ellipsis run he hl => cases hq; simp [hp] at he
  | cons q ps ih =>
    generalize hq : q :: ps ++ [p] = qs at h
    cases h with
    | nil => cases hq
    | both hr hl =>
      cases hq
      obtain ⟨cs', c, rfl, hc⟩ := ih _ hl
      exact ⟨_ :: cs', c, rfl, hc⟩
    | ellipsis run he hl =>
      cases hq
      obtain ⟨cs', c, rfl, hc⟩ := ih _ hl
      exact ⟨run ++ cs', c, by simp, hc⟩

/-- The leniency `Spec.AlignsL.ellipsis` grants for unnamed tokens after an ellipsis is really
used, even under `cst`: the pattern children `( $$$A )` are reported to match the candidate
children `( x ]` — the closing token is never compared, it only shortens the captured run —
although no one-to-one correspondence exists. -/
theorem ellipsis_trivia_counterexample :
    let ps := [PNode.terminal [40] false 2, .metaVar (.multiCapture ['A']), .terminal [41] false 3]
    let cs := [Tree.node ⟨2, false, false, false, 0, 1, none, 1⟩ [],
               Tree.node ⟨5, true, false, false, 1, 2, none, 2⟩ [],
               Tree.node ⟨4, false, false, false, 2, 3, none, 3⟩ []]
    let c := Tree.node ⟨10, true, false, false, 0, 3, none, 0⟩ cs
    (match matchPatternEnv .cst [40, 120, 93] 20 (.internal 10 ps) c Env.empty with
      | .ok (some env) => env.multi.map (fun b => (b.1, b.2.map Tree.id))
      | _ => []) = [(['A'], [2])] ∧
    ¬ AlignsStrict (Aligns .cst [40, 120, 93] holeNamedOK) ps cs := by
  refine ⟨by decide, ?_⟩
  intro h
  obtain ⟨cs', c, e, hc⟩ := AlignsStrict.last
    [PNode.terminal [40] false 2, .metaVar (.multiCapture ['A'])] (.terminal [41] false 3) rfl _ h
  have e2 := congrArg List.getLast? e
  simp only [List.getLast?_append, List.getLast?_singleton, Option.some_or] at e2
  simp only [List.getLast?_cons_cons, List.getLast?_singleton, Option.some.injEq] at e2
  subst e2
  cases hc with
  | terminal _ _ _ _ hk => simp [kindsMatch, Tree.kind, Tree.info, ERROR_KIND] at hk

/-! ## Non-vacuity -/

/-- the pattern `f($A)`: call(identifier `f`, arguments(`(`, `$A`, `)`)) -/
def exPattern : PNode :=
  .internal 10 [.terminal [102] true 1,
    .internal 11 [.terminal [40] false 2, .metaVar (.capture ['A'] true), .terminal [41] false 3]]

/-- the source `f(x)` and its tree -/
def exSrc : Bytes := [102, 40, 120, 41]
def exTree : Tree :=
  .node ⟨10, true, false, false, 0, 4, none, 0⟩
    [.node ⟨1, true, false, false, 0, 1, none, 1⟩ [],
     .node ⟨11, true, false, false, 1, 4, none, 2⟩
       [.node ⟨2, false, false, false, 1, 2, none, 3⟩ [],
        .node ⟨1, true, false, false, 2, 3, none, 4⟩ [],
        .node ⟨3, false, false, false, 3, 4, none, 5⟩ []]]

def okSome {α : Type} : Except Abn (Option α) → Bool
  | .ok (some _) => true
  | _ => false

theorem okSome_iff {α : Type} {r : Except Abn (Option α)} :
    okSome r = true ↔ ∃ a, r = .ok (some a) := by
  rcases r with e | (_ | a) <;> simp [okSome]

/-- the hypotheses of `pattern_match_sound` are satisfiable: a well-formed pattern with a
terminal, an inner node and a named hole matches a concrete tree at every strictness level,
binding `A` to the node `x` -/
example : PatternWF exPattern ∧
    ∀ s : Strictness, ∃ env, matchPatternEnv s exSrc (matchFuel exPattern exTree) exPattern exTree
      Env.empty = .ok (some env) := by
  refine ⟨by decide, fun s => okSome_iff.1 ?_⟩
  cases s <;> decide

example : (match matchPatternEnv .smart exSrc 20 exPattern exTree Env.empty with
    | .ok (some env) => env.single.map (fun b => (b.1, b.2.id))
    | _ => []) = [(['A'], 4)] := by decide

/-- so the conclusion of the soundness theorem holds for it -/
example : Aligns .smart exSrc holeNamedOK exPattern exTree := by
  obtain ⟨env, h⟩ : ∃ env, matchPatternEnv .smart exSrc 20 exPattern exTree Env.empty
      = .ok (some env) := okSome_iff.1 (by decide)
  exact pattern_match_sound .smart exSrc 20 exPattern (by decide) exTree Env.empty env h

/-- a non-match is not reported: `g(x)` -/
example : okSome (matchPatternEnv .smart [103, 40, 120, 41] 20 exPattern exTree Env.empty)
    = false := by decide

/-- the ellipsis theorem is not vacuous either: `f($$$A)` on `f(x)` hands the run `x )` to the
aggregator (skipping 1 trailing trivial goal), a contiguous part of the argument list -/
example :
    (match matchNode (logged (envAgg exSrc)) .smart exSrc 20
        (.internal 10 [.terminal [102] true 1,
          .internal 11 [.terminal [40] false 2, .metaVar (.multiCapture ['A']),
            .terminal [41] false 3]]) exTree (Env.empty, []) with
      | .ok (.matchedBoth, (env, calls)) =>
        (calls.map (·.map Tree.id), env.multi.map (fun b => (b.1, b.2.map Tree.id)))
      | _ => ([], [])) = ([[4, 5]], [(['A'], [4])]) := by decide

/-! ## The reported length: never beyond the node, never inside a token -/

/-- every candidate node the matcher hands to `ComputeEnd` belongs to the candidate's subtree,
so the end offset it reports is `0` (nothing was handed over: every pattern node was skipped)
or the end of a node of the subtree.  No hypothesis on the tree or the pattern. -/
theorem match_end_at_node_end (s : Strictness) (src : Bytes) (fuel : Nat) (p : PNode) (c : Tree)
    (e : Nat) (h : matchEnd s src fuel p c = .ok (some e)) :
    e = 0 ∨ ∃ d ∈ c.preorder, e = d.stop := by
  unfold matchEnd at h
  split at h
  · cases h
  · next e1 hm =>
    simp only [Except.ok.injEq, Option.some.injEq] at h; subst h
    exact matchNode_end_state s src fuel p c 0 _ _ hm
  · cases h

/-- … and, for a tree with well-formed byte ranges, it never exceeds the node -/
theorem match_end_bounds (s : Strictness) (src : Bytes) (fuel : Nat) (p : PNode) (c : Tree)
    (hwf : Tree.WF c) (e : Nat) (h : matchEnd s src fuel p c = .ok (some e)) :
    (e = 0 ∨ ∃ d ∈ c.preorder, e = d.stop) ∧ e ≤ c.stop := by
  have h1 := match_end_at_node_end s src fuel p c e h
  refine ⟨h1, ?_⟩
  rcases h1 with rfl | ⟨d, hd, rfl⟩
  · exact Nat.zero_le _
  · exact (Tree.wf_bounds c hwf d hd).2.2

theorem matchLen_eq_some {s : Strictness} {src : Bytes} {fuel : Nat} {p : PNode} {c : Tree}
    {n : Nat} (h : matchLen s src fuel p c = .ok (some n)) :
    ∃ e, matchEnd s src fuel p c = .ok (some e) ∧ c.start ≤ e ∧ c.start + n = e := by
  unfold matchLen at h
  split at h
  · cases h
  · cases h
  · next e he =>
    split at h
    · cases h
    · next hlt =>
      simp only [Except.ok.injEq, Option.some.injEq] at h
      exact ⟨e, he, by omega, by omega⟩

/-- `get_match_len`: the matched prefix `[c.start, c.start + n)` lies inside the node, and it is
empty or stops at the end of a node of the candidate's subtree -/
theorem match_len_bounds (s : Strictness) (src : Bytes) (fuel : Nat) (p : PNode) (c : Tree)
    (hwf : Tree.WF c) (n : Nat) (h : matchLen s src fuel p c = .ok (some n)) :
    c.start + n ≤ c.stop ∧ (n = 0 ∨ ∃ d ∈ c.preorder, c.start + n = d.stop) := by
  obtain ⟨e, he, hle, hn⟩ := matchLen_eq_some h
  obtain ⟨h1, h2⟩ := match_end_bounds s src fuel p c hwf e he
  refine ⟨by omega, ?_⟩
  rcases h1 with rfl | ⟨d, hd, rfl⟩
  · exact .inl (by omega)
  · exact .inr ⟨d, hd, hn⟩

/-- hence the cut never splits a token: it is not strictly inside any childless node of the
candidate's subtree -/
theorem match_len_no_token_split (s : Strictness) (src : Bytes) (fuel : Nat) (p : PNode)
    (c : Tree) (hwf : Tree.WF c) (n : Nat) (h : matchLen s src fuel p c = .ok (some n))
    (l : Tree) (hl : l ∈ c.preorder) (hleaf : l.children = []) :
    ¬ (l.start < c.start + n ∧ c.start + n < l.stop) := by
  obtain ⟨e, he, hle, hn⟩ := matchLen_eq_some h
  rcases match_end_at_node_end s src fuel p c e he with rfl | ⟨d, hd, rfl⟩
  · omega
  · rw [hn]; exact Tree.wf_no_split c hwf d hd l hl hleaf

/-- The disjunct `n = 0` is needed: when every pattern child is skipped (`ast`: two unnamed
pattern tokens against one unnamed candidate token of another kind) nothing is handed to
`ComputeEnd`, the end stays `0`, and for a node starting at offset `0` the reported length is
`0` although no node of the subtree ends there. -/
theorem match_len_zero_example :
    let p := PNode.internal 10 [.terminal [97] false 2, .terminal [98] false 3]
    let c := Tree.node ⟨10, true, false, false, 0, 1, none, 0⟩
      [Tree.node ⟨4, false, false, false, 0, 1, none, 1⟩ []]
    PatternWF p ∧ Tree.WF c ∧
    (match matchLen .ast [99] 20 p c with | .ok (some n) => some n | _ => none) = some 0 ∧
    ∀ d ∈ c.preorder, d.stop ≠ 0 := by decide

/-- The stronger reading "the cut never falls strictly inside a direct child" is false by design:
under `smart` the children after the last pattern child are ignored at every level.  The
pattern `f(x` (call(`f`, arguments(`(`, `x`))) matches the node `f(x,y)` with length 3: strictly
inside the direct child `(x,y)`, at the end of the grandchild `x`. -/
theorem match_end_direct_child_counterexample :
    let p := PNode.internal 10 [.terminal [102] true 1,
      .internal 11 [.terminal [40] false 2, .terminal [120] true 1]]
    let src : Bytes := [102, 40, 120, 44, 121, 41]
    let c := Tree.node ⟨10, true, false, false, 0, 6, none, 0⟩
      [.node ⟨1, true, false, false, 0, 1, none, 1⟩ [],
       .node ⟨11, true, false, false, 1, 6, none, 2⟩
         [.node ⟨2, false, false, false, 1, 2, none, 3⟩ [],
          .node ⟨1, true, false, false, 2, 3, none, 4⟩ [],
          .node ⟨6, false, false, false, 3, 4, none, 5⟩ [],
          .node ⟨1, true, false, false, 4, 5, none, 6⟩ [],
          .node ⟨3, false, false, false, 5, 6, none, 7⟩ []]]
    PatternWF p ∧ Tree.WF c ∧
    (match matchLen .smart src 40 p c with | .ok (some n) => some n | _ => none) = some 3 ∧
    (∃ ch ∈ c.children, ch.start < c.start + 3 ∧ c.start + 3 < ch.stop) ∧
    (∃ ch ∈ c.children, ∃ g ∈ ch.children, c.start + 3 = g.stop) := by decide

/-- non-vacuity: the example tree has well-formed ranges and the example pattern matches all
of it (`f(x)`, length 4 = the end of the node itself) -/
example : Tree.WF exTree ∧
    (match matchLen .smart exSrc 40 exPattern exTree with | .ok (some n) => some n | _ => none)
      = some 4 := by decide

/-- a tree whose child sticks out of its parent is rejected by `Tree.WF` -/
example : ¬ Tree.WF (.node ⟨10, true, false, false, 0, 2, none, 0⟩
    [.node ⟨1, true, false, false, 1, 3, none, 1⟩ []]) := by decide

end AGV.C03
