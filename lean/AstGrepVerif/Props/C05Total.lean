/-
C05, unconditional forms with the matcher hypothesis discharged.

`Props/C05.lean` proves `matchRule_total` / `rule_ref_equiv_total` under `RegPats ctx (PpK …)` and
`PatsAll (PpK …) r`: "on every pattern of the rule and of the utilities the pattern matcher ends
normally, and the variables of the patterns are in `K`".  `Lemmas/MatchTotal.lean` proves the first
half for every pattern (`matchPatternEnv_no_error`); what is left is the variable bookkeeping
`VarsIn K (docVars ctx r)` — decidable, and true by definition for `K := docVars ctx r`.
-/
import AstGrepVerif.Props.C05
import AstGrepVerif.Lemmas.RuleMatchTotal
import AstGrepVerif.Lemmas.CoreTotal

set_option linter.unusedSimpArgs false
set_option linter.unusedVariables false

namespace AGV.C05

open AGV Spec AGV.RuleFuelReg

/-- **the evaluator ends normally** on every node of the document, from `fuelBound` on: acyclic
registry (`RegRanked`), global utilities without constraints, references of `r` ranked below `Kr`,
and `K` lists the variables of all patterns of `r` and of the registries. -/
theorem matchRule_total_vars (ctx : RCtx) (rank : Name → Nat) (hrank : RegRanked ctx rank)
    (K : List Name) (r : Rule) (hK : VarsIn K (docVars ctx r)) (hnc : NoConstraints ctx)
    (Kr : Nat) (hrk : refsBelow rank Kr r = true) (n : Tree) (hn : n ∈ ctx.root.preorder)
    (fuel : Nat) (hf : fuelBound ctx K Kr r ≤ fuel) :
    ∃ res env', matchRule ctx fuel r n Env.empty = .ok (res, env') :=
  matchRule_total ctx rank hrank K (regPats_of_vars ctx _ K hK.right) hnc Kr r hrk
    (patsAll_of_vars ctx _ K r hK.left) n hn fuel hf

/-- the same with the computed `K := docVars ctx r`: no hypothesis about patterns at all -/
theorem matchRule_total_doc (ctx : RCtx) (rank : Name → Nat) (hrank : RegRanked ctx rank)
    (r : Rule) (hnc : NoConstraints ctx) (Kr : Nat) (hrk : refsBelow rank Kr r = true)
    (n : Tree) (hn : n ∈ ctx.root.preorder)
    (fuel : Nat) (hf : fuelBound ctx (docVars ctx r) Kr r ≤ fuel) :
    ∃ res env', matchRule ctx fuel r n Env.empty = .ok (res, env') :=
  matchRule_total_vars ctx rank hrank (docVars ctx r) r (VarsIn.refl _) hnc Kr hrk n hn fuel hf

/-- **`rule_ref_equiv`, unconditional, matcher hypothesis discharged**: for a variable-disjoint
rule over an acyclic, capture-free registry, on a document with unique ids and no zero-width
nodes, the evaluator run with `fuelBound` from the empty environment succeeds exactly when the
reference semantics (at the same fuel) says so. -/
theorem rule_ref_equiv_total_vars (ctx : RCtx) (hctx : CtxVarFree ctx) (hu : Tree.UniqueIds ctx.root)
    (hz : NoZeroWidth ctx.root) (rank : Name → Nat) (hrank : RegRanked ctx rank)
    (K : List Name) (r : Rule) (hK : VarsIn K (docVars ctx r))
    (Kr : Nat) (hr : r.varDisjoint = true) (hrk : refsBelow rank Kr r = true)
    (n : Tree) (hn : n ∈ ctx.root.preorder) :
    (∃ m env', matchRule ctx (fuelBound ctx K Kr r) r n Env.empty = .ok (some m, env')) ↔
      sat ctx (fuelBound ctx K Kr r) r n = true :=
  rule_ref_equiv_total ctx hctx hu hz rank hrank K (regPats_of_vars ctx _ K hK.right) Kr r hr hrk
    (patsAll_of_vars ctx _ K r hK.left) n hn

/-- and for every larger fuel on both sides -/
theorem rule_ref_equiv_total_vars' (ctx : RCtx) (hctx : CtxVarFree ctx) (hu : Tree.UniqueIds ctx.root)
    (hz : NoZeroWidth ctx.root) (rank : Name → Nat) (hrank : RegRanked ctx rank)
    (K : List Name) (r : Rule) (hK : VarsIn K (docVars ctx r))
    (Kr : Nat) (hr : r.varDisjoint = true) (hrk : refsBelow rank Kr r = true)
    (n : Tree) (hn : n ∈ ctx.root.preorder)
    (f f' : Nat) (hf : fuelBound ctx K Kr r ≤ f) (hf' : f ≤ f') :
    (∃ m env', matchRule ctx f r n Env.empty = .ok (some m, env')) ↔ sat ctx f' r n = true :=
  rule_ref_equiv_total' ctx hctx hu hz rank hrank K (regPats_of_vars ctx _ K hK.right) Kr r hr hrk
    (patsAll_of_vars ctx _ K r hK.left) n hn f f' hf hf'

/-- with the computed `K` and the computed rank (`RegAcyclicAll` is decidable): every hypothesis
left is a decidable property of the rule, the registries and the document -/
theorem rule_ref_equiv_total_doc (ctx : RCtx) (hctx : CtxVarFree ctx) (hu : Tree.UniqueIds ctx.root)
    (hz : NoZeroWidth ctx.root) (hacyc : RegAcyclicAll ctx) (r : Rule)
    (Kr : Nat) (hr : r.varDisjoint = true) (hrk : refsBelow (regRank ctx) Kr r = true)
    (n : Tree) (hn : n ∈ ctx.root.preorder)
    (f f' : Nat) (hf : fuelBound ctx (docVars ctx r) Kr r ≤ f) (hf' : f ≤ f') :
    (∃ m env', matchRule ctx f r n Env.empty = .ok (some m, env')) ↔ sat ctx f' r n = true :=
  rule_ref_equiv_total_vars' ctx hctx hu hz (regRank ctx) hacyc (docVars ctx r) r (VarsIn.refl _)
    Kr hr hrk n hn f f' hf hf'

/-! ### non-vacuity -/

namespace Ex

/-- the document `abc` of `Props/C05.lean` with a local utility that captures:
`u := has: {pattern: $B}` -/
def ctxU : RCtx :=
  { ctxV with locals := [(['u'], .has (.pattern pB none .smart) .neighbor none)] }

/-- `all: [{pattern: $A}, {matches: u}]` -/
def sampleU : Rule := .all [.pattern pA none .smart, .matches ['u']] none

theorem ctxU_acyclic : RegAcyclicAll ctxU := by decide +kernel

theorem docVars_sampleU : docVars ctxU sampleU = [['A'], ['B']] := by decide +kernel

theorem e1_inDocU : e1 ∈ ctxU.root.preorder := by
  show e1 ∈ docV.preorder
  simp [Tree.preorder, Tree.preorderList]

/-- every hypothesis of `matchRule_total_doc` holds for `sampleU` over `ctxU`: the evaluator ends
normally from `e1` with every fuel from the bound on -/
theorem matchRule_total_doc_example : ∀ fuel, fuelBound ctxU (docVars ctxU sampleU) 1 sampleU ≤ fuel →
    ∃ res env', matchRule ctxU fuel sampleU e1 Env.empty = .ok (res, env') := by
  intro fuel hf
  refine matchRule_total_doc ctxU (regRank ctxU) ctxU_acyclic sampleU ?_ 1 (by decide +kernel) e1
    e1_inDocU fuel hf
  intro id core h
  simp [ctxU, ctxV, alookup] at h

/-- the bound is a number -/
theorem fuelBound_sampleU : fuelBound ctxU (docVars ctxU sampleU) 1 sampleU = 17 := by
  decide +kernel

/-- a general `K` (a superset, in another order) -/
example : VarsIn [['B'], ['Z'], ['A']] (docVars ctxU sampleU) := by decide +kernel

/-- every hypothesis of `rule_ref_equiv_total_doc` holds for the variable-disjoint `sampleVars`
(`all: [{pattern: $A}, {has: {pattern: $B}}]`) over `ctxV` -/
theorem rule_ref_equiv_total_doc_example :
    (∃ m env', matchRule ctxV (fuelBound ctxV (docVars ctxV sampleVars) 0 sampleVars) sampleVars e1
        Env.empty = .ok (some m, env')) ↔
      sat ctxV (fuelBound ctxV (docVars ctxV sampleVars) 0 sampleVars) sampleVars e1 = true := by
  refine rule_ref_equiv_total_doc ctxV ⟨fun id r h => by simp [ctxV, alookup] at h,
      fun id core h => by simp [ctxV, alookup] at h⟩ (by decide) (by decide) (by decide +kernel)
    sampleVars 0 sampleVars_ok.1 (by decide +kernel) e1 ?_ _ _ (Nat.le_refl _) (Nat.le_refl _)
  show e1 ∈ docV.preorder
  simp [Tree.preorder, Tree.preorderList]

end Ex

/-! ## global utilities WITH constraints: termination only

`matchRule_total_vars` / `matchRule_total_doc` ask `NoConstraints ctx`; the versions below do not
(`Lemmas/CoreTotal.lean`: the environment invariant also says that bound nodes are nodes of the
document, so the constraint loop of a global utility runs on nodes of the document).

There is **no gain for `rule_ref_equiv_total_*`**: `CtxVarFree` already forces constraint-free
global utilities, and it has to — the reference semantics `sat` ignores constraints
(`global_constraints_counterexample` in `Props/C05.lean`), so with a constrained global utility the
equivalence itself is false, not merely unproved. -/

/-- `matchRule_total_vars` without `NoConstraints`, from any environment whose single bindings are
keyed by distinct names of `K` and bind nodes of the document -/
theorem matchRule_total_vars_cons (ctx : RCtx) (rank : Name → Nat) (hrank : RegRanked ctx rank)
    (K : List Name) (r : Rule) (hK : VarsIn K (docVars ctx r))
    (Kr : Nat) (hrk : refsBelow rank Kr r = true) (n : Tree) (hn : n ∈ ctx.root.preorder)
    (env : Env) (henv : EnvKS K ctx.root.preorder env)
    (fuel : Nat) (hf : fuelBound ctx K Kr r ≤ fuel) :
    ∃ res env', matchRule ctx fuel r n env = .ok (res, env') := by
  obtain ⟨⟨res, env'⟩, h⟩ := matchRule_total_env ctx rank hrank K r hK Kr hrk n hn env henv fuel hf
  exact ⟨res, env', h⟩

/-- `matchRule_total_doc` without `NoConstraints`: computed `K`, empty environment -/
theorem matchRule_total_doc_cons (ctx : RCtx) (rank : Name → Nat) (hrank : RegRanked ctx rank)
    (r : Rule) (Kr : Nat) (hrk : refsBelow rank Kr r = true)
    (n : Tree) (hn : n ∈ ctx.root.preorder)
    (fuel : Nat) (hf : fuelBound ctx (docVars ctx r) Kr r ≤ fuel) :
    ∃ res env', matchRule ctx fuel r n Env.empty = .ok (res, env') :=
  matchRule_total_vars_cons ctx rank hrank (docVars ctx r) r (VarsIn.refl _) Kr hrk n hn Env.empty
    (EnvKS.empty _ _) fuel hf

/-- the same for a rule core (what a scan runs on every node: rule, then its constraint loop) -/
theorem matchCore_total_doc_cons (ctx : RCtx) (rank : Name → Nat) (hrank : RegRanked ctx rank)
    (core : RuleCore) (Kr : Nat) (hrk : coreRefsBelow rank Kr core)
    (n : Tree) (hn : n ∈ ctx.root.preorder)
    (fuel : Nat) (hf : coreBound ctx (scanVars ctx core) Kr core ≤ fuel) :
    ∃ res env', matchCore ctx fuel core n Env.empty = .ok (res, env') := by
  obtain ⟨⟨res, env'⟩, h⟩ := matchCore_total_doc ctx rank hrank (scanVars ctx core) core
    (VarsIn.refl _) Kr hrk n hn fuel hf
  exact ⟨res, env', h⟩

namespace Ex

/-- `ctxU` with a CONSTRAINED global utility
`c := {rule: {pattern: $C}, constraints: {C: {matches: u}}}` -/
def ctxUC : RCtx :=
  { ctxU with
    globals := [(['c'], { rule := .pattern (.metaVar (.capture ['C'] true)) none .smart,
                          constraints := [(['C'], .matches ['u'])] })] }

/-- `all: [{pattern: $A}, {matches: c}]` -/
def sampleUC : Rule := .all [.pattern pA none .smart, .matches ['c']] none

theorem ctxUC_acyclic : RegAcyclicAll ctxUC := by decide +kernel

theorem ctxUC_has_constraints : ¬ NoConstraints ctxUC := by
  intro h
  have := h ['c'] _ (show alookup ['c'] ctxUC.globals = some _ by simp [ctxUC, alookup]; rfl)
  simp at this

/-- every hypothesis of `matchRule_total_doc_cons` holds for `sampleUC` over `ctxUC`: normal
outcome from `e1` with every fuel from the bound on, although `c` carries a constraint -/
theorem matchRule_total_doc_cons_example :
    ∀ fuel, fuelBound ctxUC (docVars ctxUC sampleUC) 2 sampleUC ≤ fuel →
      ∃ res env', matchRule ctxUC fuel sampleUC e1 Env.empty = .ok (res, env') := by
  intro fuel hf
  refine matchRule_total_doc_cons ctxUC (regRank ctxUC) ctxUC_acyclic sampleUC 2 (by decide +kernel) e1
    ?_ fuel hf
  show e1 ∈ docV.preorder
  simp [Tree.preorder, Tree.preorderList]

/-- the bound is a number -/
theorem fuelBound_sampleUC : fuelBound ctxUC (docVars ctxUC sampleUC) 2 sampleUC = 24 := by
  decide +kernel

end Ex

end AGV.C05
