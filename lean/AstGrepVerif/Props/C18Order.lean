/-
C18, the order in which `scan --update-all` / `--interactive` tries the fixes of one document.
Property theorems only; helper lemmas live in `AstGrepVerif/Lemmas/DiffOrder.lean`.

Model: `Model/DiffOrder.lean` (`discoveryOrder`: what `CombinedScan::scan` pushes;
`intoResultDiffs`: `ScanResultInner::into_result` as it is in `/repo` since b082f8d, the STABLE
`sort_by_key`; `intoResultDiffsUnstable sort`: the pinned v0.37.0, `sort_unstable_by_key`, of which
only `IsSortByKey sort` is known).  The printer's greedy filter is `processDiffs`
(`Model/Interactive.lean`, pinned) / `processDiffsFixed` (`Model/InteractiveFixed.lean`, the code
path of `/repo` with FIX_C18); with no diff confirmed earlier for the file the two coincide.
-/
import AstGrepVerif.Lemmas.DiffOrder

set_option linter.unusedSimpArgs false
set_option linter.unusedVariables false

namespace AGV.C18
open Tree

/-! ## a. `into_result` permutes and sorts -/

/-- nothing is lost, nothing is invented: with the unused-suppression rule the result is a
permutation of the found diffs and the unused suppressions, without it the found diffs as they are -/
theorem intoResult_perm (unusedRule : Bool) (ds us : List DiffItem) :
    (intoResultDiffs unusedRule ds us).Perm (if unusedRule then ds ++ us else ds) := by
  cases unusedRule
  · exact List.Perm.refl _
  · exact stableSortByKey_perm _

/-- with the unused-suppression rule the result is sorted by the start of the matched node -/
theorem intoResult_sorted (ds us : List DiffItem) : SortedByKey (intoResultDiffs true ds us) :=
  stableSortByKey_sorted _

/-! ## b. the sort is stable -/

/-- **items with the same start keep the relative order they have in `diffs ++ unused`**: for
every key the class of that key is the same list before and after -/
theorem intoResult_stable (ds us : List DiffItem) (k : Nat) :
    (intoResultDiffs true ds us).filter (fun x => x.key = k) = (ds ++ us).filter (fun x => x.key = k) :=
  keyClass_stableSort k (ds ++ us)

/-- `intoResult_sorted` and `intoResult_stable` determine the result: it is THE key-sorted list
whose classes of equal keys are those of `diffs ++ unused` -/
theorem intoResult_unique (ds us l : List DiffItem) (hs : SortedByKey l)
    (hst : ∀ k, l.filter (fun x => x.key = k) = (ds ++ us).filter (fun x => x.key = k)) :
    l = intoResultDiffs true ds us :=
  sorted_eq_of_keyClass_eq _ _ hs (intoResult_sorted ds us) fun k =>
    (hst k).trans (intoResult_stable ds us k).symm

/-- the unused suppressions come out of a `HashMap` in arbitrary order; when they start at pairwise
different bytes (distinct comment nodes) that order does not reach the result -/
theorem intoResult_unused_order_irrelevant (ds us us' : List DiffItem) (hp : us.Perm us')
    (hnd : (us.map (·.key)).Nodup) :
    intoResultDiffs true ds us = intoResultDiffs true ds us' := by
  refine intoResult_unique ds us' _ (intoResult_sorted ds us) fun k => ?_
  rw [intoResult_stable, List.filter_append, List.filter_append]
  exact congrArg _ (keyClass_perm_of_nodup_keys k us us' hp hnd)

/-! ## c. without unused suppressions: the announced order -/

/-- pre-order visits the nodes of a tree with well-formed ranges (`Spec/TreeOrder.lean`:
children ordered, disjoint and inside the parent) by non-decreasing start byte -/
theorem preorder_starts_sorted (t : Tree) (h : t.RangesWF) :
    t.preorder.Pairwise (fun a b => a.start ≤ b.start) :=
  Tree.preorder_starts_sorted t.size t (Nat.le_refl _) h

/-- what `scan` pushes to `result.diffs` is sorted by the start of the matched node, whatever the
rules and suppressions are -/
theorem discoveryOrder_sorted (nRules : Nat) (hit : Nat → Tree → Option Diff) (root : Tree)
    (h : root.RangesWF) : SortedByKey (discoveryOrder nRules hit root) := by
  have hkey : ∀ n, ∀ x ∈ discoveredAt nRules hit n, x.key = n.start := by
    intro n x hx
    simp only [discoveredAt, List.mem_filterMap, Option.map_eq_some_iff] at hx
    obtain ⟨_, _, _, _, rfl⟩ := hx
    rfl
  unfold discoveryOrder SortedByKey
  rw [List.pairwise_flatMap]
  constructor
  · intro n _
    refine List.Pairwise.imp_of_mem (R := fun _ _ => True) ?_ (List.pairwise_of_forall (fun _ _ => trivial))
    intro a b ha hb _
    rw [hkey n a ha, hkey n b hb]
    exact Nat.le_refl _
  · refine (preorder_starts_sorted root h).imp ?_
    intro a b hab x hx y hy
    rw [hkey a x hx, hkey b y hy]
    exact hab

/-- **a list that is already sorted by start passes `into_result` unchanged** (no unused
suppression to merge in) -/
theorem intoResult_discovery_order (ds : List DiffItem) (h : SortedByKey ds) :
    intoResultDiffs true ds [] = ds := by
  simp only [intoResultDiffs, if_true, List.append_nil]
  exact stableSortByKey_of_sorted ds h

/-- **with no unused suppression comment a scan hands the printer the fixes in exactly the order
in which it found them** (pre-order position of the node, then rule index — the order of the
`--json` stream of the same rules), with or without the unused-suppression rule: what is announced
first is what `-U` tries first -/
theorem scan_keeps_discovery_order (unusedRule : Bool) (nRules : Nat)
    (hit : Nat → Tree → Option Diff) (root : Tree) (h : root.RangesWF) :
    intoResultDiffs unusedRule (discoveryOrder nRules hit root) [] = discoveryOrder nRules hit root := by
  cases unusedRule
  · rfl
  · exact intoResult_discovery_order _ (discoveryOrder_sorted nRules hit root h)

/-! ## d. the pinned `sort_unstable_by_key`: the accepted fix is not determined by the announcement -/

private def mk (id kind s e : Nat) (cs : List Tree) : Tree :=
  .node ⟨kind, true, false, false, s, e, none, id⟩ cs

/-- `foo(foo(9))` (JavaScript): `call_expression` = 1, `identifier` = 2, `arguments` = 3,
`number` = 4, `(` = 5, `)` = 6 -/
def cexDoc : Tree :=
  mk 0 1 0 11 [mk 1 2 0 3 [], mk 2 3 3 11 [mk 3 5 3 4 [],
    mk 4 1 4 10 [mk 5 2 4 7 [], mk 6 3 7 10 [mk 7 5 7 8 [], mk 8 4 8 9 [], mk 9 6 9 10 []]],
    mk 10 6 10 11 []]]

/-- rule 0 = `b`: `foo($A)` → `bar($A)`; rule 1 = `c`: `foo($A)` → `baz($A)` -/
def cexOuterB : Diff := ⟨0, 11, [98, 97, 114, 40, 102, 111, 111, 40, 57, 41, 41]⟩   -- bar(foo(9))
def cexOuterC : Diff := ⟨0, 11, [98, 97, 122, 40, 102, 111, 111, 40, 57, 41, 41]⟩   -- baz(foo(9))
def cexInnerB : Diff := ⟨4, 10, [98, 97, 114, 40, 57, 41]⟩                           -- bar(9)
def cexInnerC : Diff := ⟨4, 10, [98, 97, 122, 40, 57, 41]⟩                           -- baz(9)

def cexHit (idx : Nat) (n : Tree) : Option Diff :=
  if n.kind = 1 then
    match idx, n.start with
    | 0, 0 => some cexOuterB
    | 1, 0 => some cexOuterC
    | 0, _ => some cexInnerB
    | _, _ => some cexInnerC
  else none

/-- what `scan` finds in `foo(foo(9))`, as announced: outer by `b`, outer by `c`, inner by `b`,
inner by `c` -/
def cexDiffs : List DiffItem :=
  [⟨0, 0, cexOuterB⟩, ⟨0, 1, cexOuterC⟩, ⟨4, 0, cexInnerB⟩, ⟨4, 1, cexInnerC⟩]

/-- **the pinned v0.37.0 does not determine which fix `-U` applies**: `reversingSort` is a legal
`sort_unstable_by_key`; on the diffs found in `foo(foo(9))` (two rules, both matches of both
rules) the stable sort of `/repo` hands the printer the announced order and the printer accepts
rule `b`'s fix of the outer call; the legal unstable sort hands it rule `c`'s first and the printer
(pinned `processDiffs` and fixed `processDiffsFixed` alike) accepts THAT one — a different file
content (`baz(foo(9))` instead of `bar(foo(9))`) from the same announcement. -/
theorem unstable_sort_counterexample :
    IsSortByKey reversingSort ∧
    discoveryOrder 2 cexHit cexDoc = cexDiffs ∧
    intoResultDiffs true cexDiffs [] = cexDiffs ∧
    processDiffs (printerDiffs (intoResultDiffs true cexDiffs [])) = [cexOuterB] ∧
    processDiffsFixed [] (printerDiffs (intoResultDiffs true cexDiffs [])) = [cexOuterB] ∧
    intoResultDiffsUnstable reversingSort true cexDiffs []
      = [⟨0, 1, cexOuterC⟩, ⟨0, 0, cexOuterB⟩, ⟨4, 1, cexInnerC⟩, ⟨4, 0, cexInnerB⟩] ∧
    processDiffs (printerDiffs (intoResultDiffsUnstable reversingSort true cexDiffs [])) = [cexOuterC] ∧
    processDiffsFixed [] (printerDiffs (intoResultDiffsUnstable reversingSort true cexDiffs [])) = [cexOuterC] ∧
    cexOuterB ≠ cexOuterC :=
  ⟨reversingSort_isSortByKey, by decide, by decide, by decide, by decide, by decide, by decide,
    by decide, by decide⟩

/-! ## e. the defect needs equal starts -/

/-- **when all starts are pairwise different every legal `sort_unstable_by_key` returns the list
the stable sort returns** — the pinned code and `/repo` agree, and so does what the printer
accepts -/
theorem accepted_independent_of_sort_when_distinct_starts
    (sort : List DiffItem → List DiffItem) (hsort : IsSortByKey sort) (unusedRule : Bool)
    (ds us : List DiffItem) (hnd : ((ds ++ us).map (·.key)).Nodup) :
    intoResultDiffsUnstable sort unusedRule ds us = intoResultDiffs unusedRule ds us ∧
    processDiffs (printerDiffs (intoResultDiffsUnstable sort unusedRule ds us))
      = processDiffs (printerDiffs (intoResultDiffs unusedRule ds us)) := by
  have h : intoResultDiffsUnstable sort unusedRule ds us = intoResultDiffs unusedRule ds us := by
    cases unusedRule
    · rfl
    · obtain ⟨hp, hs⟩ := hsort (ds ++ us)
      simp only [intoResultDiffsUnstable, intoResultDiffs, if_true]
      have hp' : (sort (ds ++ us)).Perm (stableSortByKey (ds ++ us)) :=
        hp.trans (stableSortByKey_perm _).symm
      have hnd' : ((sort (ds ++ us)).map (·.key)).Nodup := ((hp.map _).nodup_iff).2 hnd
      exact sorted_perm_eq_of_nodup_keys _ _ hp' hnd' hs (stableSortByKey_sorted _)
  exact ⟨h, by rw [h]⟩

/-- whatever the legal sort does, it can only reorder inside classes of equal start: the classes
are permutations of those of the stable result -/
theorem unstable_differs_only_within_equal_starts
    (sort : List DiffItem → List DiffItem) (hsort : IsSortByKey sort) (ds us : List DiffItem) (k : Nat) :
    ((intoResultDiffsUnstable sort true ds us).filter (fun x => x.key = k)).Perm
      ((intoResultDiffs true ds us).filter (fun x => x.key = k)) := by
  rw [intoResult_stable]
  exact ((hsort (ds ++ us)).1).filter _

/-! ### the hypotheses are satisfiable by non-trivial instances -/

/-- the document of the counterexample has well-formed ranges, so `scan_keeps_discovery_order`
applies to it: the diffs of `foo(foo(9))` reach the printer as announced -/
theorem cexDoc_rangesWF : cexDoc.RangesWF := by
  intro p hp
  simp [cexDoc, mk, Tree.preorder, preorderList] at hp
  rcases hp with rfl | rfl | rfl | rfl | rfl | rfl | rfl | rfl | rfl | rfl | rfl <;>
    simp [ChildrenOrdered, ChildrenNested, Tree.children, Tree.start, Tree.stop, Tree.info]

example : intoResultDiffs true (discoveryOrder 2 cexHit cexDoc) [] = cexDiffs :=
  (scan_keeps_discovery_order true 2 cexHit cexDoc cexDoc_rangesWF).trans
    unstable_sort_counterexample.2.1

/-- an unused suppression comment at byte 2 is merged in between, after nothing with its start;
one at byte 0 goes BEHIND the diffs found at byte 0 (stability: `diffs` precede `unused`) -/
example :
    intoResultDiffs true cexDiffs [⟨2, 9, ⟨2, 3, []⟩⟩, ⟨0, 9, ⟨0, 1, []⟩⟩]
      = [⟨0, 0, cexOuterB⟩, ⟨0, 1, cexOuterC⟩, ⟨0, 9, ⟨0, 1, []⟩⟩, ⟨2, 9, ⟨2, 3, []⟩⟩,
         ⟨4, 0, cexInnerB⟩, ⟨4, 1, cexInnerC⟩] := by decide

/-- an unsorted input really is reordered, and without the rule it is not -/
example : intoResultDiffs true [⟨4, 0, cexInnerB⟩] [⟨0, 9, ⟨0, 1, []⟩⟩]
    = [⟨0, 9, ⟨0, 1, []⟩⟩, ⟨4, 0, cexInnerB⟩] := by decide
example : intoResultDiffs false [⟨4, 0, cexInnerB⟩] [⟨0, 9, ⟨0, 1, []⟩⟩] = [⟨4, 0, cexInnerB⟩] := by decide

/-- distinct starts (one rule only): the reversing sort agrees with the stable one -/
example : intoResultDiffsUnstable reversingSort true [⟨0, 0, cexOuterB⟩, ⟨4, 0, cexInnerB⟩] []
    = intoResultDiffs true [⟨0, 0, cexOuterB⟩, ⟨4, 0, cexInnerB⟩] [] :=
  (accepted_independent_of_sort_when_distinct_starts reversingSort reversingSort_isSortByKey true
    _ _ (by decide)).1

/-- `SortedByKey` separates: the reversed announcement is not sorted -/
example : SortedByKey cexDiffs ∧ ¬ SortedByKey cexDiffs.reverse := by decide

end AGV.C18
