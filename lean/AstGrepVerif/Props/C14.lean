/-
C14 — suppression comments silence exactly the findings they name, nothing else.

Model of the code as it is: `Model/Suppress.lean`; of the code after `FIX_C14.patch`:
`Model/SuppressFixed.lean`.  Specification (from the property text): `Spec/Suppress.lean`.
Property theorems only; helper lemmas live in `Lemmas/Suppress*.lean`.

The headline statements `suppress_iff_full` / `unused_iff_full` are FALSE for the code as it is
(`suppress_collision_counterexample`, `unused_collision_counterexample`: two comments governing
one line, the table keeps the later one); they are proved under `AtMostOneGovernor`
(`suppress_iff_partial`, `unused_iff_partial`), their sound halves are proved without it
(`silenced_only_if_named`, `unused_only_if_silent`), and they are proved in full for the post-fix
model (`Fixed.suppress_iff_full`, `Fixed.unused_iff_full`).
-/
import AstGrepVerif.Model.Suppress
import AstGrepVerif.Model.SuppressFixed
import AstGrepVerif.Spec.Suppress
import AstGrepVerif.Lemmas.Suppress
import AstGrepVerif.Lemmas.SuppressText
import AstGrepVerif.Lemmas.SuppressFixed

set_option linter.unusedSimpArgs false
set_option linter.unusedVariables false

namespace AGV.C14
open AGV.Suppress AGV.Suppress.Spec

/-! ## The id list -/

/-- **`parse_suppression_set` against the property's reading of a directive.**  Let `tail` be what
follows the first `ast-grep-ignore` of the comment text.  Without a colon in `tail` the code
returns `None` = *every rule is suppressed* — also when other text follows the marker
(`// ast-grep-ignore foo`): the `?` on `split_once(':')` leaves the whole function with `None`.
With a colon it returns a set whose non-empty members are exactly the ids the directive lists:
the comma-separated pieces after the first colon, with surrounding (Unicode) white space removed. -/
theorem parse_set_spec (text tail : Bytes) (h : DirectiveTail text tail) :
    (colon ∉ tail → parseSuppressionSet text = none) ∧
    (colon ∈ tail → ∃ set, parseSuppressionSet text = some set ∧
      ∀ id, id ≠ [] → (id ∈ set ↔ Lists tail id)) :=
  parse_spec text tail h

/-- For a suppression comment with a well-formed id list (`ListOK`: a colon is followed by at
least one id) and a non-empty rule id, the code's answer to "does this comment name the rule"
is the specification's. -/
theorem names_iff (c : CNode) (hs : IsSuppression c) (hl : ListOK c.text) (id : Bytes) (hid : id ≠ []) :
    codeNames c.text id = true ↔ names c id :=
  names_agree c hs hl id hid

/-- `// ast-grep-ignore:` -/
def textEmptyList : Bytes := [47, 47, 32] ++ Spec.marker ++ [58]

/-- **Where `ListOK` is needed.**  `// ast-grep-ignore:` (a colon, then nothing): by the property
text the comment "lists nothing" and therefore names every rule; the code builds the set `{""}`
and suppresses nothing.  (Recorded as a known finding; the comment is then reported as unused.) -/
theorem parse_empty_list_counterexample :
    parseSuppressionSet textEmptyList = some [[]] ∧
    codeNames textEmptyList [97] = false ∧
    (∀ c : CNode, c.text = textEmptyList → names c [97]) := by
  refine ⟨by decide, by decide, ?_⟩
  intro c hc
  have hso : splitOnce Spec.marker textEmptyList = some ([47, 47, 32], [58]) := by decide
  refine ⟨[58], ?_, .inl ?_⟩
  · rw [hc]
    exact ⟨[47, 47, 32], splitOnce_some _ _ _ _ hso, fun p q h => splitOnce_first _ _ _ _ hso p q h⟩
  · intro id hl
    rw [lists_iff] at hl
    obtain ⟨hid, a, rules, hso2, hm⟩ := hl
    have : splitOnce [colon] [58] = some ([], []) := by decide
    rw [this] at hso2
    simp only [Option.some.injEq, Prod.mk.injEq] at hso2
    obtain ⟨_, rfl⟩ := hso2
    have h2 : (splitOn comma []).map trim = [[]] := by decide
    rw [h2] at hm
    simp only [List.mem_singleton] at hm
    exact hid hm

/-! ## Own line -/

/-- **Hypothesis of `ownLine_agree`**: the comment sits among single-line siblings, and what
precedes it on its line (if anything but white space) is its previous sibling:
* its previous sibling, if any, starts and ends on one line ("single-line statements");
* there is something other than white space before the comment on its line exactly when its
  previous sibling ends on that line (tree-sitter puts a trailing comment right after the node
  it trails; a comment that is the first child of a node opened on the same line, or that trails
  the last line of a multi-line sibling, violates this — see `ownLine_disagree_multiline`). -/
structure SingleLineLayout (c : CNode) : Prop where
  prevSingle : ∀ ps pe, c.prev = some (ps, pe) → ps = pe
  leadIsPrev : ¬ Blank c.lead ↔ ∃ ps pe, c.prev = some (ps, pe) ∧ pe = c.startLine

/-- The code's test "no previous sibling, or it starts on another line" is the textual notion
"only white space before the comment on its line", under `SingleLineLayout`. -/
theorem ownLine_agree (c : CNode) (h : SingleLineLayout c) :
    suppressNextLine c = true ↔ OwnLine c := by
  obtain ⟨h1, h2⟩ := h
  simp only [suppressNextLine, OwnLine]
  cases hp : c.prev with
  | none =>
    simp only [true_iff]
    apply Classical.byContradiction
    intro hb
    obtain ⟨ps, pe, hpp, _⟩ := h2.1 hb
    rw [hp] at hpp; simp at hpp
  | some p =>
    obtain ⟨ps, pe⟩ := p
    have hpe := h1 ps pe hp
    subst hpe
    simp only [bne_iff_ne, ne_eq]
    constructor
    · intro hne
      apply Classical.byContradiction
      intro hb
      obtain ⟨ps', pe', hpp, hl⟩ := h2.1 hb
      rw [hp] at hpp
      simp only [Option.some.injEq, Prod.mk.injEq] at hpp
      exact hne (by rw [hpp.2]; exact hl)
    · intro hb hps
      exact (h2.2 ⟨ps, ps, hp, hps⟩) hb

/-- the governed line: code (`keyOf`) = specification (`governsLine`) for single-line comments
in a single-line layout -/
theorem keyOf_iff (c : CNode) (h : SingleLineLayout c) (hse : c.startLine = c.endLine) (line : Nat) :
    keyOf c = line ↔ governsLine c line := by
  have ho := ownLine_agree c h
  simp only [keyOf, governsLine]
  by_cases hn : suppressNextLine c = true
  · have := ho.1 hn
    simp [hn, this, hse]
  · have : ¬ OwnLine c := fun hh => hn (ho.2 hh)
    simp [hn, this]

/-- `foo(\n 9\n); // ast-grep-ignore`: the comment trails the last line (2) of a statement that
started on line 0.  Textually it is a trailing comment (it should govern line 2); the code sees a
previous sibling that starts on another line and files it under line 3. -/
def multilineTrailing : CNode :=
  { kind := Spec.commentWord, text := [47, 47, 32] ++ Spec.marker, startLine := 2, endLine := 2,
    prev := some (0, 2), lead := [41, 59, 32] }

/-- Outside `SingleLineLayout` the two notions differ (confirmed on the real code by the
correspondence run, which includes such layouts). -/
theorem ownLine_disagree_multiline :
    suppressNextLine multilineTrailing = true ∧ keyOf multilineTrailing = 3 ∧
    ¬ OwnLine multilineTrailing ∧ governsLine multilineTrailing 2 := by
  have hnb : ¬ OwnLine multilineTrailing := by
    simp only [OwnLine, blank_iff_trimStart]; decide
  exact ⟨by decide, by decide, hnb, .inr ⟨hnb, rfl⟩⟩

/-! ## The scan -/

/-- the property's quantifier: suppression comments are single-line comments placed on their own
line or after single-line statements, their id lists are well formed, rule ids are not empty -/
structure WellFormed (inp : Input) : Prop where
  layout : ∀ c ∈ inp.nodes, IsSuppression c → SingleLineLayout c ∧ c.startLine = c.endLine
  lists : ∀ c ∈ inp.nodes, IsSuppression c → ListOK c.text
  ids : ∀ f ∈ inp.findings, f.rule ≠ []

theorem mem_of_getElem? {α} {l : List α} {j : Nat} {c : α} (h : l[j]? = some c) : c ∈ l :=
  List.mem_of_getElem? h

/-- code-level "suppression node filed under the finding's line that names its rule" is the
specification's "governs and names", for well-formed inputs -/
theorem code_iff_spec (inp : Input) (wf : WellFormed inp) (c : CNode) (hc : c ∈ inp.nodes)
    (f : Finding) (hf : f ∈ inp.findings) :
    (isSuppressionNode c = true ∧ keyOf c = f.line ∧ codeNames c.text f.rule = true) ↔
      (governs c f ∧ names c f.rule) := by
  constructor
  · rintro ⟨hs, hk, hn⟩
    have hs' := (isSuppressionNode_iff c).1 hs
    obtain ⟨hl, hse⟩ := wf.layout c hc hs'
    exact ⟨⟨hs', (keyOf_iff c hl hse f.line).1 hk⟩,
      (names_agree c hs' (wf.lists c hc hs') f.rule (wf.ids f hf)).1 hn⟩
  · rintro ⟨⟨hs', hg⟩, hn⟩
    obtain ⟨hl, hse⟩ := wf.layout c hc hs'
    exact ⟨(isSuppressionNode_iff c).2 hs', (keyOf_iff c hl hse f.line).2 hg,
      (names_agree c hs' (wf.lists c hc hs') f.rule (wf.ids f hf)).2 hn⟩

/-- **Nothing else is silenced** (no side condition on collisions): a finding that the scan does
not report is governed by a suppression comment that names its rule. -/
theorem silenced_only_if_named (inp : Input) (wf : WellFormed inp) (i : Nat) (f : Finding)
    (hf : inp.findings[i]? = some f) (h : i ∉ (scanCore inp).reported) : suppressed inp f := by
  have hfm := mem_of_getElem? hf
  cases hs : suppressedId (collect inp.nodes) f.line f.rule with
  | none => exact absurd ((mem_reported inp i).2 ⟨f, hf, hs⟩) h
  | some id =>
    obtain ⟨c, hj, h1, h2, h3⟩ := suppressedId_sound inp.nodes f.line f.rule id hs
    have hcm := mem_of_getElem? hj
    exact ⟨c, hcm, (code_iff_spec inp wf c hcm f hfm).1 ⟨h1, h2, h3⟩⟩

/-- **Others are unaffected**: a finding on a line that no suppression comment governs is reported. -/
theorem others_unaffected (inp : Input) (wf : WellFormed inp) (i : Nat) (f : Finding)
    (hf : inp.findings[i]? = some f) (h : ∀ c ∈ inp.nodes, ¬ governs c f) :
    i ∈ (scanCore inp).reported := by
  refine (mem_reported inp i).2 ⟨f, hf, suppressedId_none_of_ungoverned _ _ _ ?_⟩
  rintro j c hj ⟨hs, hk⟩
  have hcm := mem_of_getElem? hj
  have hs' := (isSuppressionNode_iff c).1 hs
  obtain ⟨hl, hse⟩ := wf.layout c hcm hs'
  exact h c hcm ⟨hs', (keyOf_iff c hl hse f.line).1 hk⟩

/-- uniqueness of the suppression node filed under a governed line, from `AtMostOneGovernor` -/
theorem unique_key (inp : Input) (wf : WellFormed inp) (h1 : AtMostOneGovernor inp)
    (j : Nat) (c : CNode) (hj : inp.nodes[j]? = some c) (hs : isSuppressionNode c = true) (line : Nat)
    (hk : keyOf c = line) :
    ∀ (j' : Nat) (c' : CNode), inp.nodes[j']? = some c' → isSuppressionNode c' = true →
      keyOf c' = line → j' = j := by
  intro j' c' hj' hs' hk'
  have a := (isSuppressionNode_iff c).1 hs
  have a' := (isSuppressionNode_iff c').1 hs'
  obtain ⟨hl, hse⟩ := wf.layout c (mem_of_getElem? hj) a
  obtain ⟨hl', hse'⟩ := wf.layout c' (mem_of_getElem? hj') a'
  exact h1 line j' j c' c hj' hj a' a ((keyOf_iff c' hl' hse' line).1 hk') ((keyOf_iff c hl hse line).1 hk)

/-- **`suppress_iff`, for the code as it is, when at most one suppression comment governs any
line**: a finding is reported iff no comment governs it and names its rule. -/
theorem suppress_iff_partial (inp : Input) (wf : WellFormed inp) (h1 : AtMostOneGovernor inp)
    (i : Nat) (f : Finding) (hf : inp.findings[i]? = some f) :
    i ∈ (scanCore inp).reported ↔ ¬ suppressed inp f := by
  have hfm := mem_of_getElem? hf
  constructor
  · intro hr
    rintro ⟨c, hcm, hg, hn⟩
    obtain ⟨f', hf', hnone⟩ := (mem_reported inp i).1 hr
    rw [hf] at hf'
    simp only [Option.some.injEq] at hf'
    subst hf'
    obtain ⟨hs, hk, hcn⟩ := (code_iff_spec inp wf c hcm f hfm).2 ⟨hg, hn⟩
    obtain ⟨j, hj⟩ := List.getElem?_of_mem hcm
    rw [suppressedId_of_unique inp.nodes f.line f.rule j c hj hs hk
      (unique_key inp wf h1 j c hj hs f.line hk), hcn] at hnone
    simp at hnone
  · intro hns
    apply Classical.byContradiction
    intro hnr
    exact hns (silenced_only_if_named inp wf i f hf hnr)

/-- **A reported unused suppression silenced nothing** (no side condition on collisions). -/
theorem unused_only_if_silent (inp : Input) (wf : WellFormed inp) (j : Nat) (c : CNode)
    (hc : inp.nodes[j]? = some c) (h : j ∈ (scanCore inp).unused) : unused inp c := by
  obtain ⟨_, hid, hall⟩ := (mem_unused inp j).1 h
  obtain ⟨c', hj', hs, hget⟩ := mem_ids_sound inp.nodes j hid
  rw [hc] at hj'
  simp only [Option.some.injEq] at hj'
  subst hj'
  rintro ⟨f, hfm, hg, hn⟩
  obtain ⟨_, hk, hcn⟩ := (code_iff_spec inp wf c (mem_of_getElem? hc) f hfm).2 ⟨hg, hn⟩
  apply hall f hfm
  rw [suppressedId_eq_some]
  refine ⟨_, by rw [← hk]; exact hget, rfl, ?_⟩
  simpa [codeNames] using hcn

/-- **`unused_iff`, for the code as it is, when at most one suppression comment governs any
line**: a suppression comment is reported as unused iff it silenced nothing. -/
theorem unused_iff_partial (inp : Input) (wf : WellFormed inp) (h1 : AtMostOneGovernor inp)
    (j : Nat) (c : CNode) (hc : inp.nodes[j]? = some c) (hs : IsSuppression c) :
    j ∈ (scanCore inp).unused ↔ unused inp c := by
  constructor
  · exact unused_only_if_silent inp wf j c hc
  · intro hu
    have hs' := (isSuppressionNode_iff c).2 hs
    have hlt : j < inp.nodes.length := (List.getElem?_eq_some_iff.1 hc).1
    refine (mem_unused inp j).2 ⟨hlt, ?_, ?_⟩
    · exact mem_ids_of_unique inp.nodes j c hc hs' (unique_key inp wf h1 j c hc hs' (keyOf c) rfl)
    · intro f hfm hsome
      obtain ⟨c', hj', h2, h3, h4⟩ := suppressedId_sound inp.nodes f.line f.rule j hsome
      rw [hc] at hj'
      simp only [Option.some.injEq] at hj'
      subst hj'
      exact hu ⟨f, hfm, (code_iff_spec inp wf c (mem_of_getElem? hc) f hfm).1 ⟨h2, h3, h4⟩⟩

/-! ## The collision (DESIGN H11): counter-examples to the full statements -/

/-- `// ast-grep-ignore: ` followed by `id` -/
def directive (id : Bytes) : Bytes := [47, 47, 32] ++ Spec.marker ++ [58, 32] ++ id

/--
```
// ast-grep-ignore: a          line 0, own line           → governs line 1
f(); // ast-grep-ignore: b     line 1, trails `f();`      → governs line 1
```
with one finding of rule `r` on line 1. -/
def collisionNodes : List CNode :=
  [ { kind := Spec.commentWord, text := directive [97], startLine := 0, endLine := 0,
      prev := none, lead := [] },
    { kind := Spec.commentWord, text := directive [98], startLine := 1, endLine := 1,
      prev := some (1, 1), lead := [102, 40, 41, 59, 32] }]

def collision (r : Bytes) : Input :=
  { nodes := collisionNodes, findings := [{ rule := r, line := 1, fix := false }] }

/-- decidable sufficient condition for `SingleLineLayout c ∧ c.startLine = c.endLine` -/
def layoutOKb (c : CNode) : Bool :=
  c.startLine == c.endLine &&
  match c.prev with
  | none => (trimStart c.lead).isEmpty
  | some (ps, pe) => ps == pe && ((!(trimStart c.lead).isEmpty) == (pe == c.startLine))

theorem layoutOK_of_b (c : CNode) (h : layoutOKb c = true) :
    SingleLineLayout c ∧ c.startLine = c.endLine := by
  simp only [layoutOKb, Bool.and_eq_true, beq_iff_eq] at h
  obtain ⟨hse, h2⟩ := h
  refine ⟨?_, hse⟩
  cases hp : c.prev with
  | none =>
    rw [hp] at h2
    simp only [List.isEmpty_iff] at h2
    constructor
    · intro a b hab; rw [hp] at hab; simp at hab
    · rw [blank_iff_trimStart]
      constructor
      · intro hn; exact absurd h2 hn
      · rintro ⟨a, b, hab, _⟩; rw [hp] at hab; simp at hab
  | some p =>
    obtain ⟨ps, pe⟩ := p
    rw [hp] at h2
    simp only [Bool.and_eq_true, beq_iff_eq] at h2
    obtain ⟨h3, h4⟩ := h2
    subst h3
    constructor
    · intro a b hab
      rw [hp] at hab
      simp only [Option.some.injEq, Prod.mk.injEq] at hab
      rw [← hab.1, ← hab.2]
    · rw [blank_iff_trimStart]
      by_cases he : trimStart c.lead = []
      · simp only [he, List.isEmpty_nil, Bool.not_true] at h4
        have hne : ¬ ps = c.startLine := by
          intro hh; simp [hh] at h4
        constructor
        · intro hn; exact absurd he hn
        · rintro ⟨a, b, hab, hb⟩
          rw [hp] at hab
          simp only [Option.some.injEq, Prod.mk.injEq] at hab
          exact absurd (by rw [hab.2]; exact hb) hne
      · have hne : (trimStart c.lead).isEmpty = false := by
          cases hh : trimStart c.lead with
          | nil => exact absurd hh he
          | cons _ _ => rfl
        simp only [hne, Bool.not_false] at h4
        have heq : ps = c.startLine := by
          by_cases hh : ps = c.startLine
          · exact hh
          · simp [hh] at h4
        constructor
        · intro _; exact ⟨ps, ps, hp, heq⟩
        · intro _; exact he

/-- decidable sufficient condition for `WellFormed` -/
def wellFormedb (inp : Input) : Bool :=
  inp.nodes.all (fun c => !isSuppressionNode c || (layoutOKb c && listOKb c.text)) &&
  inp.findings.all (fun f => !f.rule.isEmpty)

theorem wellFormed_of_b (inp : Input) (h : wellFormedb inp = true) : WellFormed inp := by
  simp only [wellFormedb, Bool.and_eq_true, List.all_eq_true, Bool.or_eq_true, Bool.not_eq_true',
    List.isEmpty_eq_false_iff] at h
  obtain ⟨hn, hf⟩ := h
  refine ⟨?_, ?_, hf⟩
  · intro c hc hs
    rcases hn c hc with h1 | h1
    · rw [(isSuppressionNode_iff c).2 hs] at h1; simp at h1
    · exact layoutOK_of_b c h1.1
  · intro c hc hs
    rcases hn c hc with h1 | h1
    · rw [(isSuppressionNode_iff c).2 hs] at h1; simp at h1
    · exact listOK_of_b c.text h1.2

theorem collision_wellFormed (r : Bytes) (hr : r ≠ []) : WellFormed (collision r) := by
  apply wellFormed_of_b
  have h1 : collisionNodes.all
      (fun c => !isSuppressionNode c || (layoutOKb c && listOKb c.text)) = true := by decide
  simp only [wellFormedb, collision, h1, Bool.true_and, List.all_cons, List.all_nil, Bool.and_true,
    Bool.not_eq_true', List.isEmpty_eq_false_iff]
  exact hr

/-- **The full statement `reported f ↔ ¬ suppressed f` is false for the code as it is.**
In `collision [a]` the own-line comment above governs line 1 and names rule `a`, so the finding
of rule `a` on line 1 is suppressed by the property text; the trailing comment on line 1 was
filed under the same key later and overwrote it, it names `b` only, and the scan reports the
finding.  (`decide` on the model; replayed on the real code by the oracle and the CLI unit.) -/
theorem suppress_collision_counterexample :
    WellFormed (collision [97]) ∧
    (collision [97]).findings[0]? = some { rule := [97], line := 1, fix := false } ∧
    suppressed (collision [97]) { rule := [97], line := 1, fix := false } ∧
    0 ∈ (scanCore (collision [97])).reported ∧
    ¬ AtMostOneGovernor (collision [97]) := by
  have wf := collision_wellFormed [97] (by simp)
  have hs0 : isSuppressionNode ((collision [97]).nodes[0]) = true := by decide
  have hs1 : isSuppressionNode ((collision [97]).nodes[1]) = true := by decide
  have g0 : governs ((collision [97]).nodes[0]) { rule := [97], line := 1, fix := false } :=
    ⟨(isSuppressionNode_iff _).1 hs0, .inl ⟨Blank.nil, rfl⟩⟩
  have hnb : ¬ OwnLine ((collision [97]).nodes[1]) := by
    simp only [OwnLine, blank_iff_trimStart]; decide
  refine ⟨wf, rfl, ?_, by decide, ?_⟩
  · refine ⟨(collision [97]).nodes[0], by simp [collision], g0, ?_⟩
    refine (names_agree _ ((isSuppressionNode_iff _).1 hs0) (wf.lists _ (by simp [collision])
      ((isSuppressionNode_iff _).1 hs0)) [97] (by simp)).1 ?_
    decide
  · intro h
    have := h 1 0 1 _ _ (by rfl : (collision [97]).nodes[0]? = some _)
      (by rfl : (collision [97]).nodes[1]? = some _)
      ((isSuppressionNode_iff _).1 hs0) ((isSuppressionNode_iff _).1 hs1) g0.2 (.inr ⟨hnb, rfl⟩)
    simp at this

/-- **The full statement `reported unused c ↔ unused c` is false for the code as it is.**
In `collision [c]` (a finding of a third rule) neither comment silences anything; the scan
reports only the trailing one as unused, the overwritten own-line comment is never mentioned. -/
theorem unused_collision_counterexample :
    WellFormed (collision [99]) ∧
    unused (collision [99]) ((collision [99]).nodes[0]) ∧
    IsSuppression ((collision [99]).nodes[0]) ∧
    (scanCore (collision [99])).unused = [1] := by
  have wf := collision_wellFormed [99] (by simp)
  have hs0 : isSuppressionNode ((collision [99]).nodes[0]) = true := by decide
  refine ⟨wf, ?_, (isSuppressionNode_iff _).1 hs0, by decide⟩
  rintro ⟨f, hf, hg, hn⟩
  simp only [collision, List.mem_singleton] at hf
  subst hf
  have := (names_agree _ ((isSuppressionNode_iff _).1 hs0) (wf.lists _ (by simp [collision])
    ((isSuppressionNode_iff _).1 hs0)) [99] (by simp)).2 hn
  revert this
  decide

/-- non-vacuity of the `_partial` theorems: with the trailing comment removed the input is well
formed, at most one comment governs any line, and the finding of rule `a` is silenced while a
finding of rule `b` would be reported. -/
def single (r : Bytes) : Input :=
  { nodes := [
      { kind := Spec.commentWord, text := directive [97], startLine := 0, endLine := 0,
        prev := none, lead := [] }],
    findings := [{ rule := r, line := 1, fix := false }] }

example : WellFormed (single [97]) ∧ AtMostOneGovernor (single [97]) ∧
    (scanCore (single [97])).reported = [] ∧ (scanCore (single [98])).reported = [0] ∧
    (scanCore (single [97])).unused = [] ∧ (scanCore (single [98])).unused = [0] := by
  refine ⟨wellFormed_of_b _ (by decide), ?_, by decide, by decide, by decide, by decide⟩
  intro line j j' c c' hj hj' _ _ _ _
  have : j < 1 := (List.getElem?_eq_some_iff.1 hj).1
  have : j' < 1 := (List.getElem?_eq_some_iff.1 hj').1
  omega

/-- non-vacuity of `ownLine_agree`: both comments of `collision` satisfy `SingleLineLayout`; the
first is on its own line, the second is not -/
example : SingleLineLayout collisionNodes[0] ∧ SingleLineLayout collisionNodes[1] ∧
    OwnLine collisionNodes[0] ∧ ¬ OwnLine collisionNodes[1] ∧
    suppressNextLine collisionNodes[0] = true ∧ suppressNextLine collisionNodes[1] = false := by
  refine ⟨(layoutOK_of_b _ (by decide)).1, (layoutOK_of_b _ (by decide)).1, Blank.nil, ?_,
    by decide, by decide⟩
  simp only [OwnLine, blank_iff_trimStart]; decide

/-- non-vacuity of `parse_set_spec`: `// ast-grep-ignore:  a ,<TAB>b  ` has the directive tail
`:  a ,<TAB>b  `, the code returns `{a, b}`, and the specification says the directive lists `a` -/
example :
    let text : Bytes := [47, 47, 32] ++ Spec.marker ++ [58, 32, 32, 97, 32, 44, 9, 98, 32, 32]
    let tail : Bytes := [58, 32, 32, 97, 32, 44, 9, 98, 32, 32]
    DirectiveTail text tail ∧ parseSuppressionSet text = some [[97], [98]] ∧ Lists tail [97] := by
  intro text tail
  have hso : splitOnce Spec.marker text = some ([47, 47, 32], tail) := by decide
  have ht : DirectiveTail text tail :=
    ⟨[47, 47, 32], splitOnce_some _ _ _ _ hso, fun p q h => splitOnce_first _ _ _ _ hso p q h⟩
  have hp : parseSuppressionSet text = some [[97], [98]] := by decide
  refine ⟨ht, hp, ?_⟩
  obtain ⟨set, hs, hset⟩ := (parse_set_spec text tail ht).2 (by decide)
  rw [hp] at hs
  simp only [Option.some.injEq] at hs
  exact (hset [97] (by simp)).1 (by rw [← hs]; simp)

/-! ## After `FIX_C14.patch`: the full statements -/

namespace Fixed
open AGV.SuppressFixed

/-- **`suppress_iff_full`** for the post-fix model (all suppressions of a line are kept):
a finding is reported iff no suppression comment governs it and names its rule — with any number
of comments governing the same line. -/
theorem suppress_iff_full (inp : Input) (wf : WellFormed inp) (i : Nat) (f : Finding)
    (hf : inp.findings[i]? = some f) :
    i ∈ (SuppressFixed.scanCore inp).reported ↔ ¬ suppressed inp f := by
  have hfm := mem_of_getElem? hf
  rw [SuppressFixed.mem_reported]
  constructor
  · rintro ⟨f', hf', hno⟩ ⟨c, hcm, hg, hn⟩
    rw [hf] at hf'
    simp only [Option.some.injEq] at hf'
    subst hf'
    obtain ⟨j, hj⟩ := List.getElem?_of_mem hcm
    obtain ⟨h1, h2, h3⟩ := (code_iff_spec inp wf c hcm f hfm).2 ⟨hg, hn⟩
    exact hno ⟨j, c, hj, h1, h2, h3⟩
  · intro hns
    refine ⟨f, hf, ?_⟩
    rintro ⟨j, c, hj, h1, h2, h3⟩
    have hcm := mem_of_getElem? hj
    exact hns ⟨c, hcm, (code_iff_spec inp wf c hcm f hfm).1 ⟨h1, h2, h3⟩⟩

/-- **`unused_iff_full`** for the post-fix model: a suppression comment is reported as unused iff
it silenced nothing. -/
theorem unused_iff_full (inp : Input) (wf : WellFormed inp) (j : Nat) (c : CNode)
    (hc : inp.nodes[j]? = some c) (hs : IsSuppression c) :
    j ∈ (SuppressFixed.scanCore inp).unused ↔ unused inp c := by
  have hcm := mem_of_getElem? hc
  rw [SuppressFixed.mem_unused]
  constructor
  · rintro ⟨c', hj', _, hall⟩ ⟨f, hfm, hg, hn⟩
    rw [hc] at hj'
    simp only [Option.some.injEq] at hj'
    subst hj'
    obtain ⟨_, h2, h3⟩ := (code_iff_spec inp wf c hcm f hfm).2 ⟨hg, hn⟩
    exact hall f hfm ⟨h2, h3⟩
  · intro hu
    refine ⟨c, hc, (isSuppressionNode_iff c).2 hs, ?_⟩
    rintro f hfm ⟨h2, h3⟩
    exact hu ⟨f, hfm, (code_iff_spec inp wf c hcm f hfm).1 ⟨(isSuppressionNode_iff c).2 hs, h2, h3⟩⟩

/-- findings on lines no comment governs are reported (post-fix model) -/
theorem others_unaffected (inp : Input) (wf : WellFormed inp) (i : Nat) (f : Finding)
    (hf : inp.findings[i]? = some f) (h : ∀ c ∈ inp.nodes, ¬ governs c f) :
    i ∈ (SuppressFixed.scanCore inp).reported :=
  (suppress_iff_full inp wf i f hf).2 (fun ⟨c, hcm, hg, _⟩ => h c hcm hg)

/-- the witness of `suppress_collision_counterexample` is handled by the post-fix model:
the finding of rule `a` is silenced, and in `collision [c]` both comments are reported unused -/
theorem collision_fixed :
    (SuppressFixed.scanCore (collision [97])).reported = [] ∧
    (SuppressFixed.scanCore (collision [97])).unused = [1] ∧
    (SuppressFixed.scanCore (collision [99])).reported = [0] ∧
    (SuppressFixed.scanCore (collision [99])).unused = [0, 1] := by
  decide

end Fixed

/-! ## `into_result`: where the reported findings and unused suppressions go -/

/-- every finding index of `scanCore` ends up in exactly one of `matches` / `diffs`, and the unused
suppressions are passed on (to `diffs` when fixes are separated, else to `matches`) iff the
unused-suppression rule is on -/
theorem scan_partition (inp : Input) (sf ur : Bool) (i : Nat) :
    (i ∈ (scan inp sf ur).inMatches ∨ i ∈ (scan inp sf ur).inDiffs) ↔ i ∈ (scanCore inp).reported := by
  simp only [scan, List.mem_filter]
  constructor
  · rintro (h | h) <;> exact h.1
  · intro h
    by_cases hb : toDiff inp sf i = true
    · right; exact ⟨h, hb⟩
    · left; exact ⟨h, by simpa using hb⟩

theorem scan_unused (inp : Input) (sf : Bool) :
    (scan inp sf true).unusedInMatches ++ (scan inp sf true).unusedInDiffs = (scanCore inp).unused ∧
    (scan inp sf false).unusedInMatches = [] ∧ (scan inp sf false).unusedInDiffs = [] := by
  cases sf <;> simp [scan]

end AGV.C14
