/-
C01 after FIX 418aa84 ("a local utility rule shadows a global one of the same name from the
start"): the `NoShadow` hypothesis of `early_cache_sound` / `cache_monotone` disappears.

`DeserializeEnv::with_utils` now announces every local id (`declared`) before it deserializes any
local rule, and `ReferentRule::eval_global` answers `None` for an announced id.  The
construction-time `potential_kinds()` is modelled by `potentialKindsD declared locals globals`
(`Model/Rule.lean`; `potentialKindsD [] = potentialKinds`: `potentialKindsD_nil`), the
constructors by `mkAllD` / `mkAnyD`.  `cache_stale_counterexample` (`Props/C01.lean`) stays the
statement about the pinned lookup (`declared = []`).
-/
import AstGrepVerif.Props.C01
import AstGrepVerif.Lemmas.KindsDeclared

set_option linter.unusedSimpArgs false
set_option linter.unusedVariables false

namespace AGV.C01

open AGV Spec

/-- with nothing announced the repaired construction-time lookup is the pinned one -/
theorem potentialKindsD_empty (l : List (Name × Rule)) (g : List (Name × RuleCore)) (pf : Nat)
    (r : Rule) : potentialKindsD [] l g pf r = potentialKinds l g pf r :=
  potentialKindsD_nil l g pf r

theorem mkAllD_empty (l : List (Name × Rule)) (g : List (Name × RuleCore)) (rs : List Rule) :
    mkAllD [] l g rs = mkAll l g rs ∧ mkAnyD [] l g rs = mkAny l g rs :=
  ⟨mkAllD_nil l g rs, mkAnyD_nil l g rs⟩

/-- **`early_cache_sound_declared`** — the local registry grows from `l0` to `ctx.locals` during
`with_utils` (`LocalsExt`: an inserted id keeps its rule), every local id was announced up front
(`AllDeclared declared ctx.locals`), the global registry is fixed: a cache computed EARLY, with
`potentialKindsD declared l0 ctx.globals`, is sound for the FINAL registries — without `NoShadow`.
A local rule may now have the name of a global one. -/
theorem early_cache_sound_declared (ctx : RCtx) {declared : List Name} {l0 : List (Name × Rule)}
    (hext : LocalsExt l0 ctx.locals) (hd : AllDeclared declared ctx.locals) (rs : List Rule) :
    AllCacheSound ctx rs (allComputeKinds (rs.map (potentialKindsD declared l0 ctx.globals 64))) ∧
    AnyCacheSound ctx rs (anyComputeKinds (rs.map (potentialKindsD declared l0 ctx.globals 64))) :=
  ⟨mkAllD_cacheOK_ext ctx hext hd rs, mkAnyD_cacheOK_ext ctx hext hd rs⟩

/-- the fact behind it: a *defined* construction-time `potential_kinds` is the final one -/
theorem potentialKinds_stable_declared {declared : List Name} {l0 l : List (Name × Rule)}
    {g : List (Name × RuleCore)} (hext : LocalsExt l0 l) (hd : AllDeclared declared l) (pf : Nat)
    (r : Rule) (ks : List Nat) (h : potentialKindsD declared l0 g pf r = some ks) :
    potentialKinds l g pf r = some ks :=
  potentialKindsD_stable hext hd pf r ks h

/-- **`cache_monotone_declared`** (All): the cache computed early is a superset of the cache the
same constructor computes over the final registries -/
theorem cache_monotone_declared {declared : List Name} {l0 l : List (Name × Rule)}
    {g : List (Name × RuleCore)} (hext : LocalsExt l0 l) (hd : AllDeclared declared l)
    (rs : List Rule) (ks0 : List Nat)
    (h : allComputeKinds (rs.map (potentialKindsD declared l0 g 64)) = some ks0) :
    ∃ ks, allComputeKinds (rs.map (potentialKinds l g 64)) = some ks ∧ ∀ k ∈ ks, k ∈ ks0 :=
  allComputeKinds_mono (parts_le_declared hext hd rs) ks0 h

/-- … (Any): a defined early cache is the final cache -/
theorem cache_monotone_declared_any {declared : List Name} {l0 l : List (Name × Rule)}
    {g : List (Name × RuleCore)} (hext : LocalsExt l0 l) (hd : AllDeclared declared l)
    (rs : List Rule) (ks0 : List Nat)
    (h : anyComputeKinds (rs.map (potentialKindsD declared l0 g 64)) = some ks0) :
    anyComputeKinds (rs.map (potentialKinds l g 64)) = some ks0 :=
  anyComputeKinds_mono (parts_le_declared hext hd rs) ks0 h

/-- **regression** on the instance of `cache_stale_counterexample`: the global `U` (kind 1) is
registered, the local id `U` is announced, `all: [matches: U]` is built BEFORE the local `U`
(kind 2) is inserted.  With the repaired lookup (`declared = [U]`) the early cache is `none`, and
on the node of kind 2 the rule with its cache matches — like the rule without caches.  With the
pinned lookup (`declared = []`: `mkAllD [] = mkAll`) the cache is the stale `{1}` and the node is
filtered away: that is `cache_stale_counterexample`. -/
theorem cache_stale_repaired_example :
    let g : List (Name × RuleCore) := [(['U'], { rule := .kind 1 })]
    let l : List (Name × Rule) := [(['U'], .kind 2)]
    let r := mkAllD [['U']] [] g [.matches ['U']]
    let rOld := mkAllD [] [] g [.matches ['U']]
    let n := Tree.node ⟨2, true, false, false, 0, 1, none, 0⟩ []
    let ctx : RCtx := { src := [], root := n, regex := fun _ _ => false, locals := l, globals := g }
    (match r with | .all _ none => true | _ => false) = true ∧
    (match matchRule ctx 8 r n Env.empty with | .ok (some _, _) => true | _ => false) = true ∧
    (match matchRule (stripCtx ctx) 8 (stripR r) n Env.empty with
      | .ok (some _, _) => true | _ => false) = true ∧
    (match rOld with | .all _ (some [1]) => true | _ => false) = true ∧
    (match matchRule ctx 8 rOld n Env.empty with | .ok (none, _) => true | _ => false) = true := by
  decide +kernel

/-- the hypotheses of `early_cache_sound_declared` hold on that instance (the local `U` shadows
the global `U`: `NoShadow` fails) -/
theorem cache_stale_repaired_hypotheses :
    let g : List (Name × RuleCore) := [(['U'], { rule := .kind 1 })]
    let l : List (Name × Rule) := [(['U'], .kind 2)]
    LocalsExt [] l ∧ AllDeclared [['U']] l ∧ ¬ NoShadow l g := by
  refine ⟨fun id r h => by simp [alookup] at h, fun id h => ?_, fun h => ?_⟩
  · simp only [alookup] at h
    split at h
    · next e => simp [← e]
    · simp at h
  · have := h ['U'] (by simp [alookup])
    simp [alookup] at this

/-! ## registries built by the repaired `with_utils` have sound caches -/

/-- **`with_utils_regOK`** — "built by `with_utils`" (`WithUtils declared g l`): every local id
announced first, then the local rules inserted one by one, in ANY order, each one deserialized
(`BuiltD`: every `All`/`Any` gets the cache its constructor computes) under the registries of that
moment.  Then every local utility has sound caches for the final registries — no `NoShadow`.
The global utilities were registered before (`hglob`). -/
theorem with_utils_regOK (ctx : RCtx) (declared : List Name)
    (hw : WithUtils declared ctx.globals ctx.locals)
    (hglob : ∀ id core, alookup id ctx.globals = some core → CoreOK ctx core) : RegOK ctx where
  locals := by
    intro id r hl
    obtain ⟨l0, hext, hb⟩ := hw.lookup id r hl
    exact cachesOK_of_builtD ctx hext hw.allDeclared r hb
  globals := hglob

/-- … and so has the rule of the config, deserialized after all utilities are in -/
theorem with_utils_rule_cachesOK (ctx : RCtx) (declared : List Name)
    (hw : WithUtils declared ctx.globals ctx.locals) (r : Rule)
    (hb : BuiltD declared ctx.locals ctx.globals r) : CachesOK ctx r :=
  cachesOK_of_builtD ctx (LocalsExt.refl _) hw.allDeclared r hb

/-- **`gate_transparent` for configs built by the repaired loader**: caches and gates are
transparent, whatever the insertion order of the local utilities and whatever names they share
with global ones -/
theorem gate_transparent_with_utils (ctx : RCtx) (declared : List Name)
    (hw : WithUtils declared ctx.globals ctx.locals)
    (hglob : ∀ id core, alookup id ctx.globals = some core → CoreOK ctx core)
    (r : Rule) (hb : BuiltD declared ctx.locals ctx.globals r) (fuel : Nat) (n : Tree) (env : Env)
    (v : Option Tree × Env) (h : matchRule (stripCtx ctx) fuel (stripR r) n env = .ok v) :
    matchRule ctx fuel r n env = .ok v :=
  gate_transparent ctx (with_utils_regOK ctx declared hw hglob) fuel r
    (with_utils_rule_cachesOK ctx declared hw r hb) n env v h

/-- non-vacuity: two local utilities referring to each other through a relation — so the loader
may insert them in either order — one of them named like a global utility:
`A := all [inside (matches U)]` inserted BEFORE `U := kind 2`, global `U := kind 1` -/
theorem with_utils_example :
    let g : List (Name × RuleCore) := [(['U'], { rule := .kind 1 })]
    let a : Rule := mkAllD [['A'], ['U']] [] g [.inside (.matches ['U']) .end_ none, .matches ['U']]
    WithUtils [['A'], ['U']] g [(['A'], a), (['U'], .kind 2)] := by
  intro g a
  have h1 : WithUtils [['A'], ['U']] g ([] ++ [(['A'], a)]) :=
    .insert .nil (by simp) rfl (by
      show BuiltD _ _ _ (mkAllD _ _ _ _)
      simp [mkAllD, BuiltD, BuiltDL, BuiltDS])
  exact .insert (l := [(['A'], a)]) h1 (by simp) (by simp [alookup]) (by simp [BuiltD])

end AGV.C01
