/-
C18 — `--update-all` writes exactly the announced edits and nothing else.
Property theorems only; helper lemmas live in `AstGrepVerif/Lemmas/Update.lean`.

Model: `Model/Interactive.lean` (`updateAll`: the printer processes one payload per *document* of a
file; each payload is filtered, spliced **from its own snapshot** and written; the counter sums the
accepted diffs).  Specification: `Spec/Splice.lean`.
-/
import AstGrepVerif.Lemmas.Update
import AstGrepVerif.Props.C06

set_option linter.unusedSimpArgs false
set_option linter.unusedVariables false

namespace AGV.C18
open Spec

/-! ## The statement of the property for one file -/

/-- What C18 demands of a file whose documents proposed `docs` (host document first, then the
injected ones; each list in the order the CLI announces it): the file holds the splice of the
original text with the accepted edits — all announced edits, minus those overlapping an earlier
accepted one — and these are the edits that are counted. -/
def FileSpec (path : Nat) (content : Bytes) (docs : List (List Diff)) (st : UState) : Prop :=
  let accepted := processDiffs docs.flatten
  fsRead st.fs path = some (spliceAll content (accepted.map Diff.toEdit)) ∧
  st.committed = accepted.length

instance (path : Nat) (content : Bytes) (docs : List (List Diff)) (st : UState) :
    Decidable (FileSpec path content docs st) := inferInstanceAs (Decidable (_ ∧ _))

/-! ## One payload per file: the property holds in full -/

/-- **single payload** (every file of a language without injections, and every `run`/`scan` where
only one document of the file has fixes): the file becomes the specification's splice of its old
content with the accepted edits, the accepted edits are the announced ones minus those starting
before the end of an earlier accepted one (`C06.processDiffs_sorted`, `_drop_reason`,
`_keeps_first`), the count is their number, the file is written once iff an edit was accepted, and
no other file changes. -/
theorem update_single_payload (fs : FS) (p : Payload) (hok : p.Ok)
    (hsnap : fsRead fs p.path = some p.oldSource) :
    ∃ st, updateAll fs [p] = .ok st ∧
      fsRead st.fs p.path = some (spliceAll p.oldSource ((processDiffs p.diffs).map Diff.toEdit)) ∧
      st.committed = (processDiffs p.diffs).length ∧
      st.writes = (if (processDiffs p.diffs).isEmpty then [] else [p.path]) ∧
      (∀ q, q ≠ p.path → fsRead st.fs q = fsRead fs q) ∧
      FileSpec p.path p.oldSource [p.diffs] st := by
  obtain ⟨st, h1, h2, h3, h4⟩ := updateAllFrom_spec [p] (by simpa using hok)
    { fs := fs, committed := 0, writes := [] }
  have hfile : fsRead st.fs p.path = some (spliceAll p.oldSource ((processDiffs p.diffs).map Diff.toEdit)) := by
    rw [h4 p.path]
    simp only [lastWriter]
    by_cases hw : p.writes = true
    · simp [hw, Payload.output, Payload.accepted]
    · have he : processDiffs p.diffs = [] := by
        simpa [Payload.writes, Payload.accepted] using hw
      simp [hw, he, spliceAll, hsnap]
  have hcnt : st.committed = (processDiffs p.diffs).length := by
    simpa [Payload.accepted] using h2
  refine ⟨st, h1, hfile, hcnt, ?_, ?_, ?_⟩
  · rw [h3]
    by_cases he : (processDiffs p.diffs).isEmpty = true
    · simp [Payload.writes, Payload.accepted, he]
    · simp [Payload.writes, Payload.accepted, he]
  · intro q hq
    rw [h4 q]
    have : ¬ p.path = q := fun h => hq h.symm
    simp [lastWriter, this]
  · exact ⟨by simpa using hfile, by simpa using hcnt⟩

/-- **a whole run with one payload per file**: every file ends as the splice of its own old
content with its accepted edits, the number printed in "Applied N changes" is the number of edits
present in the files, exactly the files with an accepted edit are opened for writing (once each),
and every other file is untouched. -/
theorem update_one_payload_per_file (fs : FS) (ps : List Payload) (hok : ∀ p ∈ ps, p.Ok)
    (hdist : (ps.map (·.path)).Nodup) (hsnap : ∀ p ∈ ps, fsRead fs p.path = some p.oldSource) :
    ∃ st, updateAll fs ps = .ok st ∧
      (∀ p ∈ ps, fsRead st.fs p.path
          = some (spliceAll p.oldSource ((processDiffs p.diffs).map Diff.toEdit))) ∧
      st.committed = (ps.map (fun p => (processDiffs p.diffs).length)).sum ∧
      st.writes = (ps.filter (fun p => !(processDiffs p.diffs).isEmpty)).map (·.path) ∧
      (∀ q, q ∉ st.writes → fsRead st.fs q = fsRead fs q) ∧
      appliedLine st = (if st.committed > 0 then some st.committed else none) := by
  obtain ⟨st, h1, h2, h3, h4⟩ := updateAllFrom_spec ps hok { fs := fs, committed := 0, writes := [] }
  refine ⟨st, h1, ?_, by simpa [Payload.accepted] using h2, by simpa [Payload.writes, Payload.accepted] using h3, ?_, rfl⟩
  · intro p hp
    rw [h4 p.path]
    cases hl : lastWriter ps p.path with
    | some w =>
      obtain ⟨hw1, hw2, _⟩ := lastWriter_some hl
      -- distinct paths: the writer is `p` itself
      have : w = p := nodup_map_inj (·.path) ps hdist w hw1 p hp hw2
      subst this
      simp [Payload.output, Payload.accepted]
    | none =>
      -- `p` does not write: nothing accepted, the file keeps its content = the empty splice
      have hnw : p.writes = false := lastWriter_none_of_mem ps p hp hl
      have he : processDiffs p.diffs = [] := by
        simpa [Payload.writes, Payload.accepted] using hnw
      simp [he, spliceAll, hsnap p hp]
  · intro q hq
    rw [h4 q]
    cases hl : lastWriter ps q with
    | none => rfl
    | some w =>
      obtain ⟨hw1, hw2, hw3⟩ := lastWriter_some hl
      exfalso
      apply hq
      rw [h3]
      simp only [List.nil_append, List.mem_map, List.mem_filter]
      exact ⟨w, ⟨hw1, hw3⟩, hw2⟩

/-! ## Several payloads for one file: the property fails for the code as it is (DESIGN H13) -/

/-- `update_multi_payload_full` would be: for every file content and every list of per-document
diff lists, after `updateAll` on the file's payloads `FileSpec` holds.  It is **false**.
Witness (the shape of an HTML file with a host-language fix at bytes 0..1 and a `<script>` fix at
bytes 2..3): both edits are accepted and counted, each document's payload splices the *original*
text and overwrites the file, so only the second edit survives. -/
theorem multi_payload_counterexample :
    ¬ ∀ (content : Bytes) (docs : List (List Diff)) (st : UState),
        (∀ p ∈ payloadsOfFile 0 content docs, p.Ok) →
        updateAll [(0, content)] (payloadsOfFile 0 content docs) = .ok st →
        FileSpec 0 content docs st := by
  intro h
  have hw := h [1, 2, 3, 4] [[⟨0, 1, [9]⟩], [⟨2, 3, [8]⟩]]
    { fs := [(0, [1, 2, 8, 4])], committed := 2, writes := [0, 0] }
    (by
      intro p hp
      simp only [payloadsOfFile, List.map_cons, List.map_nil, List.mem_cons, List.not_mem_nil, or_false] at hp
      rcases hp with rfl | rfl <;>
        exact ⟨by decide, by decide⟩)
    (by decide)
  revert hw
  decide

/-- the same witness read as the user sees it: "Applied 2 changes", the file was written twice,
and it contains one of the two announced edits — not the splice of both (`[9,2,8,4]`) -/
theorem multi_payload_counterexample_observed :
    updateAll [(0, [1, 2, 3, 4])] (payloadsOfFile 0 [1, 2, 3, 4] [[⟨0, 1, [9]⟩], [⟨2, 3, [8]⟩]])
      = .ok { fs := [(0, [1, 2, 8, 4])], committed := 2, writes := [0, 0] } ∧
    spliceAll [1, 2, 3, 4] ((processDiffs [⟨0, 1, [9]⟩, ⟨2, 3, [8]⟩]).map Diff.toEdit) = [9, 2, 8, 4] := by
  decide

/-- **what does hold for several payloads** (any run, files may have any number of payloads):
no panic; the counter is the total number of accepted diffs over all payloads; a file ends as the
output of the **last** payload that writes it — the splice of that payload's *snapshot* with that
payload's accepted diffs only — and files no payload writes are untouched. -/
theorem update_multi_payload_partial (fs : FS) (ps : List Payload) (hok : ∀ p ∈ ps, p.Ok) :
    ∃ st, updateAll fs ps = .ok st ∧
      st.committed = (ps.map (fun p => (processDiffs p.diffs).length)).sum ∧
      st.writes = (ps.filter (fun p => !(processDiffs p.diffs).isEmpty)).map (·.path) ∧
      ∀ q, fsRead st.fs q =
        match lastWriter ps q with
        | some w => some (spliceAll w.oldSource ((processDiffs w.diffs).map Diff.toEdit))
        | none => fsRead fs q := by
  obtain ⟨st, h1, h2, h3, h4⟩ := updateAllFrom_spec ps hok { fs := fs, committed := 0, writes := [] }
  exact ⟨st, h1, by simpa [Payload.accepted] using h2,
    by simpa [Payload.writes, Payload.accepted] using h3, h4⟩

/-- in particular the property holds for a multi-document file when only one of its documents
proposes diffs (e.g. an HTML file where only the `<script>` has fixes) -/
theorem update_multi_payload_single_active (path : Nat) (content : Bytes) (fs : FS)
    (pre post : Nat) (ds : List Diff)
    (hok : (∀ d ∈ ds, d.start ≤ d.stop) ∧ Sliceable content ds)
    (hsnap : fsRead fs path = some content) :
    ∃ st, updateAll fs (payloadsOfFile path content (List.replicate pre [] ++ ds :: List.replicate post [])) = .ok st ∧
      FileSpec path content (List.replicate pre [] ++ ds :: List.replicate post []) st := by
  let docs := List.replicate pre ([] : List Diff) ++ ds :: List.replicate post []
  have hflat : docs.flatten = ds := by simp [docs]
  have hoks : ∀ p ∈ payloadsOfFile path content docs, p.Ok := by
    intro p hp
    obtain ⟨l, hl, rfl⟩ := List.mem_map.1 hp
    simp only [docs, List.mem_append, List.mem_replicate, List.mem_cons] at hl
    rcases hl with ⟨_, rfl⟩ | rfl | ⟨_, rfl⟩
    · exact ⟨by simp, by intro d hd; cases hd⟩
    · exact hok
    · exact ⟨by simp, by intro d hd; cases hd⟩
  obtain ⟨st, h1, h2, _, h4⟩ := update_multi_payload_partial fs (payloadsOfFile path content docs) hoks
  refine ⟨st, h1, ?_, ?_⟩
  · show fsRead st.fs path = some (spliceAll content ((processDiffs docs.flatten).map Diff.toEdit))
    rw [hflat, h4 path]
    cases hl : lastWriter (payloadsOfFile path content docs) path with
    | none =>
      -- nobody wrote: `ds` had no accepted diff
      have : processDiffs ds = [] := by
        have hmem : (⟨path, content, ds⟩ : Payload) ∈ payloadsOfFile path content docs := by
          simp [payloadsOfFile, docs]
        have := lastWriter_none_of_mem _ _ hmem hl
        simpa [Payload.writes, Payload.accepted] using this
      simp [this, spliceAll, hsnap]
    | some w =>
      obtain ⟨hw1, _, hw3⟩ := lastWriter_some hl
      obtain ⟨l, hl', rfl⟩ := List.mem_map.1 hw1
      simp only [docs, List.mem_append, List.mem_replicate, List.mem_cons] at hl'
      rcases hl' with ⟨_, rfl⟩ | rfl | ⟨_, rfl⟩
      · simp [Payload.writes, Payload.accepted, processDiffs, processDiffsGo] at hw3
      · rfl
      · simp [Payload.writes, Payload.accepted, processDiffs, processDiffsGo] at hw3
  · show st.committed = (processDiffs docs.flatten).length
    rw [hflat, h2]
    simp [payloadsOfFile, docs, List.map_append, List.sum_append, processDiffs, processDiffsGo,
      List.map_replicate]

/-! ## Non-vacuity -/

-- one payload, three announced diffs, the nested one is dropped: "hello" → "HeLo", 2 changes, 1 write
example : updateAll [(7, [0x68, 0x65, 0x6C, 0x6C, 0x6F]), (8, [0x78])]
      [⟨7, [0x68, 0x65, 0x6C, 0x6C, 0x6F], [⟨0, 1, [0x48]⟩, ⟨0, 2, [0x58]⟩, ⟨2, 4, [0x4C]⟩]⟩]
    = .ok { fs := [(7, [0x48, 0x65, 0x4C, 0x6F]), (8, [0x78])], committed := 2, writes := [7] } := by
  decide

example : (⟨7, [0x68, 0x65, 0x6C, 0x6C, 0x6F], [⟨0, 1, [0x48]⟩, ⟨0, 2, [0x58]⟩, ⟨2, 4, [0x4C]⟩]⟩ : Payload).Ok := by
  constructor <;> decide

-- a payload without accepted diffs opens nothing
example : updateAll [(7, [0x68])] [⟨7, [0x68], []⟩] = .ok { fs := [(7, [0x68])], committed := 0, writes := [] } := by
  decide

-- update_one_payload_per_file: two files, distinct paths, snapshots = file contents, payloads well-formed
example :
    let fs : FS := [(1, [0x61, 0x62]), (2, [0x63])]
    let ps : List Payload := [⟨1, [0x61, 0x62], [⟨0, 1, [0x58]⟩, ⟨0, 2, []⟩]⟩, ⟨2, [0x63], []⟩]
    (∀ p ∈ ps, p.Ok) ∧ (ps.map (·.path)).Nodup ∧ (∀ p ∈ ps, fsRead fs p.path = some p.oldSource) ∧
    updateAll fs ps = .ok { fs := [(1, [0x58, 0x62]), (2, [0x63])], committed := 1, writes := [1] } := by
  decide

end AGV.C18
