/-
C15 — a rule runs on a file exactly when language, globs and severity say so; the scan exits
non-zero exactly when an unsuppressed finding has effective severity error.
Property theorems only; helper lemmas live in `Lemmas/Select.lean`, the specification (relations
written from the documentation) in `Spec/Select.lean`.

All statements are relative to the trusted components that are parameters of the model (`Env`):
the glob engines, the `--filter` regex, the parser/matcher/suppression logic.
-/
import AstGrepVerif.Model.Select
import AstGrepVerif.Model.Topo
import AstGrepVerif.Spec.Select
import AstGrepVerif.Lemmas.Select
import AstGrepVerif.Lemmas.Order
import AstGrepVerif.Generated.Tables

set_option linter.unusedSimpArgs false
set_option linter.unusedVariables false

namespace AGV.C15

open AGV.Select AGV.Select.Spec

/-! ## the extension table -/

/-- The model's table is the table of the code: `SupportLang::file_types()` of every language
(regenerated from the real functions on every run; `ignore` lists the globs of a type sorted,
hence the sorted copy of the model's rows). -/
theorem generated_ext_table_agrees :
    Generated.extTable = extTable.map (fun r => (r.1, AGV.Topo.sortBy AGV.Topo.bytesLt r.2)) := by
  decide +kernel

/-- … and the model's look-up answers like the real `SupportLang::from_path` on every extension
of the table (the enumerated function, not just the data). -/
theorem generated_ext_lookup_agrees :
    ∀ row ∈ Generated.extLookup, langOfExt extTable row.1 = some row.2 := by
  decide +kernel

theorem generated_inject_table_agrees : Generated.injectTable = injectTable := by
  decide

/-- **No extension is claimed by two built-in languages** (and no language is listed twice), so
"the language of an extension" does not depend on the order of `all_langs()`. -/
theorem ext_table_functional :
    (∀ r1 ∈ extTable, ∀ r2 ∈ extTable, ∀ e ∈ r1.2, e ∈ r2.2 → r1.1 = r2.1) ∧
    (extTable.map (·.1)).Nodup := by
  decide +kernel

/-- the built-in language of a path, characterised without reference to the table order -/
theorem builtin_lang_iff (p : Path) (l : Lang) :
    builtinFromPath p = some l ↔ ∃ e, extension p = some e ∧ ∃ row ∈ extTable, row.1 = l ∧ e ∈ row.2 := by
  unfold builtinFromPath
  cases hx : extension p with
  | none => simp
  | some e =>
    simp only [langOfExt, Option.map_eq_some_iff, Option.some.injEq, exists_eq_left']
    constructor
    · rintro ⟨row, hf, hl⟩
      exact ⟨row, List.mem_of_find?_eq_some hf, hl, by simpa using List.find?_some hf⟩
    · rintro ⟨row, hr, hl, he⟩
      cases hf : extTable.find? (fun row => row.2.contains e) with
      | none =>
        have := List.find?_eq_none.mp hf row hr
        simp [he] at this
      | some row' =>
        refine ⟨row', rfl, ?_⟩
        have hr' := List.mem_of_find?_eq_some hf
        have he' : e ∈ row'.2 := by simpa using List.find?_some hf
        rw [← hl]
        exact ext_table_functional.1 row' hr' row hr e he' he

/-- `Path::extension` on the shapes the reference mentions: `src/a.ts` ↦ `ts`, `a.test.tsx` ↦
`tsx`, `.bashrc` and `Makefile` have none, `dir.d/x` has none, `foo.` has the empty one. -/
example :
    extension [115,114,99,47,97,46,116,115] = some [116,115] ∧
    extension [97,46,116,101,115,116,46,116,115,120] = some [116,115,120] ∧
    extension [46,98,97,115,104,114,99] = none ∧
    extension [77,97,107,101,102,105,108,101] = none ∧
    extension [100,105,114,46,100,47,120] = none ∧
    extension [102,111,111,46] = some [] ∧
    builtinFromPath [115,114,99,47,97,46,116,115] = some 21 := by
  decide

/-! ## language of a path: precedence, and H21 -/

/-- **Precedence**: language globs first, then custom languages, then the built-in table. -/
theorem fromPath_precedence (env : Env) (p : Path) (l : Lang) :
    fromPath env p = some l ↔
      langGlobsFromPath env.typeMatch (registerLangGlobs env.langGlobs) p = some l ∨
      (langGlobsFromPath env.typeMatch (registerLangGlobs env.langGlobs) p = none ∧
        (customFromPath env.customExts p = some l ∨
         (customFromPath env.customExts p = none ∧ builtinFromPath p = some l))) := by
  unfold fromPath
  cases langGlobsFromPath env.typeMatch (registerLangGlobs env.langGlobs) p with
  | some l' => simp
  | none => cases customFromPath env.customExts p with
    | some l' => simp
    | none => simp

theorem langGlobsFromPath_some {tm : Glob → Path → Bool} {lg : List (Lang × List Glob)} {p : Path} {l : Lang}
    (h : langGlobsFromPath tm lg p = some l) : ∃ e ∈ lg, e.1 = l ∧ e.2.any (fun g => tm g p) = true := by
  induction lg with
  | nil => simp [langGlobsFromPath] at h
  | cons e lg ih =>
    obtain ⟨l', gs⟩ := e
    simp only [langGlobsFromPath] at h
    split at h
    · next hm => simp at h; subst h; exact ⟨(l', gs), by simp, rfl, hm⟩
    · obtain ⟨e, he, h1, h2⟩ := ih h
      exact ⟨e, List.mem_cons_of_mem _ he, h1, h2⟩

theorem langGlobsFromPath_none {tm : Glob → Path → Bool} {lg : List (Lang × List Glob)} {p : Path} :
    langGlobsFromPath tm lg p = none ↔ ∀ e ∈ lg, e.2.any (fun g => tm g p) = false := by
  induction lg with
  | nil => simp [langGlobsFromPath]
  | cons e lg ih =>
    obtain ⟨l', gs⟩ := e
    simp only [langGlobsFromPath, List.mem_cons, forall_eq_or_imp]
    split
    · next hm => simp [hm]
    · next hm => simp only [ih]; simp [hm]

/-- **H21, why the entries are sorted.** `languageGlobs` is a `HashMap`; before 1c5d0c8
`register_impl` pushed the entries in the map's iteration order (`registerLangGlobsUnsorted`)
and `from_path` returns the first match: when the globs of two languages overlap, the language of
a file — hence the rules that run on it — depended on the hash order: `ts: ["*.foo"],
js: ["*.foo"]` on `a.foo` (globs abstracted to numbers; keys `ts` = [116,115], `js` = [106,115]).
Was confirmed on the real CLI (different rule sets in different process launches). -/
theorem langGlobs_order_dependent_counterexample :
    let tm : Glob → Path → Bool := fun _ _ => true
    langGlobsFromPath tm (registerLangGlobsUnsorted [([116,115], 21, [[1]]), ([106,115], 10, [[1]])]) [97] = some 21 ∧
    langGlobsFromPath tm (registerLangGlobsUnsorted [([106,115], 10, [[1]]), ([116,115], 21, [[1]])]) [97] = some 10 := by
  decide

/-- **H21 for the code as it is now.** The entries are sorted by key before they are
registered, so the registered vector — hence `from_path`, the language of every path — is the
same for every iteration order of the `languageGlobs` map (keys pairwise different). -/
theorem langGlobs_sorted_order_irrelevant (entries entries' : List (Bytes × Lang × List Glob))
    (hp : entries.Perm entries') (hk : (entries.map (·.1)).Nodup) :
    registerLangGlobs entries = registerLangGlobs entries' ∧
    ∀ (env : Env) (p : Path), fromPath { env with langGlobs := entries } p =
      fromPath { env with langGlobs := entries' } p := by
  have h : registerLangGlobs entries = registerLangGlobs entries' := by
    unfold registerLangGlobs
    congr 1
    refine AGV.Topo.sortBy_canonical (lt := fun (a b : Bytes × Lang × List Glob) => AGV.Topo.bytesLt a.1 b.1)
      (fun a b c => AGV.Topo.bytesLt_trans a.1 b.1 c.1) (fun a b => AGV.Topo.bytesLt_asymm a.1 b.1) hp ?_
    have := List.pairwise_map.mp (List.nodup_iff_pairwise_ne.mp hk)
    exact this.imp (fun {a b} h => AGV.Topo.bytesLt_total a.1 b.1 h)
  exact ⟨h, fun env p => by simp only [fromPath, h]⟩

/-- the same two maps as in the counter-example give the same language now (`js` < `ts`) -/
example :
    let tm : Glob → Path → Bool := fun _ _ => true
    langGlobsFromPath tm (registerLangGlobs [([116,115], 21, [[1]]), ([106,115], 10, [[1]])]) [97] = some 10 ∧
    langGlobsFromPath tm (registerLangGlobs [([106,115], 10, [[1]]), ([116,115], 21, [[1]])]) [97] = some 10 := by
  decide

/-- **H21, restriction that held before the fix too.** If all registered entries whose globs
match the path name the same language, every registration order gives the same answer. -/
theorem langGlobs_order_irrelevant_partial (tm : Glob → Path → Bool) (lg lg' : List (Lang × List Glob))
    (hp : lg.Perm lg') (p : Path)
    (huniq : ∀ e1 ∈ lg, ∀ e2 ∈ lg, e1.2.any (fun g => tm g p) = true → e2.2.any (fun g => tm g p) = true → e1.1 = e2.1) :
    langGlobsFromPath tm lg p = langGlobsFromPath tm lg' p := by
  cases h : langGlobsFromPath tm lg p with
  | none =>
    symm
    rw [langGlobsFromPath_none] at h ⊢
    intro e he; exact h e ((hp.mem_iff).mpr he)
  | some l =>
    obtain ⟨e, he, hl, hm⟩ := langGlobsFromPath_some h
    cases h' : langGlobsFromPath tm lg' p with
    | none =>
      rw [langGlobsFromPath_none] at h'
      have := h' e ((hp.mem_iff).mp he)
      rw [hm] at this; cases this
    | some l' =>
      obtain ⟨e', he', hl', hm'⟩ := langGlobsFromPath_some h'
      rw [← hl, ← hl']
      exact congrArg some (huniq e he e' ((hp.mem_iff).mpr he') hm hm')

/-! ## effective severity -/

/-- the severity the scan uses for a rule under a command line -/
def effSeverity (filter : Option (RuleId → Bool)) (occs : List FlagOcc) (r : Rule) : Severity :=
  (overwriteRule (Overwrite.new (parseFlags filter occs)) r).severity

/-- **Effective severity.** A flag that names the rule wins over a bare flag, a bare flag over the
rule's own severity; among several applicable flags the weakest severity wins whatever their
order (fixed evaluation order error, warning, info, hint, off — the last processed wins). A bare
`--SEV` only counts when `--SEV=ID` does not also occur (`Spec.bareFlags`). -/
theorem effective_severity_spec (filter : Option (RuleId → Bool)) (occs : List FlagOcc) (r : Rule) (s : Severity) :
    effSeverity filter occs r = s ↔ EffSeverity occs r s := by
  obtain ⟨h1, h2, h3, h4⟩ := find_spec filter occs r.id
  unfold effSeverity overwriteRule Overwrite.find EffSeverity EffSeverityWith
  cases hl : lookupId r.id (Overwrite.new (parseFlags filter occs)).byRuleId with
  | some sv =>
    have hne : byIdFlags occs r.id ≠ [] := fun h => by rw [h2.mpr h] at hl; cases hl
    have hr := (h1 sv).mp hl
    simp only [hne, ne_eq, not_false_eq_true, if_true]
    constructor
    · intro h; subst h; exact hr
    · intro h; exact resolves_unique hr h
  | none =>
    have he : byIdFlags occs r.id = [] := h2.mp hl
    simp only [he, ne_eq, not_true_eq_false, if_false]
    cases hd : (Overwrite.new (parseFlags filter occs)).defaultSeverity with
    | some sv =>
      have hne : bareFlags occs ≠ [] := fun h => by rw [h4.mpr h] at hd; cases hd
      have hr := (h3 sv).mp hd
      simp only [hne, not_false_eq_true, if_true]
      constructor
      · intro h; subst h; exact hr
      · intro h; exact resolves_unique hr h
    | none =>
      have he' : bareFlags occs = [] := h4.mp hd
      simp only [he', not_true_eq_false, if_false]
      exact eq_comm

/-- **The documented reading is not what happens** when a bare flag and an id-carrying flag of
the same severity are combined: `--error --error=a` leaves rule `b` (own severity `hint`) a hint,
although "`--error`: all rules will be set to error". Confirmed on the real CLI. -/
theorem effective_severity_doc_counterexample :
    let occs : List FlagOcc := [⟨.error, none⟩, ⟨.error, some [97]⟩]
    let b : Rule := ⟨[98], 0, .hint, none, none⟩
    effSeverity none occs b = .hint ∧ EffSeverityDoc occs b .error ∧ ¬ EffSeverityDoc occs b .hint := by
  refine ⟨by decide, ?_, ?_⟩
  · simp [EffSeverityDoc, EffSeverityWith, byIdFlags, bareFlagsDoc, Resolves]
  · simp [EffSeverityDoc, EffSeverityWith, byIdFlags, bareFlagsDoc, Resolves]

theorem bareFlags_eq_doc_of_noMixed (occs : List FlagOcc) (h : NoMixedFlags occs) :
    bareFlags occs = bareFlagsDoc occs := by
  unfold bareFlags bareFlagsDoc
  congr 1
  apply List.filter_congr
  intro o ho
  by_cases hn : o.id = none
  · have : ¬ ∃ o' ∈ occs, o'.sev = o.sev ∧ o'.id ≠ none := by
      rintro ⟨o', ho', hs, hne⟩
      exact hne ((h o ho o' ho' hs.symm).mp hn)
    simp [hn, this]
  · simp [hn]

/-- **The documented reading holds** for command lines that do not combine `--SEV` with
`--SEV=ID` for the same severity. -/
theorem effective_severity_spec_partial (filter : Option (RuleId → Bool)) (occs : List FlagOcc)
    (hmix : NoMixedFlags occs) (r : Rule) (s : Severity) :
    effSeverity filter occs r = s ↔ EffSeverityDoc occs r s := by
  rw [effective_severity_spec, EffSeverity, EffSeverityDoc, bareFlags_eq_doc_of_noMixed occs hmix]

/-- non-vacuity and the precedence cases on concrete command lines (rule ids `a`=97, `b`=98):
`--off --error=a`: a is error, b is off; `--error=a --off=a` and `--off=a --error=a`: off;
`--hint --warning`: hint; no flags: the rule's own. -/
example :
    let a : Rule := ⟨[97], 0, .warning, none, none⟩
    let b : Rule := ⟨[98], 0, .warning, none, none⟩
    effSeverity none [⟨.off, none⟩, ⟨.error, some [97]⟩] a = .error ∧
    effSeverity none [⟨.off, none⟩, ⟨.error, some [97]⟩] b = .off ∧
    effSeverity none [⟨.error, some [97]⟩, ⟨.off, some [97]⟩] a = .off ∧
    effSeverity none [⟨.off, some [97]⟩, ⟨.error, some [97]⟩] a = .off ∧
    effSeverity none [⟨.hint, none⟩, ⟨.warning, none⟩] a = .hint ∧
    effSeverity none [] a = .warning ∧
    NoMixedFlags [⟨.off, none⟩, ⟨.error, some [97]⟩] := by
  refine ⟨by decide, by decide, by decide, by decide, by decide, by decide, ?_⟩
  intro o ho o' ho' hs
  simp at ho ho'
  rcases ho with rfl | rfl <;> rcases ho' with rfl | rfl <;> simp_all

/-! ## which rule runs on which file -/

theorem mem_docLangs (env : Env) (p : Path) (l : Lang) : l ∈ docLangs env p ↔ FileHasLang env p l := by
  unfold docLangs FileHasLang
  cases fromPath env p with
  | none => simp
  | some fl =>
    simp only [List.mem_cons, List.mem_filter, List.contains_iff_mem, Option.some.injEq, exists_eq_left']

theorem matchesPath_iff (gm : Glob → Path → Bool) (r : Rule) (p : Path) :
    matchesPath gm r p = true ↔ GlobsAccept gm r p := by
  unfold matchesPath GlobsAccept
  cases hi : r.ignores with
  | none =>
    cases hf : r.files with
    | none => simp
    | some fs => simp
  | some ig =>
    by_cases hany : ig.any (fun g => gm g p) = true
    · simp only [hany, if_true, Bool.false_eq_true, false_iff]
      rintro ⟨_, h⟩
      obtain ⟨g, hg, hm⟩ := List.any_eq_true.mp hany
      have := h ig rfl g hg
      rw [this] at hm; cases hm
    · have hall : ∀ g ∈ ig, gm g p = false := by
        intro g hg
        cases hgm : gm g p with
        | false => rfl
        | true => exact (hany (List.any_eq_true.mpr ⟨g, hg, hgm⟩)).elim
      simp only [hany, if_false, Bool.false_eq_true]
      cases hf : r.files with
      | none => simp; exact hall
      | some fs =>
        simp only [List.any_eq_true, reduceCtorEq, false_or, Option.some.injEq, exists_eq_left']
        constructor
        · intro h; exact ⟨h, fun ig' h' => by cases h'; exact hall⟩
        · intro h; exact h.1

/-- **`applies_iff`.** For a project that loads (`--filter` selects something, all globs of
enabled rules compile), rule `r'` is handed to the scan of the document of language `l` of path
`p` **iff** it is one of the project's rules `r` with its effective severity, kept by `--filter`,
not off, of language `l`, the file has a document of language `l` (own language by language globs /
custom / built-in extension, or an embedded one), the path matches one of `files` when present and
none of `ignores`. -/
theorem applies_iff (env : Env) (filter : Option (RuleId → Bool)) (occs : List FlagOcc)
    (configs : List Rule) (coll : Collection)
    (hload : loadCollection env (parseFlags filter occs) configs = .ok coll)
    (p : Path) (l : Lang) (r' : Rule) :
    (l, r') ∈ rulesOn env coll p ↔
      ∃ r ∈ configs, (∃ s, EffSeverity occs r s ∧ r' = { r with severity := s }) ∧
        FilterOK filter r ∧ r'.severity ≠ .off ∧ r.lang = l ∧ FileHasLang env p l ∧
        GlobsAccept env.globMatch r p := by
  -- what was loaded
  unfold loadCollection at hload
  cases hpc : processConfigs (Overwrite.new (parseFlags filter occs)) configs with
  | error e => rw [hpc] at hload; cases hload
  | ok cs =>
    rw [hpc] at hload
    simp only [] at hload
    cases htn : tryNew env cs with
    | none => rw [htn] at hload; cases hload
    | some c =>
      rw [htn] at hload
      simp only [Except.ok.injEq] at hload
      subst hload
      obtain ⟨hok, _, hmem⟩ := tryNewLoop_spec env cs ⟨[], []⟩ c htn
        ⟨by simp, by simp⟩ (by simp)
      have hmem' : ∀ x, MemColl c x ↔ x ∈ cs ∧ x.severity ≠ .off := by
        intro x; rw [hmem x]; simp [MemColl]
      -- the processed configs
      have hcs : ∀ x, x ∈ cs ↔ ∃ r ∈ configs, FilterOK filter r ∧
          x = overwriteRule (Overwrite.new (parseFlags filter occs)) r := by
        intro x
        unfold processConfigs at hpc
        have hf : (Overwrite.new (parseFlags filter occs)).filter = filter := rfl
        rw [hf] at hpc
        cases hfil : filter with
        | none =>
          rw [hfil] at hpc
          simp only [Except.ok.injEq] at hpc
          subst hpc
          simp only [List.mem_map, FilterOK, reduceCtorEq, false_implies, implies_true, true_and]
          constructor
          · rintro ⟨r, hr, rfl⟩; exact ⟨r, hr, rfl⟩
          · rintro ⟨r, hr, rfl⟩; exact ⟨r, hr, rfl⟩
        | some f =>
          rw [hfil] at hpc
          simp only [] at hpc
          split at hpc
          · cases hpc
          · simp only [Except.ok.injEq] at hpc
            subst hpc
            simp only [List.mem_map, List.mem_filter, FilterOK, Option.some.injEq, forall_eq']
            constructor
            · rintro ⟨r, ⟨hr, hfr⟩, rfl⟩; exact ⟨r, hr, hfr, rfl⟩
            · rintro ⟨r, hr, hfr, rfl⟩; exact ⟨r, ⟨hr, hfr⟩, rfl⟩
      -- membership in `rulesOn`
      simp only [rulesOn, List.mem_flatMap, List.mem_map, Prod.mk.injEq]
      constructor
      · rintro ⟨l', hl', x, hx, rfl, rfl⟩
        obtain ⟨hm, hlang, hmp⟩ := (getRuleFromLang_mem env.globMatch c hok p l' x).mp hx
        obtain ⟨hxcs, hoff⟩ := (hmem' x).mp hm
        obtain ⟨r, hr, hfo, rfl⟩ := (hcs x).mp hxcs
        have hsev := (effective_severity_spec filter occs r _).mp rfl
        have hshape : overwriteRule (Overwrite.new (parseFlags filter occs)) r =
            { r with severity := effSeverity filter occs r } := by
          unfold effSeverity overwriteRule
          cases (Overwrite.new (parseFlags filter occs)).find r.id <;> rfl
        refine ⟨r, hr, ⟨_, hsev, hshape⟩, hfo, hoff, ?_, (mem_docLangs env p l').mp hl', ?_⟩
        · rw [hshape] at hlang; exact hlang
        · rw [hshape] at hmp
          exact (matchesPath_iff env.globMatch _ p).mp hmp
      · rintro ⟨r, hr, ⟨s, hs, rfl⟩, hfo, hoff, hlang, hfl, hga⟩
        have hs' : effSeverity filter occs r = s := (effective_severity_spec filter occs r s).mpr hs
        have hshape : overwriteRule (Overwrite.new (parseFlags filter occs)) r =
            { r with severity := s } := by
          rw [← hs']
          unfold effSeverity overwriteRule
          cases (Overwrite.new (parseFlags filter occs)).find r.id <;> rfl
        refine ⟨l, (mem_docLangs env p l).mpr hfl, { r with severity := s }, ?_, rfl, rfl⟩
        refine (getRuleFromLang_mem env.globMatch c hok p l _).mpr ⟨?_, hlang, ?_⟩
        · exact (hmem' _).mpr ⟨(hcs _).mpr ⟨r, hr, hfo, hshape.symm⟩, hoff⟩
        · exact (matchesPath_iff env.globMatch _ p).mpr hga

/-- the same for a rule with `severity: off` and no flags: it is never applied (non-vacuity of
the `≠ off` clause), while its `hint` twin is -/
example :
    let env : Env := ⟨fun _ _ => true, fun _ => true, fun _ _ => false, [], [], injectTable,
      fun _ => [], fun _ _ _ => 1, fun _ _ _ => 0⟩
    let rOff : Rule := ⟨[97], 21, .off, none, none⟩
    let rOn : Rule := ⟨[98], 21, .hint, none, none⟩
    ∃ c, loadCollection env (parseFlags none []) [rOff, rOn] = .ok c ∧
      rulesOn env c [97,46,116,115] = [(21, rOn)] := by
  exact ⟨_, rfl, by decide⟩

/-! ## exit status -/

/-- **`exit_iff_error`.** The scan exits non-zero exactly when the project does not load
(`--filter` selects nothing: 2, a glob does not compile: 9) or some visited file has a document
in which a rule of effective severity error has an unsuppressed match, or — when the pseudo rule
`unused-suppression` has been raised to error — an unused suppression. -/
theorem exit_iff_error (env : Env) (a : OverwriteArgs) (configs : List Rule) (visited : List Path) :
    scanExit env a configs visited ≠ 0 ↔
      (∃ e, loadCollection env a configs = .error e) ∨
      ∃ c, loadCollection env a configs = .ok c ∧ ∃ p ∈ visited, ∃ l ∈ docLangs env p,
        (∃ r ∈ getRuleFromLang env.globMatch c p l, r.severity = .error ∧ 0 < env.matchCount r.id p l) ∨
        (unusedSeverity a = .error ∧
          0 < env.unusedCount ((getRuleFromLang env.globMatch c p l).map (·.id)) p l) := by
  unfold scanExit
  cases hl : loadCollection env a configs with
  | error e =>
    simp only [exitCodeOf]
    cases e <;> simp [exitCodeOf]
  | ok c =>
    simp only [reduceCtorEq, exists_false, false_or, Except.ok.injEq, exists_eq_left']
    have hpos : exitCodeOf (.ok (errorCount env a c visited)) ≠ 0 ↔ 0 < errorCount env a c visited := by
      cases errorCount env a c visited <;> simp [exitCodeOf]
    rw [hpos]
    unfold errorCount
    rw [sum_pos_iff]
    apply exists_congr; intro p
    apply and_congr_right; intro _
    unfold fileErrors
    rw [sum_pos_iff]
    apply exists_congr; intro l
    apply and_congr_right; intro _
    unfold docErrors
    simp only []
    rw [Nat.add_pos_iff_pos_or_pos, sum_pos_iff]
    apply or_congr
    · simp only [List.mem_filter, decide_eq_true_eq]
      constructor
      · rintro ⟨r, ⟨h1, h2⟩, h3⟩; exact ⟨r, h1, h2, h3⟩
      · rintro ⟨r, h1, h2, h3⟩; exact ⟨r, ⟨h1, h2⟩, h3⟩
    · by_cases hu : unusedSeverity a = .error <;> simp [hu]

/-- `RuleNotFound` ↦ 2, `GlobPattern` ↦ 9 -/
def loadErrorCode : LoadError → Nat
  | .ruleNotFound => 2
  | .globPattern => 9

/-- the load-failure exit codes -/
theorem exit_load_error (env : Env) (a : OverwriteArgs) (configs : List Rule) (visited : List Path) (e : LoadError)
    (h : loadCollection env a configs = .error e) :
    scanExit env a configs visited = loadErrorCode e := by
  unfold scanExit; rw [h]; cases e <;> rfl

/-- non-vacuity of `exit_iff_error`, all four outcomes: an error finding ⇒ 1; the same finding
with the rule turned off by `--off` ⇒ 0; `--filter` selecting nothing ⇒ 2; invalid glob ⇒ 9 -/
example :
    let env : Env := ⟨fun _ _ => true, fun g => g ≠ [91], fun _ _ => false, [], [], injectTable,
      fun _ => [], fun _ _ _ => 1, fun _ _ _ => 0⟩
    let r : Rule := ⟨[97], 21, .error, none, none⟩
    let rg : Rule := ⟨[98], 21, .error, some [[91]], none⟩
    let ts : Path := [97,46,116,115]
    scanExit env (parseFlags none []) [r] [ts] = 1 ∧
    scanExit env (parseFlags none [⟨.off, none⟩]) [r] [ts] = 0 ∧
    scanExit env (parseFlags (some (fun _ => false)) []) [r] [ts] = 2 ∧
    scanExit env (parseFlags none []) [r, rg] [ts] = 9 ∧
    scanExit env (parseFlags none [⟨.off, some [98]⟩]) [r, rg] [ts] = 1 := by
  decide

/-! ## the walker's type filter -/

/-- no two registered `languageGlobs` entries name the same language (e.g. not both `js` and
`javascript`) -/
def DistinctGlobLangs (env : Env) : Prop :=
  (registerLangGlobs env.langGlobs).Pairwise (fun a b => a.1 ≠ b.1)

theorem find_lang_entry {lg : List (Lang × List Glob)} (hpw : lg.Pairwise (fun a b => a.1 ≠ b.1))
    {e : Lang × List Glob} (he : e ∈ lg) : lg.find? (fun e' => e'.1 = e.1) = some e := by
  induction lg with
  | nil => simp at he
  | cons e0 lg ih =>
    obtain ⟨h0, hpw'⟩ := List.pairwise_cons.mp hpw
    rcases List.mem_cons.mp he with rfl | he
    · simp [List.find?_cons]
    · have : ¬ e0.1 = e.1 := h0 e he
      simp [List.find?_cons, this, ih hpw' he]

theorem langGlobsFromPath_entry {tm : Glob → Path → Bool} {lg : List (Lang × List Glob)} {p : Path} {l : Lang}
    (hpw : lg.Pairwise (fun a b => a.1 ≠ b.1))
    (h : langGlobsFromPath tm lg p = some l) :
    ((langTypes lg l).any (fun g => tm g p)) = true := by
  obtain ⟨e, he, h1, h2⟩ := langGlobsFromPath_some h
  unfold langTypes
  rw [← h1, find_lang_entry hpw he]
  exact h2

/-- the file's own language always passes its own type definition: the walker's type globs are
built from the same tables `from_path` reads (extension ⇒ name ends in `.ext`; language globs are
the very same matcher) -/
theorem fromPath_typeMatch (env : Env) (hd : DistinctGlobLangs env) (p : Path) (fl : Lang)
    (h : fromPath env p = some fl) :
    langTypeMatch env fl p = true := by
  unfold langTypeMatch
  rcases (fromPath_precedence env p fl).mp h with h | ⟨_, h | ⟨_, h⟩⟩
  · rw [langGlobsFromPath_entry hd h]; simp
  · unfold customFromPath at h
    cases hx : extension p with
    | none => rw [hx] at h; cases h
    | some ext =>
      rw [hx] at h
      simp only [Option.map_eq_some_iff] at h
      obtain ⟨e, hf, hl⟩ := h
      obtain ⟨name, hn, hs⟩ := extension_suffix hx
      have he : e.1 = ext := by simpa using List.find?_some hf
      rw [hn]
      simp only [Bool.or_eq_true, List.any_eq_true, List.mem_filter, decide_eq_true_eq]
      left; right
      exact ⟨e, ⟨List.mem_of_find?_eq_some hf, hl⟩, by rw [he]; exact hs⟩
  · obtain ⟨ext, hx, row, hr, hl, he⟩ := (builtin_lang_iff p fl).mp h
    obtain ⟨name, hn, hs⟩ := extension_suffix hx
    rw [hn]
    simp only [Bool.or_eq_true, List.any_eq_true, List.mem_filter, decide_eq_true_eq]
    left; left
    exact ⟨row, ⟨hr, hl⟩, ext, he, hs⟩

/-- **`walker_filter_agrees`.** The walker's file-type filter (built from the languages of the
enabled rules, plus the languages that can host them) never hides a file from a rule that applies
to one of its documents: whenever `rulesOn` is non-empty for a path that is not below a hidden
directory, the walker visits the path — provided no two `languageGlobs` keys name the same
language (`walker_filter_alias_counterexample` otherwise). -/
theorem walker_filter_agrees (env : Env) (hd : DistinctGlobLangs env) (cs : List Rule) (c : Collection)
    (htn : tryNew env cs = some c)
    (p : Path) (l : Lang) (r : Rule) (h : (l, r) ∈ rulesOn env c p) (hvis : underHiddenDir p = false) :
    walkerVisits env c p = true := by
  obtain ⟨hok, _, _⟩ := tryNewLoop_spec env cs ⟨[], []⟩ c htn ⟨by simp, by simp⟩ (by simp)
  simp only [rulesOn, List.mem_flatMap, List.mem_map, Prod.mk.injEq] at h
  obtain ⟨l', hl', x, hx, rfl, rfl⟩ := h
  obtain ⟨hm, hlang, _⟩ := (getRuleFromLang_mem env.globMatch c hok p l' x).mp hx
  -- the rule's language is among the languages the type filter is built from
  have hin : l' ∈ (allRules c).map (·.lang) := by
    simp only [allRules, List.mem_map, List.mem_append, List.mem_flatMap]
    rcases hm with ⟨b, hb, hxb⟩ | hc
    · exact ⟨x, .inl ⟨b, hb, hxb⟩, hlang⟩
    · exact ⟨x, .inr hc, hlang⟩
  -- the file's own language passes; an embedded language is hosted by it
  obtain ⟨fl, hfl, hcase⟩ := (mem_docLangs env p l').mp hl'
  have htm := fromPath_typeMatch env hd p fl hfl
  have hsel : typeSelected env ((allRules c).map (·.lang)) p = true := by
    unfold typeSelected
    rw [List.any_eq_true]
    refine ⟨l', hin, ?_⟩
    rcases hcase with rfl | ⟨hinj, _⟩
    · simp [htm]
    · have hhost : fl ∈ hostsOf env l' := by
        unfold injectableOf at hinj
        cases hf : env.injectable.find? (fun e => e.1 = fl) with
        | none => rw [hf] at hinj; simp at hinj
        | some e =>
          rw [hf] at hinj
          have he : e.1 = fl := by simpa using List.find?_some hf
          simp only [hostsOf, List.mem_map, List.mem_filter, List.contains_iff_mem]
          exact ⟨e, ⟨List.mem_of_find?_eq_some hf, hinj⟩, he⟩
      simp only [Bool.or_eq_true, List.any_eq_true]
      right
      exact ⟨fl, hhost, htm⟩
  unfold walkerVisits
  have hne : ((allRules c).map (·.lang)).isEmpty = false := by
    cases hl : (allRules c).map (·.lang) with
    | nil => rw [hl] at hin; simp at hin
    | cons _ _ => rfl
  simp only [hne, Bool.false_eq_true, if_false, hsel, hvis, Bool.not_false, Bool.and_self]

/-- **Two keys for one language — the type filter hides a file.** `lang_globs::get_types`
returns the *first* registered entry of a language, so with `js: ["*.bar"]` and
`javascript: ["*.baz"]` (registered in the order `javascript`, `js`) the walker's file types for
JavaScript contain `*.baz` only: `x.bar` is JavaScript for `from_path` and the JavaScript rule
applies to it, but the walker never visits it (unless the type filter of another rule's language
happens to let it through). Confirmed on the real CLI; recorded in KNOWN_FINDINGS.
Globs: `*.bar` = [1], `*.baz` = [2]; path `x.bar` = [120,46,98,97,114]. -/
theorem walker_filter_alias_counterexample :
    let xbar : Path := [120,46,98,97,114]
    let env : Env := ⟨fun _ _ => true, fun _ => true, fun g p => g = [1] ∧ p = xbar,
      [([106,115], 10, [[1]]), ([106,97,118,97,115,99,114,105,112,116], 10, [[2]])], [], injectTable,
      fun _ => [], fun _ _ _ => 1, fun _ _ _ => 0⟩
    let rJs : Rule := ⟨[97], 10, .hint, none, none⟩
    ∃ c, tryNew env [rJs] = some c ∧ rulesOn env c xbar = [(10, rJs)] ∧ underHiddenDir xbar = false ∧
      walkerVisits env c xbar = false := by
  exact ⟨_, rfl, by decide, by decide, by decide⟩

/-- non-vacuity: a TypeScript rule and `src/a.ts`; an Html file with a `<script>` is visited for a
JavaScript rule (hosted language), `.hid/a.ts` is not visited, a hidden *file* `.h.ts` is -/
example :
    let env : Env := ⟨fun _ _ => true, fun _ => true, fun _ _ => false, [], [], injectTable,
      fun p => if p = [97,46,104,116,109,108] then [10] else [], fun _ _ _ => 1, fun _ _ _ => 0⟩
    let rTs : Rule := ⟨[97], 21, .hint, none, none⟩
    let rJs : Rule := ⟨[98], 10, .hint, none, none⟩
    DistinctGlobLangs env ∧ ∃ c, tryNew env [rTs, rJs] = some c ∧
      rulesOn env c [115,114,99,47,97,46,116,115] = [(21, rTs)] ∧
      walkerVisits env c [115,114,99,47,97,46,116,115] = true ∧
      rulesOn env c [97,46,104,116,109,108] = [(10, rJs)] ∧
      walkerVisits env c [97,46,104,116,109,108] = true ∧
      walkerVisits env c [46,104,105,100,47,97,46,116,115] = false ∧
      walkerVisits env c [46,104,46,116,115] = true := by
  exact ⟨by simp [DistinctGlobLangs, registerLangGlobs, AGV.Topo.sortBy], _, rfl, by decide, by decide, by decide, by decide, by decide, by decide⟩

end AGV.C15
