/-
C01, unconditional form of `findAll_complete_deep`: the search with EVERY cache and gate removed
(inside the rule, the constraints and all registered utilities: `stripCtx`, `stripCore`) ends
normally over ranked registries — stripping preserves ranks and variables
(`Lemmas/RuleStripTotal.lean`) — and `find_all` returns the same list.
-/
import AstGrepVerif.Props.C01Total
import AstGrepVerif.Lemmas.RuleStripTotal

set_option linter.unusedSimpArgs false
set_option linter.unusedVariables false

namespace AGV.C01

open AGV Spec AGV.RuleFuelReg

/-- removing the caches preserves the rank of every utility -/
theorem stripCtx_ranked (ctx : RCtx) (rank : Name → Nat) (h : RegRanked ctx rank) :
    RegRanked (stripCtx ctx) rank :=
  regRanked_stripCtx ctx rank h

/-- the fuel of the cache-free search -/
def deepBound (ctx : RCtx) (K : List Name) (Kr : Nat) (core : RuleCore) : Nat :=
  coreBound (stripCtx ctx) K Kr (stripCore core)

/-- the cache-free search ends normally -/
theorem bruteForceDeep_total (ctx : RCtx) (rank : Name → Nat) (hrank : RegRanked ctx rank)
    (K : List Name) (core : RuleCore) (hK : VarsIn K (scanVars ctx core)) (Kr : Nat)
    (hrk : coreRefsBelow rank Kr core) (start : Tree) (hs : start ∈ ctx.root.preorder) (fuel : Nat)
    (hf : deepBound ctx K Kr core ≤ fuel) :
    ∃ found, bruteForceDeep ctx fuel core start = .ok found := by
  refine findAllLoop_ok (stripCtx ctx) fuel (stripCore core) none start.preorder (fun n hn => ?_)
  exact matchCore_total_doc (stripCtx ctx) rank (regRanked_stripCtx ctx rank hrank) K (stripCore core)
    (by rw [scanVars_stripCtx]; exact hK) Kr (coreRefsBelow_stripCore rank Kr core hrk) n
    (InDoc.below (root := ctx.root) hs hn) fuel hf

/-- **`findAll_complete_deep`, unconditional**: sound caches everywhere (`RegOK`, `CachesOK`,
`ConsOK`, `CoreKindsSound`), ranked registries, fuel from `deepBound` on — the search with every
cache and gate removed ends normally, and `node.find_all(core)` ends normally with the same list:
same nodes, same environments, same order. -/
theorem findAll_complete_deep_total (ctx : RCtx) (hreg : RegOK ctx) (rank : Name → Nat)
    (hrank : RegRanked ctx rank) (K : List Name) (core : RuleCore)
    (hrule : CachesOK ctx core.rule) (hcons : ConsOK ctx core.constraints)
    (hc : CoreKindsSound ctx core) (hK : VarsIn K (scanVars ctx core)) (Kr : Nat)
    (hrk : coreRefsBelow rank Kr core) (start : Tree) (hs : start ∈ ctx.root.preorder) (fuel : Nat)
    (hf : deepBound ctx K Kr core ≤ fuel) :
    ∃ found, bruteForceDeep ctx fuel core start = .ok found ∧
      findAllNodes ctx fuel core start = .ok found := by
  obtain ⟨found, h⟩ := bruteForceDeep_total ctx rank hrank K core hK Kr hrk start hs fuel hf
  exact ⟨found, h, findAll_complete_deep ctx hreg fuel core hrule hcons hc start found h⟩

/-- non-vacuity: the constrained core of `TotalEx` over its two-level registry (no caches at all:
every soundness hypothesis holds trivially) -/
theorem findAll_complete_deep_total_example : ∀ fuel, 20 ≤ fuel →
    ∃ found, bruteForceDeep TotalEx.ctx fuel TotalEx.core TotalEx.ctx.root = .ok found ∧
      findAllNodes TotalEx.ctx fuel TotalEx.core TotalEx.ctx.root = .ok found := by
  intro fuel hf
  have hb : deepBound TotalEx.ctx (scanVars TotalEx.ctx TotalEx.core) 2 TotalEx.core ≤ 20 := by
    decide +kernel
  have hreg : RegOK TotalEx.ctx := by
    refine ⟨fun id r h => ?_, fun id core h => ?_⟩
    · simp only [TotalEx.ctx, alookup] at h
      split at h
      · simp only [Option.some.injEq] at h; subst h; simp [CachesOK]
      · cases h
    · simp only [TotalEx.ctx, alookup] at h
      split at h
      · simp only [Option.some.injEq] at h; subst h
        exact ⟨by simp [CachesOK], fun v r hv => by simp [alookup] at hv, coreHonest_none _ _ rfl⟩
      · cases h
  refine findAll_complete_deep_total TotalEx.ctx hreg _ TotalEx.ctx_acyclic _ TotalEx.core
    (by simp [TotalEx.core, CachesOK]) ?_ (coreKindsSound_of_eq _ _ rfl) (VarsIn.refl _) 2
    TotalEx.core_refs _ (Tree.self_in_preorder _) fuel (by omega)
  intro v r hv
  simp only [TotalEx.core, alookup] at hv
  split at hv
  · simp only [Option.some.injEq] at hv; subst hv; simp [CachesOK]
  · cases hv

end AGV.C01
