/-
The finite tables of the matcher, regenerated from the real code on every run
(`Generated/Tables.lean`, written by `agv-harness tables`), agree with the model — checked by
the kernel (`decide`). A change to `MatchStrictness::match_terminal`, `should_skip_trailing`,
`should_skip_goal` or to the ERROR symbol breaks these proof obligations, not a sample.
-/
import AstGrepVerif.Model.Match
import AstGrepVerif.Generated.Tables

namespace AGV.Tables

def strictnessOf : Nat → Strictness
  | 0 => .cst | 1 => .smart | 2 => .ast | 3 => .relaxed | _ => .signature

def outcomeOf : Nat → MatchOne
  | 0 => .matchedBoth | 1 => .skipBoth | 2 => .skipGoal | 3 => .skipCandidate | _ => .noMatch

/-- a synthetic candidate with the given attributes: kind 7, text `a` -/
def cand (named comment : Bool) : Tree :=
  .node { kind := 7, named, comment, missing := false, start := 0, stop := 1, field := none, id := 0 } []

def goalKind : Nat → Nat
  | 0 => 7 | 1 => 8 | _ => ERROR_KIND

def rowOK (row : Nat × Bool × Nat × Bool × Bool × Bool × Nat) : Bool :=
  let (s, goalNamed, krel, textEq, cNamed, cComment, out) := row
  (strictnessOf s).matchTerminal [0x61] goalNamed (if textEq then [0x61] else [0x61, 0x5F, 0x78])
    (goalKind krel) (cand cNamed cComment) == outcomeOf out

theorem error_kind_agrees : Generated.errorKind = ERROR_KIND := by decide

/-- every row of the table enumerated from the real `match_terminal` is what the model computes -/
theorem match_terminal_table_agrees : Generated.matchTerminalTable.all rowOK = true := by
  decide +kernel

theorem skip_trailing_table_agrees :
    Generated.skipTrailingTable.all (fun (s, n, c, r) =>
      (strictnessOf s).shouldSkipTrailing (cand n c) == r) = true := by
  decide +kernel

def goalOf : Nat → PNode
  | 0 => .metaVar .multiple
  | 1 => .metaVar (.multiCapture ['A'])
  | 2 => .metaVar (.dropped true)
  | 3 => .metaVar (.dropped false)
  | 4 => .metaVar (.capture ['A'] true)
  | 5 => .metaVar (.capture ['A'] false)
  | 6 => .terminal [0x61] true 1
  | 7 => .terminal [0x61] false 1
  | _ => .internal 1 []

theorem skip_goal_table_agrees :
    Generated.skipGoalTable.all (fun (s, g, r) =>
      (strictnessOf s).shouldSkipGoal [goalOf g] == r) = true := by
  decide +kernel

/-- the tables are complete for the realisable attribute combinations: 5 levels × 3 kinds of
candidate node × 2 × 3 × 2 goals -/
theorem match_terminal_table_size : Generated.matchTerminalTable.length = 180 := by decide +kernel

end AGV.Tables
