/-
C18 / C17 — `--update-all` with several walker threads: the payloads of different files reach the
single writer in an arbitrary interleaving (C17: any schedule), the payloads of ONE file in the order
its thread produced them.  For the printer of `Model/InteractiveFixed.lean` (it remembers the
confirmed diffs PER FILE) the interleaving is irrelevant: what is written to a file, the diffs
confirmed for it and the number of changes counted for it are those of the run that sees this file's
payloads alone.

(The seeded change C17-7 — one remembered slot instead of the per-file map — violates exactly this.)
-/
import AstGrepVerif.Lemmas.UpdateFixed
import AstGrepVerif.Props.C18Fixed

set_option linter.unusedSimpArgs false
set_option linter.unusedVariables false

namespace AGV.C18
open Spec

/-- what the printer knows about file `q`: its content and the diffs confirmed for it -/
def SameFor (q : Nat) (a b : UStateF) : Prop :=
  fsRead a.fs q = fsRead b.fs q ∧ confirmedOf a.confirmed q = confirmedOf b.confirmed q

theorem SameFor.refl (q : Nat) (a : UStateF) : SameFor q a a := ⟨rfl, rfl⟩

/-- a payload of another file leaves everything about `q` alone -/
theorem processPayloadFixed_other (q : Nat) (st st2 : UStateF) (p : Payload) (hp : p.path ≠ q)
    (h : processPayloadFixed st p = .ok st2) : SameFor q st st2 := by
  unfold processPayloadFixed at h
  simp only at h
  split at h
  · cases h; exact ⟨rfl, rfl⟩
  · cases hr : applyRewrite p.oldSource
        (mergeConfirmed (confirmedOf st.confirmed p.path) (processDiffsFixed (confirmedOf st.confirmed p.path) p.diffs)) with
    | error e => simp [hr, bind, Except.bind] at h
    | ok c =>
      simp only [hr, bind, Except.bind, pure, Except.pure, Except.ok.injEq] at h
      subst h
      have hq : q ≠ p.path := fun e => hp e.symm
      exact ⟨by simp [fsRead_fsWrite, hq], by simp [confirmedOf_setConfirmed, hq]⟩

/-- a payload of `q` itself: the outcome for `q` depends only on what was known about `q` -/
theorem processPayloadFixed_same (q : Nat) (st st' st2 : UStateF) (p : Payload) (hp : p.path = q)
    (hs : SameFor q st st') (h : processPayloadFixed st p = .ok st2) :
    ∃ st2', processPayloadFixed st' p = .ok st2' ∧ SameFor q st2 st2' ∧
      st2.committed + st'.committed = st2'.committed + st.committed := by
  subst hp
  unfold processPayloadFixed at h ⊢
  simp only at h ⊢
  rw [← hs.2]
  split at h
  · next he =>
    cases h
    simp only [he, if_true]
    exact ⟨_, rfl, hs, by simp; omega⟩
  · next he =>
    cases hr : applyRewrite p.oldSource
        (mergeConfirmed (confirmedOf st.confirmed p.path) (processDiffsFixed (confirmedOf st.confirmed p.path) p.diffs)) with
    | error e => simp [hr, bind, Except.bind] at h
    | ok c =>
      simp only [hr, bind, Except.bind, pure, Except.pure, Except.ok.injEq] at h
      subst h
      simp only [he, Bool.false_eq_true, if_false, bind, Except.bind, pure, Except.pure]
      refine ⟨_, rfl, ⟨by simp [fsRead_fsWrite], by simp [confirmedOf_setConfirmed]⟩, by simp; omega⟩

/-- **the interleaving is irrelevant**: run any list of payloads (several files, any merge of their
per-file payload sequences); for every file `q` the run over `q`'s payloads alone succeeds too and
ends with the same content of `q`, the same confirmed diffs for `q`, and counts exactly the changes
the whole run counted for `q`'s payloads. -/
theorem updateAllFixedFrom_project (q : Nat) :
    ∀ (ps : List Payload) (st st' stE : UStateF), SameFor q st st' →
      updateAllFixedFrom st ps = .ok stE →
      ∃ stE', updateAllFixedFrom st' (ps.filter (fun p => p.path == q)) = .ok stE' ∧ SameFor q stE stE' := by
  intro ps
  induction ps with
  | nil =>
    intro st st' stE hs h
    simp only [updateAllFixedFrom, Except.ok.injEq] at h
    subst h
    exact ⟨st', rfl, hs⟩
  | cons p ps ih =>
    intro st st' stE hs h
    simp only [updateAllFixedFrom, bind, Except.bind] at h
    cases h1 : processPayloadFixed st p with
    | error e => simp [h1] at h
    | ok st2 =>
      simp only [h1] at h
      by_cases hp : p.path = q
      · obtain ⟨st2', h2, hs2, _⟩ := processPayloadFixed_same q st st' st2 p hp hs h1
        obtain ⟨stE', h3, hs3⟩ := ih st2 st2' stE hs2 h
        refine ⟨stE', ?_, hs3⟩
        have : (p.path == q) = true := by simp [hp]
        simp only [List.filter_cons, this, if_true, updateAllFixedFrom, bind, Except.bind, h2, h3]
      · have hs2 : SameFor q st2 st' := by
          have := processPayloadFixed_other q st st2 p hp h1
          exact ⟨this.1.symm.trans hs.1, this.2.symm.trans hs.2⟩
        obtain ⟨stE', h3, hs3⟩ := ih st2 st' stE hs2 h
        refine ⟨stE', ?_, hs3⟩
        have : (p.path == q) = false := by simp [hp]
        simp only [List.filter_cons, this, Bool.false_eq_true, if_false, h3]

theorem update_interleaving_irrelevant (fs : FS) (ps : List Payload) (st : UStateF) (q : Nat)
    (h : updateAllFixed fs ps = .ok st) :
    ∃ st', updateAllFixed fs (ps.filter (fun p => p.path == q)) = .ok st' ∧
      fsRead st'.fs q = fsRead st.fs q ∧ confirmedOf st'.confirmed q = confirmedOf st.confirmed q := by
  obtain ⟨st', h1, h2⟩ := updateAllFixedFrom_project q ps _ _ st (SameFor.refl q _) h
  exact ⟨st', h1, h2.1.symm, h2.2.symm⟩

/-- two schedules that deliver every file's payloads in the same per-file order leave every file
with the same content -/
theorem update_same_per_file_same_files (fs : FS) (ps ps' : List Payload) (st st' : UStateF)
    (hsame : ∀ q, ps.filter (fun p => p.path == q) = ps'.filter (fun p => p.path == q))
    (h : updateAllFixed fs ps = .ok st) (h' : updateAllFixed fs ps' = .ok st') (q : Nat) :
    fsRead st.fs q = fsRead st'.fs q := by
  obtain ⟨a, ha, hfa, _⟩ := update_interleaving_irrelevant fs ps st q h
  obtain ⟨b, hb, hfb, _⟩ := update_interleaving_irrelevant fs ps' st' q h'
  rw [hsame q] at ha
  rw [ha] at hb
  cases hb
  exact hfa.symm.trans hfb

/-- non-vacuity: two files with two documents each, payloads interleaved A1 B1 A2 B2 and in file
order A1 A2 B1 B2: both runs succeed and every file carries both of its edits -/
example :
    let a1 : Payload := ⟨0, [1, 2, 3, 4], [⟨0, 1, [9]⟩]⟩
    let a2 : Payload := ⟨0, [1, 2, 3, 4], [⟨2, 3, [8]⟩]⟩
    let b1 : Payload := ⟨1, [5, 6, 7], [⟨0, 1, [0]⟩]⟩
    let b2 : Payload := ⟨1, [5, 6, 7], [⟨2, 3, [0]⟩]⟩
    let fs : FS := [(0, [1, 2, 3, 4]), (1, [5, 6, 7])]
    (updateAllFixed fs [a1, b1, a2, b2]).map (fun s => (s.fs, s.committed)) = .ok ([(0, [9, 2, 8, 4]), (1, [0, 6, 0])], 4) ∧
    (updateAllFixed fs [a1, a2, b1, b2]).map (fun s => (s.fs, s.committed)) = .ok ([(0, [9, 2, 8, 4]), (1, [0, 6, 0])], 4) := by
  decide

end AGV.C18
