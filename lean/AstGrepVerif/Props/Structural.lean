/-
Slice "structural" (C07 / C02 / C19 / C20): the structural replacer (`impl Replacer for Root<D>`,
`replacer/structural.rs`) and the patterns made from a parsed tree (`Pattern::contextual`,
`Pattern::try_new`), over `Model/Structural.lean`.

* `structural_substitutes` (C07): for every replacement tree with well-formed ranges, no MISSING
  token and no zero-width node, every environment and every pair of sources, the generated text is
  the replacement source (up to the end of its root) with exactly the byte ranges of its OUTERMOST
  variable nodes (`isVar`: a node without named children whose text is a variable spelling that the
  environment can answer) replaced by the captured texts — verbatim, no re-indentation — and nothing
  else changed: stated with the specification `Spec.spliceAll` over edits proved `Spec.Valid`.
* `unbound_var_kept`, `empty_ellipsis_kept`, `empty_ellipsis_kept_counterexample`: what is NOT
  substituted: a variable the environment does not bind, `$_`, `$$$`, and an ellipsis variable bound
  to zero nodes are no variable nodes; their spelling is copied (the template replacer writes nothing).
* `structural_eq_template_partial` (literal replacements only), `structural_eq_template_example`,
  `structural_ne_template_indent_counterexample`, `structural_ne_template_unbound_counterexample`:
  relation to the template replacer.
* `structural_missing_abort_witness`: the MISSING arm of the walk ends the whole traversal (model
  level; no parser output that reaches the arm is known, see the report).
* `contextual_is_first_of_kind`, `contextual_none_iff`, `contextual_selector_self`: C02 / C19.
-/
import AstGrepVerif.Model.Structural
import AstGrepVerif.Model.Template
import AstGrepVerif.Lemmas.Splice
import AstGrepVerif.Lemmas.Template
import AstGrepVerif.Props.C06ReplaceAll

set_option linter.unusedSimpArgs false
set_option linter.unusedVariables false

namespace AGV.Structural
open Spec Tree

/-! ### the specification side: which nodes are substituted, by what -/

/-- a variable node: `get_meta_var_replacement` answers -/
def isVar (rsrc dsrc : Bytes) (mc : Char) (env : Env) (t : Tree) : Bool :=
  (metaVarReplacement rsrc dsrc mc env t).isSome

/-- the substitution for a variable node: its whole byte range := the captured text -/
def editOf (rsrc dsrc : Bytes) (mc : Char) (env : Env) (t : Tree) : Edit UInt8 :=
  ⟨t.start, t.stop, (metaVarReplacement rsrc dsrc mc env t).getD []⟩

/-- the edits the property speaks of: one per OUTERMOST variable node, in document order -/
def varEdits (rsrc dsrc : Bytes) (mc : Char) (env : Env) (root : Tree) : List (Edit UInt8) :=
  (outermost (isVar rsrc dsrc mc env) root).map (editOf rsrc dsrc mc env)

/-- an implementation edit as the specification's `[start, stop) := rep` -/
def SEdit.toSpec (e : SEdit) : Edit UInt8 := ⟨e.position, e.position + e.deleted, e.inserted⟩

/-- the implementation edit made for a variable node -/
def sedit (rsrc dsrc : Bytes) (mc : Char) (env : Env) (t : Tree) : SEdit :=
  ⟨t.start, t.stop - t.start, (metaVarReplacement rsrc dsrc mc env t).getD []⟩

/-- no MISSING token in the tree -/
def NoMissing (t : Tree) : Prop := ∀ n ∈ t.preorder, n.info.missing = false

/-- no zero-width node in the tree (tree-sitter's `next_sibling` passes over zero-width siblings) -/
def PositiveWidth (t : Tree) : Prop := ∀ n ∈ t.preorder, n.start < n.stop

theorem NoMissing.child {t c : Tree} (h : NoMissing t) (hc : c ∈ t.children) : NoMissing c :=
  fun n hn => h n (Tree.preorder_trans t hn (Tree.child_mem_preorder hc))

theorem PositiveWidth.child {t c : Tree} (h : PositiveWidth t) (hc : c ∈ t.children) : PositiveWidth c :=
  fun n hn => h n (Tree.preorder_trans t hn (Tree.child_mem_preorder hc))

/-! ### the walk visits exactly the outermost variable nodes -/

theorem collectEdits_var (rsrc dsrc : Bytes) (mc : Char) (env : Env) (i : Info) (cs : List Tree) (text : Bytes)
    (h : metaVarReplacement rsrc dsrc mc env (.node i cs) = some text) :
    collectEdits rsrc dsrc mc env (.node i cs) = ([⟨i.start, i.stop - i.start, text⟩], false) := by
  unfold collectEdits; rw [h]

theorem collectEdits_novar (rsrc dsrc : Bytes) (mc : Char) (env : Env) (i : Info) (cs : List Tree)
    (h : metaVarReplacement rsrc dsrc mc env (.node i cs) = none) :
    collectEdits rsrc dsrc mc env (.node i cs) = collectEditsList rsrc dsrc mc env none cs := by
  unfold collectEdits; rw [h]
  cases cs with
  | nil => simp [collectEditsList]
  | cons c cs' => rfl

mutual
theorem collect_eq (rsrc dsrc : Bytes) (mc : Char) (env : Env) :
    ∀ (t : Tree), NoMissing t → PositiveWidth t → RangesWF t →
      collectEdits rsrc dsrc mc env t =
        ((outermost (isVar rsrc dsrc mc env) t).map (sedit rsrc dsrc mc env), false)
  | .node i cs, hm, hp, hwf => by
    rcases Option.eq_none_or_eq_some (metaVarReplacement rsrc dsrc mc env (.node i cs)) with hv | ⟨text, hv⟩
    · rw [collectEdits_novar rsrc dsrc mc env i cs hv]
      obtain ⟨⟨hord, hcle⟩, hnest⟩ := hwf (.node i cs) (Tree.self_mem_preorder _)
      have hl := collectList_eq rsrc dsrc mc env cs none
        (fun c hc => ⟨hm.child hc, hp.child hc, hwf.child hc⟩) hord (by intro p h; cases h)
      rw [hl]
      simp [outermost, isVar, hv]
    · rw [collectEdits_var rsrc dsrc mc env i cs text hv]
      simp [outermost, isVar, sedit, hv, Tree.start, Tree.stop, Tree.info]
theorem collectList_eq (rsrc dsrc : Bytes) (mc : Char) (env : Env) :
    ∀ (cs : List Tree) (prev : Option Nat),
      (∀ c ∈ cs, NoMissing c ∧ PositiveWidth c ∧ RangesWF c) →
      cs.Pairwise (fun a b => a.stop ≤ b.start) →
      (∀ p, prev = some p → ∀ c ∈ cs, p ≤ c.start) →
      collectEditsList rsrc dsrc mc env prev cs =
        ((outermostList (isVar rsrc dsrc mc env) cs).map (sedit rsrc dsrc mc env), false)
  | [], _, _, _, _ => by simp [collectEditsList, outermostList]
  | c :: cs, prev, hc, hpw, hprev => by
    obtain ⟨hmc, hpc, hwc⟩ := hc c (List.mem_cons_self ..)
    obtain ⟨hhead, htail⟩ := List.pairwise_cons.1 hpw
    have hpos : c.start < c.stop := hpc c c.self_mem_preorder
    have hskip : skippedByNext prev c = false := by
      cases prev with
      | none => rfl
      | some p =>
        have := hprev p rfl c (List.mem_cons_self ..)
        simp [skippedByNext]; omega
    have h1 := collect_eq rsrc dsrc mc env c hmc hpc hwc
    have hstuck : stuckMissing rsrc dsrc mc env c = false := by
      have := hmc c c.self_mem_preorder
      simp [stuckMissing, this]
    have h2 := collectList_eq rsrc dsrc mc env cs (some c.stop)
      (fun x hx => hc x (List.mem_cons_of_mem _ hx)) htail
      (by intro p hp x hx; cases hp; exact hhead x hx)
    simp only [collectEditsList, hskip, h1, hstuck, h2, outermostList, List.map_append]
    simp
end

/-! ### `merge_edits_to_vec` is the closed form of the specification -/

theorem merge_eq_segments (rsrc : Bytes) (R : Nat) (hR : R ≤ rsrc.length) :
    ∀ (es : List SEdit) (cur : Nat), OrderedFrom cur (es.map SEdit.toSpec) →
      (∀ e ∈ es, e.position + e.deleted ≤ R) → cur ≤ R →
      mergeEdits rsrc cur (es ++ [⟨R, 0, []⟩]) = some (segments (rsrc.take R) cur (es.map SEdit.toSpec))
  | [], cur, _, _, hc => by
    simp only [List.nil_append, mergeEdits, List.map_nil, segments]
    rw [if_pos ⟨hc, hR⟩]
    simp [slice, List.drop_take]
  | e :: es, cur, ho, hin, hc => by
    obtain ⟨h1, h2, h3⟩ := ho
    have he := hin e (List.mem_cons_self ..)
    simp only [SEdit.toSpec] at h1 h2 h3
    have ih := merge_eq_segments rsrc R hR es (e.position + e.deleted) h3
      (fun x hx => hin x (List.mem_cons_of_mem _ hx)) he
    simp only [List.cons_append, mergeEdits, List.map_cons, segments, SEdit.toSpec]
    rw [if_pos ⟨h1, by omega⟩, ih]
    simp only [slice, Option.some.injEq, List.append_assoc, List.append_cancel_right_eq]
    rw [List.drop_take, List.take_take]
    congr 1
    omega

/-! ### C07: the structural replacer substitutes exactly the outermost variable nodes -/

theorem toSpec_sedit (rsrc dsrc : Bytes) (mc : Char) (env : Env) (t : Tree) (h : t.start ≤ t.stop) :
    SEdit.toSpec (sedit rsrc dsrc mc env t) = editOf rsrc dsrc mc env t := by
  simp only [SEdit.toSpec, sedit, editOf, Edit.mk.injEq, and_true, true_and]
  omega

/-- the edits are ordered, disjoint and inside the replacement source: `spliceAll` applies -/
theorem varEdits_valid (rsrc dsrc : Bytes) (mc : Char) (env : Env) (root : Tree)
    (hwf : RangesWF root) (hle : root.start ≤ root.stop) (hin : root.stop ≤ rsrc.length) :
    Valid (rsrc.take root.stop).length (varEdits rsrc dsrc mc env root) := by
  obtain ⟨ho, hs⟩ := C06.outermost_ordered (isVar rsrc dsrc mc env) (editOf rsrc dsrc mc env) root hwf hle
    (fun x _ hx => ⟨rfl, hx, Nat.le_refl _⟩)
  refine ⟨C06.orderedFrom_mono (Nat.zero_le _) ho, ?_⟩
  intro e he
  have := hs e he
  simp only [List.length_take]
  omega

/-- **C07 for the structural replacer.** For every replacement tree with well-formed ranges, without
MISSING tokens and zero-width nodes, every environment, every replacement source and every matched
document: `generate_replacement` does not panic and returns the replacement source (cut at the end
of its root node) in which exactly the byte ranges of the outermost variable nodes are replaced by
the captured texts, verbatim; everything else is preserved (`Spec.spliceAll` over `Valid` edits:
`C06.splice_preserves_outside` and `splice_closed_form` apply). -/
theorem structural_substitutes (rsrc dsrc : Bytes) (mc : Char) (env : Env) (root : Tree)
    (hwf : RangesWF root) (hin : root.stop ≤ rsrc.length) (hm : NoMissing root) (hp : PositiveWidth root) :
    Valid (rsrc.take root.stop).length (varEdits rsrc dsrc mc env root) ∧
    genReplacement rsrc dsrc mc env root =
      some (spliceAll (rsrc.take root.stop) (varEdits rsrc dsrc mc env root)) := by
  have hle : root.start ≤ root.stop := Nat.le_of_lt (hp root root.self_mem_preorder)
  have hv := varEdits_valid rsrc dsrc mc env root hwf hle hin
  refine ⟨hv, ?_⟩
  have hmap : ((outermost (isVar rsrc dsrc mc env) root).map (sedit rsrc dsrc mc env)).map SEdit.toSpec
      = varEdits rsrc dsrc mc env root := by
    simp only [varEdits, List.map_map]
    apply List.map_congr_left
    intro t ht
    exact toSpec_sedit rsrc dsrc mc env t
      (Nat.le_of_lt (hp t ((outermost_sublist (isVar rsrc dsrc mc env) root).subset ht)))
  obtain ⟨ho, hs⟩ := C06.outermost_ordered (isVar rsrc dsrc mc env) (editOf rsrc dsrc mc env) root hwf hle
    (fun x _ hx => ⟨rfl, hx, Nat.le_refl _⟩)
  have hmerge := merge_eq_segments rsrc root.stop hin
    ((outermost (isVar rsrc dsrc mc env) root).map (sedit rsrc dsrc mc env)) 0
    (by rw [hmap]; exact hv.1)
    (by
      intro e he
      have : SEdit.toSpec e ∈ varEdits rsrc dsrc mc env root := by
        rw [← hmap]; exact List.mem_map_of_mem he
      exact hs _ this)
    (Nat.zero_le _)
  rw [hmap] at hmerge
  rw [spliceAll_eq_segments _ _ hv]
  simp only [genReplacement, collectAll, collect_eq rsrc dsrc mc env root hm hp hwf]
  exact hmerge

/-! ### what is not substituted -/

/-- a node whose spelling the environment cannot answer is no variable node: it is not edited
(its spelling is copied, or the walk descends into it) -/
theorem unbound_var_kept (rsrc dsrc : Bytes) (mc : Char) (env : Env) (t : Tree) (mv : MetaVar)
    (hmv : nodeMetaVar rsrc mc t = some mv) (hun : env.varBytes dsrc mv = none) :
    isVar rsrc dsrc mc env t = false := by
  simp only [isVar, metaVarReplacement, hmv, hun]
  split <;> rfl

/-- a capture bound neither to a node nor to a transformed string, `$_`, `$$$`, an ellipsis variable
that is not bound **or is bound to zero nodes**: the environment has no text for them -/
theorem varBytes_none (dsrc : Bytes) (env : Env) :
    (∀ n named, alookup n env.single = none → alookup n env.transformed = none →
      env.varBytes dsrc (.capture n named) = none) ∧
    (∀ named, env.varBytes dsrc (.dropped named) = none) ∧
    env.varBytes dsrc .multiple = none ∧
    (∀ n, alookup n env.multi = none → env.varBytes dsrc (.multiCapture n) = none) ∧
    (∀ n, alookup n env.multi = some [] → env.varBytes dsrc (.multiCapture n) = none) := by
  refine ⟨?_, ?_, rfl, ?_, ?_⟩
  · intro n named h1 h2; simp [Env.varBytes, h1, h2]
  · intro named; rfl
  · intro n h; simp [Env.varBytes, h]
  · intro n h; simp [Env.varBytes, h]

/-- `empty_ellipsis_kept`: an ellipsis variable bound to zero nodes is not substituted -/
theorem empty_ellipsis_kept (rsrc dsrc : Bytes) (mc : Char) (env : Env) (t : Tree) (n : Name)
    (hmv : nodeMetaVar rsrc mc t = some (.multiCapture n)) (he : alookup n env.multi = some []) :
    isVar rsrc dsrc mc env t = false :=
  unbound_var_kept rsrc dsrc mc env t _ hmv ((varBytes_none dsrc env).2.2.2.2 n he)

/-! ### contextual patterns: the first node of the selector kind in pre-order -/

mutual
theorem contextualNode_eq_find (k : Nat) :
    ∀ t : Tree, contextualNode t k = t.preorder.find? (fun n => n.kind == k)
  | .node i cs => by
    have hk : (Tree.node i cs).kind = i.kind := rfl
    simp only [contextualNode, Tree.preorder, List.find?_cons, hk]
    cases h : i.kind == k
    · simpa using contextualNodeList_eq_find k cs
    · simp
theorem contextualNodeList_eq_find (k : Nat) :
    ∀ cs : List Tree, contextualNodeList cs k = (Tree.preorderList cs).find? (fun n => n.kind == k)
  | [] => by simp [contextualNodeList, Tree.preorderList]
  | c :: cs => by
    simp only [contextualNodeList, Tree.preorderList, List.find?_append]
    rw [contextualNode_eq_find k c, contextualNodeList_eq_find k cs]
    cases c.preorder.find? (fun n => n.kind == k) <;> simp
end

/-- **C02 / C19**: the node a contextual pattern is built from is the first node of the selector
kind in the pre-order of the context's tree -/
theorem contextual_is_first_of_kind (t : Tree) (k : Nat) :
    contextualNode t k = t.preorder.find? (fun n => n.kind == k) :=
  contextualNode_eq_find k t

/-- no node ⇔ no node of that kind anywhere in the context -/
theorem contextual_none_iff (t : Tree) (k : Nat) :
    contextualNode t k = none ↔ ∀ n ∈ t.preorder, n.kind ≠ k := by
  rw [contextual_is_first_of_kind, List.find?_eq_none]
  simp

/-- the outcome of `Pattern::contextual` for a valid kind: the pattern of the first node of the kind
with `root_kind` = the kind, or `NoSelectorInContext` exactly when the kind does not occur -/
theorem contextualPattern_spec (src : Bytes) (mc : Char) (root : Tree) (k : Nat) (hk : k ≠ 0) :
    (∀ n, root.preorder.find? (fun n => n.kind == k) = some n →
      contextualPattern src mc root k = .ok (convertNodeToPattern src mc n, some k)) ∧
    (contextualPattern src mc root k = .error .noSelectorInContext ↔ ∀ n ∈ root.preorder, n.kind ≠ k) := by
  have hk' : (k == 0) = false := by simp [hk]
  constructor
  · intro n hn
    have hkind : n.kind = k := by simpa using List.find?_some hn
    rw [← contextual_is_first_of_kind] at hn
    simp [contextualPattern, hk', hn, hkind]
  · rw [← contextual_none_iff]
    simp only [contextualPattern, hk']
    cases contextualNode root k <;> simp

mutual
/-- the nodes `single_matcher` passes through before it stops -/
def singleChain (ek : Nat → Bool) : Tree → List Tree
  | .node i cs => if isSingleNode ek (.node i cs) then .node i cs :: singleChainHead ek cs else []
def singleChainHead (ek : Nat → Bool) : List Tree → List Tree
  | [] => []
  | c :: _ => singleChain ek c
end

theorem contextualNode_single (ek : Nat → Bool) (k : Nat) :
    ∀ t : Tree, (∀ a ∈ singleChain ek t, a.kind ≠ k) → (singleMatcher ek t).kind = k →
      contextualNode t k = some (singleMatcher ek t)
  | .node i cs, hch, hkind => by
    by_cases hs : isSingleNode ek (.node i cs) = true
    · simp only [singleChain, hs, if_true] at hch
      have hi : (i.kind == k) = false := by
        have := hch (.node i cs) (List.mem_cons_self ..)
        simpa [Tree.kind, Tree.info] using this
      simp only [singleMatcher, hs, if_true] at hkind ⊢
      simp only [contextualNode, hi]
      cases cs with
      | nil => simp [isSingleNode, Tree.children] at hs
      | cons c rest =>
        simp only [singleMatcherHead] at hkind ⊢
        have ih := contextualNode_single ek k c
          (fun a ha => hch a (List.mem_cons_of_mem _ (by simpa [singleChainHead] using ha))) hkind
        simp [contextualNodeList, ih]
    · simp only [singleMatcher, hs] at hkind ⊢
      simp only [Bool.false_eq_true, if_false] at hkind ⊢
      have : (i.kind == k) = true := by simpa [Tree.kind, Tree.info] using hkind
      simp [contextualNode, this]

/-- **`contextual_selector_self`**: when the selector is the kind of the node `Pattern::try_new`
builds its pattern from, and none of the one-child wrappers above that node has the same kind, the
contextual pattern has the plain pattern's node (and additionally remembers the kind as `root_kind`) -/
theorem contextual_selector_self (src : Bytes) (mc : Char) (ek : Nat → Bool) (root : Tree) (p : PNode)
    (hplain : patternTryNew src mc ek root = .ok (p, none))
    (k : Nat) (hk : k ≠ 0) (hkind : (singleMatcher ek root).kind = k)
    (hch : ∀ a ∈ singleChain ek root, a.kind ≠ k) :
    contextualPattern src mc root k = .ok (p, some k) := by
  have hp : p = convertNodeToPattern src mc (singleMatcher ek root) := by
    unfold patternTryNew at hplain
    split at hplain
    · cases hplain
    · split at hplain
      · cases hplain
      · simp only [Except.ok.injEq, Prod.mk.injEq, and_true] at hplain; exact hplain.symm
  have hk' : (k == 0) = false := by simp [hk]
  simp [contextualPattern, hk', contextualNode_single ek k root hch hkind, hp, hkind]

/-! ### relation to the template replacer -/

/-- **`structural_eq_template_partial`** (literal replacements): when the replacement has no variable
node and its text has no `$` followed by `[A-Z0-9_]`, and the root node ends at the end of the text,
the structural replacer and the template replacer (indentation of the match site aside:
`replaceFixer`) both return the replacement text.  With variables the two replacers agree only when
every variable is bound to a non-empty single-line text and every spelling is one node without named
children (`structural_eq_template_example`; checked on the implementation by the oracle
`structural-eq-template`); they differ on variables that are not bound, on ellipsis variables bound
to zero nodes and on multi-line captures (the three counter-examples below). -/
theorem structural_eq_template_partial (rsrc dsrc : Bytes) (mc : Char) (env : Env) (root : Tree)
    (hwf : RangesWF root) (hroot : root.stop = rsrc.length) (hm : NoMissing root) (hp : PositiveWidth root)
    (hno : varEdits rsrc dsrc mc env root = []) (hlit : NoVarStart 36 rsrc) (tenv : TEnv) :
    genReplacement rsrc dsrc mc env root = some (replaceFixer dsrc tenv (createTemplate rsrc 36 [])) := by
  obtain ⟨_, h⟩ := structural_substitutes rsrc dsrc mc env root hwf (by omega) hm hp
  rw [h, hno]
  have ht : createTemplate rsrc 36 [] = ⟨[rsrc], []⟩ := by
    simp [createTemplate, scan_noVarStart 36 [] rsrc [] [] hlit]
  simp [ht, replaceFixer, replaceFixerLoop, spliceAll, hroot]

/-! ### witnesses (kernel-checked) and non-vacuity -/

private def nd (k : Nat) (named : Bool) (s e id : Nat) (cs : List Tree) : Tree :=
  .node ⟨k, named, false, false, s, e, none, id⟩ cs

/-- the replacement `g($A)`: `program { call { identifier, arguments { "(", identifier, ")" } } }` -/
private def rsrc1 : Bytes := [103, 40, 36, 65, 41]
private def rep1 : Tree :=
  nd 1 true 0 5 0 [nd 2 true 0 5 1 [nd 3 true 0 1 2 [],
    nd 4 true 1 5 3 [nd 5 false 1 2 4 [], nd 3 true 2 4 5 [], nd 6 false 4 5 6 []]]]
/-- the matched document `f(12)`, `$A` ↦ the number `12` -/
private def dsrc1 : Bytes := [102, 40, 49, 50, 41]
private def env1 : Env := { single := [(['A'], nd 7 true 2 4 5 [])] }

/-- `g($A)` with `$A ↦ 12` gives `g(12)` -/
theorem structural_example :
    genReplacement rsrc1 dsrc1 '$' env1 rep1 = some [103, 40, 49, 50, 41] := by decide

/-- the hypotheses of `structural_substitutes` hold for it -/
example : RangesWF rep1 ∧ rep1.stop ≤ rsrc1.length ∧ NoMissing rep1 ∧ PositiveWidth rep1 := by
  refine ⟨?_, by decide, ?_, ?_⟩
  · intro p hp
    have : p ∈ rep1.preorder := hp
    simp [rep1, nd, Tree.preorder, Tree.preorderList] at this
    rcases this with rfl | rfl | rfl | rfl | rfl | rfl | rfl <;>
      simp [ChildrenOrdered, ChildrenNested, Tree.children, Tree.start, Tree.stop, Tree.info]
  · intro p hp
    have : p ∈ rep1.preorder := hp
    simp [rep1, nd, Tree.preorder, Tree.preorderList] at this
    rcases this with rfl | rfl | rfl | rfl | rfl | rfl | rfl <;> rfl
  · intro p hp
    have : p ∈ rep1.preorder := hp
    simp [rep1, nd, Tree.preorder, Tree.preorderList] at this
    rcases this with rfl | rfl | rfl | rfl | rfl | rfl | rfl <;>
      simp [Tree.start, Tree.stop, Tree.info]

/-- and its one edit is `[2, 4) := "12"` -/
example : varEdits rsrc1 dsrc1 '$' env1 rep1 = [⟨2, 4, [49, 50]⟩] := by decide

/-- the replacement `g($A,$B)` -/
private def rsrc2 : Bytes := [103, 40, 36, 65, 44, 36, 66, 41]
private def rep2 : Tree :=
  nd 1 true 0 8 0 [nd 2 true 0 8 1 [nd 3 true 0 1 2 [],
    nd 4 true 1 8 3 [nd 5 false 1 2 4 [], nd 3 true 2 4 5 [], nd 8 false 4 5 6 [],
      nd 3 true 5 7 7 [], nd 6 false 7 8 8 []]]]

/-- **structural ≠ template on a variable that is not bound**: for `g($A,$B)` with only `$A` bound the
structural replacer keeps the spelling (`g(12,$B)`), the template replacer writes nothing (`g(12,)`) -/
theorem structural_ne_template_unbound_counterexample :
    genReplacement rsrc2 dsrc1 '$' env1 rep2 = some [103, 40, 49, 50, 44, 36, 66, 41] ∧
    replaceFixer dsrc1 { single := [([65], (2, 4))] } (createTemplate rsrc2 36 [])
      = [103, 40, 49, 50, 44, 41] := by decide

/-- the matched document `␣␣[1,⏎␣␣␣␣2]`, `$A` ↦ the array that starts in column 2 -/
private def dsrc3 : Bytes := [32, 32, 91, 49, 44, 10, 32, 32, 32, 32, 50, 93]
private def env3 : Env := { single := [(['A'], nd 9 true 2 12 1 [])] }

/-- **structural ≠ template on indentation**: a multi-line capture is inserted verbatim by the
structural replacer (continuation line still indented by 4), the template replacer re-indents it
relative to the insertion column (continuation line indented by 2) -/
theorem structural_ne_template_indent_counterexample :
    genReplacement rsrc1 dsrc3 '$' env3 rep1
      = some [103, 40, 91, 49, 44, 10, 32, 32, 32, 32, 50, 93, 41] ∧
    replaceFixer dsrc3 { single := [([65], (2, 12))] } (createTemplate rsrc1 36 [])
      = [103, 40, 91, 49, 44, 10, 32, 32, 50, 93, 41] := by decide

/-- where they agree: all variables bound, single-line captures (`g($A)`, `$A ↦ 12`) -/
theorem structural_eq_template_example :
    genReplacement rsrc1 dsrc1 '$' env1 rep1
      = some (replaceFixer dsrc1 { single := [([65], (2, 4))] } (createTemplate rsrc1 36 [])) := by decide

/-- the replacement `g($$$A)` -/
private def rsrc4 : Bytes := [103, 40, 36, 36, 36, 65, 41]
private def rep4 : Tree :=
  nd 1 true 0 7 0 [nd 2 true 0 7 1 [nd 3 true 0 1 2 [],
    nd 4 true 1 7 3 [nd 5 false 1 2 4 [], nd 3 true 2 6 5 [], nd 6 false 6 7 6 []]]]

/-- **C07 counter-example**: an ellipsis variable that matched ZERO nodes (`foo($$$A)` on `foo()`)
is not replaced by its (empty) captured text: the output still contains the spelling `$$$A`;
the template replacer gives `g()` -/
theorem empty_ellipsis_kept_counterexample :
    genReplacement rsrc4 dsrc1 '$' { multi := [(['A'], [])] } rep4 = some rsrc4 ∧
    replaceFixer dsrc1 { } (createTemplate rsrc4 36 []) = [103, 40, 41] := by decide

/-- the replacement `$A;;` whose tree starts with a zero-width node that holds one MISSING token -/
private def rsrc5 : Bytes := [36, 65, 59, 59]
private def rep5 : Tree :=
  nd 1 true 0 4 0 [nd 2 true 0 0 1 [.node ⟨6, false, false, true, 0, 0, none, 2⟩ []], nd 3 true 0 2 3 []]

/-- the MISSING arm: a childless MISSING token reached by `child(0)` that has no next sibling ends
the WHOLE walk — the variable node behind it is not substituted, the conclusion of
`structural_substitutes` fails (model level: `NoMissing` is needed there) -/
theorem structural_missing_abort_witness :
    genReplacement rsrc5 dsrc1 '$' env1 rep5 = some rsrc5 ∧
    varEdits rsrc5 dsrc1 '$' env1 rep5 = [⟨0, 2, [49, 50]⟩] ∧
    spliceAll (rsrc5.take rep5.stop) (varEdits rsrc5 dsrc1 '$' env1 rep5) = [49, 50, 59, 59] := by decide

/-- contextual: in `g($A)` the selector `arguments` (kind 4) picks node 3, `identifier` (kind 3) picks
the FIRST identifier (node 2, `g`), an absent kind picks nothing -/
example : (contextualNode rep1 4).map Tree.id = some 3 ∧ (contextualNode rep1 3).map Tree.id = some 2 ∧
    (contextualNode rep1 9).map Tree.id = none := by decide

/-- `contextual_selector_self` is not vacuous: `try_new` builds its pattern from the call (node 1,
kind 2) below the one-child root of kind 1 -/
example : (singleMatcher (fun _ => false) rep1).kind = 2 ∧
    (∀ a ∈ singleChain (fun _ => false) rep1, a.kind ≠ 2) ∧
    (patternTryNew rsrc1 '$' (fun _ => false) rep1).isOk = true := by
  refine ⟨by decide, ?_, by decide⟩
  intro a ha
  have : singleChain (fun _ => false) rep1 = [rep1] := by rfl
  rw [this] at ha
  simp at ha
  subst ha
  decide

end AGV.Structural
