/-
C12 / C11 for the GLOBAL utility rules (the files of `utilDirs`): the model
`Model/GlobalLoader.lean` is `DeserializeEnv::parse_global_utils` as an outcome function
`loadGlobals : List SGlobal → ok | err | panic`.  For a set of documents with distinct ids:

  * `loadGlobals_ok_refs_resolve`        accepted ⇒ every `matches` id occurring anywhere in a rule of
        the set (rule, constraints, bodies of its local utilities, fix expansions; under any operator)
        is a local utility of that same rule or the id of a rule of the set
  * `loadGlobals_ok_no_same_node_cycle`  accepted ⇒ no global rule requires itself on the same node,
        directly, through other global rules or through its OWN local utilities
        (`GlobalRequiresTrans`, the declarative relation of `Spec/GlobalRules.lean`); the graph the
        sort sees is that relation (`globalGraph_edge_iff`) and acyclicity is C11's
        `topo_detects_cycles`
  * `loadGlobals_total`                  no input makes it panic: the sort never runs out of fuel, the
        look-ups of the sorted ids never fail, the stages of `get_matcher_with_hint` do not panic
  * `loadGlobals_ok_post`                what an accepted set leaves behind (the globals a rule
        document is then loaded with)
  * the two repaired defects, by evaluation: rejected now, accepted before
    (`globals_undefined_rejected_example` / `_prefix_accepted`,
     `globals_own_local_cycle_rejected_example` / `_prefix_accepted`), and an accepted set whose
    local utilities refer to another global rule and recurse through a RELATION
    (`globals_accepted_example`)
  * the fuel of the dependency computation is a model artefact (`globalDeps_fuel`)
-/
import AstGrepVerif.Props.C12Doc
import AstGrepVerif.Lemmas.GlobalLoader

namespace AGV.C12

open AGV AGV.Loader AGV.Loader.Spec

/-! ## what registration maintains -/

/-- a registered global rule comes from a document of the map, and its local registry holds
exactly the local utilities of that document -/
structure GRegistered (utils : List (Name × SGlobal)) (lg : LoadedGlobal) : Prop where
  doc : ∃ g, alookup lg.util.id utils = some g ∧ lg.core = g.core
  reg : RegMatches lg.registry (utilsOfCore lg.core)

theorem registerGlobals_ok (utils : List (Name × SGlobal)) :
    ∀ (ids : List Name) (done L : List LoadedGlobal), registerGlobals utils ids done = .ok L →
      (∀ lg ∈ done, GRegistered utils lg) →
      (∀ lg ∈ L, GRegistered utils lg) ∧ L.map (·.util.id) = done.map (·.util.id) ++ ids := by
  intro ids
  induction ids with
  | nil =>
    intro done L h hd
    simp only [registerGlobals] at h
    injection h with h
    subst h
    exact ⟨hd, by simp⟩
  | cons id ids ih =>
    intro done L h hd
    simp only [registerGlobals] at h
    cases hg : alookup id utils with
    | none => rw [hg] at h; cases h
    | some g =>
      rw [hg] at h
      simp only at h
      cases hm : getMatcher Fixes.all g.expando (loadedUtils done) [] g.core .global with
      | err e => rw [hm] at h; cases h
      | panic s => rw [hm] at h; cases h
      | ok p =>
        obtain ⟨reg, info⟩ := p
        rw [hm] at h
        simp only at h
        split at h
        · cases h
        · split at h
          · cases h
          · have hnew : GRegistered utils ⟨⟨id, potKinds reg (loadedUtils done) g.core.rule⟩, g.core, reg⟩ :=
              ⟨⟨g, hg, rfl⟩, (core_ok_post RegMatches.nil hm).1⟩
            obtain ⟨h1, h2⟩ := ih _ L h (by
              intro lg hlg
              rcases List.mem_append.mp hlg with hlg | hlg
              · exact hd lg hlg
              · simp only [List.mem_singleton] at hlg
                subst hlg
                exact hnew)
            refine ⟨h1, ?_⟩
            rw [h2]
            simp

theorem verifyGlobals_ok_iff (all : List LoadedGlobal) : ∀ gs,
    verifyGlobals all gs = .ok () ↔ ∀ lg ∈ gs, verifyOne all lg = .ok () := by
  intro gs
  induction gs with
  | nil => simp [verifyGlobals]
  | cons g rest ih =>
    simp only [verifyGlobals, List.mem_cons, forall_eq_or_imp]
    cases hv : verifyOne all g with
    | err e => simp
    | panic s => simp
    | ok u => simpa using ih

/-- `RuleCore::verify_utils` of a registered rule succeeds iff every `matches` of its document
resolves to one of its own local utilities or to a registered global rule -/
theorem verifyOne_ok_iff (all : List LoadedGlobal) (lg : LoadedGlobal)
    (hm : RegMatches lg.registry (utilsOfCore lg.core)) :
    verifyOne all lg = .ok () ↔
      ∀ id, RefersToCore (utilsOfCore lg.core) lg.core id →
        ResolvesIn (utilsOfCore lg.core) (loadedUtils all) id :=
  checkUtilsDefined_iff_refs (loadedUtils all) lg.core hm

/-! ## the stages of an accepted set -/

/-- the stages of `parse_global_utils` behind an `ok` -/
theorem loadGlobalsWith_ok_stages (gfx : GFixes) (gs : List SGlobal) (L : List LoadedGlobal)
    (h : loadGlobalsWith gfx gs = .ok L) :
    ∃ order, getOrder (globalGraph gfx (intoMap gs)) = .ok order ∧
      registerGlobals (intoMap gs) order [] = .ok L ∧
      (gfx.verifyGlobals = true → verifyGlobals L L = .ok ()) := by
  unfold loadGlobalsWith at h
  simp only at h
  cases ho : getOrder (globalGraph gfx (intoMap gs)) with
  | error e => rw [ho] at h; cases e <;> cases h
  | ok order =>
    rw [ho] at h
    simp only at h
    cases hr : registerGlobals (intoMap gs) order [] with
    | err e => rw [hr] at h; cases h
    | panic s => rw [hr] at h; cases h
    | ok done =>
      rw [hr] at h
      simp only at h
      by_cases hv : gfx.verifyGlobals = true
      · rw [if_pos hv] at h
        cases hvg : verifyGlobals done done with
        | err e => rw [hvg] at h; cases h
        | panic s => rw [hvg] at h; cases h
        | ok u =>
          rw [hvg] at h
          injection h with h
          subst h
          exact ⟨order, rfl, hr, fun _ => hvg⟩
      · rw [if_neg hv] at h
        injection h with h
        subst h
        exact ⟨order, rfl, hr, fun hv' => absurd hv' hv⟩

/-- **what an accepted set of global rules leaves behind**: the registered rules are exactly the
documents (each id once), each with the local registry of its own utilities, and each passed
`verify_utils` against the whole set.  `loadedUtils L` is what a rule document is then loaded with
(`SDoc.globals`). -/
theorem loadGlobals_ok_post (gs : List SGlobal) (hd : (gs.map (·.id)).Nodup) (L : List LoadedGlobal)
    (h : loadGlobals gs = .ok L) :
    (∀ id, id ∈ (loadedUtils L).map (·.id) ↔ id ∈ gs.map (·.id)) ∧
    ((loadedUtils L).map (·.id)).Nodup ∧
    (∀ g ∈ gs, ∃ lg ∈ L, lg.util.id = g.id ∧ lg.core = g.core ∧
      RegMatches lg.registry (utilsOfCore g.core) ∧ verifyOne L lg = .ok ()) := by
  obtain ⟨order, ho, hr, hv⟩ := loadGlobalsWith_ok_stages GFixes.all gs L h
  have hv := (verifyGlobals_ok_iff L L).mp (hv rfl)
  rw [intoMap_of_nodup gs hd] at ho hr
  obtain ⟨hreg, hids⟩ := registerGlobals_ok _ order [] L hr (by intro lg hlg; cases hlg)
  obtain ⟨hord, hkeys⟩ := getOrder_ok _ order ho
  have hL : (loadedUtils L).map (·.id) = order := by
    unfold loadedUtils
    simpa [List.map_map, Function.comp_def] using hids
  have hmem : ∀ id, id ∈ order ↔ id ∈ gs.map (·.id) := by
    intro id
    rw [hkeys id]
    unfold IsKey
    rw [globalGraph_keys]
    simp [List.map_map, Function.comp_def]
  refine ⟨by rw [hL]; exact hmem, by rw [hL]; exact hord.nodup, ?_⟩
  intro g hg
  have hin : g.id ∈ L.map (·.util.id) := by
    have : g.id ∈ order := (hmem g.id).mpr (List.mem_map.mpr ⟨g, hg, rfl⟩)
    rw [hids]; simpa using this
  obtain ⟨lg, hlg, hid⟩ := List.mem_map.mp hin
  obtain ⟨⟨g', hg', hcore⟩, hrm⟩ := hreg lg hlg
  rw [hid, alookup_idmap_of_nodup gs hd g hg] at hg'
  injection hg' with hg'
  subst hg'
  exact ⟨lg, hlg, hid, hcore, hcore ▸ hrm, hv lg hlg⟩

/-! ## (a) every reference resolves -/

/-- the reference relation of `Spec/GlobalRules.lean` is the one used for single documents -/
theorem globalRefersTo_iff (g : SGlobal) (id : Name) :
    GlobalRefersTo g id ↔ RefersToCore (utilsOfCore g.core) g.core id := Iff.rfl

/-- **C12 for global utility rules.** If the set is accepted, every `matches: id` occurring in any
of its rules — in `rule`, in `constraints`, in the body of a local utility, in a fix expansion,
under any operator — names a local utility of that same rule or a rule of the set. -/
theorem loadGlobals_ok_refs_resolve (gs : List SGlobal) (hd : (gs.map (·.id)).Nodup)
    (L : List LoadedGlobal) (h : loadGlobals gs = .ok L) :
    ∀ g ∈ gs, ∀ id, GlobalRefersTo g id →
      id ∈ (localsOf g).map (·.1) ∨ id ∈ gs.map (·.id) := by
  obtain ⟨hids, _, hall⟩ := loadGlobals_ok_post gs hd L h
  intro g hg id href
  obtain ⟨lg, _, _, hcore, hrm, hv⟩ := hall g hg
  have hrm' : RegMatches lg.registry (utilsOfCore lg.core) := hcore ▸ hrm
  have := (verifyOne_ok_iff L lg hrm').mp hv id (hcore ▸ (globalRefersTo_iff g id).mp href)
  rw [hcore] at this
  rcases this with h1 | h2
  · exact Or.inl h1
  · exact Or.inr ((hids id).mp h2)

/-- contrapositive, with totality: a set in which some `matches` resolves nowhere is rejected with
an error -/
theorem globals_undefined_rejected (gs : List SGlobal) (hd : (gs.map (·.id)).Nodup)
    (g : SGlobal) (hg : g ∈ gs) (id : Name) (href : GlobalRefersTo g id)
    (hl : id ∉ (localsOf g).map (·.1)) (hgl : id ∉ gs.map (·.id)) :
    ∃ e, loadGlobals gs = .err e := by
  cases h : loadGlobals gs with
  | ok L =>
    rcases loadGlobals_ok_refs_resolve gs hd L h g hg id href with h1 | h2
    · exact absurd h1 hl
    · exact absurd h2 hgl
  | err e => exact ⟨e, rfl⟩
  | panic s => exact absurd h (loadGlobalsWith_noPanic GFixes.all gs s)

/-! ## (b) no same-node cycle -/

/-- the sorted graph has no cycle when the set is accepted (no hypothesis on the ids) -/
theorem loadGlobals_ok_graph_acyclic (gs : List SGlobal) (L : List LoadedGlobal)
    (h : loadGlobals gs = .ok L) : ∀ k, ¬ Reach (globalGraph GFixes.all (intoMap gs)) k k := by
  obtain ⟨order, ho, _, _⟩ := loadGlobalsWith_ok_stages GFixes.all gs L h
  obtain ⟨hord, hkeys⟩ := getOrder_ok _ order ho
  exact hord.acyclic fun k hk => (hkeys k).mpr hk

/-- a declarative requirement step is an edge of the sorted graph -/
theorem edge_of_globalRequires (gs : List SGlobal) (hd : (gs.map (·.id)).Nodup) {a b : Name}
    (h : GlobalRequires gs a b) : Edge (globalGraph GFixes.all (intoMap gs)) a b := by
  obtain ⟨g, hg, hid, hr⟩ := h
  rw [globalGraph_edge_iff, intoMap_of_nodup gs hd]
  exact ⟨g, hid ▸ alookup_idmap_of_nodup gs hd g hg, hr⟩

/-- and conversely: the sort sees nothing but declarative requirements -/
theorem globalRequires_of_edge (gs : List SGlobal) (hd : (gs.map (·.id)).Nodup) {a b : Name}
    (h : Edge (globalGraph GFixes.all (intoMap gs)) a b) : GlobalRequires gs a b := by
  rw [globalGraph_edge_iff, intoMap_of_nodup gs hd] at h
  obtain ⟨g, hl, hr⟩ := h
  obtain ⟨hg, hid⟩ := mem_of_alookup_idmap gs a g hl
  exact ⟨g, hg, hid, hr⟩

theorem reach_of_globalRequiresTrans (gs : List SGlobal) (hd : (gs.map (·.id)).Nodup) {a b : Name}
    (h : GlobalRequiresTrans gs a b) : Reach (globalGraph GFixes.all (intoMap gs)) a b := by
  induction h with
  | single e => exact .single (edge_of_globalRequires gs hd e)
  | step e _ ih => exact .step (edge_of_globalRequires gs hd e) ih

theorem globalRequiresTrans_of_reach (gs : List SGlobal) (hd : (gs.map (·.id)).Nodup) {a b : Name}
    (h : Reach (globalGraph GFixes.all (intoMap gs)) a b) : GlobalRequiresTrans gs a b := by
  induction h with
  | single e => exact .single (globalRequires_of_edge gs hd e)
  | step e _ ih => exact .step (globalRequires_of_edge gs hd e) ih

/-- **C11 / C12 for global utility rules.** If the set is accepted, no global rule requires itself
on the same node: not directly (`matches` under `all` / `any` / `not` / `nthChild.ofRule` / as one
of several keys), not through other global rules, and not through its OWN local utilities (a
`matches` naming a local utility is followed into that utility's body, any number of times). -/
theorem loadGlobals_ok_no_same_node_cycle (gs : List SGlobal) (hd : (gs.map (·.id)).Nodup)
    (L : List LoadedGlobal) (h : loadGlobals gs = .ok L) : ∀ k, ¬ GlobalRequiresTrans gs k k :=
  fun k hc => loadGlobals_ok_graph_acyclic gs L h k (reach_of_globalRequiresTrans gs hd hc)

/-- contrapositive, with totality: a set with a same-node cycle is rejected with an error -/
theorem globals_cycle_rejected (gs : List SGlobal) (hd : (gs.map (·.id)).Nodup) (k : Name)
    (hc : GlobalRequiresTrans gs k k) : ∃ e, loadGlobals gs = .err e := by
  cases h : loadGlobals gs with
  | ok L => exact absurd hc (loadGlobals_ok_no_same_node_cycle gs hd L h k)
  | err e => exact ⟨e, rfl⟩
  | panic s => exact absurd h (loadGlobalsWith_noPanic GFixes.all gs s)

/-- the sort fails exactly on the sets with a same-node cycle -/
theorem globals_sort_ok_iff_acyclic (gs : List SGlobal) (hd : (gs.map (·.id)).Nodup) :
    (∃ o, getOrder (globalGraph GFixes.all (intoMap gs)) = .ok o) ↔ ∀ k, ¬ GlobalRequiresTrans gs k k := by
  rw [C11.getOrder_ok_iff_acyclic]
  exact ⟨fun h k hc => h k (reach_of_globalRequiresTrans gs hd hc),
    fun h k hc => h k (globalRequiresTrans_of_reach gs hd hc)⟩

/-! ## (c) totality -/

/-- **C11 for global utility rules.** `parse_global_utils` never panics, whatever the documents:
the sort never runs out of its bound, `utils.get(id).expect("must exist")` never fails on a sorted
id, and no stage of `get_matcher_with_hint` / `verify_utils` panics. -/
theorem loadGlobals_total (gs : List SGlobal) : ∀ s, loadGlobals gs ≠ .panic s :=
  loadGlobalsWith_noPanic GFixes.all gs

/-- the same before the repairs -/
theorem loadGlobalsWith_total (gfx : GFixes) (gs : List SGlobal) : ∀ s, loadGlobalsWith gfx gs ≠ .panic s :=
  loadGlobalsWith_noPanic gfx gs

/-- the fuel of the dependency computation is never used up: any larger fuel gives the same ids -/
theorem globalDeps_fuel (core : SCore) (extra : Nat) :
    globalRuleIds (core.utils.getD []) ((core.utils.getD []).length + 1 + extra) [] core.rule =
      globalDeps GFixes.all core := by
  unfold globalDeps
  simp only [GFixes.all, ↓reduceIte]
  exact globalRuleIds_fuel _ _ _

/-! ## (d) the two repaired defects, and an accepted set -/

/-- `[{id: g, rule: {kind: number, matches: nonexistent}}]` -/
def gsUndefined : List SGlobal :=
  [{ id := ['g'], core := { rule := .mk [.kind true 1, .matches ['n','o','n','e','x','i','s','t','e','n','t']] } }]

/-- `[{id: g, utils: {x: {matches: g}}, rule: {kind: number, matches: x}}]` -/
def gsOwnLocalCycle : List SGlobal :=
  [{ id := ['g'], core := { rule := .mk [.kind true 1, .matches ['x']], utils := some [(['x'], .mk [.matches ['g']])] } }]

/-- `g`: `utils: {x: {inside: {matches: g, stopBy: end}}, y: {matches: b}}`,
`rule: {kind: number, any: [{matches: x}, {matches: y}]}`; `b`: `rule: {kind: number}` —
a local utility refers to another global rule, another one recurses into `g` through a relation -/
def gsGood : List SGlobal :=
  [{ id := ['g'], core := { rule := .mk [.kind true 1, .any [.mk [.matches ['x']], .mk [.matches ['y']]]], utils := some [(['x'], .mk [.inside (.mk [.matches ['g']]) .end_ .absent]), (['y'], .mk [.matches ['b']])] } },
   { id := ['b'], core := { rule := .mk [.kind true 1] } }]

/-- 9eaee94: an undefined `matches` in a global rule is reported … -/
theorem globals_undefined_rejected_example :
    (loadGlobals gsUndefined).verdict = .err (.rule .undefinedUtil) := by decide
/-- … it was accepted (and silently never matched) -/
theorem globals_undefined_prefix_accepted :
    (loadGlobalsPreFix gsUndefined).verdict = .ok () := by decide
/-- the repair that matters is `verifyGlobals` -/
theorem globals_undefined_needs_verify :
    (loadGlobalsWith { GFixes.all with verifyGlobals := false } gsUndefined).verdict = .ok () := by decide

/-- 4456cb4: a global rule requiring itself on the same node through its own local utility is a
`CyclicRule` … -/
theorem globals_own_local_cycle_rejected_example :
    (loadGlobals gsOwnLocalCycle).verdict = .err (.rule .cyclicRule) := by decide
/-- … it passed every cycle check (the scan then overflowed the stack) -/
theorem globals_own_local_cycle_prefix_accepted :
    (loadGlobalsPreFix gsOwnLocalCycle).verdict = .ok () := by decide
/-- the repair that matters is `localCycle` -/
theorem globals_own_local_cycle_needs_localCycle :
    (loadGlobalsWith { GFixes.all with localCycle := false } gsOwnLocalCycle).verdict = .ok () := by decide

/-- the declarative reading of the second witness: `g` requires `g` through its local utility `x` -/
example : GlobalRequiresTrans gsOwnLocalCycle ['g'] ['g'] :=
  .single ⟨_, List.mem_cons_self, rfl,
    .via (x := ['x']) (.part (List.mem_cons_of_mem _ List.mem_cons_self) .matches) rfl
      (.direct (.part List.mem_cons_self .matches) rfl)⟩

/-- the declarative reading of the first witness: `nonexistent` resolves nowhere -/
example : ∃ g ∈ gsUndefined, ∃ id, GlobalRefersTo g id ∧ id ∉ (localsOf g).map (·.1) ∧ id ∉ gsUndefined.map (·.id) :=
  ⟨_, List.mem_cons_self, ['n','o','n','e','x','i','s','t','e','n','t'],
    Or.inl (.part (List.mem_cons_of_mem _ List.mem_cons_self) .matches), by decide, by decide⟩

/-- non-vacuity of the three theorems: an accepted set with distinct ids, a local utility that
refers to another global rule, and recursion through a relation (not a same-node edge) -/
theorem globals_accepted_example : (loadGlobals gsGood).verdict = .ok () := by decide

example : (gsGood.map (·.id)).Nodup := by decide
example : ∃ L, loadGlobals gsGood = .ok L := by
  cases h : loadGlobals gsGood with
  | ok L => exact ⟨L, rfl⟩
  | err e => have := globals_accepted_example; rw [h] at this; cases this
  | panic s => have := globals_accepted_example; rw [h] at this; cases this
/-- the graph the sort sees for it: `g` requires `b` (through `y`), nothing requires `g` -/
example : globalGraph GFixes.all (intoMap gsGood) = [(['g'], [['b']]), (['b'], [])] := by decide
/-- before the repair the sort did not look into `y` -/
example : globalGraph GFixes.none (intoMap gsGood) = [(['g'], [['x'], ['y']]), (['b'], [])] := by decide
/-- mutual requirement of two global rules is a cycle, in either document order -/
example : (loadGlobals [{ id := ['a'], core := { rule := .mk [.matches ['b']] } },
                        { id := ['b'], core := { rule := .mk [.kind true 1, .matches ['a']] } }]).verdict
    = .err (.rule .cyclicRule) := by decide

/-! ## what the guarantee does NOT cover -/

/-- `{id: g, rule: {kind: number, pattern: $A}, constraints: {A: {matches: g}}}`: the pattern `$A`
captures the node itself, so the constraint evaluates `g` on the SAME node — a requirement the
loader's sort does not follow (it looks at `rule` and the local utilities only, and so does
`GlobalRequires`).  The set is accepted by the model, and by the real `parse_global_utils`; a scan
with a rule that uses `g` overflows the stack (observed on the real code, reported as a finding). -/
def gsConstraintSelf : List SGlobal :=
  [{ id := ['g'], core := { rule := .mk [.pattern true [['A']] none, .kind true 1], constraints := [(['A'], .mk [.matches ['g']])] } }]

theorem loadGlobals_constraint_cycle_accepted_counterexample :
    (loadGlobals gsConstraintSelf).verdict = .ok () := by decide

end AGV.C12
