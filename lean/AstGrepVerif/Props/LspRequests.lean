/-
Slice "lsp_requests" (C06 / C08 / C09): the language server's request layer over a session.

Model: `Model/LspRequests.lean` (`step` / `run` extend `Model/Lsp` with `textDocument/codeAction`
and `workspace/executeCommand`; the analysis of a text is the parameter `analyse`).
Specification side (written from the property texts and the LSP specification, not from the code):
  * "the text of the highest version received" — `Spec/LspLatest.lean` (`IsLatestMax`,
    `changesUntilClose`, `closedIn`), as in `C09.lsp_latest`;
  * `fixesOfText` — what "fix all" means for ONE text: the overlap-free sub-list of the edits of its
    diagnostics (`Frontends.lspFixAll`, proved equal to the CLI's `--update-all` selection in
    `C08.fixAll_eq_updateAll`);
  * `OrderedDisjoint` — edits ordered and pairwise disjoint in (line, character) order;
  * `IsQuickFixOf` — the quick fix of one client diagnostic (`replaced_range(d) := fixed(d)`);
  * `Selects` / `Requested` / `kindOfAction` — the LSP kind hierarchy of `CodeActionContext.only`
    ("Kinds are a hierarchical list of identifiers separated by `.`"; a request for `source` asks
    for `source.fixAll.ast-grep` too; the empty kind selects nothing).
The routing of `on_code_action` exists in two states: the released one (`onCodeActionPinned`, string
equality with `source.fixAll`; the `only_*_counterexample` theorems about it are regression
theorems) and the repaired one (`onCodeAction`, FIX_lsp_only_kinds: kind hierarchy), about which
everything else speaks.
-/
import AstGrepVerif.Model.LspRequests
import AstGrepVerif.Props.C09
import AstGrepVerif.Lemmas.Frontends

set_option linter.unusedSimpArgs false
set_option linter.unusedVariables false

namespace AGV.LspRequests

open AGV AGV.Lsp AGV.LspReq AGV.Spec.Lsp

/-! ## specification side -/

/-- "fix all" of one text: the edits `compute_all_fixes` must return for a document whose text is `t` -/
def fixesOfText (an : Analyse) (u : Uri) (t : Text) : Except FixErr (List TEdit) :=
  let edits := (lspFixAll Variant.fixed (an u t)).filterMap editOfDiag
  if edits.isEmpty then .error .noFix else .ok edits

def lposLe (a b : LPos) : Prop := lposLt b a = false

instance (a b : LPos) : Decidable (lposLe a b) := inferInstanceAs (Decidable (lposLt b a = false))

/-- edits in (line, character) order: each well-formed, each starting at or after the end of every earlier one -/
def OrderedDisjoint (es : List TEdit) : Prop :=
  (∀ e ∈ es, lposLe e.start e.stop) ∧ es.Pairwise (fun a b => lposLe a.stop b.start)

/-- `a` is the quick fix of the client diagnostic `d` of document `u`: `d` comes from ast-grep, carries
fix data and a rule id; the action replaces `replaced_range(d)` (the range in the data, the
diagnostic's own range without one) by `fixed(d)` -/
def IsQuickFixOf (u : Uri) (d : ClientDiag) (a : Action) : Prop :=
  (∃ s, d.source = some s ∧ containsB astGrepName s = true) ∧
  ∃ fixed range id, d.data = .rewrite fixed range ∧ d.code = .str id ∧
    a = ⟨.quickfix, some id, u,
          [⟨(range.getD (d.start, d.stop)).1, (range.getD (d.start, d.stop)).2, fixed⟩], true⟩

/-- the `CodeActionKind` a returned action carries -/
def kindOfAction (a : Action) : Kind :=
  match a.kind with
  | .quickfix => kQuickfix
  | .fixAll => kFixAllAstGrep

/-- LSP kind hierarchy: the requested kind `r` selects the kind `k` when `r` is `k` or an ancestor of
`k` (`source` selects `source.fixAll.ast-grep`); the empty kind selects nothing -/
def Selects (r k : Kind) : Prop := r ≠ [] ∧ r <+: k

/-- LSP: the action kind `k` is asked for by `only` (no `only`: everything is) -/
def Requested (only : Option (List Kind)) (k : Kind) : Prop :=
  match only with
  | none => True
  | some kinds => ∃ r ∈ kinds, Selects r k

/-- the edits of the fix-all action in the response to a code-action request -/
def actionEdits : List Out → Option (Uri × List TEdit)
  | [.actions (some [a])] => if a.kind = .fixAll then some (a.uri, a.edits) else none
  | _ => none

/-- the edits of the `workspace/applyEdit` a command caused -/
def appliedEdits : List Out → Option (Uri × List TEdit)
  | [.command (.applied u es)] => some (u, es)
  | _ => none

/-! ## helper lemmas -/

theorem lposLe_refl (a : LPos) : lposLe a a := pos_not_lt_self a

theorem lposLt_iff (a b : LPos) : lposLt a b = true ↔ (a.1 < b.1 ∨ (a.1 = b.1 ∧ a.2 < b.2)) := by
  simp [lposLt]

theorem lposLe_iff (a b : LPos) : lposLe a b ↔ (a.1 < b.1 ∨ (a.1 = b.1 ∧ a.2 ≤ b.2)) := by
  unfold lposLe
  rw [← Bool.not_eq_true, lposLt_iff]
  omega

theorem lposLe_trans {a b c : LPos} (h1 : lposLe a b) (h2 : lposLe b c) : lposLe a c := by
  rw [lposLe_iff] at *
  omega

theorem pubsOf_append (a b : List Out) : pubsOf (a ++ b) = pubsOf a ++ pubsOf b := by
  induction a with
  | nil => rfl
  | cons x xs ih => cases x <;> simp [pubsOf, ih]

theorem pubsOf_map_publish (l : List Publish) : pubsOf (l.map Out.publish) = l := by
  induction l with
  | nil => rfl
  | cons x xs ih => simp [pubsOf, ih]

theorem step_request (cfg : Config) (an : Analyse) (s : State) (op : SOp) (h : ∀ d, op ≠ .doc d) :
    (step cfg an s op).1 = s ∧ pubsOf (step cfg an s op).2 = [] := by
  cases op with
  | doc d => exact absurd rfl (h d)
  | codeAction u r o ds => exact ⟨rfl, rfl⟩
  | executeCommand a args => exact ⟨rfl, rfl⟩

theorem runFrom_docs (cfg : Config) (an : Analyse) :
    ∀ (h : List SOp) (s : State) (acc : List Out) (pacc : List Publish), pubsOf acc = pacc →
      (runFrom cfg an s acc h).state = (Lsp.runFrom cfg s pacc (docOps h)).state ∧
      pubsOf (runFrom cfg an s acc h).outs = (Lsp.runFrom cfg s pacc (docOps h)).pubs
  | [], s, acc, pacc, hp => ⟨rfl, hp⟩
  | op :: ops, s, acc, pacc, hp => by
    cases op with
    | doc d =>
      simp only [LspReq.runFrom, docOps, Lsp.runFrom]
      apply runFrom_docs cfg an ops
      simp [LspReq.step, pubsOf_append, pubsOf_map_publish, hp]
    | codeAction u r o ds =>
      simp only [LspReq.runFrom, docOps]
      apply runFrom_docs cfg an ops
      simp [LspReq.step, pubsOf_append, pubsOf, hp]
    | executeCommand a args =>
      simp only [LspReq.runFrom, docOps]
      apply runFrom_docs cfg an ops
      simp [LspReq.step, pubsOf_append, pubsOf, hp]

/-- every message the client saw was produced by one `step` from some state -/
theorem mem_outs (cfg : Config) (an : Analyse) :
    ∀ (h : List SOp) (s : State) (acc : List Out) (o : Out), o ∈ (runFrom cfg an s acc h).outs →
      o ∈ acc ∨ ∃ s' op, op ∈ h ∧ o ∈ (step cfg an s' op).2
  | [], s, acc, o, ho => Or.inl ho
  | op :: ops, s, acc, o, ho => by
    simp only [LspReq.runFrom] at ho
    rcases mem_outs cfg an ops _ _ o ho with h1 | ⟨s', op', hm, h2⟩
    · rcases List.mem_append.mp h1 with h1 | h1
      · exact Or.inl h1
      · exact Or.inr ⟨s, op, by simp, h1⟩
    · exact Or.inr ⟨s', op', List.mem_cons_of_mem _ hm, h2⟩

/-! ### the overlap filter -/

theorem go_mem (last : LPos) (ds : List LspDiag) :
    ∀ d ∈ lspFixAllGo last ds, d ∈ ds ∧ d.fixed.isSome = true := by
  induction ds generalizing last with
  | nil => intro d hd; simp [lspFixAllGo] at hd
  | cons x xs ih =>
    intro d hd
    unfold lspFixAllGo at hd
    split at hd
    · obtain ⟨h1, h2⟩ := ih last d hd
      exact ⟨List.mem_cons_of_mem _ h1, h2⟩
    · next f hf =>
      split at hd
      · obtain ⟨h1, h2⟩ := ih last d hd
        exact ⟨List.mem_cons_of_mem _ h1, h2⟩
      · rcases List.mem_cons.mp hd with rfl | hd
        · exact ⟨by simp, by simp [hf]⟩
        · obtain ⟨h1, h2⟩ := ih x.editStop d hd
          exact ⟨List.mem_cons_of_mem _ h1, h2⟩

/-- the kept diagnostics, for well-formed replaced ranges: each starts at or after `last`, and at or
after the end of every kept one before it -/
theorem go_ordered (ds : List LspDiag) (hwf : ∀ d ∈ ds, lposLe d.editStart d.editStop) :
    ∀ last, (∀ d ∈ lspFixAllGo last ds, lposLe last d.editStart) ∧
      (lspFixAllGo last ds).Pairwise (fun a b => lposLe a.editStop b.editStart) := by
  induction ds with
  | nil => intro last; simp [lspFixAllGo]
  | cons x xs ih =>
    have hwf' : ∀ d ∈ xs, lposLe d.editStart d.editStop := fun d h => hwf d (List.mem_cons_of_mem _ h)
    intro last
    unfold lspFixAllGo
    split
    · exact ih hwf' last
    · split
      · exact ih hwf' last
      · next hlt =>
        have hx : lposLe last x.editStart := by simpa [lposLe] using hlt
        obtain ⟨h1, h2⟩ := ih hwf' x.editStop
        refine ⟨?_, List.pairwise_cons.mpr ⟨h1, h2⟩⟩
        intro d hd
        rcases List.mem_cons.mp hd with rfl | hd
        · exact hx
        · exact lposLe_trans hx (lposLe_trans (hwf x (by simp)) (h1 d hd))

/-- a diagnostic with fix data that the filter drops starts before `last` or before the end of a kept one -/
theorem go_dropped (ds : List LspDiag) :
    ∀ last d, d ∈ ds → d.fixed.isSome = true → d ∉ lspFixAllGo last ds →
      lposLt d.editStart last = true ∨ ∃ k ∈ lspFixAllGo last ds, lposLt d.editStart k.editStop = true := by
  induction ds with
  | nil => intro last d hd; simp at hd
  | cons x xs ih =>
    intro last d hd hfix hnot
    unfold lspFixAllGo at hnot ⊢
    split at hnot
    · next hnone =>
      have hne : d ≠ x := by rintro rfl; simp [hnone] at hfix
      have hdx : d ∈ xs := by
        rcases List.mem_cons.mp hd with h | h
        · exact absurd h hne
        · exact h
      simpa [hnone] using ih last d hdx hfix hnot
    · next f hf =>
      split at hnot
      · next hlt =>
        simp only [hf, hlt, if_true]
        rcases List.mem_cons.mp hd with rfl | hdx
        · exact Or.inl hlt
        · exact ih last d hdx hfix hnot
      · next hlt =>
        simp only [hf, hlt]
        have hne : d ≠ x := by rintro rfl; exact hnot (by simp)
        have hdx : d ∈ xs := by
          rcases List.mem_cons.mp hd with h | h
          · exact absurd h hne
          · exact h
        have hnot' : d ∉ lspFixAllGo x.editStop xs := fun h => hnot (List.mem_cons_of_mem _ h)
        rcases ih x.editStop d hdx hfix hnot' with h | ⟨k, hk, hlt'⟩
        · exact Or.inr ⟨x, by simp, h⟩
        · exact Or.inr ⟨k, List.mem_cons_of_mem _ hk, hlt'⟩

theorem mem_insertDiag (o : Bool) (d x : LspDiag) (l : List LspDiag) :
    x ∈ insertDiag o d l ↔ x = d ∨ x ∈ l := by
  induction l with
  | nil => simp [insertDiag]
  | cons y ys ih =>
    unfold insertDiag
    split
    · simp
    · simp only [List.mem_cons, ih]
      constructor
      · rintro (h | h | h)
        · exact Or.inr (Or.inl h)
        · exact Or.inl h
        · exact Or.inr (Or.inr h)
      · rintro (h | h | h)
        · exact Or.inr (Or.inl h)
        · exact Or.inl h
        · exact Or.inr (Or.inr h)

theorem mem_sortDiags (o : Bool) (x : LspDiag) (l : List LspDiag) : x ∈ sortDiags o l ↔ x ∈ l := by
  unfold sortDiags
  induction l with
  | nil => simp
  | cons y ys ih => simp [List.foldr, mem_insertDiag, ih]

theorem pairwise_filterMap_edit (l : List LspDiag)
    (h : l.Pairwise (fun a b => lposLe a.editStop b.editStart)) :
    (l.filterMap editOfDiag).Pairwise (fun a b => lposLe a.stop b.start) := by
  induction l with
  | nil => simp
  | cons x xs ih =>
    obtain ⟨h1, h2⟩ := List.pairwise_cons.mp h
    rw [List.filterMap_cons]
    cases hx : editOfDiag x with
    | none => exact ih h2
    | some e =>
      simp only
      refine List.pairwise_cons.mpr ⟨?_, ih h2⟩
      intro b hb
      obtain ⟨d, hd, hdb⟩ := List.mem_filterMap.mp hb
      have := h1 d hd
      unfold editOfDiag at hx hdb
      cases hf : x.fixed <;> simp [hf] at hx
      cases hg : d.fixed <;> simp [hg] at hdb
      subst hx; subst hdb
      exact this

theorem diag_action_kind (u : Uri) (d : ClientDiag) (a : Action)
    (h : diagnosticToCodeAction u d = some a) : a.kind = .quickfix := by
  unfold diagnosticToCodeAction at h
  cases hd : d.data <;> simp [hd] at h
  cases hc : d.code <;> simp [hc] at h
  subst h; rfl

theorem quickfix_kinds (u : Uri) (ds : List ClientDiag) (r : List Action)
    (hr : quickfixCodeAction u ds = some r) : ∀ a ∈ r, a.kind = .quickfix := by
  intro a har
  unfold quickfixCodeAction at hr
  split at hr
  · cases hr
  · injection hr with hr
    subst hr
    obtain ⟨d, _, hda⟩ := List.mem_filterMap.mp har
    exact diag_action_kind u d a hda

/-- the repaired test of `on_code_action` is the kind hierarchy -/
theorem selectsFixAll_iff (k : Kind) : selectsFixAll k = true ↔ Selects k kFixAllAstGrep := by
  unfold selectsFixAll Selects
  constructor
  · intro h
    simp only [Bool.or_eq_true, beq_iff_eq, Bool.and_eq_true, Bool.not_eq_true', decide_eq_true_eq,
      List.isPrefixOf_iff_prefix] at h
    rcases h with h | ⟨⟨h1, h2⟩, _⟩
    · subst h; exact ⟨by decide, List.prefix_refl _⟩
    · exact ⟨by cases k <;> simp_all, h2⟩
  · rintro ⟨hne, hp⟩
    simp only [Bool.or_eq_true, beq_iff_eq, Bool.and_eq_true, Bool.not_eq_true', decide_eq_true_eq,
      List.isPrefixOf_iff_prefix]
    by_cases hl : k.length < kFixAllAstGrep.length
    · exact Or.inr ⟨⟨by cases k <;> simp_all, hp⟩, hl⟩
    · have hle := hp.length_le
      exact Or.inl (hp.eq_of_length (by omega)).symm

theorem any_selects_iff (kinds : List Kind) :
    kinds.any selectsFixAll = true ↔ ∃ r ∈ kinds, Selects r kFixAllAstGrep := by
  simp [List.any_eq_true, selectsFixAll_iff]

/-! ## the properties -/

/-- **requests_do_not_change_documents** — a code-action request or a command never alters the
document map and never publishes diagnostics … -/
theorem requests_do_not_change_documents (cfg : Config) (an : Analyse) (s : State) (op : SOp)
    (h : ∀ d, op ≠ .doc d) :
    (step cfg an s op).1 = s ∧ pubsOf (step cfg an s op).2 = [] :=
  step_request cfg an s op h

/-- … so over EVERY session the document map and the publish log are those of the session's
notifications alone (`Model/Lsp.run`, about which C09 speaks). -/
theorem session_documents (cfg : Config) (an : Analyse) (h : List SOp) :
    (run cfg an h).state = (Lsp.run cfg (docOps h)).state ∧
    pubsOf (run cfg an h).outs = (Lsp.run cfg (docOps h)).pubs :=
  runFrom_docs cfg an h [] [] [] rfl

/-- **fixall_uses_latest** — after ANY session, for a uri the server can serve: cut the session's
notifications at the last `didOpen u`; `compute_all_fixes(u)` — the one function behind the
`source.fixAll` code action and the `ast-grep.applyAllFixes` command (`fixall_eq_execute`) — returns
the fix-all of the text of the highest version received since (latest among equals), and
`UnsupportedFileType` (no action, nothing applied) once the document was closed. -/
theorem fixall_uses_latest (cfg : Config) (an : Analyse) (u : Uri) (hacc : C09.Accepted cfg u)
    (h : List SOp) (pre post : List Op) (v : Version) (t : Text)
    (hdoc : docOps h = pre ++ Op.open u v t :: post)
    (hlast : ∀ op ∈ post, isOpenOf u op = false) :
    ∃ m, IsLatestMax ((v, t) :: changesUntilClose u post) m ∧
      computeAllFixes an (run cfg an h).state u =
        (if closedIn u post then .error .unsupported else fixesOfText an u m.2) := by
  obtain ⟨m, _, hmax, hlk⟩ := C09.lsp_latest cfg u hacc pre post v t hlast
  refine ⟨m, hmax, ?_⟩
  rw [(session_documents cfg an h).1, hdoc]
  unfold computeAllFixes
  rw [hlk]
  cases closedIn u post <;> simp [fixesOfText]

/-- a uri that was never opened (or cannot be served) has nothing to fix -/
theorem fixall_never_opened (cfg : Config) (an : Analyse) (u : Uri) (h : List SOp)
    (hno : ∀ op ∈ docOps h, isOpenOf u op = false) :
    computeAllFixes an (run cfg an h).state u = .error .unsupported := by
  rw [(session_documents cfg an h).1]
  unfold computeAllFixes
  rw [(C09.lsp_never_opened_silent cfg u (docOps h) hno).2]

/-- **fixall_eq_execute** — on the same state, the edits of the fix-all code action (a request whose `only` selects `source.fixAll.ast-grep`) and the
edits the `ast-grep.applyAllFixes` command applies are the same (same document, same list; none
together).  The `version` / `text` of the command's argument, further arguments, the request's
`range` and diagnostics play no part. -/
theorem fixall_eq_execute (cfg : Config) (an : Analyse) (s : State) (u : Uri) (range : LRange)
    (kinds : List Kind) (hk : ∃ r ∈ kinds, Selects r kFixAllAstGrep) (diags : List ClientDiag)
    (v : Version) (t : Text) (rest : List Arg) :
    actionEdits (step cfg an s (.codeAction u range (some kinds) diags)).2 =
      appliedEdits (step cfg an s (.executeCommand true (.doc u v t :: rest))).2 ∧
    actionEdits (step cfg an s (.codeAction u range (some kinds) diags)).2 =
      (match computeAllFixes an s u with
       | .ok es => some (u, es)
       | .error _ => none) := by
  have hc : kinds.any selectsFixAll = true := (any_selects_iff kinds).mpr hk
  simp only [LspReq.step, onCodeAction, hc, if_true, fixAllCodeAction, onExecuteCommand, onApplyAllFix]
  cases hcf : computeAllFixes an s u with
  | ok es => simp [actionEdits, appliedEdits, fixAllAction]
  | error e => cases e <;> simp [actionEdits, appliedEdits]

/-- **fixall_ordered_disjoint** (C06) — whatever the state: the `TextEdit`s `compute_all_fixes`
returns are ordered and pairwise disjoint in (line, character) order whenever the analysed
diagnostics' replaced ranges are well-formed; each is the edit of one analysed diagnostic of the
stored text that carries fix data. -/
theorem fixall_ordered_disjoint (an : Analyse) (s : State) (u : Uri) (es : List TEdit)
    (h : computeAllFixes an s u = .ok es)
    (hwf : ∀ t, ∀ d ∈ an u t, lposLe d.editStart d.editStop) :
    OrderedDisjoint es ∧
    ∃ v t, lookup s u = some (v, t) ∧
      ∀ e ∈ es, ∃ d ∈ an u t, d.fixed = some e.newText ∧ e.start = d.editStart ∧ e.stop = d.editStop := by
  unfold computeAllFixes at h
  cases hl : lookup s u with
  | none => simp [hl] at h
  | some vt =>
    obtain ⟨v, t⟩ := vt
    simp only [hl] at h
    split at h
    · cases h
    · injection h with h
      subst h
      have hwfs : ∀ d ∈ sortDiags true (an u t), lposLe d.editStart d.editStop :=
        fun d hd => hwf t d ((mem_sortDiags _ _ _).mp hd)
      have hord := go_ordered (sortDiags true (an u t)) hwfs (0, 0)
      have hmem : ∀ e ∈ (lspFixAll Variant.fixed (an u t)).filterMap editOfDiag,
          ∃ d ∈ an u t, d.fixed = some e.newText ∧ e.start = d.editStart ∧ e.stop = d.editStop := by
        intro e he
        obtain ⟨d, hd, hde⟩ := List.mem_filterMap.mp he
        have hd' := (go_mem (0, 0) _ d hd).1
        refine ⟨d, (mem_sortDiags _ _ _).mp hd', ?_⟩
        unfold editOfDiag at hde
        cases hf : d.fixed <;> simp [hf] at hde
        subst hde
        exact ⟨rfl, rfl, rfl⟩
      refine ⟨⟨?_, pairwise_filterMap_edit _ hord.2⟩, v, t, rfl, hmem⟩
      intro e he
      obtain ⟨d, hd, _, h1, h2⟩ := hmem e he
      rw [h1, h2]
      exact hwf t d hd

/-- … and a diagnostic with fix data whose edit is NOT returned starts before the end of a kept edit
(it would overlap it, or lie before it although it is reported later) -/
theorem fixall_dropped_overlaps (an : Analyse) (u : Uri) (t : Text) (d : LspDiag)
    (hd : d ∈ an u t) (hfix : d.fixed.isSome = true) (hnot : d ∉ lspFixAll Variant.fixed (an u t)) :
    ∃ k ∈ lspFixAll Variant.fixed (an u t), lposLt d.editStart k.editStop = true := by
  unfold lspFixAll at hnot ⊢
  rcases go_dropped _ (0, 0) d ((mem_sortDiags _ _ _).mpr hd) hfix hnot with h | h
  · simp [lposLt] at h
  · exact h

/-- the same over sessions: every fix-all action the client ever received and every edit ever
applied on behalf of the command is ordered and disjoint -/
theorem session_fixall_ordered_disjoint (cfg : Config) (an : Analyse) (h : List SOp)
    (hwf : ∀ u t, ∀ d ∈ an u t, lposLe d.editStart d.editStop) (o : Out) (ho : o ∈ (run cfg an h).outs) :
    (∀ acts a, o = .actions (some acts) → a ∈ acts → a.kind = .fixAll → OrderedDisjoint a.edits) ∧
    (∀ u es, o = .command (.applied u es) → OrderedDisjoint es) := by
  rcases mem_outs cfg an h [] [] o ho with h0 | ⟨s, op, _, hm⟩
  · simp at h0
  · cases op with
    | doc d =>
      simp only [LspReq.step, List.mem_map] at hm
      obtain ⟨p, _, rfl⟩ := hm
      refine ⟨?_, ?_⟩
      · intro _ _ h; cases h
      · intro _ _ h; cases h
    | codeAction u r only ds =>
      simp only [LspReq.step, List.mem_singleton] at hm
      subst hm
      refine ⟨?_, ?_⟩
      rotate_left
      · intro _ _ h; cases h
      intro acts a hact ha hkind
      injection hact with hact
      unfold onCodeAction at hact
      have hq : ∀ r, quickfixCodeAction u ds = some r → a ∈ r → False := by
        intro r hr har
        have := quickfix_kinds u ds r hr a har
        rw [this] at hkind
        cases hkind
      have hf : fixAllCodeAction an s u = some acts → OrderedDisjoint a.edits := by
        intro hfa
        unfold fixAllCodeAction at hfa
        cases hc : computeAllFixes an s u with
        | error e => simp [hc] at hfa
        | ok es =>
          simp only [hc] at hfa
          injection hfa with hfa
          subst hfa
          simp only [List.mem_singleton] at ha
          subst ha
          exact (fixall_ordered_disjoint an s u es hc (hwf u)).1
      cases only with
      | none => exact absurd ha (fun h => hq acts hact h)
      | some kinds =>
        simp only at hact
        split at hact
        · exact hf hact
        · exact absurd ha (fun h => hq acts hact h)
    | executeCommand applyAll args =>
      simp only [LspReq.step, List.mem_singleton] at hm
      subst hm
      refine ⟨?_, ?_⟩
      · intro _ _ h; cases h
      intro u es hcmd
      injection hcmd with hcmd
      unfold onExecuteCommand at hcmd
      split at hcmd
      · cases args with
        | nil => cases hcmd
        | cons a0 rest =>
          cases a0 with
          | bad => cases hcmd
          | doc u' v' t' =>
            simp only [onApplyAllFix] at hcmd
            cases hc : computeAllFixes an s u' with
            | error e => cases e <;> simp [hc] at hcmd
            | ok es' =>
              simp only [hc] at hcmd
              injection hcmd with h1 h2
              subst h1; subst h2
              exact (fixall_ordered_disjoint an s u' es' hc (hwf u')).1
      · cases hcmd

/-- **quickfix_of_diagnostic** (C08) — the response to a code-action request that is not routed to
fix-all (no `only`, or an `only` none of whose kinds selects `source.fixAll.ast-grep`): every quick fix returned is the quick fix
(`replaced_range(d) := fixed(d)`) of a diagnostic the client sent that comes from ast-grep and
carries fix data and a rule id — none is invented; every such diagnostic gets its quick fix;
the state of the server (the document map) plays no part; no client diagnostics ⇒ no response. -/
theorem quickfix_of_diagnostic (cfg : Config) (an : Analyse) (s : State) (u : Uri) (range : LRange)
    (only : Option (List Kind)) (hk : ∀ kinds, only = some kinds → ∀ r ∈ kinds, ¬ Selects r kFixAllAstGrep)
    (diags : List ClientDiag) :
    ∃ r, (step cfg an s (.codeAction u range only diags)).2 = [.actions r] ∧
      (diags = [] → r = none) ∧
      (diags ≠ [] → ∃ acts, r = some acts ∧
        (∀ a ∈ acts, ∃ d ∈ diags, IsQuickFixOf u d a) ∧
        (∀ d ∈ diags, ∀ a, IsQuickFixOf u d a → a ∈ acts)) := by
  have hq : onCodeAction an s u only diags = quickfixCodeAction u diags := by
    unfold onCodeAction
    cases only with
    | none => rfl
    | some kinds =>
      have hnk := hk kinds rfl
      have : kinds.any selectsFixAll = false := by
        rw [← Bool.not_eq_true, any_selects_iff]
        rintro ⟨r, hr, hs⟩
        exact hnk r hr hs
      simp only [this]
      rfl
  refine ⟨quickfixCodeAction u diags, by simp [LspReq.step, hq], ?_, ?_⟩
  · intro h; simp [quickfixCodeAction, h]
  · intro hne
    have hne' : diags.isEmpty = false := by cases diags <;> simp_all
    refine ⟨(diags.filter fromAstGrep).filterMap (diagnosticToCodeAction u), by simp [quickfixCodeAction, hne'], ?_, ?_⟩
    · intro a ha
      obtain ⟨d, hd, hda⟩ := List.mem_filterMap.mp ha
      obtain ⟨hd1, hd2⟩ := List.mem_filter.mp hd
      refine ⟨d, hd1, ?_, ?_⟩
      · unfold fromAstGrep at hd2
        cases hs : d.source with
        | none => simp [hs] at hd2
        | some src => exact ⟨src, rfl, by simpa [hs] using hd2⟩
      · unfold diagnosticToCodeAction at hda
        cases hdata : d.data with
        | none => simp [hdata] at hda
        | bad => simp [hdata] at hda
        | rewrite fixed rg =>
          cases hcode : d.code with
          | none => simp [hdata, hcode] at hda
          | num n => simp [hdata, hcode] at hda
          | str id =>
            simp only [hdata, hcode, replacedRange] at hda
            injection hda with hda
            exact ⟨fixed, rg, id, rfl, rfl, hda.symm⟩
    · intro d hd a ⟨⟨src, hs, hc⟩, fixed, rg, id, hdata, hcode, ha⟩
      apply List.mem_filterMap.mpr
      refine ⟨d, List.mem_filter.mpr ⟨hd, by simp [fromAstGrep, hs, hc]⟩, ?_⟩
      simp [diagnosticToCodeAction, hdata, hcode, replacedRange, ha]

/-- **quickfix_fresh** — when the client sends back, untouched, the diagnostics the server published
for the text it holds for `u` (`wireOf` of the analysis), the quick fixes are, in order, exactly the
edits of the analysed diagnostics that carry fix data: `replaced range := fixed`, i.e.
`Frontends.lspEdit` = the CLI's edit (`C08.lsp_agrees_full`). -/
theorem quickfix_fresh (u : Uri) (ids : List Bytes) (ds : List LspDiag) (hlen : ids.length = ds.length)
    (hne : ds ≠ []) :
    ∃ acts, quickfixCodeAction u (List.zipWith wireOf ids ds) = some acts ∧
      acts.map (·.edits) = (ds.filterMap editOfDiag).map ([·]) := by
  have hne' : (List.zipWith wireOf ids ds).isEmpty = false := by
    cases ds with
    | nil => exact absurd rfl hne
    | cons d ds' => cases ids with
      | nil => simp at hlen
      | cons i is => simp
  refine ⟨((List.zipWith wireOf ids ds).filter fromAstGrep).filterMap (diagnosticToCodeAction u),
    by simp [quickfixCodeAction, hne'], ?_⟩
  clear hne hne'
  induction ds generalizing ids with
  | nil => cases ids <;> simp
  | cons d ds' ih =>
    cases ids with
    | nil => simp at hlen
    | cons i is =>
      have hl : is.length = ds'.length := by simpa using hlen
      have hsrc : fromAstGrep (wireOf i d) = true := by
        simp only [fromAstGrep, wireOf]; decide
      simp only [List.zipWith_cons_cons, List.filter_cons, hsrc, if_true, List.filterMap_cons]
      cases hf : d.fixed with
      | none =>
        simp only [diagnosticToCodeAction, wireOf, hf, editOfDiag, Option.map_none]
        exact ih is hl
      | some f =>
        simp only [diagnosticToCodeAction, wireOf, hf, editOfDiag, Option.map_some, List.map_cons,
          replacedRange]
        rw [ih is hl]
        congr 1
        by_cases he : (d.editStart, d.editStop) = (d.start, d.stop)
        · simp only [he, if_true, Option.getD_none]
          have h1 : d.start = d.editStart := (Prod.mk.inj he).1.symm
          have h2 : d.stop = d.editStop := (Prod.mk.inj he).2.symm
          simp [h1, h2]
        · simp [he]

/-! ### `only` -/

/-- **only_fixall_complete** (repaired routing, FIX_lsp_only_kinds) — the response to a code-action
request contains a fix-all action IF AND ONLY IF some kind of `context.only` selects the action's
kind `source.fixAll.ast-grep` by the LSP kind hierarchy (`source`, `source.fixAll`,
`source.fixAll.ast-grep`) and the document has an actionable fix (it is open and fix-all of its
stored text is not empty) … -/
theorem only_fixall_complete (an : Analyse) (s : State) (u : Uri) (only : Option (List Kind))
    (diags : List ClientDiag) :
    (∃ acts a, onCodeAction an s u only diags = some acts ∧ a ∈ acts ∧ a.kind = .fixAll) ↔
      ((∃ kinds, only = some kinds ∧ ∃ r ∈ kinds, Selects r kFixAllAstGrep) ∧
        ∃ es, computeAllFixes an s u = .ok es) := by
  constructor
  · rintro ⟨acts, a, h, ha, hkind⟩
    have hq : ∀ r, quickfixCodeAction u diags = some r → a ∈ r → False := by
      intro r hr har
      have := quickfix_kinds u diags r hr a har
      rw [this] at hkind
      cases hkind
    unfold onCodeAction at h
    cases only with
    | none => exact absurd ha (fun x => hq acts h x)
    | some kinds =>
      simp only at h
      by_cases hc : kinds.any selectsFixAll = true
      · simp only [hc, if_true] at h
        refine ⟨⟨kinds, rfl, (any_selects_iff kinds).mp hc⟩, ?_⟩
        unfold fixAllCodeAction at h
        cases hcf : computeAllFixes an s u with
        | ok es => exact ⟨es, rfl⟩
        | error e => simp [hcf] at h
      · simp only [hc] at h
        exact absurd ha (fun x => hq acts h x)
  · rintro ⟨⟨kinds, rfl, hk⟩, es, hes⟩
    have hc : kinds.any selectsFixAll = true := (any_selects_iff kinds).mpr hk
    exact ⟨[fixAllAction u es], fixAllAction u es, by simp [onCodeAction, hc, fixAllCodeAction, hes],
      by simp, rfl⟩

/-- … and then the response is that one action, carrying the edits of `compute_all_fixes`. -/
theorem only_fixall_response (an : Analyse) (s : State) (u : Uri) (kinds : List Kind)
    (diags : List ClientDiag) (hk : ∃ r ∈ kinds, Selects r kFixAllAstGrep) (es : List TEdit)
    (h : computeAllFixes an s u = .ok es) :
    onCodeAction an s u (some kinds) diags = some [fixAllAction u es] := by
  have hc : kinds.any selectsFixAll = true := (any_selects_iff kinds).mpr hk
  simp [onCodeAction, hc, fixAllCodeAction, h]

/-- **only_sound_partial** — with no `only`, with an `only` that selects the fix-all kind, or with one
that names `quickfix`, every returned action is of a requested kind.  (Not for every `only`:
`only_unrequested_counterexample`.) -/
theorem only_sound_partial (cfg : Config) (an : Analyse) (s : State) (u : Uri) (range : LRange)
    (only : Option (List Kind)) (diags : List ClientDiag)
    (hok : only = none ∨ ∃ kinds, only = some kinds ∧
      ((∃ r ∈ kinds, Selects r kFixAllAstGrep) ∨ kQuickfix ∈ kinds))
    (acts : List Action) (h : onCodeAction an s u only diags = some acts) :
    ∀ a ∈ acts, Requested only (kindOfAction a) := by
  have hquick : ∀ r, quickfixCodeAction u diags = some r → ∀ a ∈ r, a.kind = .quickfix :=
    quickfix_kinds u diags
  intro a ha
  rcases hok with rfl | ⟨kinds, rfl, hk⟩
  · trivial
  · unfold onCodeAction at h
    simp only at h
    by_cases hc : kinds.any selectsFixAll = true
    · simp only [hc, if_true] at h
      unfold fixAllCodeAction at h
      split at h
      · injection h with h
        subst h
        simp only [List.mem_singleton] at ha
        subst ha
        exact (any_selects_iff kinds).mp hc
      · cases h
    · simp only [hc] at h
      have hqf : kQuickfix ∈ kinds := by
        rcases hk with hk | hk
        · exact absurd ((any_selects_iff kinds).mpr hk) hc
        · exact hk
      have := hquick acts h a ha
      exact ⟨kQuickfix, hqf, by simp [kindOfAction, this, Selects, kQuickfix]⟩

/-- the released and the repaired routing agree whenever the request names neither `source` nor
`source.fixAll.ast-grep` where the released code wanted `source.fixAll` -/
theorem routing_eq_pinned (an : Analyse) (s : State) (u : Uri) (only : Option (List Kind))
    (diags : List ClientDiag)
    (h : ∀ kinds, only = some kinds → kinds.any selectsFixAll = kinds.contains kSourceFixAll) :
    onCodeAction an s u only diags = onCodeActionPinned an s u only diags := by
  cases only with
  | none => rfl
  | some kinds => simp [onCodeAction, onCodeActionPinned, h kinds rfl]

/-- what the released routing did satisfy: a request naming `source.fixAll` itself got the fix-all action -/
theorem only_fixall_complete_pinned_partial (an : Analyse) (s : State) (u : Uri) (kinds : List Kind)
    (diags : List ClientDiag) (hk : kSourceFixAll ∈ kinds) (es : List TEdit)
    (h : computeAllFixes an s u = .ok es) :
    onCodeActionPinned an s u (some kinds) diags = some [fixAllAction u es] := by
  simp [onCodeActionPinned, hk, fixAllCodeAction, h]

/-! ## concrete instances: non-vacuity and counter-examples -/

section Examples

def cfgAll : Config := { langKnown := fun _ => true, outside := fun _ => false }

/-- `f(0, 0)` -/
def tZeros : Text := [0x66, 0x28, 0x30, 0x2c, 0x20, 0x30, 0x29]
/-- `g()` -/
def tClean : Text := [0x67, 0x28, 0x29]
/-- `f(0, 0, 0)` -/
def tThree : Text := [0x66, 0x28, 0x30, 0x2c, 0x20, 0x30, 0x2c, 0x20, 0x30, 0x29]

/-- a rule deleting `0` with the commas around it (`expandStart` / `expandEnd`): on `f(0, 0)` the
first `0` replaces `0,` (columns 2-4), the second `, 0` (columns 3-6) — they share the comma;
on `f(0, 0, 0)` three edits, each reaching into its neighbour -/
def anZeros : Analyse := fun _ t =>
  if t = tZeros then
    [⟨(0, 2), (0, 3), some [], (0, 2), (0, 4)⟩, ⟨(0, 5), (0, 6), some [], (0, 3), (0, 6)⟩]
  else if t = tThree then
    [⟨(0, 2), (0, 3), some [], (0, 2), (0, 4)⟩, ⟨(0, 5), (0, 6), some [], (0, 3), (0, 7)⟩,
     ⟨(0, 8), (0, 9), some [], (0, 6), (0, 9)⟩]
  else []

def idZero : Bytes := [0x7a]

/-- fix-all on `f(0, 0)`: the second edit reaches into the first and is dropped -/
example : computeAllFixes anZeros [(0, 1, tZeros)] 0 = .ok [⟨(0, 2), (0, 4), []⟩] := by decide

/-- `fixall_ordered_disjoint` / `fixall_dropped_overlaps` are not vacuous -/
example : (∀ t, ∀ d ∈ anZeros 0 t, lposLe d.editStart d.editStop) ∧
    (⟨(0, 5), (0, 6), some [], (0, 3), (0, 6)⟩ : LspDiag) ∉ lspFixAll Variant.fixed (anZeros 0 tZeros) := by
  refine ⟨?_, by decide⟩
  intro t d hd
  unfold anZeros at hd
  split at hd
  · simp at hd; rcases hd with rfl | rfl <;> decide
  · split at hd
    · simp at hd; rcases hd with rfl | rfl | rfl <;> decide
    · simp at hd

/-- the session of the task text: open(v1) → quick fix → fix-all → change(v2) → fix-all → command -/
def exSession : List SOp :=
  [ .doc (.open 0 1 tZeros),
    .codeAction 0 ((0, 0), (0, 0)) none (List.zipWith wireOf [idZero, idZero] (anZeros 0 tZeros)),
    .codeAction 0 ((0, 0), (0, 0)) (some [kSourceFixAll]) [],
    .doc (.change 0 2 [tThree]),
    .codeAction 0 ((0, 0), (0, 0)) (some [kSourceFixAll]) [],
    .executeCommand true [.doc 0 1 tZeros] ]

example : (run cfgAll anZeros exSession).outs =
    [ .publish ⟨0, 1, tZeros⟩,
      .actions (some [⟨.quickfix, some idZero, 0, [⟨(0, 2), (0, 4), []⟩], true⟩,
                      ⟨.quickfix, some idZero, 0, [⟨(0, 3), (0, 6), []⟩], true⟩]),
      .actions (some [fixAllAction 0 [⟨(0, 2), (0, 4), []⟩]]),
      .publish ⟨0, 2, tThree⟩,
      .actions (some [fixAllAction 0 [⟨(0, 2), (0, 4), []⟩, ⟨(0, 6), (0, 9), []⟩]]),
      .command (.applied 0 [⟨(0, 2), (0, 4), []⟩, ⟨(0, 6), (0, 9), []⟩]) ] := by decide

/-- `fixall_uses_latest` is not vacuous: the hypotheses hold for `exSession` -/
example : C09.Accepted cfgAll 0 ∧
    docOps exSession = [] ++ Op.open 0 1 tZeros :: [Op.change 0 2 [tThree]] ∧
    (∀ op ∈ [Op.change 0 2 [tThree]], isOpenOf 0 op = false) ∧
    IsLatestMax ((1, tZeros) :: changesUntilClose 0 [Op.change 0 2 [tThree]]) (2, tThree) :=
  ⟨⟨rfl, rfl⟩, by decide, by decide, ⟨[(1, tZeros)], [], by decide, by decide, by decide⟩⟩

/-- a stale `didChange` (version 1 after version 2) is ignored: fix-all still works on version 2;
after `didClose` there is nothing to fix -/
example : (run cfgAll anZeros (exSession ++ [.doc (.change 0 1 [tClean]),
      .codeAction 0 ((0, 0), (0, 0)) (some [kSourceFixAll]) [], .doc (.close 0),
      .executeCommand true [.doc 0 9 tThree]])).outs.drop 6 =
    [ .actions (some [fixAllAction 0 [⟨(0, 2), (0, 4), []⟩, ⟨(0, 6), (0, 9), []⟩]]),
      .command .unsupported ] := by decide

/-- **quickfix_stale_counterexample** — "quick fix = the fix of a finding of the text the server
holds" is FALSE for the code as it is (and cannot be otherwise: the request carries no version):
`quickfix_code_action` never looks at the document map.  open `f(0, 0)` → change to `g()` (no finding
left) → the client sends back a diagnostic of version 1: the server answers with an edit of columns
2-4 of a text that has three characters; the same for a document that was never opened. -/
theorem quickfix_stale_counterexample :
    (run cfgAll anZeros [.doc (.open 0 1 tZeros), .doc (.change 0 2 [tClean]),
        .codeAction 0 ((0, 0), (0, 0)) none [wireOf idZero ⟨(0, 2), (0, 3), some [], (0, 2), (0, 4)⟩],
        .codeAction 7 ((0, 0), (0, 0)) none [wireOf idZero ⟨(0, 2), (0, 3), some [], (0, 2), (0, 4)⟩]]).outs.drop 2 =
      [ .actions (some [⟨.quickfix, some idZero, 0, [⟨(0, 2), (0, 4), []⟩], true⟩]),
        .actions (some [⟨.quickfix, some idZero, 7, [⟨(0, 2), (0, 4), []⟩], true⟩]) ] ∧
    anZeros 0 tClean = [] := by decide

/-- the statement "every returned action is of a requested kind" for every `only`, about a routing -/
def OnlySound (route : Analyse → State → Uri → Option (List Kind) → List ClientDiag → Option (List Action)) : Prop :=
  ∀ (an : Analyse) (s : State) (u : Uri) (only : Option (List Kind)) (diags : List ClientDiag)
    (acts : List Action), route an s u only diags = some acts →
    ∀ a ∈ acts, Requested only (kindOfAction a)

/-- the statement "a request whose `only` selects the server's fix-all kind gets the fix-all action
whenever there is something to fix", about a routing (for the repaired routing it is one half of
`only_fixall_complete`) -/
def OnlyFixAllComplete (route : Analyse → State → Uri → Option (List Kind) → List ClientDiag → Option (List Action)) : Prop :=
  ∀ (an : Analyse) (s : State) (u : Uri) (kinds : List Kind) (diags : List ClientDiag) (es : List TEdit),
    Requested (some kinds) kFixAllAstGrep → computeAllFixes an s u = .ok es →
    ∃ acts, route an s u (some kinds) diags = some acts ∧ fixAllAction u es ∈ acts

def diagZero : ClientDiag := wireOf idZero ⟨(0, 2), (0, 3), some [], (0, 2), (0, 4)⟩

/-- the repaired routing satisfies the statement the released one violated -/
theorem only_fixall_complete_holds : OnlyFixAllComplete onCodeAction := by
  intro an s u kinds diags es hreq hes
  exact ⟨_, only_fixall_response an s u kinds diags hreq es hes, by simp⟩

/-- **only_unrequested_counterexample** — STILL TRUE of the repaired code: `only: ["refactor"]` selects
no fix-all, the request goes down the quick-fix path and is answered with quick fixes (harmless for a
conforming client, which filters them out; the work is wasted). -/
theorem only_unrequested_counterexample : ¬ OnlySound onCodeAction := by
  intro h
  have := h anZeros [] 0 (some [[.refactor]]) [diagZero] _ rfl _ (List.mem_singleton.mpr rfl)
  obtain ⟨r, hr, _, hp⟩ := this
  simp only [List.mem_singleton] at hr
  subst hr
  revert hp
  decide

/-- the same for the released routing (regression theorem) -/
theorem only_unrequested_pinned_counterexample : ¬ OnlySound onCodeActionPinned := by
  intro h
  have := h anZeros [] 0 (some [[.refactor]]) [diagZero] _ rfl _ (List.mem_singleton.mpr rfl)
  obtain ⟨r, hr, _, hp⟩ := this
  simp only [List.mem_singleton] at hr
  subst hr
  revert hp
  decide

/-- **only_fixall_hierarchy_counterexample** (released routing, regression theorem; repaired by
FIX_lsp_only_kinds) — `on_code_action` tested `kinds.contains("source.fixAll")` by string equality.  A
request for `source.fixAll.ast-grep` — the very kind the server advertises in `codeActionKinds` and
stamps on its fix-all action — or for the parent kind `source` was routed to the quick fixes: the
fix-all action was never returned (`editor.codeActionsOnSave: {"source.fixAll.ast-grep": …}` did nothing). -/
theorem only_fixall_hierarchy_counterexample : ¬ OnlyFixAllComplete onCodeActionPinned := by
  intro h
  obtain ⟨acts, h1, h2⟩ := h anZeros [(0, 1, tZeros)] 0 [kFixAllAstGrep] [] [⟨(0, 2), (0, 4), []⟩]
    ⟨kFixAllAstGrep, by simp, by decide, List.prefix_refl _⟩ (by decide)
  have hn : onCodeActionPinned anZeros [(0, 1, tZeros)] 0 (some [kFixAllAstGrep]) [] = none := by decide
  rw [hn] at h1
  cases h1

/-- the same for the parent kind `source` (released routing, regression theorem) -/
theorem only_source_counterexample :
    Requested (some [[Seg.source]]) kFixAllAstGrep ∧
    computeAllFixes anZeros [(0, 1, tZeros)] 0 = .ok [⟨(0, 2), (0, 4), []⟩] ∧
    onCodeActionPinned anZeros [(0, 1, tZeros)] 0 (some [[Seg.source]]) [diagZero] =
      some [⟨.quickfix, some idZero, 0, [⟨(0, 2), (0, 4), []⟩], true⟩] :=
  ⟨⟨[.source], by simp, by decide, by decide⟩, by decide, by decide⟩

/-- the repaired routing on the same inputs: `source.fixAll.ast-grep`, `source` and `source.fixAll`
get the fix-all action; `source.fixAllx`, the empty kind, `quickfix` and `refactor` the quick fixes -/
example :
    (([kFixAllAstGrep, [Seg.source], kSourceFixAll] : List Kind).map fun k =>
      onCodeAction anZeros [(0, 1, tZeros)] 0 (some [k]) [diagZero]) =
      List.replicate 3 (some [fixAllAction 0 [⟨(0, 2), (0, 4), []⟩]]) ∧
    (([[Seg.source, Seg.other 7], [], kQuickfix, [Seg.refactor], [.source, .fixAll, .astGrep, .other 1]] : List Kind).map fun k =>
      onCodeAction anZeros [(0, 1, tZeros)] 0 (some [k]) [diagZero]) =
      List.replicate 5 (some [⟨.quickfix, some idZero, 0, [⟨(0, 2), (0, 4), []⟩], true⟩]) := by decide

/-- `only_sound_partial` / `only_fixall_complete` / `quickfix_of_diagnostic` are not vacuous -/
example : onCodeAction anZeros [(0, 1, tZeros)] 0 (some [kQuickfix, kSourceFixAll]) [diagZero] =
    some [fixAllAction 0 [⟨(0, 2), (0, 4), []⟩]] := by decide

example : IsQuickFixOf 0 diagZero ⟨.quickfix, some idZero, 0, [⟨(0, 2), (0, 4), []⟩], true⟩ :=
  ⟨⟨astGrepName, rfl, by decide⟩, [], some ((0, 2), (0, 4)), idZero, by decide, rfl, rfl⟩

/-- diagnostics of another tool, without fix data, with damaged data or a numeric code get no quick fix;
a hand-made `data` without `range` replaces the diagnostic's own range -/
example : quickfixCodeAction 0
    [ { diagZero with source := some [0x65, 0x73, 0x6c] },          -- "esl"
      { diagZero with source := none },
      { diagZero with data := .none },
      { diagZero with data := .bad },
      { diagZero with code := .num 7 },
      { diagZero with code := .none },
      { diagZero with data := .rewrite [0x5a] none } ] =
    some [⟨.quickfix, some idZero, 0, [⟨(0, 2), (0, 3), [0x5a]⟩], true⟩] := by decide

/-- every way a command can end -/
example : (run cfgAll anZeros [.doc (.open 0 1 tZeros), .doc (.open 1 1 tClean),
      .executeCommand false [.doc 0 1 tZeros], .executeCommand true [],
      .executeCommand true [.bad, .doc 0 1 tZeros], .executeCommand true [.doc 5 1 tZeros],
      .executeCommand true [.doc 1 1 tZeros], .executeCommand true [.doc 0 0 [], .bad]]).outs.drop 2 =
    [ .command .unrecognized, .command .noArgs, .command .jsonError, .command .unsupported,
      .command .noFix, .command (.applied 0 [⟨(0, 2), (0, 4), []⟩]) ] := by decide

end Examples

end AGV.LspRequests
