/-
C06 — "the edits proposed for one file in overlap-free mode are ordered and disjoint", for the
library's overlap-free mode `Node::replace_all` (`Model/ReplaceAll.lean`).

For **every** tree whose ranges are well formed (children ordered and inside the parent: the
tree-sitter contract `RangesWF`, checked by the driver on every registered document), every
matcher, every `get_match_len` that stays inside the node (C03 `match_len` bounds) and every
replacement text:

* the edits are those of the *outermost* matches, in document order — touching matches
  (`a.stop = b.start`) are all kept, a match inside a kept match is dropped;
* the edits are ordered and disjoint and lie inside the node `replace_all` was called on, hence
  `Valid` for the specification `spliceAll`, whose theorems (`splice_preserves_outside`,
  `splice_closed_form`, `splice_utf8` in `Props/C06.lean`) then apply;
* every edit starts at its matched node and is contained in it.
-/
import AstGrepVerif.Model.ReplaceAll
import AstGrepVerif.Lemmas.Outermost
import AstGrepVerif.Lemmas.DiffOrder
import AstGrepVerif.Lemmas.Interactive
import AstGrepVerif.Props.C19
import AstGrepVerif.Props.C06
import AstGrepVerif.Props.C03
import AstGrepVerif.Lemmas.WfBridge

set_option linter.unusedSimpArgs false
set_option linter.unusedVariables false

namespace AGV.C06
open Spec Tree

/-- an edit as the specification's substitution `[position, position + deleted) := inserted` -/
def REdit.toSpec (e : REdit) : Edit UInt8 := (diffOfEdit e).toEdit

/-- `get_match_len` never exceeds the node, for the nodes of the subtree searched
(C03: `match_len_bounds`, see `replaceAll_pattern_valid` below) -/
def LenInside (n : Tree) (matchLen : Tree → Option Nat) : Prop :=
  ∀ t ∈ n.preorder, ∀ l, matchLen t = some l → t.start + l ≤ t.stop

/-! ### ordered chains -/

theorem orderedFrom_mono {α : Type} {lo lo' : Nat} (h : lo' ≤ lo) :
    ∀ {es : List (Edit α)}, OrderedFrom lo es → OrderedFrom lo' es
  | [], _ => trivial
  | _ :: _, ⟨h1, h2, h3⟩ => ⟨Nat.le_trans h h1, h2, h3⟩

/-- two chains glue when the first ends at or before `mid` and the second starts at or after it -/
theorem orderedFrom_append {α : Type} (mid : Nat) :
    ∀ (lo : Nat) (a b : List (Edit α)), OrderedFrom lo a → (∀ e ∈ a, e.stop ≤ mid) → lo ≤ mid →
      OrderedFrom mid b → OrderedFrom lo (a ++ b)
  | lo, [], b, _, _, hlo, hb => by simpa using orderedFrom_mono hlo hb
  | lo, e :: a, b, ⟨h1, h2, h3⟩, hs, _, hb => by
    refine ⟨h1, h2, ?_⟩
    exact orderedFrom_append mid e.stop a b h3 (fun x hx => hs x (List.mem_cons_of_mem _ hx))
      (hs e (List.mem_cons_self ..)) hb

/-! ### the outermost matches of a well-formed tree are ordered and disjoint -/

/-- the edit made for one matched node: starts at the node, ends inside it -/
theorem makeEditDefault_in_node (matchLen : Tree → Option Nat) (ins : Tree → Bytes)
    (t : Tree) (hl : ∀ l, matchLen t = some l → t.start + l ≤ t.stop) (ht : t.start ≤ t.stop) :
    (REdit.toSpec (makeEditDefault matchLen ins t)).start = t.start ∧
    (REdit.toSpec (makeEditDefault matchLen ins t)).start ≤ (REdit.toSpec (makeEditDefault matchLen ins t)).stop ∧
    (REdit.toSpec (makeEditDefault matchLen ins t)).stop ≤ t.stop ∧
    (REdit.toSpec (makeEditDefault matchLen ins t)).rep = ins t := by
  unfold REdit.toSpec makeEditDefault diffOfEdit editOfRange defaultReplacedRange Tree.rng
  cases h : matchLen t with
  | none => simp [Diff.toEdit]; omega
  | some l => have := hl l h; simp [Diff.toEdit]; omega

mutual
theorem outermost_ordered (m : Tree → Bool) (f : Tree → Edit UInt8) :
    ∀ (t : Tree), RangesWF t → t.start ≤ t.stop →
      (∀ x ∈ t.preorder, x.start ≤ x.stop → (f x).start = x.start ∧ (f x).start ≤ (f x).stop ∧ (f x).stop ≤ x.stop) →
      OrderedFrom t.start ((outermost m t).map f) ∧ ∀ e ∈ (outermost m t).map f, e.stop ≤ t.stop
  | .node i cs, hwf, hle, hf => by
    simp only [outermost]
    split
    · obtain ⟨h1, h2, h3⟩ := hf (.node i cs) (Tree.self_mem_preorder _) hle
      refine ⟨⟨by simp [h1], h2, trivial⟩, ?_⟩
      intro e he
      simp only [List.map_cons, List.map_nil, List.mem_singleton] at he
      subst he; exact h3
    · obtain ⟨⟨hord, hcle⟩, hnest⟩ := hwf (.node i cs) (Tree.self_mem_preorder _)
      exact outermostList_ordered m f cs (Tree.node i cs).start (Tree.node i cs).stop
        (fun c hc => ⟨hwf.child hc, hcle c hc, (hnest c hc).1, (hnest c hc).2⟩) hord hle
        (fun c hc x hx => hf x (Tree.preorder_trans _ hx (Tree.child_mem_preorder hc)))
theorem outermostList_ordered (m : Tree → Bool) (f : Tree → Edit UInt8) :
    ∀ (cs : List Tree) (lo hi : Nat),
      (∀ c ∈ cs, RangesWF c ∧ c.start ≤ c.stop ∧ lo ≤ c.start ∧ c.stop ≤ hi) →
      cs.Pairwise (fun a b => a.stop ≤ b.start) → lo ≤ hi →
      (∀ c ∈ cs, ∀ x ∈ c.preorder, x.start ≤ x.stop → (f x).start = x.start ∧ (f x).start ≤ (f x).stop ∧ (f x).stop ≤ x.stop) →
      OrderedFrom lo ((outermostList m cs).map f) ∧ ∀ e ∈ (outermostList m cs).map f, e.stop ≤ hi
  | [], lo, hi, _, _, _, _ => by simp [outermostList, OrderedFrom]
  | c :: cs, lo, hi, hc, hp, hlh, hf => by
    simp only [outermostList, List.map_append]
    obtain ⟨hwc, hcle, hloc, hchi⟩ := hc c (List.mem_cons_self ..)
    obtain ⟨hpc, hpcs⟩ := List.pairwise_cons.1 hp
    obtain ⟨ho1, hs1⟩ := outermost_ordered m f c hwc hcle (hf c (List.mem_cons_self ..))
    obtain ⟨ho2, hs2⟩ := outermostList_ordered m f cs c.stop hi
      (fun x hx => by
        obtain ⟨a, b, _, d⟩ := hc x (List.mem_cons_of_mem _ hx)
        exact ⟨a, b, hpc x hx, d⟩) hpcs hchi (fun x hx => hf x (List.mem_cons_of_mem _ hx))
    refine ⟨orderedFrom_append c.stop lo _ _ (orderedFrom_mono hloc ho1) hs1 (by omega) ho2, ?_⟩
    intro e he
    rcases List.mem_append.1 he with he | he
    · exact Nat.le_trans (hs1 e he) hchi
    · exact hs2 e he
end

/-! ### `Node::replace_all` -/

/-- `replace_all` makes one edit per *outermost* match, in document order (for every tree with
unique node ids, every matcher): nothing else is dropped — in particular two matches with no byte
between them are both rewritten. -/
theorem replaceAll_eq_outermost (m : Tree → Bool) (matchLen : Tree → Option Nat) (ins : Tree → Bytes)
    (n : Tree) (hu : n.UniqueIds) :
    replaceAll m matchLen ins n = .ok ((outermost m n).map (makeEditDefault matchLen ins)) := by
  have h := C19.pre_nonreentrant_outermost n hu false m
  have hp : C19.passes false m = m := by funext t; simp [C19.passes]
  rw [hp] at h
  simp [replaceAll, h]

/-- **ordered, disjoint, inside the node**: the edits of `replace_all` satisfy the precondition of
the specification `spliceAll` on any text at least as long as the node's end. -/
theorem replaceAll_ordered_disjoint (m : Tree → Bool) (matchLen : Tree → Option Nat) (ins : Tree → Bytes)
    (n : Tree) (hu : n.UniqueIds) (hwf : RangesWF n) (hle : n.start ≤ n.stop) (hl : LenInside n matchLen) :
    ∃ es, replaceAll m matchLen ins n = .ok es ∧
      OrderedFrom n.start (es.map REdit.toSpec) ∧ InRange n.stop (es.map REdit.toSpec) := by
  refine ⟨_, replaceAll_eq_outermost m matchLen ins n hu, ?_⟩
  have := outermost_ordered m (fun t => REdit.toSpec (makeEditDefault matchLen ins t)) n hwf hle
    (fun t hmem ht => by
      obtain ⟨a, b, c, _⟩ := makeEditDefault_in_node matchLen ins t (hl t hmem) ht
      exact ⟨a, b, c⟩)
  simpa [List.map_map, Function.comp_def, InRange] using this

/-- the same as `Valid`: on the document's text the edits can be applied by `spliceAll`, bytes
outside them are preserved (`splice_preserves_outside`) -/
theorem replaceAll_valid (m : Tree → Bool) (matchLen : Tree → Option Nat) (ins : Tree → Bytes)
    (src : Bytes) (n : Tree) (hu : n.UniqueIds) (hwf : RangesWF n) (hle : n.start ≤ n.stop)
    (hin : n.stop ≤ src.length) (hl : LenInside n matchLen) :
    ∃ es, replaceAll m matchLen ins n = .ok es ∧ Valid src.length (es.map REdit.toSpec) := by
  obtain ⟨es, h1, h2, h3⟩ := replaceAll_ordered_disjoint m matchLen ins n hu hwf hle hl
  exact ⟨es, h1, orderedFrom_mono (Nat.zero_le _) h2, fun e he => Nat.le_trans (h3 e he) hin⟩

/-- **nothing else is touched**: applying the edits of `replace_all` to the document's text preserves
every byte that lies outside all of them (at its shifted position `newPos`), in order — the
library's replace-every-match call rewrites the outermost matches and nothing more. -/
theorem replaceAll_preserves_outside (m : Tree → Bool) (matchLen : Tree → Option Nat) (ins : Tree → Bytes)
    (src : Bytes) (n : Tree) (hu : n.UniqueIds) (hwf : RangesWF n) (hle : n.start ≤ n.stop)
    (hin : n.stop ≤ src.length) (hl : LenInside n matchLen) :
    ∃ es, replaceAll m matchLen ins n = .ok es ∧
      ∀ i, Outside (es.map REdit.toSpec) i →
        (spliceAll src (es.map REdit.toSpec))[newPos (es.map REdit.toSpec) i]? = src[i]? := by
  obtain ⟨es, h1, h2⟩ := replaceAll_valid m matchLen ins src n hu hwf hle hin hl
  exact ⟨es, h1, fun i hout => splice_preserves_outside src _ h2 i hout⟩

/-- every edit belongs to one reported match: it starts at that node, is contained in it and
carries the text generated for it; the matched nodes pass the matcher and none of them lies
inside another one that passes -/
theorem replaceAll_edits_of_matches (m : Tree → Bool) (matchLen : Tree → Option Nat) (ins : Tree → Bytes)
    (n : Tree) (hu : n.UniqueIds) (hwf : RangesWF n) (hle : n.start ≤ n.stop) (hl : LenInside n matchLen) :
    ∃ es, replaceAll m matchLen ins n = .ok es ∧
      ∀ e ∈ es, ∃ t ∈ n.preorder, m t = true ∧ (∀ a ∈ n.preorder, Tree.Below t a → m a = false) ∧
        (REdit.toSpec e).start = t.start ∧ (REdit.toSpec e).stop ≤ t.stop ∧ (REdit.toSpec e).rep = ins t := by
  refine ⟨_, replaceAll_eq_outermost m matchLen ins n hu, ?_⟩
  intro e he
  obtain ⟨t, ht, rfl⟩ := List.mem_map.1 he
  obtain ⟨hmem, hmt, hno⟩ := (mem_outermost_iff m n.size n (Nat.le_refl _) hu t).1 ht
  have hb := Tree.RangesWF.bounds n.size n (Nat.le_refl _) hwf hle t hmem
  obtain ⟨a, _, c, d⟩ := makeEditDefault_in_node matchLen ins t (hl t hmem) hb.2.1
  exact ⟨t, hmem, hmt, hno, a, c, d⟩

/-- completeness of the overlap-free mode: a match that is not inside another match is rewritten -/
theorem replaceAll_rewrites_every_outermost (m : Tree → Bool) (matchLen : Tree → Option Nat) (ins : Tree → Bytes)
    (n : Tree) (hu : n.UniqueIds) (t : Tree) (ht : t ∈ n.preorder) (hm : m t = true)
    (hno : ∀ a ∈ n.preorder, Tree.Below t a → m a = false) :
    ∃ es, replaceAll m matchLen ins n = .ok es ∧ makeEditDefault matchLen ins t ∈ es :=
  ⟨_, replaceAll_eq_outermost m matchLen ins n hu,
    List.mem_map.2 ⟨t, (mem_outermost_iff m n.size n (Nat.le_refl _) hu t).2 ⟨ht, hm, hno⟩, rfl⟩⟩

/-! ### instantiated for a pattern matcher: no hypothesis about `get_match_len` is left -/

/-- `Pattern::get_match_len` as `replace_all` uses it (an abnormal outcome of the model — excluded
by `matchNode_total_matchFuel` at the explicit fuel bound — reads as "no length") -/
def patternLen (s : Strictness) (src : Bytes) (fuel : Nat) (p : PNode) (t : Tree) : Option Nat :=
  match matchLen s src fuel p t with
  | .ok r => r
  | .error _ => none

theorem patternLen_inside (s : Strictness) (src : Bytes) (fuel : Nat) (p : PNode) (n : Tree)
    (hwf : Tree.WF n) : LenInside n (patternLen s src fuel p) := by
  intro t ht l hl
  unfold patternLen at hl
  split at hl
  · next r hr =>
    subst hl
    exact (C03.match_len_bounds s src fuel p t (Tree.wf_of_mem n hwf t ht) l hr).1
  · cases hl

/-- **`replace_all` with a pattern** (any strictness, any pattern, whatever nodes the rule accepts):
on a document with well-formed ranges the edits are ordered, disjoint and inside the text — the
length reported by `get_match_len` is covered by C03's `match_len_bounds`. -/
theorem replaceAll_pattern_valid (s : Strictness) (src : Bytes) (fuel : Nat) (p : PNode)
    (m : Tree → Bool) (ins : Tree → Bytes) (n : Tree) (hu : n.UniqueIds) (hwf : Tree.WF n)
    (hin : n.stop ≤ src.length) :
    ∃ es, replaceAll m (patternLen s src fuel p) ins n = .ok es ∧ Valid src.length (es.map REdit.toSpec) :=
  replaceAll_valid m _ ins src n hu hwf.rangesWF (Tree.wf_range hwf) hin (patternLen_inside s src fuel p n hwf)

/-! ### non-vacuity: `foo(1);foo(2);` — two touching statements, each with a nested match -/

private def leaf (k s e id : Nat) : Tree := .node ⟨k, true, false, false, s, e, none, id⟩ []
/-- `program[0,14) { stmt[0,7) { call[0,6) }, stmt[7,14) { call[7,13) } }`; statements have kind 1 -/
private def doc : Tree :=
  .node ⟨0, true, false, false, 0, 14, none, 0⟩
    [.node ⟨1, true, false, false, 0, 7, none, 1⟩ [leaf 2 0 6 2],
     .node ⟨1, true, false, false, 7, 14, none, 3⟩ [leaf 2 7 13 4]]

/-- both touching statements are rewritten, the calls nested in them are not -/
example : replaceAll (fun t => t.kind == 1 || t.kind == 2) (fun _ => none) (fun _ => [88]) doc
    = .ok [⟨0, 7, [88]⟩, ⟨7, 7, [88]⟩] := by decide

example : doc.UniqueIds ∧ doc.start ≤ doc.stop ∧ LenInside doc (fun _ => none) := by
  refine ⟨by unfold Tree.UniqueIds; decide, by decide, ?_⟩
  intro t _ l h; cases h

example : Tree.WF doc := by decide

example : RangesWF doc := by
  intro p hp
  have : p ∈ doc.preorder := hp
  simp [doc, leaf, Tree.preorder, Tree.preorderList] at this
  rcases this with rfl | rfl | rfl | rfl | rfl <;>
    simp [ChildrenOrdered, ChildrenNested, Tree.children, Tree.start, Tree.stop, Tree.info]

end AGV.C06
