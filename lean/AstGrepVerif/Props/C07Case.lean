/-
C07 (part: the `convert` transformation) — laws of the model of
`crates/config/src/transform/string_case.rs` (`Model/StringCase.lean`), for all strings
(`List Char`) and all `separatedBy` lists unless a hypothesis says otherwise. Helper lemmas,
the buffer form of the state machine and its equality with the offset form are in
`Lemmas/StringCase.lean`.

Reading of the vocabulary:
* `sepChars seps`  — the characters `split` drops (`mem_sepChars`: exactly the characters of
  the separators listed; the default is all five);
* `caseSplit seps` — is `caseChange` on (`caseSplit_iff`);
* `isUpper/isLower/toLower/toUpper` — the case tables of the model's alphabet; on ASCII they
  are the ASCII functions of Lean's core library (`ascii_tables`).
-/
import AstGrepVerif.Model.StringCase
import AstGrepVerif.Lemmas.StringCase
import AstGrepVerif.Spec.StringCase
import AstGrepVerif.Lemmas.StringCaseSpec

set_option linter.unusedSimpArgs false
set_option linter.unusedVariables false

namespace AGV.C07

open AGV.StringCase

/-! ## The vocabulary, characterised independently of the fold that builds it -/

theorem sepChars_default : sepChars none = ['-', '.', '/', ' ', '_'] := rfl

/-- the characters dropped are exactly those of the separators listed -/
theorem mem_sepChars (seps : List Separator) (c : Char) :
    c ∈ sepChars (some seps) ↔
      (c = '-' ∧ Separator.dash ∈ seps) ∨ (c = '.' ∧ Separator.dot ∈ seps) ∨
      (c = '/' ∧ Separator.slash ∈ seps) ∨ (c = ' ' ∧ Separator.space ∈ seps) ∨
      (c = '_' ∧ Separator.underscore ∈ seps) := by
  simp only [sepChars, Delimiter.start, Delimiter.ofSeps]
  rw [(sepStep_fold seps _).2 c]
  simp

/-- the state machine is on exactly when `caseChange` is listed (or `separatedBy` is absent) -/
theorem caseSplit_iff (seps : List Separator) :
    caseSplit (some seps) = true ↔ Separator.caseChange ∈ seps := by
  simp only [caseSplit, Delimiter.start, Delimiter.ofSeps]
  rw [(sepStep_fold seps _).1]
  split <;> simp_all

theorem caseSplit_default : caseSplit none = true := rfl

/-- a `split` starts in state `Lower` (case splitting on) or `IgnoreCase` (off) -/
theorem start_state (seps : Option (List Separator)) :
    (Delimiter.start seps).state = .lower ∨ (Delimiter.start seps).state = .ignoreCase := by
  cases seps with
  | none => exact Or.inl rfl
  | some seps =>
    simp only [Delimiter.start, Delimiter.ofSeps]
    rw [(sepStep_fold seps _).1]
    split <;> simp

set_option maxRecDepth 100000 in
/-- on ASCII the model's case tables are the ASCII case functions of Lean's core library -/
theorem ascii_tables (c : Char) (h : c.toNat < 128) :
    isUpper c = c.isUpper ∧ isLower c = c.isLower ∧ toLower c = c.toLower ∧ toUpper c = [c.toUpper] := by
  have key : ∀ n : Fin 128, isUpper (Char.ofNat n.val) = (Char.ofNat n.val).isUpper ∧
      isLower (Char.ofNat n.val) = (Char.ofNat n.val).isLower ∧
      toLower (Char.ofNat n.val) = (Char.ofNat n.val).toLower ∧
      toUpper (Char.ofNat n.val) = [(Char.ofNat n.val).toUpper] := by decide
  have := key ⟨c.toNat, h⟩
  simpa [Char.ofNat_toNat] using this

/-- the non-ASCII part of the alphabet, spelled out -/
theorem non_ascii_tables :
    (['é', 'à', 'ü', 'ñ', 'ö'].map toUpper = [['É'], ['À'], ['Ü'], ['Ñ'], ['Ö']]) ∧
    (['É', 'À', 'Ü', 'Ñ', 'Ö'].map toLower = ['é', 'à', 'ü', 'ñ', 'ö']) ∧
    toUpper 'ß' = ['S', 'S'] ∧ toLower 'ß' = 'ß' ∧ isLower 'ß' = true ∧ isUpper 'ß' = false ∧
    (['中', '€'].all fun c => !isUpper c && !isLower c && toLower c == c && toUpper c == [c]) = true := by
  decide

/-! ## (a), (b): `split` loses nothing, invents nothing, keeps the order -/

/-- **split_concat.** The words of `split s seps`, concatenated, are `s` with exactly the
enabled separator characters removed: no other character is lost, none is invented, the
order is kept. -/
theorem split_concat (s : List Char) (seps : Option (List Separator)) :
    (split s seps).flatten = s.filter (fun c => !(sepChars seps).contains c) := by
  rw [split_eq_bsplit, bsplit_flatten _ _ _ _ (by
    intro l hl; rcases start_state seps with h | h <;> rw [h] at hl <;> simp at hl)]
  simp [sepChars]

/-- **split_words.** Every word is non-empty and has no enabled separator character. -/
theorem split_words (s : List Char) (seps : Option (List Separator)) :
    ∀ w ∈ split s seps, w ≠ [] ∧ ∀ c ∈ w, c ∉ sepChars seps := by
  intro w hw
  rw [split_eq_bsplit] at hw
  have := bsplit_words _ s _ [] (by simp) w hw
  refine ⟨this.1, fun c hc hm => ?_⟩
  have h2 := this.2 c hc
  simp [sepChars] at hm
  simp [hm] at h2

/-- every range `split` slices out of the string is non-empty and inside the string:
`&s[range]` does not panic -/
theorem splitRanges_valid (s : List Char) (seps : Option (List Separator)) :
    ∀ r ∈ splitRanges s.length (Delimiter.start seps) s, r.1 < r.2 ∧ r.2 ≤ s.length :=
  StringCase.splitRanges_valid s 0 s.length _ (inv_start seps) (by simp)

/-- the offsets satisfy `Inv` before every `delimit` … -/
theorem delimit_keeps_inv (d : Delimiter) (n : Nat) (c : Char) (h : Inv d n) :
    Inv (d.delimit c).1 (n + 1) := (delimit_inv d n c h).1

/-- … and under `Inv` the subtraction `*right - last_char.len_utf8()` does not underflow -/
theorem delimit_no_underflow (d : Delimiter) (n : Nat) (last : Char) (h : Inv d n)
    (hs : d.state = .multiUpper last) : width last ≤ d.right ∧ d.left < d.right - width last :=
  StringCase.delimit_no_underflow d n last h hs

/-- a string of lower-case letters is one word, whatever the separators -/
theorem split_lower_word (w : List Char) (seps : Option (List Separator)) (hne : w ≠ [])
    (hw : ∀ c ∈ w, isLower c = true) : split w seps = [w] := by
  have hconcat := split_concat w seps
  have hfil : w.filter (fun c => !(sepChars seps).contains c) = w := by
    rw [List.filter_eq_self]
    intro c hc
    have h1 := lowers_not_delim c ((isLower_iff c).mp (hw c hc))
    simp only [List.contains_eq_mem, decide_eq_false_iff_not] at h1
    simp only [List.contains_eq_mem, Bool.not_eq_eq_eq_not, Bool.not_true, decide_eq_false_iff_not]
    exact fun hm => h1 (sepChars_sub seps c hm)
  rw [hfil] at hconcat
  -- the state is `lower` or `ignoreCase`; in both a lower-case letter extends the buffer
  rw [split_eq_bsplit]
  have hst := start_state seps
  have hd : ∀ c ∈ w, (Delimiter.start seps).delimiter.contains c = false := by
    intro c hc
    have h1 := lowers_not_delim c ((isLower_iff c).mp (hw c hc))
    simp only [List.contains_eq_mem, decide_eq_false_iff_not] at h1 ⊢
    exact fun hm => h1 (sepChars_sub seps c hm)
  have run : ∀ (st : CaseState), st = .lower ∨ st = .ignoreCase → ∀ (x buf : List Char),
      (∀ c ∈ x, isLower c = true ∧ (Delimiter.start seps).delimiter.contains c = false) →
      bsplit (Delimiter.start seps).delimiter st buf x = emit (buf ++ x) [] := by
    intro st hst x
    induction x with
    | nil => intro buf _; simp [bsplit]
    | cons c cs ih =>
      intro buf hx
      obtain ⟨hl, hdc⟩ := hx c (by simp)
      have hu : isUpper c = false := lowers_not_upper c ((isLower_iff c).mp hl)
      rcases bsplit_step (Delimiter.start seps).delimiter st buf c cs with
        ⟨h, _⟩ | ⟨_, _, h, _⟩ | ⟨_, ⟨l, h⟩, _, _⟩ | ⟨_, _, _, e⟩
      · rw [hdc] at h; contradiction
      · rw [hu] at h; contradiction
      · rcases hst with rfl | rfl <;> simp at h
      · have hn : nextState st c = st := by
          rcases hst with rfl | rfl <;> simp [nextState, hl]
        rw [e, hn, ih _ (fun y hy => hx y (by simp [hy]))]
        simp
  rw [run _ hst w [] (fun c hc => ⟨hw c hc, hd c hc⟩)]
  simp [emit, hne]

/-! ## Where the cuts fall: the code against the window specification -/

/-- **split_eq_spec.** For every string and every `separatedBy`, `split` yields exactly the
words of the specification `Spec.StringCase.words`: a word starts after an enabled separator
character, at an upper-case letter that does not follow a non-lower-case character, and at
the last of two or more non-lower-case characters when a lower-case letter follows. -/
theorem split_eq_spec (s : List Char) (seps : Option (List Separator)) :
    split s seps = Spec.StringCase.words (sepChars seps) (caseSplit seps) s := by
  rw [split_eq_bsplit]
  have h := (bsplit_eq_wordsFrom (sepChars seps) (caseSplit seps) (sepChars_sub seps) s).1 [] []
    (by intro _; simp [Spec.StringCase.nonLower])
  have hst : (Delimiter.start seps).state = stateOf (sepChars seps) (caseSplit seps) [] := by
    rcases start_state seps with h | h <;> simp [stateOf, caseSplit, h]
  rw [hst]
  exact h

/-- the window rules, spelled out on the characters around a position -/
example : Spec.StringCase.words (sepChars none) true "XMLHttp_requestV2a".toList =
    ["XML", "Http", "request", "V", "2a"].map String.toList := by decide

/-! ## (c): `lowerCase`, `upperCase` -/

theorem lowerCase_length (s : List Char) : (lowerCase s).length = s.length := by
  simp [lowerCase]

theorem lowerCase_idem (s : List Char) : lowerCase (lowerCase s) = lowerCase s := by
  simp [lowerCase, toLower_idem]

/-- `upperCase` keeps the length unless the string has a `ß` (`to_uppercase` = "SS") -/
theorem upperCase_length (s : List Char) (h : sharpS ∉ s) : (upperCase s).length = s.length := by
  induction s with
  | nil => rfl
  | cons c cs ih =>
    have hc : c ≠ sharpS := fun e => h (by simp [e])
    have : (toUpper c).length = 1 := by
      rcases toUpper_cases c with ⟨e, _⟩ | ⟨_, e⟩ | ⟨_, p, _, _, e⟩
      · exact absurd e hc
      · rw [e]; rfl
      · rw [e]; rfl
    simp only [upperCase, List.flatMap_cons, List.length_append, this] at ih ⊢
    rw [ih (fun hm => h (by simp [hm]))]
    simp [Nat.add_comm]

/-- in particular on ASCII -/
theorem upperCase_length_ascii (s : List Char) (h : ∀ c ∈ s, c.toNat < 128) :
    (upperCase s).length = s.length :=
  upperCase_length s (fun hm => absurd (h _ hm) (by decide))

theorem upperCase_length_counterexample : (upperCase ['a', 'ß']).length ≠ ['a', 'ß'].length := by
  decide

theorem upperCase_idem (s : List Char) : upperCase (upperCase s) = upperCase s := by
  induction s with
  | nil => rfl
  | cons c cs ih =>
    simp only [upperCase, List.flatMap_cons, List.flatMap_append] at ih ⊢
    rw [ih]
    congr 1
    have := toUpper_fixed c
    generalize toUpper c = us at this
    induction us with
    | nil => rfl
    | cons u us ihu =>
      simp only [List.flatMap_cons]
      rw [this u (by simp), ihu (fun x hx => this x (by simp [hx]))]
      rfl

/-- `capitalize` only touches the first character -/
theorem capitalize_tail (c : Char) (cs : List Char) : capitalize (c :: cs) = toUpper c ++ cs := rfl

/-! ## (d): `snakeCase` / `kebabCase` -/

theorem mem_join {sep c : Char} {ws : List (List Char)} (h : c ∈ join sep ws) :
    c = sep ∨ ∃ w ∈ ws, ∃ c0 ∈ w, c = toLower c0 := by
  rw [join_eq] at h
  rcases mem_rawJoin h with h | ⟨w', hw', hc⟩
  · exact Or.inl h
  · right
    obtain ⟨w, hw, rfl⟩ := List.mem_map.mp hw'
    obtain ⟨c0, hc0, rfl⟩ := List.mem_map.mp hc
    exact ⟨w, hw, c0, hc0, rfl⟩

/-- **snake_no_upper.** The output of `snakeCase` (any separators) has no upper-case letter. -/
theorem snake_no_upper (s : List Char) (seps : Option (List Separator)) :
    ∀ c ∈ apply .snakeCase s seps, isUpper c = false := by
  intro c hc
  rcases mem_join hc with rfl | ⟨_, _, c0, _, rfl⟩
  · decide
  · exact isUpper_toLower c0

theorem kebab_no_upper (s : List Char) (seps : Option (List Separator)) :
    ∀ c ∈ apply .kebabCase s seps, isUpper c = false := by
  intro c hc
  rcases mem_join hc with rfl | ⟨_, _, c0, _, rfl⟩
  · decide
  · exact isUpper_toLower c0

/-- law (a) for the joined output: dropping the separator characters from the output of
`join` gives the lower-cased input with its separator characters dropped -/
theorem join_letters (sep : Char) (s : List Char) (seps : Option (List Separator))
    (hsep : sep ∈ sepChars seps) :
    (join sep (split s seps)).filter (fun c => !(sepChars seps).contains c) =
      (s.filter (fun c => !(sepChars seps).contains c)).map toLower := by
  rw [join_eq, rawJoin_filter _ _ (by simpa using hsep)]
  have hflat : ((split s seps).map lowerCase).flatten = (split s seps).flatten.map toLower := by
    rw [show lowerCase = List.map toLower from rfl, List.map_flatten]
  rw [hflat, split_concat, List.filter_map]
  congr 1
  rw [List.filter_filter]
  apply List.filter_congr
  intro c _
  simp only [Function.comp]
  rw [contains_toLower _ (sepChars_sub seps) c]
  simp

/-- **snake_letters.** With `_` among the separators (in particular by default), the output of
`snakeCase` without its separator characters is the lower-cased input without its separator
characters. -/
theorem snake_letters (s : List Char) (seps : Option (List Separator)) (h : '_' ∈ sepChars seps) :
    (apply .snakeCase s seps).filter (fun c => !(sepChars seps).contains c) =
      (s.filter (fun c => !(sepChars seps).contains c)).map toLower :=
  join_letters '_' s seps h

theorem kebab_letters (s : List Char) (seps : Option (List Separator)) (h : '-' ∈ sepChars seps) :
    (apply .kebabCase s seps).filter (fun c => !(sepChars seps).contains c) =
      (s.filter (fun c => !(sepChars seps).contains c)).map toLower :=
  join_letters '-' s seps h

example : '_' ∈ sepChars none ∧ '-' ∈ sepChars none := by decide
example : '_' ∈ sepChars (some [.caseChange, .underscore]) := by decide

/-- idempotence of `join sep ∘ split` with the default separators, on strings of letters and
separator characters -/
theorem join_split_idem (sep : Char) (hsep : sep ∈ sepChars none) (s : List Char)
    (hs : ∀ c ∈ s, isLower c = true ∨ isUpper c = true ∨ c ∈ sepChars none) :
    join sep (split (join sep (split s none)) none) = join sep (split s none) := by
  have hwords := split_words s none
  have hconcat := split_concat s none
  -- the lower-cased words: non-empty, lower-case letters only
  have hws' : ∀ w' ∈ (split s none).map lowerCase, w' ≠ [] ∧
      ∀ c ∈ w', isLower c = true ∧ isUpper c = false ∧ (sepChars none).contains c = false := by
    intro w' hw'
    obtain ⟨w, hw, rfl⟩ := List.mem_map.mp hw'
    refine ⟨by simpa [lowerCase] using (hwords w hw).1, ?_⟩
    intro c hc
    obtain ⟨c0, hc0, rfl⟩ := List.mem_map.mp hc
    have hnd : c0 ∉ sepChars none := (hwords w hw).2 c0 hc0
    have hin : c0 ∈ s := by
      have : c0 ∈ (split s none).flatten := List.mem_flatten.mpr ⟨w, hw, hc0⟩
      rw [hconcat] at this
      exact (List.mem_filter.mp this).1
    refine ⟨?_, isUpper_toLower c0, ?_⟩
    · rcases hs c0 hin with h | h | h
      · rw [lowers_toLower c0 ((isLower_iff c0).mp h)]; exact h
      · exact isLower_toLower_of_isUpper c0 h
      · exact absurd h hnd
    · rw [contains_toLower _ (sepChars_sub none) c0]
      simpa using hnd
  have hsplit : split (join sep (split s none)) none = (split s none).map lowerCase := by
    rw [split_eq_bsplit, join_eq]
    exact bsplit_rawJoin _ sep (by simpa [sepChars] using hsep) _ hws'
  rw [hsplit, join_eq, join_eq, List.map_map]
  congr 1
  apply List.map_congr_left
  intro w _
  exact lowerCase_idem w

/-- **snake_idempotent_partial.** `snakeCase` (default separators) is idempotent on strings
made of letters and separator characters.

Full statement (false, see `snake_idempotent_counterexample`):
`∀ s, apply .snakeCase (apply .snakeCase s none) none = apply .snakeCase s none`. -/
theorem snake_idempotent_partial (s : List Char)
    (hs : ∀ c ∈ s, isLower c = true ∨ isUpper c = true ∨ c ∈ sepChars none) :
    apply .snakeCase (apply .snakeCase s none) none = apply .snakeCase s none :=
  join_split_idem '_' (by decide) s hs

theorem kebab_idempotent_partial (s : List Char)
    (hs : ∀ c ∈ s, isLower c = true ∨ isUpper c = true ∨ c ∈ sepChars none) :
    apply .kebabCase (apply .kebabCase s none) none = apply .kebabCase s none :=
  join_split_idem '-' (by decide) s hs

/-- the hypothesis is satisfiable by an input with every kind of split -/
example : ∀ c ∈ "XMLHttp_request-éÉ aB".toList,
    isLower c = true ∨ isUpper c = true ∨ c ∈ sepChars none := by decide

/-- **Idempotence fails with digits.** Two digits followed by an upper-case letter stay in
one word (`a12B` ↦ `a12b`), but two digits followed by a lower-case letter are split before
the last digit (`a12b` ↦ `a1_2b`): `MultiUpper` counts every non-lower-case character as
"upper". The same happens to `base64URL` ↦ `base64url` ↦ `base6_4url`. -/
theorem snake_idempotent_counterexample :
    apply .snakeCase "a12B".toList none = "a12b".toList ∧
    apply .snakeCase "a12b".toList none = "a1_2b".toList ∧
    apply .snakeCase "base64URL".toList none = "base64url".toList ∧
    apply .snakeCase "base64url".toList none = "base6_4url".toList := by decide

/-- without the default separators idempotence fails even without digits: disabled separator
characters count as "upper" too -/
theorem snake_idempotent_seps_counterexample :
    apply .snakeCase "a..b".toList (some [.caseChange]) = "a._.b".toList ∧
    apply .snakeCase "a._.b".toList (some [.caseChange]) = "a.__.b".toList := by decide

/-! ## (e): regression facts -/

/-- every assertion of the `#[cfg(test)]` module of `string_case.rs` -/
theorem upstream_tests :
    -- test_case_conversions
    apply .lowerCase "aBc".toList none = "abc".toList ∧
    apply .upperCase "aBc".toList none = "ABC".toList ∧
    apply .capitalize "aBc".toList none = "ABc".toList ∧
    -- test_split
    split "camelsLiveInTheDesert".toList none = ["camels", "Live", "In", "The", "Desert"].map String.toList ∧
    split "snakes_live_in_forests".toList none = ["snakes", "live", "in", "forests"].map String.toList ∧
    split "kebab-is-a-delicious-food".toList none = ["kebab", "is", "a", "delicious", "food"].map String.toList ∧
    split "PascalIsACoolGuy".toList none = ["Pascal", "Is", "A", "Cool", "Guy"].map String.toList ∧
    split "path/is/a/slashed/string".toList none = ["path", "is", "a", "slashed", "string"].map String.toList ∧
    split "www.dot.com".toList none = ["www", "dot", "com"].map String.toList ∧
    split "x.com/hd_nvim".toList none = ["x", "com", "hd", "nvim"].map String.toList ∧
    split "XMLHttpRequest".toList none = ["XML", "Http", "Request"].map String.toList ∧
    split "whatHTML".toList none = ["what", "HTML"].map String.toList ∧
    -- test_split_by_separator
    split "user_accountName".toList (some [.underscore]) = ["user", "accountName"].map String.toList ∧
    split "user_accountName".toList (some [.space]) = ["user_accountName"].map String.toList ∧
    split "user_accountName".toList (some [.caseChange]) = ["user_account", "Name"].map String.toList ∧
    -- test_format
    apply .snakeCase "camelsLiveInTheDesert".toList none = "camels_live_in_the_desert".toList ∧
    apply .kebabCase "camelsLiveInTheDesert".toList none = "camels-live-in-the-desert".toList ∧
    apply .pascalCase "kebab-is-a-delicious-food".toList none = "KebabIsADeliciousFood".toList ∧
    apply .pascalCase "snakes_live_in_forests".toList none = "SnakesLiveInForests".toList := by
  decide

/-- identifiers with digits and runs of capitals: the outputs of the code as it is -/
theorem regression_identifiers :
    apply .camelCase "base64URL".toList none = "base64url".toList ∧
    apply .snakeCase "base64URL".toList none = "base64url".toList ∧
    apply .kebabCase "base64URL".toList none = "base64url".toList ∧
    apply .pascalCase "base64URL".toList none = "Base64URL".toList ∧
    apply .camelCase "utf8BOMMarker".toList none = "utf8bomMarker".toList ∧
    apply .snakeCase "utf8BOMMarker".toList none = "utf8bom_marker".toList ∧
    apply .kebabCase "utf8BOMMarker".toList none = "utf8bom-marker".toList ∧
    apply .pascalCase "utf8BOMMarker".toList none = "Utf8BOMMarker".toList ∧
    apply .camelCase "h264HDVideo".toList none = "h264hdVideo".toList ∧
    apply .snakeCase "h264HDVideo".toList none = "h264hd_video".toList ∧
    apply .kebabCase "h264HDVideo".toList none = "h264hd-video".toList ∧
    apply .pascalCase "h264HDVideo".toList none = "H264HDVideo".toList ∧
    apply .camelCase "XMLHttpRequest".toList none = "xmlHttpRequest".toList ∧
    apply .snakeCase "XMLHttpRequest".toList none = "xml_http_request".toList ∧
    apply .kebabCase "XMLHttpRequest".toList none = "xml-http-request".toList ∧
    apply .pascalCase "XMLHttpRequest".toList none = "XMLHttpRequest".toList ∧
    apply .camelCase "md5sumOfFile".toList none = "md5sumOfFile".toList ∧
    apply .snakeCase "md5sumOfFile".toList none = "md5sum_of_file".toList ∧
    apply .kebabCase "md5sumOfFile".toList none = "md5sum-of-file".toList ∧
    apply .pascalCase "md5sumOfFile".toList none = "Md5sumOfFile".toList := by
  decide

/-- multi-byte letters and `ß` -/
theorem regression_non_ascii :
    apply .snakeCase "éclairÉtoile".toList none = "éclair_étoile".toList ∧
    apply .pascalCase "ÉCOLEnormale".toList none = "ÉCOLEnormale".toList ∧
    apply .snakeCase "ÉCOLEnormale".toList none = "écol_enormale".toList ∧
    apply .upperCase "straße".toList none = "STRASSE".toList ∧
    apply .pascalCase "ßtart".toList none = "SStart".toList ∧
    apply .capitalize "ßtart".toList none = "SStart".toList ∧
    convert? .lowerCase "Σ".toList none = none := by
  decide

end AGV.C07
