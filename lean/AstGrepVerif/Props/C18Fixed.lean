/-
C18 for the code **with FIX_C18 applied** (`Model/InteractiveFixed.lean`): the statement that is
refuted for the pinned code (`C18.multi_payload_counterexample`) holds for the fixed printer.
Not part of the obligations of the unchanged tree; it becomes one when the fix is committed.
-/
import AstGrepVerif.Lemmas.UpdateFixed
import AstGrepVerif.Props.C18

set_option linter.unusedSimpArgs false
set_option linter.unusedVariables false

namespace AGV.C18
open Spec

theorem updateAllFixedFrom_file (q : Nat) (content : Bytes) :
    ∀ (docs : List (List Diff)) (st : UStateF) (A0 : List Diff),
      (∀ ds ∈ docs, (∀ d ∈ ds, d.start ≤ d.stop) ∧ Sliceable content ds) →
      confirmedOf st.confirmed q = A0 → GoodConfirmed content A0 →
      fsRead st.fs q = some (spliceAll content (A0.map Diff.toEdit)) →
      ∃ st' A, updateAllFixedFrom st (payloadsOfFile q content docs) = .ok st' ∧
        confirmedOf st'.confirmed q = A ∧ GoodConfirmed content A ∧
        fsRead st'.fs q = some (spliceAll content (A.map Diff.toEdit)) ∧
        st'.committed + A0.length = st.committed + A.length ∧
        (∀ d ∈ A, d ∈ A0 ∨ d ∈ docs.flatten) ∧
        (∀ q', q' ≠ q → fsRead st'.fs q' = fsRead st.fs q') := by
  intro docs
  induction docs with
  | nil =>
    intro st A0 _ hc hg hf
    exact ⟨st, A0, rfl, hc, hg, hf, rfl, fun d hd => .inl hd, fun _ _ => rfl⟩
  | cons ds docs ih =>
    intro st A0 hok hc hg hf
    have hds := hok ds (List.mem_cons_self ..)
    have hok' : ∀ x ∈ docs, (∀ d ∈ x, d.start ≤ d.stop) ∧ Sliceable content x :=
      fun x hx => hok x (List.mem_cons_of_mem _ hx)
    simp only [payloadsOfFile, List.map_cons, updateAllFixedFrom, processPayloadFixed, hc]
    by_cases he : (processDiffsFixed A0 ds).isEmpty = true
    · -- nothing confirmed in this payload
      have hnil : processDiffsFixed A0 ds = [] := by simpa using he
      simp only [he, if_true, bind, Except.bind]
      obtain ⟨st', A, h1, h2, h3, h4, h5, h6, h7⟩ :=
        ih { st with committed := st.committed + (processDiffsFixed A0 ds).length } A0 hok' hc hg hf
      refine ⟨st', A, h1, h2, h3, h4, ?_, ?_, h7⟩
      · rw [hnil] at h5; simpa using h5
      · intro d hd
        rcases h6 d hd with h | h
        · exact .inl h
        · exact .inr (by simp [h])
    · obtain ⟨hgood, hlen, hmem⟩ := mergeConfirmed_good content A0 ds hg hds.1 hds.2
      have happly := applyRewrite_eq_spliceAll content _ (orderedFrom_of_chain hgood.chain hgood.wf) hgood.sl
      simp only [he, Bool.false_eq_true, if_false, happly, bind, Except.bind, pure, Except.pure]
      obtain ⟨st', A, h1, h2, h3, h4, h5, h6, h7⟩ :=
        ih { fs := fsWrite st.fs q (spliceAll content ((mergeConfirmed A0 (processDiffsFixed A0 ds)).map Diff.toEdit)),
             committed := st.committed + (processDiffsFixed A0 ds).length,
             writes := st.writes ++ [q],
             confirmed := setConfirmed st.confirmed q (mergeConfirmed A0 (processDiffsFixed A0 ds)) }
          (mergeConfirmed A0 (processDiffsFixed A0 ds)) hok'
          (by simp [confirmedOf_setConfirmed]) hgood (by simp [fsRead_fsWrite])
      refine ⟨st', A, h1, h2, h3, h4, ?_, ?_, ?_⟩
      · simp only at h5; omega
      · intro d hd
        rcases h6 d hd with h | h
        · rcases hmem d h with h' | h'
          · exact .inl h'
          · exact .inr (by simp [h'])
        · exact .inr (by simp [h])
      · intro q' hq'
        rw [h7 q' hq']
        simp [fsRead_fsWrite, hq']

/-- **with FIX_C18, C18 holds for a file with any number of document payloads**: no panic; the
file ends as the specification's splice of the ORIGINAL text with the list `A` of all confirmed
diffs, `A` is ordered, disjoint and in range, consists of announced diffs only, the counter is
exactly the number of edits present in the file, and no other file changes.
(Which announced diffs are dropped: those starting before the end of an earlier accepted diff of
the same document, or overlapping a diff accepted for an earlier document —
`processDiffsFixedGo_props`.) -/
theorem update_multi_payload_fixed (q : Nat) (content : Bytes) (fs : FS) (docs : List (List Diff))
    (hok : ∀ ds ∈ docs, (∀ d ∈ ds, d.start ≤ d.stop) ∧ Sliceable content ds)
    (hsnap : fsRead fs q = some content) :
    ∃ st A, updateAllFixed fs (payloadsOfFile q content docs) = .ok st ∧
      confirmedOf st.confirmed q = A ∧
      Valid content.length (A.map Diff.toEdit) ∧
      fsRead st.fs q = some (spliceAll content (A.map Diff.toEdit)) ∧
      st.committed = A.length ∧
      (∀ d ∈ A, d ∈ docs.flatten) ∧
      (∀ q', q' ≠ q → fsRead st.fs q' = fsRead fs q') := by
  obtain ⟨st, A, h1, h2, h3, h4, h5, h6, h7⟩ :=
    updateAllFixedFrom_file q content docs { fs := fs, committed := 0, writes := [], confirmed := [] } []
      hok (by simp [confirmedOf])
      { chain := trivial, wf := (fun _ hd => (List.not_mem_nil hd).elim),
        sl := (fun _ hd => (List.not_mem_nil hd).elim) }
      (by simpa [spliceAll] using hsnap)
  refine ⟨st, A, h1, h2, ⟨orderedFrom_of_chain h3.chain h3.wf, inRange_of_sliceable h3.sl⟩, h4, ?_, ?_, h7⟩
  · simpa using h5
  · intro d hd
    rcases h6 d hd with h | h
    · cases h
    · exact h

/-- the witness of `multi_payload_counterexample`, on the fixed printer: both edits are in the file -/
theorem multi_payload_fixed_witness :
    (updateAllFixed [(0, [1, 2, 3, 4])] (payloadsOfFile 0 [1, 2, 3, 4] [[⟨0, 1, [9]⟩], [⟨2, 3, [8]⟩]])).map
        (fun st => (st.fs, st.committed))
      = .ok ([(0, [9, 2, 8, 4])], 2) := by
  decide

/-- a host-document fix that contains an injected-document fix: the earlier document wins, the
overlapping later diff is neither applied nor counted -/
example :
    (updateAllFixed [(0, [1, 2, 3, 4])] (payloadsOfFile 0 [1, 2, 3, 4] [[⟨1, 4, [9]⟩], [⟨2, 3, [8]⟩, ⟨0, 1, [7]⟩]])).map
        (fun st => (st.fs, st.committed))
      = .ok ([(0, [7, 9])], 2) := by
  decide

end AGV.C18
