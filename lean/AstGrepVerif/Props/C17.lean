/-
C17 — files are processed independently, whatever the thread count or schedule.

Property theorems over `Model/Worker` (+ `Model/JsonFrameMin`), against the specification
`Spec/JsonOut.render` (the documented shape of `--json=pretty|stream|compact` output).
Helper lemmas: `Lemmas/Worker.lean`.

Reading guide.  A *run* is any number `k` of walker threads (`r.parts.length`), any partition
of the files among them, any interleaving of their per-file item sequences in the channel
and any linearisation of their `fetch_add`s.  `Run.Valid` is exactly the walker contract
(each file handed to one thread, once) + the channel contract (FIFO per sender).
-/
import AstGrepVerif.Model.Worker
import AstGrepVerif.Spec.JsonOut
import AstGrepVerif.Lemmas.Worker

set_option linter.unusedSimpArgs false
set_option linter.unusedVariables false

namespace AGV.C17

open AGV AGV.JsonFrameMin AGV.Worker AGV.Spec.JsonOut

/-- every record a file can contribute is a non-empty byte string (it is a JSON object);
checked by the harness on every record of every run -/
def RecordsNonEmpty {F : Type} (produce : Produce F) (files : List F) : Prop :=
  ∀ f ∈ files, ∀ r ∈ fileRecords produce f, r ≠ []

theorem items_nonempty_of_valid {F : Type} {produce : Produce F} {files : List F} {r : Run F}
    (hv : r.Valid produce files) (hne : RecordsNonEmpty produce files) :
    ∀ it ∈ r.arrival, ∀ rec ∈ it.docs, rec ≠ [] := by
  intro it hit rec hrec
  have hmem : it ∈ files.flatMap (fileItems produce) := (arrival_perm hv).mem_iff.mp hit
  rw [List.mem_flatMap] at hmem
  obtain ⟨f, hf', hitf⟩ := hmem
  apply hne f hf' rec
  unfold fileRecords
  rw [List.mem_flatMap]
  exact ⟨it, hitf, hrec⟩

/-! ## Items are self-contained -/

/-- **items_self_contained.**  For *any* arrival order of *any* items, the printed output is
the canonical rendering (JSON array / JSON lines) of the items' records in arrival order:
a record never straddles two buffers, separators are written exactly between records, and
empty buffers leave no trace. -/
theorem items_self_contained (s : Style) (items : List Item)
    (hne : ∀ it ∈ items, ∀ r ∈ it.docs, r ≠ []) :
    (consume s (items.map (Item.buffer s))).out = render s (items.flatMap (·.docs)) :=
  consume_eq_render s items hne

/-- … and each item's buffer is a contiguous block of the output -/
theorem item_buffer_contiguous (s : Style) (before after : List Item) (it : Item)
    (hne : ∀ it' ∈ before ++ it :: after, ∀ r ∈ it'.docs, r ≠ []) :
    ∃ pre post, (consume s ((before ++ it :: after).map (Item.buffer s))).out
      = pre ++ it.buffer s ++ post := by
  rw [consume_eq_render s _ hne]
  cases hd : it.docs with
  | nil => exact ⟨render s ((before ++ it :: after).flatMap (·.docs)), [], by
      simp [Item.buffer, hd, printDocs]⟩
  | cons d ds =>
    -- records before / of the item / after
    have hflat : (before ++ it :: after).flatMap (·.docs)
        = before.flatMap (·.docs) ++ (d :: ds) ++ after.flatMap (·.docs) := by
      simp [List.flatMap_append, List.flatMap_cons, hd]
    rw [hflat]
    generalize before.flatMap (·.docs) = A
    generalize after.flatMap (·.docs) = B
    have key : ∃ pre post, joinSep (docSep s) (A ++ (d :: ds) ++ B)
        = pre ++ printDocs s (d :: ds) ++ post := by
      rw [← printDocs_eq_joinSep]
      cases A with
      | nil =>
        refine ⟨[], printDocsTail s B, ?_⟩
        simp [printDocs, printDocsTail_append, List.append_assoc]
      | cons a A' =>
        refine ⟨a ++ printDocsTail s A' ++ docSep s, printDocsTail s B, ?_⟩
        simp [printDocs, printDocsTail, printDocsTail_append, List.append_assoc]
    obtain ⟨pre, post, hk⟩ := key
    have hne' : A ++ (d :: ds) ++ B ≠ [] := by simp
    have hbuf : ∀ s', it.buffer s' = printDocs s' (d :: ds) := fun s' => by
      simp [Item.buffer, hd]
    cases s with
    | stream =>
      refine ⟨pre, post, ?_⟩
      rw [hbuf]
      exact hk
    | compact =>
      refine ⟨[0x5B] ++ pre, post ++ [0x5D, 0x0A], ?_⟩
      rw [hbuf]
      show [0x5B] ++ joinSep (docSep .compact) (A ++ (d :: ds) ++ B) ++ [0x5D, 0x0A] = _
      rw [hk]
      simp only [List.append_assoc]
    | pretty =>
      cases hR : A ++ (d :: ds) ++ B with
      | nil => exact absurd hR hne'
      | cons x xs =>
        refine ⟨[0x5B, 0x0A] ++ pre, post ++ [0x0A, 0x5D, 0x0A], ?_⟩
        rw [hbuf]
        rw [hR] at hk
        show [0x5B, 0x0A] ++ joinSep (docSep .pretty) (x :: xs) ++ [0x0A, 0x5D, 0x0A] = _
        rw [hk]
        simp only [List.append_assoc]

/-- **stream_records_unique.**  "The multiset of printed records" is well defined for
`--json=stream`: an output is the rendering of at most one list of line records (non-empty,
no raw newline — what serde_json's compact writer emits). -/
theorem stream_records_unique (recs recs' : List Record)
    (h : ∀ r ∈ recs, LineRecord r) (h' : ∀ r ∈ recs', LineRecord r)
    (he : render .stream recs = render .stream recs') : recs = recs' := by
  have hnl : ∀ {l : List Record}, (∀ r ∈ l, LineRecord r) → ∀ x ∈ l, NL ∉ x :=
    fun hl x hx => (hl x hx).2
  simp only [render] at he
  cases recs with
  | nil =>
    cases recs' with
    | nil => rfl
    | cons r rs =>
      exact absurd he.symm (joinSep_cons_ne_nil _ r rs (h' r (by simp)).1)
  | cons a as =>
    cases recs' with
    | nil => exact absurd he (joinSep_cons_ne_nil _ a as (h a (by simp)).1)
    | cons r rs =>
      have e1 := splitNL_joinSep a as (hnl h)
      have e2 := splitNL_joinSep r rs (hnl h')
      have he' : joinSep [NL] (a :: as) = joinSep [NL] (r :: rs) := he
      rw [he'] at e1
      exact e1.symm.trans e2

/-! ## The schedule is irrelevant -/

/-- **schedule_irrelevant.**  For every thread count, partition, channel interleaving and
atomic linearisation: the output is the well-formed rendering of a permutation of the union
over the files of their records (every file contributes exactly once), the error count is
the sum over the files, the exit status is the one of that sum, every file is counted as
scanned once and exactly the skipped files are counted as skipped. -/
theorem schedule_irrelevant {F : Type} (produce : Produce F) (cmd : Cmd) (s : Style)
    (files : List F) (r : Run F) (hv : r.Valid produce files)
    (hne : RecordsNonEmpty produce files) :
    (∃ recs, (r.result produce cmd s).stdout = render s recs ∧
        recs.Perm (files.flatMap (fileRecords produce))) ∧
    (r.result produce cmd s).errorCount = (files.map (fileErrors produce)).sum ∧
    (r.result produce cmd s).exit = exitStatus cmd ((files.map (fileErrors produce)).sum) ∧
    (r.result produce cmd s).scanned = files.length ∧
    (r.result produce cmd s).skipped = (files.filter (isSkipped produce)).length := by
  have hitems := items_nonempty_of_valid hv hne
  have hperm : r.arrival.Perm (files.flatMap (fileItems produce)) := arrival_perm hv
  have herr : r.errAdds.foldl (· + ·) 0 = (files.map (fileErrors produce)).sum := by
    have h1 := interleave_perm hv.atomics
    rw [flatten_map_map] at h1
    have h2 : r.errAdds.Perm (files.map (fileErrors produce)) :=
      h1.trans (List.Perm.map _ hv.partition)
    rw [foldl_add_eq_sum, h2.sum_nat]; simp
  refine ⟨⟨r.arrival.flatMap (·.docs), ?_, ?_⟩, ?_, ?_, ?_, ?_⟩
  · exact consume_eq_render s r.arrival hitems
  · have := List.Perm.flatMap_right (fun it : Item => it.docs) hperm
    rwa [flatMap_flatMap_docs] at this
  · exact herr
  · show exitStatus cmd (r.errAdds.foldl (· + ·) 0) = _
    rw [herr]
  · show (r.parts.map (·.length)).sum = files.length
    rw [sum_map_length_eq]; exact hv.partition.length_eq
  · show (r.parts.map (fun p => (p.filter (isSkipped produce)).length)).sum = _
    rw [sum_map_filter_length]; exact (hv.partition.filter _).length_eq

/-- scanning one file alone prints exactly that file's records, counts exactly its errors -/
theorem alone_result {F : Type} (produce : Produce F) (cmd : Cmd) (s : Style) (f : F)
    (hne : ∀ r ∈ fileRecords produce f, r ≠ []) :
    (Run.alone produce f).Valid produce [f] ∧
    ((Run.alone produce f).result produce cmd s).stdout = render s (fileRecords produce f) ∧
    ((Run.alone produce f).result produce cmd s).errorCount = fileErrors produce f ∧
    ((Run.alone produce f).result produce cmd s).exit = exitStatus cmd (fileErrors produce f) := by
  have hvalid : (Run.alone produce f).Valid produce [f] := by
    refine ⟨by simp [Run.alone], ?_, ?_, ?_⟩
    · have := sendsOf_canonical produce [f]
      exact AllSends.cons (by simpa [threadSends] using this) AllSends.nil
    · exact interleave_single (fileItems produce f)
    · have := interleave_single [fileErrors produce f]
      simpa [Run.alone] using this
  refine ⟨hvalid, ?_, ?_, ?_⟩
  · have hit : ∀ it ∈ fileItems produce f, ∀ r ∈ it.docs, r ≠ [] := by
      intro it hit r hr
      exact hne r (by unfold fileRecords; rw [List.mem_flatMap]; exact ⟨it, hit, hr⟩)
    exact consume_eq_render s (fileItems produce f) hit
  · simp [Run.result, Run.alone]
  · simp [Run.result, Run.alone]

/-- the union in `schedule_irrelevant` is the union of the single-file runs: the property
as worded ("equals the union of the findings obtained by scanning each file alone") -/
theorem union_of_single_file_runs {F : Type} (produce : Produce F) (cmd : Cmd) (s : Style)
    (files : List F) (r : Run F) (hv : r.Valid produce files)
    (hne : RecordsNonEmpty produce files) :
    ∃ (recs : List Record) (single : F → List Record),
      (r.result produce cmd s).stdout = render s recs ∧
      (∀ f ∈ files, ((Run.alone produce f).result produce cmd s).stdout = render s (single f)) ∧
      recs.Perm (files.flatMap single) ∧
      (r.result produce cmd s).errorCount =
        (files.map (fun f => ((Run.alone produce f).result produce cmd s).errorCount)).sum := by
  obtain ⟨⟨recs, hout, hperm⟩, herr, _, _, _⟩ := schedule_irrelevant produce cmd s files r hv hne
  refine ⟨recs, fileRecords produce, hout, ?_, hperm, ?_⟩
  · intro f hf
    exact (alone_result produce cmd s f (hne f hf)).2.1
  · rw [herr]
    congr 1
    apply List.map_congr_left
    intro f hf
    exact (alone_result produce cmd s f (hne f hf)).2.2.1.symm

/-- two executions of the same files — different thread counts, partitions, interleavings —
print the same records up to order, and agree on error count, exit status and counters -/
theorem thread_count_irrelevant {F : Type} (produce : Produce F) (cmd : Cmd) (s : Style)
    (files : List F) (r₁ r₂ : Run F)
    (h₁ : r₁.Valid produce files) (h₂ : r₂.Valid produce files)
    (hne : RecordsNonEmpty produce files) :
    (∃ recs₁ recs₂, (r₁.result produce cmd s).stdout = render s recs₁ ∧
        (r₂.result produce cmd s).stdout = render s recs₂ ∧ recs₁.Perm recs₂) ∧
    (r₁.result produce cmd s).errorCount = (r₂.result produce cmd s).errorCount ∧
    (r₁.result produce cmd s).exit = (r₂.result produce cmd s).exit ∧
    (r₁.result produce cmd s).scanned = (r₂.result produce cmd s).scanned ∧
    (r₁.result produce cmd s).skipped = (r₂.result produce cmd s).skipped := by
  obtain ⟨⟨a, ha, pa⟩, e1, x1, s1, k1⟩ := schedule_irrelevant produce cmd s files r₁ h₁ hne
  obtain ⟨⟨b, hb, pb⟩, e2, x2, s2, k2⟩ := schedule_irrelevant produce cmd s files r₂ h₂ hne
  exact ⟨⟨a, b, ha, hb, pa.trans pb.symm⟩, e1.trans e2.symm, x1.trans x2.symm,
    s1.trans s2.symm, k1.trans k2.symm⟩

/-! ## A skipped file is isolated -/

theorem fileItems_withSkip_self {F : Type} [DecidableEq F] (produce : Produce F) (f₀ : F)
    (why : Skip) : fileItems (produce.withSkip f₀ why) f₀ = [] := by
  simp [fileItems, Produce.withSkip]

theorem fileItems_withSkip_other {F : Type} [DecidableEq F] (produce : Produce F) (f₀ f : F)
    (why : Skip) (h : f ≠ f₀) : fileItems (produce.withSkip f₀ why) f = fileItems produce f := by
  simp [fileItems, Produce.withSkip, h]

/-- **skip_isolated.**  Make one file of the tree unreadable / empty / oversized (its
`produce_item` now fails).  Then, for every schedule, the output is still well-formed, it
contains exactly the records of the *other* files (each once, unchanged), the error count
drops by exactly that file's errors, the file is still counted as scanned and one more file
is counted as skipped. -/
theorem skip_isolated {F : Type} [DecidableEq F] (produce : Produce F) (cmd : Cmd) (s : Style)
    (files : List F) (f₀ : F) (why : Skip) (hnd : files.Nodup) (hf : f₀ ∈ files)
    (r' : Run F) (hv : r'.Valid (produce.withSkip f₀ why) files)
    (hne : RecordsNonEmpty produce files) :
    (∃ recs', (r'.result (produce.withSkip f₀ why) cmd s).stdout = render s recs' ∧
        recs'.Perm ((files.erase f₀).flatMap (fileRecords produce)) ∧
        (recs' ++ fileRecords produce f₀).Perm (files.flatMap (fileRecords produce))) ∧
    (r'.result (produce.withSkip f₀ why) cmd s).errorCount + fileErrors produce f₀
      = (files.map (fileErrors produce)).sum ∧
    (r'.result (produce.withSkip f₀ why) cmd s).scanned = files.length ∧
    (r'.result (produce.withSkip f₀ why) cmd s).skipped
      = ((files.erase f₀).filter (isSkipped produce)).length + 1 := by
  have hperm0 : files.Perm (f₀ :: files.erase f₀) := List.perm_cons_erase hf
  have hnot : f₀ ∉ files.erase f₀ := fun h => (List.Nodup.mem_erase_iff hnd).mp h |>.1 rfl
  have hother : ∀ f ∈ files.erase f₀, f ≠ f₀ := fun f h e => hnot (e ▸ h)
  have hne' : RecordsNonEmpty (produce.withSkip f₀ why) files := by
    intro f hfm r hr
    by_cases e : f = f₀
    · subst e; simp [fileRecords, fileItems_withSkip_self] at hr
    · simp only [fileRecords, fileItems_withSkip_other produce f₀ f why e] at hr
      exact hne f hfm r hr
  obtain ⟨⟨recs', hout, hp⟩, herr, _, hsc, hsk⟩ :=
    schedule_irrelevant (produce.withSkip f₀ why) cmd s files r' hv hne'
  -- rewrite the union over `files` under the modified produce
  have hrec_eq : (files.erase f₀).flatMap (fileRecords (produce.withSkip f₀ why))
      = (files.erase f₀).flatMap (fileRecords produce) := by
    simp only [List.flatMap_def]
    congr 1
    apply List.map_congr_left
    intro f hfm
    simp [fileRecords, fileItems_withSkip_other produce f₀ f why (hother f hfm)]
  have hp1 : recs'.Perm ((files.erase f₀).flatMap (fileRecords produce)) := by
    have h1 := hp.trans (List.Perm.flatMap_right _ hperm0)
    simp only [List.flatMap_cons] at h1
    have h0 : fileRecords (produce.withSkip f₀ why) f₀ = [] := by
      simp [fileRecords, fileItems_withSkip_self]
    rw [h0, List.nil_append, hrec_eq] at h1
    exact h1
  have hp2 : (recs' ++ fileRecords produce f₀).Perm (files.flatMap (fileRecords produce)) := by
    have h2 : (files.flatMap (fileRecords produce)).Perm
        (fileRecords produce f₀ ++ (files.erase f₀).flatMap (fileRecords produce)) := by
      have := List.Perm.flatMap_right (fileRecords produce) hperm0
      simpa [List.flatMap_cons] using this
    exact ((List.Perm.append_right _ hp1).trans List.perm_append_comm).trans h2.symm
  have herr_eq : ((files.erase f₀).map (fileErrors (produce.withSkip f₀ why)))
      = (files.erase f₀).map (fileErrors produce) := by
    apply List.map_congr_left
    intro f hfm
    simp [fileErrors, fileItems_withSkip_other produce f₀ f why (hother f hfm)]
  refine ⟨⟨recs', hout, hp1, hp2⟩, ?_, hsc, ?_⟩
  · rw [herr]
    have e1 := (List.Perm.map (fileErrors (produce.withSkip f₀ why)) hperm0).sum_nat
    have e2 := (List.Perm.map (fileErrors produce) hperm0).sum_nat
    have h0 : fileErrors (produce.withSkip f₀ why) f₀ = 0 := by
      simp [fileErrors, fileItems_withSkip_self]
    simp only [List.map_cons, List.sum_cons] at e1 e2
    rw [e1, e2, h0, herr_eq]; omega
  · rw [hsk]
    have e1 := ((hperm0.filter (isSkipped (produce.withSkip f₀ why)))).length_eq
    rw [e1]
    have hs0 : isSkipped (produce.withSkip f₀ why) f₀ = true := by
      simp [isSkipped, Produce.withSkip]
    have hfe : (files.erase f₀).filter (isSkipped (produce.withSkip f₀ why))
        = (files.erase f₀).filter (isSkipped produce) := by
      apply List.filter_congr
      intro f hfm
      have := hother f hfm
      simp [isSkipped, Produce.withSkip, this]
    simp [List.filter_cons, hs0, hfe]

/-! ## `read_file` skips exactly the documented cases -/

/-- a file is skipped by `read_file` iff it cannot be read as UTF-8 text, is empty, or is
*both* larger than 3 000 000 bytes and longer than 200 000 lines -/
theorem readFile_skip_iff (c : Content) :
    (∃ why, readFile c = .error why) ↔
      c = .unreadable ∨ c = .invalidUtf8 ∨
      ∃ len lines, c = .text len lines ∧ (len = 0 ∨ (len > 3000000 ∧ lines > 200000)) := by
  cases c with
  | unreadable => simp [readFile]
  | invalidUtf8 => simp [readFile]
  | text len lines =>
    simp only [readFile, fileTooLarge, MAX_FILE_SIZE, MAX_LINE_COUNT, Bool.and_eq_true,
      decide_eq_true_eq, reduceCtorEq, false_or, Content.text.injEq]
    constructor
    · intro ⟨why, h⟩
      refine ⟨len, lines, ⟨rfl, rfl⟩, ?_⟩
      by_cases h1 : len > 3000000 ∧ lines > 200000
      · exact Or.inr h1
      · by_cases h2 : len = 0
        · exact Or.inl h2
        · simp [h1, h2] at h
    · rintro ⟨l, n, ⟨rfl, rfl⟩, h⟩
      rcases h with h | h
      · subst h; simp
      · simp [h.1, h.2]

/-! ## Non-vacuity: concrete runs -/

section Examples

/-- three files: `0 ↦` two items (one with an error-severity match), `1 ↦` skipped,
`2 ↦` one item -/
def exProduce : Produce Nat
  | 0 => .ok [{ docs := [[0x61], [0x62]], errors := 1 }, { docs := [[0x63]], errors := 0 }]
  | 1 => .error .empty
  | _ => .ok [{ docs := [[0x64]], errors := 2 }]

/-- two threads; thread 0 gets files 0 and 1, thread 1 gets file 2; the item of file 2 arrives
between the two items of file 0 -/
def exRun : Run Nat :=
  { parts := [[0, 1], [2]]
    sends := [[{ docs := [[0x61], [0x62]], errors := 1 }, { docs := [[0x63]], errors := 0 }],
              [{ docs := [[0x64]], errors := 2 }]]
    arrival := [{ docs := [[0x61], [0x62]], errors := 1 }, { docs := [[0x64]], errors := 2 },
                { docs := [[0x63]], errors := 0 }]
    errAdds := [2, 1, 0] }

theorem exRun_valid : exRun.Valid exProduce [0, 1, 2] := by
  refine ⟨by decide, ?_, ?_, ?_⟩
  · exact AllSends.cons (sendsOf_canonical exProduce [0, 1])
      (AllSends.cons (sendsOf_canonical exProduce [2]) AllSends.nil)
  · exact isInterleave_sound _ _ (by decide)
  · exact isInterleave_sound _ _ (by decide)

theorem ex_nonempty : RecordsNonEmpty exProduce [0, 1, 2] := by
  intro f hf r hr
  have : f = 0 ∨ f = 1 ∨ f = 2 := by simpa using hf
  rcases this with rfl | rfl | rfl
  · simp [fileRecords, fileItems, exProduce] at hr
    rcases hr with rfl | rfl | rfl <;> simp
  · simp [fileRecords, fileItems, exProduce] at hr
  · simp [fileRecords, fileItems, exProduce] at hr
    subst hr; simp

/-- the hypotheses of `schedule_irrelevant` are satisfiable by a genuinely interleaved run,
and the conclusion is the expected concrete output: `a\nb\nd\nc`, 3 errors, exit 1 -/
example : (exRun.result exProduce .scan .stream).stdout = [0x61, 0x0A, 0x62, 0x0A, 0x64, 0x0A, 0x63]
    ∧ (exRun.result exProduce .scan .stream).errorCount = 3
    ∧ (exRun.result exProduce .scan .stream).exit = 1
    ∧ (exRun.result exProduce .scan .stream).scanned = 3
    ∧ (exRun.result exProduce .scan .stream).skipped = 1 := by decide

example : (exRun.result exProduce .scan .compact).stdout
    = [0x5B, 0x61, 0x2C, 0x62, 0x2C, 0x64, 0x2C, 0x63, 0x5D, 0x0A] := by decide

example : (exRun.result exProduce .scan .pretty).stdout
    = [0x5B, 0x0A, 0x61, 0x2C, 0x0A, 0x62, 0x2C, 0x0A, 0x64, 0x2C, 0x0A, 0x63, 0x0A, 0x5D, 0x0A] := by
  decide

example := schedule_irrelevant exProduce .scan .stream [0, 1, 2] exRun exRun_valid ex_nonempty

/-- instance of `skip_isolated`: skipping file 2 in the sequential schedule -/
example : ((Run.sequential (exProduce.withSkip 2 .cannotRead) [0, 1, 2]).result
      (exProduce.withSkip 2 .cannotRead) .scan .stream).stdout = [0x61, 0x0A, 0x62, 0x0A, 0x63] := by
  decide

/-- the items of one file may be sent in either order (hash-map order of the rules): file 0's
second item first — still a valid run, covered by `schedule_irrelevant` -/
example : ({ parts := [[0], [1, 2]]
             sends := [[{ docs := [[0x63]], errors := 0 }, { docs := [[0x61], [0x62]], errors := 1 }],
                       [{ docs := [[0x64]], errors := 2 }]]
             arrival := [{ docs := [[0x63]], errors := 0 }, { docs := [[0x64]], errors := 2 },
                         { docs := [[0x61], [0x62]], errors := 1 }]
             errAdds := [1, 0, 2] } : Run Nat).Valid exProduce [0, 1, 2] := by
  refine ⟨by decide, ?_, isInterleave_sound _ _ (by decide), isInterleave_sound _ _ (by decide)⟩
  refine AllSends.cons ?_ (AllSends.cons (sendsOf_canonical exProduce [1, 2]) AllSends.nil)
  have := SendsOf.cons (produce := exProduce) 0 []
    [{ docs := [[0x63]], errors := 0 }, { docs := [[0x61], [0x62]], errors := 1 }] []
    (by decide) SendsOf.nil
  simpa using this

/-- an order that is *not* an interleaving (file 0's second item before its first) is
rejected: `Interleave` is not trivially true -/
example : isInterleave [[(1 : Nat), 2], [3]] [2, 1, 3] = false := by decide

end Examples

end AGV.C17
