/-
C07 — fix templates substitute captured code verbatim and keep relative indentation.
Property theorems only; helper lemmas live in `AstGrepVerif/Lemmas/{Indent,Fix}.lean`, the
specification vocabulary (`lead`, `body`, `reindent`, `shiftNL`, `interleave`, `indentAt`,
`capturedText`) in `AstGrepVerif/Spec/{Indent,Fix}.lean`.
-/
import AstGrepVerif.Model.Indent
import AstGrepVerif.Model.Template
import AstGrepVerif.Model.Fix
import AstGrepVerif.Spec.Indent
import AstGrepVerif.Spec.Fix
import AstGrepVerif.Lemmas.Indent
import AstGrepVerif.Lemmas.Fix

set_option linter.unusedSimpArgs false
set_option linter.unusedVariables false

namespace AGV.C07

open Spec

/-! ## Hypotheses, as decidable predicates on a text -/

/-- first line of a text -/
def firstLine (t : Bytes) : Bytes := (splitNL t).headD []
/-- continuation lines of a text -/
def contLines (t : Bytes) : List Bytes := (splitNL t).tail

/-- every continuation line of `t` is indented at least `orig` (the indentation of the line
`t` starts on). For `orig > 0` this excludes blank (empty) and under-indented continuation
lines; lines made of `orig` or more spaces only are allowed. -/
def WellIndented (orig : Nat) (t : Bytes) : Prop := ∀ l ∈ contLines t, orig ≤ lead l

instance (orig : Nat) (t : Bytes) : Decidable (WellIndented orig t) := by
  unfold WellIndented; infer_instance

/-- every text is the join of its newline-free lines -/
theorem text_as_lines (t : Bytes) :
    t = joinNL (firstLine t :: contLines t) ∧ ∀ l ∈ firstLine t :: contLines t, NL ∉ l := by
  unfold firstLine contLines
  cases h : splitNL t with
  | nil => exact absurd h (splitNL_ne_nil t)
  | cons l ls =>
    simp only [List.headD_cons, List.tail_cons]
    rw [← h]
    exact ⟨(joinNL_splitNL t).symm, splitNL_noNL t⟩

/-! ## `get_indent_at_offset` -/

/-- **What `get_indent_at_offset` computes.** The indentation (number of leading spaces) of the
line the offset sits on, provided the start of that line — a newline, or the start of the file
— lies within the last 512 bytes before the offset; on a longer line the result is `0`
(the "long line" rule of the doc comment, stated, not hidden). -/
theorem indentAt_spec (src : Bytes) : getIndentAtOffset src = Spec.indentAt src := by
  rw [getIndent_eq]
  have hmemR : NL ∈ src.reverse ↔ NL ∈ src := List.mem_reverse
  have hlen : src.reverse.length = src.length := by simp
  unfold Spec.indentAt
  have hS : ShortLine src ↔
      ((NL ∈ src.reverse ∧ (src.reverse.takeWhile (· != NL)).length < 512) ∨
        (NL ∉ src.reverse ∧ src.reverse.length ≤ 512)) := by
    unfold ShortLine lastLine
    rw [hmemR, hlen]; simp
  have hL : lastLine src = (src.reverse.takeWhile (· != NL)).reverse := rfl
  rw [hL]
  generalize src.reverse = R at *
  simp only []
  by_cases hle : R.length ≤ 512
  · have h0 : R.length - (max R.length 512 - 512) = R.length := by omega
    rw [h0, List.take_length]
    have : ShortLine src := by
      rw [hS]
      by_cases hm : NL ∈ R
      · left; exact ⟨hm, by have := takeWhile_length_lt_of_mem R hm; omega⟩
      · right; exact ⟨hm, hle⟩
    simp only [this, hle, ↓reduceIte]
    split <;> rfl
  · have h0 : R.length - (max R.length 512 - 512) = 512 := by omega
    rw [h0]
    by_cases hp : (R.takeWhile (· != NL)).length < 512
    · rw [takeWhile_take_of_lt R 512 hp]
      have hm : NL ∈ R := by
        apply Classical.byContradiction
        intro hm
        rw [takeWhile_eq_self_of_not_mem R hm] at hp
        omega
      have hmt : NL ∈ R.take 512 := (mem_take_of_lt R 512 hp).mpr hm
      have : ShortLine src := by rw [hS]; left; exact ⟨hm, hp⟩
      simp only [hmt, this, ↓reduceIte]
    · have hmt : NL ∉ R.take 512 := not_mem_take_of_ge R 512 (by omega)
      have : ¬ ShortLine src := by
        rw [hS]
        rintro (⟨_, h⟩ | ⟨_, h⟩) <;> omega
      simp only [hmt, this, hle, ↓reduceIte]

/-- worked instance: the bytes of `"ab\n  x"` -/
example : getIndentAtOffset [0x61, 0x62, 0x0A, 0x20, 0x20, 0x78] = 2 := by decide

/-- **The long-line rule** on the first line of a file (no newline before the offset): the
indentation is reported up to offset 512 and is `0` beyond, whatever the line looks like. -/
theorem long_line_rule (src : Bytes) (h : NL ∉ src) :
    getIndentAtOffset src = if src.length ≤ 512 then lead src else 0 := by
  rw [indentAt_spec]
  unfold Spec.indentAt
  have hL : lastLine src = src := by
    unfold lastLine
    rw [takeWhile_eq_self_of_not_mem _ (by simpa using h)]; simp
  have hS : ShortLine src ↔ src.length ≤ 512 := by
    unfold ShortLine; simp [h]
  rw [hL]
  by_cases hle : src.length ≤ 512
  · simp only [hS.mpr hle, hle, ↓reduceIte]
  · have : ¬ ShortLine src := fun h' => hle (hS.mp h')
    simp only [this, hle, ↓reduceIte]

/-- non-vacuity: 513 spaces before the offset give 0, not 513 -/
example : getIndentAtOffset (List.replicate 513 SP) = 0 := by
  have h : NL ∉ List.replicate 513 SP := by
    rw [List.mem_replicate]; intro h; exact absurd h.2 (by decide)
  rw [long_line_rule _ h, List.length_replicate, if_neg (by omega)]

/-! ## De-indent / re-indent of a multi-line snippet -/

/-- **Shift.** A snippet given by its newline-free lines `l₀, l₁, …`, extracted at source
indentation `orig` and inserted at indentation `new`: the first line is untouched, every
continuation line keeps its content and has its indentation changed by `new - orig`
(all three orderings of `orig` and `new`). -/
theorem indentLines_shift (orig new : Nat) (l₀ : Bytes) (ls : List Bytes)
    (hnl : ∀ l ∈ l₀ :: ls, NL ∉ l) (hw : ∀ l ∈ ls, orig ≤ lead l) :
    indentLines new (.multiLine (joinNL (l₀ :: ls)) orig) =
      joinNL (l₀ :: ls.map (reindent orig new)) :=
  indentLines_shift_lines orig new l₀ ls hnl hw

/-- the same for a text: `WellIndented` is the (decidable) hypothesis -/
theorem indentLines_shift_text (orig new : Nat) (t : Bytes)
    (hw : WellIndented orig t) :
    indentLines new (.multiLine t orig) =
      joinNL (firstLine t :: (contLines t).map (reindent orig new)) := by
  obtain ⟨ht, hnl⟩ := text_as_lines t
  conv => lhs; rw [ht]
  exact indentLines_shift orig new _ _ hnl hw

/-- **Relative indentation is kept.** Line by line: the output has the same number of lines,
the same first line, and the `i`-th continuation line has the same content as in the
snippet with `lead outᵢ - new = lead lᵢ - orig` (written additively). -/
theorem relative_indent_kept (orig new : Nat) (t : Bytes)
    (hw : WellIndented orig t) :
    ∃ outs, splitNL (indentLines new (.multiLine t orig)) = firstLine t :: outs ∧
      outs.length = (contLines t).length ∧
      ∀ i (h : i < (contLines t).length) (h' : i < outs.length),
        lead outs[i] + orig = lead (contLines t)[i] + new ∧ body outs[i] = body (contLines t)[i] := by
  obtain ⟨ht, hnl⟩ := text_as_lines t
  refine ⟨(contLines t).map (reindent orig new), ?_, by simp, ?_⟩
  · rw [indentLines_shift_text orig new t hw]
    apply splitNL_joinNL
    intro l hl
    simp only [List.mem_cons, List.mem_map] at hl
    rcases hl with rfl | ⟨l', hl', rfl⟩
    · exact hnl _ (by simp)
    · exact not_mem_reindent _ _ (hnl l' (by simp [hl']))
  · intro i h h'
    simp only [List.getElem_map]
    have hle := hw _ (List.getElem_mem h)
    rw [lead_reindent, body_reindent]
    exact ⟨by omega, rfl⟩

/-- non-vacuity: `"{\n    a\n  }"` captured at indentation 2, inserted at 4 and at 0 -/
example :
    let t : Bytes := [0x7B, 0x0A, 0x20, 0x20, 0x20, 0x20, 0x61, 0x0A, 0x20, 0x20, 0x7D]
    WellIndented 2 t ∧
    indentLines 4 (.multiLine t 2) =
      [0x7B, 0x0A, 0x20, 0x20, 0x20, 0x20, 0x20, 0x20, 0x61, 0x0A, 0x20, 0x20, 0x20, 0x20, 0x7D] ∧
    indentLines 0 (.multiLine t 2) = [0x7B, 0x0A, 0x20, 0x20, 0x61, 0x0A, 0x7D] := by
  decide

/-- **De-indent then re-indent is the identity**: extracting a snippet that sits at
indentation `I` (to template column 0) and inserting the result at indentation `I` again
gives back the snippet. -/
theorem deindent_reindent_id (I : Nat) (t : Bytes)
    (hw : WellIndented I t) :
    indentLines I (.multiLine (indentLines 0 (.multiLine t I)) 0) = t := by
  obtain ⟨ht, hnl⟩ := text_as_lines t
  rw [indentLines_shift_text I 0 t hw]
  have hnl' : ∀ l ∈ firstLine t :: (contLines t).map (reindent I 0), NL ∉ l := by
    intro l hl
    simp only [List.mem_cons, List.mem_map] at hl
    rcases hl with rfl | ⟨l', hl', rfl⟩
    · exact hnl _ (by simp)
    · exact not_mem_reindent _ _ (hnl l' (by simp [hl']))
  rw [indentLines_shift 0 I _ _ hnl' (fun _ _ => Nat.zero_le _)]
  conv => rhs; rw [ht]
  congr 2
  rw [List.map_map]
  rw [List.map_congr_left (g := id)]
  · simp
  · intro l hl
    simp only [Function.comp]
    rw [reindent_reindent, reindent_self _ _ (hw l hl)]; rfl

/-! ## Why the restriction on continuation lines is needed (documented boundary, not a finding)

The property's quantifier excludes captures with blank or under-indented continuation lines.
The two witnesses below show that the exclusion is necessary for the code as it is; both are
replayed on the real implementation by the `witness-replay` oracle. The `first_line_kept_…`
theorems after them are the regression witnesses of the repaired defect (e39e245:
`remove_indent` used to strip the first line of a snippet too). -/

/-- Blank continuation line. Source `"  {\n\n  }"`, the block `{\n\n  }` (bytes 2..8) rewritten
to itself with the template `$A`: the blank line comes back with two spaces
(`"{\n  \n  }"`). `remove_indent` leaves a line it cannot strip alone, `indent_lines_impl`
indents every line. -/
theorem blank_line_counterexample :
    let source : Bytes := [0x20, 0x20, 0x7B, 0x0A, 0x0A, 0x20, 0x20, 0x7D]
    let env : TEnv := { single := [([0x41], (2, 8))] }
    ¬ WellIndented (getIndentAtOffset (source.take 2)) (slice source (2, 8)) ∧
    templateFix source 2 env [0x24, 0x41] [] = [0x7B, 0x0A, 0x20, 0x20, 0x0A, 0x20, 0x20, 0x7D] ∧
    templateFix source 2 env [0x24, 0x41] [] ≠ slice source (2, 8) := by
  decide

/-- Under-indented continuation line. Source `"    {\n  a\n    }"`, the block (bytes 4..16)
rewritten to itself: the line `  a` (2 < 4 spaces) is not stripped but is re-indented by 4,
giving `"{\n      a\n    }"`. -/
theorem under_indented_counterexample :
    let source : Bytes :=
      [0x20, 0x20, 0x20, 0x20, 0x7B, 0x0A, 0x20, 0x20, 0x61, 0x0A, 0x20, 0x20, 0x20, 0x20, 0x7D]
    let env : TEnv := { single := [([0x41], (4, 15))] }
    ¬ WellIndented (getIndentAtOffset (source.take 4)) (slice source (4, 15)) ∧
    templateFix source 4 env [0x24, 0x41] [] =
      [0x7B, 0x0A, 0x20, 0x20, 0x20, 0x20, 0x20, 0x20, 0x61, 0x0A, 0x20, 0x20, 0x20, 0x20, 0x7D] ∧
    templateFix source 4 env [0x24, 0x41] [] ≠ slice source (4, 15) := by
  decide

/-- First line (function level), after repair e39e245: `remove_indent` keeps line 0 untouched.
`"  a\n  b"` taken from indentation 2 to 0 becomes `"  a\nb"` (it used to become `"a\nb"`). -/
theorem first_line_kept_example :
    let t : Bytes := [0x20, 0x20, 0x61, 0x0A, 0x20, 0x20, 0x62]
    WellIndented 2 t ∧
    indentLines 0 (.multiLine t 2) = [0x20, 0x20, 0x61, 0x0A, 0x62] := by
  decide

/-- First line (end to end), the former finding as a regression witness. Source
``"  `  a\n  b`"`` (a JavaScript template string at indentation 2); the capture is the
string's text `"  a\n  b"` (bytes 3..10), which itself begins with as many spaces as its
line is indented. Rewriting it to itself is now a no-op (it used to give `"a\n  b"`).
Instance of `rewrite_to_self_noop`; replayed on the real code by the `witness-replay`
oracle. -/
theorem first_line_kept_end_to_end :
    let source : Bytes := [0x20, 0x20, 0x60, 0x20, 0x20, 0x61, 0x0A, 0x20, 0x20, 0x62, 0x60]
    let env : TEnv := { single := [([0x41], (3, 10))] }
    WellIndented (getIndentAtOffset (source.take 3)) (slice source (3, 10)) ∧
    templateFix source 3 env [0x24, 0x41] [] = slice source (3, 10) := by
  decide

/-! ## Template expansion -/

/-- every bound variable of the template denotes a text without newline -/
def SingleLineCaptures (source : Bytes) (env : TEnv) (t : Template) : Prop :=
  ∀ v ∈ t.vars, ((capturedText source env v.1).all fun b => !b.contains NL) = true

instance (source : Bytes) (env : TEnv) (t : Template) :
    Decidable (SingleLineCaptures source env t) := by
  unfold SingleLineCaptures; infer_instance

/-- **The scanner keeps the literal text.** The fragments of `create_template`, with the
spellings (`$NAME`, `$$NAME`, `$$$NAME`, names over `[A-Z0-9_]` that do not start with a digit
unless they are a transformation key — `isRecognisedName`) of the recognised variables
put back between them, are exactly the template: literal text is neither lost, added nor
reordered, and `vars` lists exactly the variables these spellings denote
(`mkVar`: `$$$NAME` multi capture; otherwise the transformation `NAME` if it is a key, else
the single capture). There is one more fragment than variables. -/
theorem createTemplate_fragments (mc : UInt8) (tr : List Bytes) (tmpl : Bytes) :
    ∃ sps : List (Nat × Bytes),
      (createTemplate tmpl mc tr).vars.map (·.1) = sps.map (fun p => mkVar tr p.1 p.2) ∧
      (∀ p ∈ sps, 1 ≤ p.1 ∧ p.1 ≤ 3 ∧ p.2 ≠ [] ∧ p.2.all isValidMetaVarByte = true ∧
            isRecognisedName tr p.2 = true) ∧
      tmpl = interleave (createTemplate tmpl mc tr).fragments (sps.map fun p => spelling mc p.1 p.2) ∧
      (createTemplate tmpl mc tr).fragments.length = (createTemplate tmpl mc tr).vars.length + 1 := by
  obtain ⟨sps, h1, h2, h3⟩ := scan_fragments mc tr tmpl.length tmpl (Nat.le_refl _) [] []
  refine ⟨sps, ?_, h2, ?_, createTemplate_lengths tmpl mc tr⟩
  · unfold createTemplate; exact h1
  · unfold createTemplate; simpa using h3

/-- **Verbatim substitution.** When every bound variable of the template denotes a
single-line text, the replacement is: the literal fragments copied unchanged, each variable
slot filled with exactly the captured source slice (first-to-last node for `$$$`), or the
transformed string, or nothing when the variable is unbound — and the whole shifted to the
match site (the indentation of the matched node's line inserted after every newline of the
template). -/
theorem replace_verbatim (source : Bytes) (m : Nat) (env : TEnv) (tmpl : Bytes) (tr : List Bytes)
    (hsl : SingleLineCaptures source env (createTemplate tmpl 0x24 tr)) :
    templateFix source m env tmpl tr =
      shiftNL (indentAt (source.take m))
        (interleave (createTemplate tmpl 0x24 tr).fragments
          ((createTemplate tmpl 0x24 tr).vars.map fun v => (capturedText source env v.1).getD [])) := by
  unfold templateFix
  rw [generateReplacement_eq, indentAt_spec,
    replaceFixer_eq_interleave _ _ _ (createTemplate_lengths tmpl 0x24 tr)]
  congr 2
  apply List.map_congr_left
  intro v hv
  have h := hsl v hv
  rw [maybeGetVar_of_single_line]
  intro b hb
  rw [hb] at h
  simpa using h

/-- non-vacuity of `replace_verbatim`: template `f($A, $B, $$$R)x` on source `ab cd`, `A ↦ ab`,
`R ↦ b cd` (first-to-last), `B` unbound: `f(ab, , b cd)x` -/
example :
    let source : Bytes := [0x61, 0x62, 0x20, 0x63, 0x64]
    let env : TEnv := { single := [([0x41], (0, 2))], multi := [([0x52], (1, 5))] }
    let tmpl : Bytes := [0x66, 0x28, 0x24, 0x41, 0x2C, 0x20, 0x24, 0x42, 0x2C, 0x20, 0x24, 0x24, 0x24, 0x52, 0x29, 0x78]
    SingleLineCaptures source env (createTemplate tmpl 0x24 []) ∧
    templateFix source 0 env tmpl [] =
      [0x66, 0x28, 0x61, 0x62, 0x2C, 0x20, 0x2C, 0x20, 0x62, 0x20, 0x63, 0x64, 0x29, 0x78] := by
  decide

/-- **A multi-line capture keeps its relative indentation, end to end.** Template
`pre $NAME post` (one variable, any literal text around it), the variable bound to a
multi-line capture `t` that sits at source indentation `I_src`, the variable at template
column `c = indentAt pre`, the match at indentation `I_m`: the replacement is `pre` and
`post` shifted by `I_m`, and between them the capture with its first line verbatim and every
continuation line re-indented from `I_src` to `c + I_m` (content unchanged). -/
theorem capture_reindented (source : Bytes) (m : Nat) (env : TEnv) (tr : List Bytes)
    (pre : Bytes) (k : Nat) (hk : 1 ≤ k ∧ k ≤ 3) (name post : Bytes)
    (hpre : (0x24 : UInt8) ∉ pre) (hpost : (0x24 : UInt8) ∉ post) (hne : name ≠ [])
    (hall : name.all isValidMetaVarByte = true)
    (hrec : isRecognisedName tr name = true)
    (hhead : ∀ b, post.head? = some b → isValidMetaVarByte b = false)
    (r : Nat × Nat) (hr : varRange env (mkVar tr k name) = some r)
    (hmulti : NL ∈ slice source r)
    (hw : WellIndented (indentAt (source.take r.1)) (slice source r)) :
    templateFix source m env (pre ++ (List.replicate k 0x24 ++ name ++ post)) tr =
      shiftNL (indentAt (source.take m)) pre ++
      joinNL (firstLine (slice source r) ::
        (contLines (slice source r)).map
          (reindent (indentAt (source.take r.1)) (indentAt pre + indentAt (source.take m)))) ++
      shiftNL (indentAt (source.take m)) post := by
  obtain ⟨ht, hnl⟩ := text_as_lines (slice source r)
  have hls : contLines (slice source r) ≠ [] := by
    intro h0
    rw [h0] at ht
    have : NL ∉ slice source r := by
      rw [ht]; simpa [joinNL] using hnl (firstLine (slice source r)) (by simp)
    exact this hmulti
  simp only [← indentAt_spec] at hw ⊢
  rw [templateFix_one_var source m env tr pre k hk name post hpre hpost hne hall hrec hhead,
    maybeGetVar_multiline source env _ _ r hr _ _ ht hls hnl hw]
  simp only [Option.getD_some, shiftNL_append]
  have hnl' : ∀ l ∈ firstLine (slice source r) ::
      (contLines (slice source r)).map
        (reindent (getIndentAtOffset (source.take r.1)) (getIndentAtOffset pre)), NL ∉ l := by
    intro l hl
    simp only [List.mem_cons, List.mem_map] at hl
    rcases hl with rfl | ⟨l', hl', rfl⟩
    · exact hnl _ (by simp)
    · exact not_mem_reindent _ _ (hnl l' (by simp [hl']))
  rw [shiftNL_joinNL _ _ _ hnl', List.map_map]
  have hfun : ((fun x => List.replicate (getIndentAtOffset (source.take m)) SP ++ x) ∘
      reindent (getIndentAtOffset (source.take r.1)) (getIndentAtOffset pre)) =
      reindent (getIndentAtOffset (source.take r.1))
        (getIndentAtOffset pre + getIndentAtOffset (source.take m)) := by
    funext l
    simp only [Function.comp, replicate_append_reindent]
  rw [hfun]

/-- **Rewriting a node to itself is a no-op.** Template `$NAME` (also `$$NAME`, `$$$NAME`)
with `NAME` a variable name (not digit-first: `isRecognisedName [] name`) bound to the range of
the matched node itself: the replacement is exactly
the node's text — for every indentation of the match site, for single-line nodes
unconditionally, for multi-line nodes under `WellIndented` (the property's own restriction;
no condition on the first line since repair e39e245). -/
theorem rewrite_to_self_noop (source : Bytes) (env : TEnv) (k : Nat) (hk : 1 ≤ k ∧ k ≤ 3)
    (name : Bytes) (hne : name ≠ []) (hall : name.all isValidMetaVarByte = true)
    (hrec : isRecognisedName [] name = true)
    (r : Nat × Nat) (hr : varRange env (mkVar [] k name) = some r)
    (hw : WellIndented (indentAt (source.take r.1)) (slice source r)) :
    templateFix source r.1 env (List.replicate k 0x24 ++ name) [] = slice source r := by
  have hshape : List.replicate k (0x24 : UInt8) ++ name =
      [] ++ (List.replicate k 0x24 ++ name ++ []) := by simp
  have h0 : indentAt [] = 0 := by decide
  by_cases hmulti : NL ∈ slice source r
  · rw [hshape, capture_reindented source r.1 env [] [] k hk name [] (by simp) (by simp) hne hall
      hrec (by simp) r hr hmulti hw]
    obtain ⟨ht, hnl⟩ := text_as_lines (slice source r)
    simp only [shiftNL_nil, List.nil_append, List.append_nil, h0, Nat.zero_add]
    conv => rhs; rw [ht]
    congr 2
    rw [List.map_congr_left (g := id)]
    · simp
    · intro l hl; exact reindent_self _ _ (hw l hl)
  · rw [hshape, templateFix_one_var source r.1 env [] [] k hk name [] (by simp) (by simp) hne hall
      hrec (by simp)]
    have hcap : capturedText source env (mkVar [] k name) = some (slice source r) := by
      unfold mkVar at hr ⊢
      by_cases h3 : k = 3
      · simp only [h3, ↓reduceIte, varRange] at hr ⊢
        simp [capturedText, hr]
      · simp only [h3, ↓reduceIte, List.contains_nil, Bool.false_eq_true, varRange] at hr ⊢
        simp [capturedText, hr]
    rw [maybeGetVar_of_single_line source env _ _ (by
      intro b hb; rw [hcap] at hb; cases hb; exact hmulti), hcap]
    simp only [Option.getD_some, List.nil_append, List.append_nil]
    exact shiftNL_of_noNL _ _ hmulti

/-- the headline instance: template `$A`, `A` bound to the matched node `[s, e)` -/
theorem rewrite_to_self_noop_A (source : Bytes) (env : TEnv) (s e : Nat)
    (hA : lookupB [0x41] env.single = some (s, e))
    (hw : WellIndented (indentAt (source.take s)) (slice source (s, e))) :
    templateFix source s env [0x24, 0x41] [] = slice source (s, e) :=
  rewrite_to_self_noop source env 1 (by omega) [0x41] (by simp) (by decide) (by decide) (s, e)
    (by simpa [mkVar, varRange] using hA) hw

/-- non-vacuity: source `"  f(\n    a\n  )"`, the call (bytes 2..15) at indentation 2 satisfies
the hypothesis, and the replacement is the call's text -/
example :
    let source : Bytes :=
      [0x20, 0x20, 0x66, 0x28, 0x0A, 0x20, 0x20, 0x20, 0x20, 0x61, 0x0A, 0x20, 0x20, 0x29]
    let env : TEnv := { single := [([0x41], (2, 14))] }
    WellIndented (indentAt (source.take 2)) (slice source (2, 14)) ∧
    indentAt (source.take 2) = 2 ∧
    templateFix source 2 env [0x24, 0x41] [] = slice source (2, 14) := by
  decide

/-- non-vacuity of `capture_reindented`: template `"g(\n $A)"` (column 1), capture
`"{\n    a\n  }"` at source indentation 2, match site at indentation 0 -/
example :
    let source : Bytes :=
      [0x78, 0x0A, 0x20, 0x20, 0x7B, 0x0A, 0x20, 0x20, 0x20, 0x20, 0x61, 0x0A, 0x20, 0x20, 0x7D]
    let env : TEnv := { single := [([0x41], (4, 15))] }
    WellIndented (indentAt (source.take 4)) (slice source (4, 15)) ∧
    templateFix source 0 env [0x67, 0x28, 0x0A, 0x20, 0x24, 0x41, 0x29] [] =
      [0x67, 0x28, 0x0A, 0x20, 0x7B, 0x0A, 0x20, 0x20, 0x20, 0x61, 0x0A, 0x20, 0x7D, 0x29] := by
  decide

end AGV.C07
