/-
Project discovery and rule-file loading (slice "project": glue of C15 / C13 / C12).
Model: `Model/Project.lean`.  The specification side is written without the walk:
`At` (an entry sits at a relative path of a directory tree), `Listed` (what the documentation of
`ruleDirs` and of the `ignore` crate's standard filters say about the names on that path), prefixes of
the current directory, list permutations (`Shuf`: any re-ordering of the children of any directory).
-/
import AstGrepVerif.Model.Project

namespace AGV.Project

open AGV

variable {D U G : Type}

/-! ## 1. discovery: the nearest ancestor-or-self directory holding `sgconfig.yml` -/

theorem findUp_spec (root : Entry) (rev : List Name) (d : Path) :
    findUp root rev = some d ↔
      d <+: rev.reverse ∧ hasConfig root d = true ∧
        ∀ q, d <+: q → q <+: rev.reverse → hasConfig root q = true → q = d := by
  induction rev with
  | nil =>
    simp only [findUp, List.reverse_nil, List.prefix_nil]
    constructor
    · intro h
      split at h
      · cases h
        refine ⟨rfl, by assumption, ?_⟩
        intro q _ hq _
        exact hq
      · cases h
    · rintro ⟨rfl, hc, _⟩
      simp [hc]
  | cons x xs ih =>
    have hrev : (x :: xs).reverse = xs.reverse ++ [x] := by simp
    unfold findUp
    by_cases hc : hasConfig root (x :: xs).reverse = true
    · rw [if_pos hc]
      constructor
      · intro h
        cases h
        refine ⟨List.prefix_refl _, hc, ?_⟩
        intro q h1 h2 _
        exact (h1.eq_of_length_le h2.length_le).symm
      · rintro ⟨h1, _, h3⟩
        have := h3 _ h1 (List.prefix_refl _) hc
        rw [this]
    · rw [if_neg hc, ih]
      rw [hrev] at hc ⊢
      constructor
      · rintro ⟨h1, h2, h3⟩
        refine ⟨h1.trans (List.prefix_append _ _), h2, ?_⟩
        intro q hq1 hq2 hq3
        rcases List.prefix_concat_iff.mp hq2 with rfl | hq2
        · exact absurd hq3 hc
        · exact h3 q hq1 hq2 hq3
      · rintro ⟨h1, h2, h3⟩
        rcases List.prefix_concat_iff.mp h1 with rfl | h1
        · exact absurd h2 hc
        · exact ⟨h1, h2, fun q a b c => h3 q a (b.trans (List.prefix_append _ _)) c⟩

theorem findUp_none (root : Entry) (rev : List Name) :
    findUp root rev = none ↔ ∀ q, q <+: rev.reverse → hasConfig root q = false := by
  induction rev with
  | nil =>
    simp only [findUp, List.reverse_nil, List.prefix_nil]
    constructor
    · intro h q hq
      subst hq
      split at h
      · cases h
      · rename_i hn
        exact Bool.eq_false_iff.mpr hn
    · intro h
      simp [h [] rfl]
  | cons x xs ih =>
    have hrev : (x :: xs).reverse = xs.reverse ++ [x] := by simp
    unfold findUp
    by_cases hc : hasConfig root (x :: xs).reverse = true
    · rw [if_pos hc]
      constructor
      · intro h; cases h
      · intro h
        have := h _ (List.prefix_refl _)
        rw [hc] at this
        cases this
    · rw [if_neg hc, ih]
      rw [hrev] at hc ⊢
      constructor
      · intro h q hq
        rcases List.prefix_concat_iff.mp hq with rfl | hq
        · simpa using hc
        · exact h q hq
      · intro h q hq
        exact h q (hq.trans (List.prefix_append _ _))

/-- **discover_nearest.**  Without `--config` the project directory is `d` iff `d` is the current
    directory or one of its ancestors, holds an entry `sgconfig.yml`, and no directory between `d` and the
    current directory (inclusive) other than `d` holds one. -/
theorem discover_nearest (root : Entry) (cwd d : Path) :
    projectDirOf root cwd = some d ↔
      d <+: cwd ∧ hasConfig root d = true ∧
        ∀ q, d <+: q → q <+: cwd → hasConfig root q = true → q = d := by
  unfold projectDirOf
  rw [findUp_spec, List.reverse_reverse]

/-- no configuration is found iff neither the current directory nor an ancestor holds one -/
theorem discover_none (root : Entry) (cwd : Path) :
    projectDirOf root cwd = none ↔ ∀ q, q <+: cwd → hasConfig root q = false := by
  unfold projectDirOf
  rw [findUp_none, List.reverse_reverse]

/-- `--config FILE` overrides the search whatever the tree and the current directory hold -/
theorem config_flag_overrides (root : Entry) (cwd p : Path) :
    configPath root cwd (some p) = some p := rfl

/-- the configuration that is read: `--config FILE`, else `sgconfig.yml` of the nearest directory -/
theorem setup_project (P : Params D U G) (root : Entry) (cwd : Path) (flag : Option Path)
    (pr : Project) (h : setup P root cwd flag = .ok (some pr)) :
    ∃ cp bytes, root.lookup cp = some (.file bytes) ∧
      P.parseConfig bytes = some ⟨pr.ruleDirs, pr.utilDirs⟩ ∧ pr.dir = cp.dropLast ∧
      (match flag with
        | some p => cp = p
        | none => ∃ d, projectDirOf root cwd = some d ∧ cp = d ++ [configName] ∧ pr.dir = d) := by
  unfold setup at h
  split at h
  · cases h
  · rename_i cp hcp
    split at h
    · rename_i bytes hb
      split at h
      · cases h
      · split at h
        · cases h
        · rename_i c hc
          cases h
          refine ⟨cp, bytes, hb, ?_, rfl, ?_⟩
          · rw [hc]
          · cases flag with
            | some p => simpa [configPath] using hcp.symm
            | none =>
              simp only [configPath, Option.map_eq_some_iff] at hcp
              obtain ⟨d, hd, rfl⟩ := hcp
              exact ⟨d, hd, rfl, by simp⟩
    · cases h

/-- no `sgconfig.yml` up to the root and no `--config`: "no project", which is not an error yet -/
theorem setup_no_project (P : Params D U G) (root : Entry) (cwd : Path)
    (h : projectDirOf root cwd = none) : setup P root cwd none = .ok none := by
  simp [setup, configPath, h]

/-- a nearer `sgconfig.yml` that cannot be read (a directory of that name, not UTF-8) is an error:
    the search does not continue upwards -/
theorem setup_unreadable_shadows (P : Params D U G) (root : Entry) (cwd d : Path) (sub : Dir)
    (h : projectDirOf root cwd = some d) (hd : root.lookup (d ++ [configName]) = some (.dir sub)) :
    setup P root cwd none = .error .readConfiguration := by
  simp [setup, configPath, h, hd]

/-! ## 2. which files are rule files -/

/-- `e` sits at the non-empty relative path `rel` below the directory `d` -/
inductive At : Dir → List Name → Entry → Prop
  | here {n e rest} : At (.cons n e rest) [n] e
  | down {n d' rest rel e} : At d' rel e → At (.cons n (.dir d') rest) (n :: rel) e
  | skip {n x rest rel e} : At rest rel e → At (.cons n x rest) rel e

/-- the names on the way say "rule file": every directory below the root of the walk is neither
    excluded by an ignore file nor hidden; the file is not excluded and is called `*.yml` / `*.yaml` -/
def Listed (ign : Path → Bool) (pre : Path) : List Name → Prop
  | [] => False
  | [n] => ign (pre ++ [n]) = false ∧ isRuleName n = true
  | n :: m :: rel => ign (pre ++ [n]) = false ∧ hidden n = false ∧ Listed ign (pre ++ [n]) (m :: rel)

theorem walkDir_sound (ign : Path → Bool) : ∀ (d : Dir) (pre p : Path) (c : Bytes),
    (p, c) ∈ walkDir ign pre d →
      ∃ rel, p = pre ++ rel ∧ At d rel (.file c) ∧ Listed ign pre rel
  | .nil, pre, p, c, h => by simp [walkDir] at h
  | .cons n (.file c') rest, pre, p, c, h => by
    simp only [walkDir, walkEntry, List.mem_append] at h
    rcases h with h | h
    · split at h
      · simp at h
      · rename_i hcond
        simp only [List.mem_singleton, Prod.mk.injEq] at h
        obtain ⟨rfl, rfl⟩ := h
        refine ⟨[n], rfl, At.here, ?_⟩
        simp only [Bool.or_eq_true, Bool.not_eq_true', not_or, Bool.not_eq_true, Bool.not_eq_false] at hcond
        exact ⟨hcond.1, hcond.2⟩
    · obtain ⟨rel, e, a, l⟩ := walkDir_sound ign rest pre p c h
      exact ⟨rel, e, At.skip a, l⟩
  | .cons n (.dir d') rest, pre, p, c, h => by
    simp only [walkDir, walkEntry, List.mem_append] at h
    rcases h with h | h
    · split at h
      · simp at h
      · rename_i hcond
        simp only [Bool.or_eq_true, not_or, Bool.not_eq_true] at hcond
        obtain ⟨rel, e, a, l⟩ := walkDir_sound ign d' (pre ++ [n]) p c h
        refine ⟨n :: rel, by simp [e], At.down a, ?_⟩
        cases rel with
        | nil => exact absurd l (by simp [Listed])
        | cons m rel => exact ⟨hcond.1, hcond.2, l⟩
    · obtain ⟨rel, e, a, l⟩ := walkDir_sound ign rest pre p c h
      exact ⟨rel, e, At.skip a, l⟩

theorem At_ne_nil {d : Dir} {rel : List Name} {e : Entry} (h : At d rel e) : rel ≠ [] := by
  induction h with
  | here => simp
  | down _ _ => simp
  | skip _ ih => exact ih

theorem walkDir_complete (ign : Path → Bool) {d : Dir} {rel : List Name} {c : Bytes}
    (h : At d rel (.file c)) : ∀ pre, Listed ign pre rel → (pre ++ rel, c) ∈ walkDir ign pre d := by
  generalize he : Entry.file c = e at h
  induction h with
  | here =>
    intro pre hl
    subst he
    simp only [Listed] at hl
    simp [walkDir, walkEntry, hl.1, hl.2]
  | @down n d' rest rel e a ih =>
    intro pre hl
    cases rel with
    | nil => exact absurd rfl (At_ne_nil a)
    | cons m rel =>
      simp only [Listed] at hl
      have := ih he (pre ++ [n]) hl.2.2
      simp only [walkDir, walkEntry, List.mem_append]
      left
      simp only [hl.1, hl.2.1, Bool.or_self, Bool.false_eq_true, ↓reduceIte]
      simpa using this
  | skip _ ih =>
    intro pre hl
    simp only [walkDir, List.mem_append]
    right
    exact ih he pre hl

/-- the walk below a directory yields exactly the listed files -/
theorem walkDir_mem (ign : Path → Bool) (d : Dir) (pre p : Path) (c : Bytes) :
    (p, c) ∈ walkDir ign pre d ↔
      ∃ rel, p = pre ++ rel ∧ At d rel (.file c) ∧ Listed ign pre rel :=
  ⟨walkDir_sound ign d pre p c, fun ⟨_, e, a, l⟩ => e ▸ walkDir_complete ign a pre l⟩

/-- the files of one `ruleDirs` / `utilDirs` entry `base`: the entry itself when it names a file
    (whatever its name), else the listed files below it -/
def RuleFileOf (ign : Path → Bool) (root : Entry) (base p : Path) (c : Bytes) : Prop :=
  (root.lookup base = some (.file c) ∧ p = base) ∨
  (∃ d rel, root.lookup base = some (.dir d) ∧ p = base ++ rel ∧ At d rel (.file c) ∧ Listed ign base rel)

theorem walkRoot_mem (ign : Path → Bool) (root : Entry) (base : Path) (fs : List (Path × Bytes))
    (h : walkRoot ign base (root.lookup base) = .ok fs) (p : Path) (c : Bytes) :
    (p, c) ∈ fs ↔ RuleFileOf ign root base p c := by
  unfold RuleFileOf
  cases hl : root.lookup base with
  | none => rw [hl] at h; cases h
  | some e =>
    rw [hl] at h
    cases e with
    | file c' =>
      cases h
      simp only [List.mem_singleton, Prod.mk.injEq, Option.some.injEq, Entry.file.injEq, reduceCtorEq,
        false_and, exists_false, or_false]
      constructor
      · rintro ⟨rfl, rfl⟩; exact ⟨rfl, rfl⟩
      · rintro ⟨rfl, rfl⟩; exact ⟨rfl, rfl⟩
    | dir d =>
      cases h
      rw [walkDir_mem]
      simp only [Option.some.injEq, reduceCtorEq, false_and, false_or, Entry.dir.injEq]
      constructor
      · rintro ⟨rel, e, a, l⟩; exact ⟨d, rel, rfl, e, a, l⟩
      · rintro ⟨d', rel, rfl, e, a, l⟩; exact ⟨rel, e, a, l⟩

/-! ## 3. loading the files of a walk -/

/-- the documents of a file (`[]` when it does not parse) -/
def docsOf (P : Params D U G) (g : G) (f : Path × Bytes) : List D := (P.parseRules g f.2).getD []

/-- the file can be read and parsed -/
def fileOk (P : Params D U G) (g : G) (f : Path × Bytes) : Bool :=
  P.readable f.2 && (P.parseRules g f.2).isSome

theorem loadList_ok_iff (P : Params D U G) (g : G) (fs : List (Path × Bytes)) (ds : List D) :
    loadList P g fs = .ok ds ↔
      (∀ f ∈ fs, fileOk P g f = true) ∧ ds = fs.flatMap (docsOf P g) := by
  induction fs generalizing ds with
  | nil =>
    simp only [loadList, List.not_mem_nil, false_imp_iff, implies_true, List.flatMap_nil, true_and,
      Except.ok.injEq]
    exact eq_comm
  | cons f fs ih =>
    simp only [loadList, readRuleFile, List.mem_cons, forall_eq_or_imp, List.flatMap_cons, fileOk, docsOf]
    cases hr : P.readable f.2 with
    | false => simp
    | true =>
      cases hp : P.parseRules g f.2 with
      | none => simp
      | some d0 =>
        simp only [Bool.not_true, Bool.false_eq_true, ↓reduceIte, Bool.true_and, Option.isSome_some,
          Option.getD_some, true_and]
        cases hrest : loadList P g fs with
        | error e =>
          simp only [reduceCtorEq, false_iff, not_and]
          intro hall heq
          have := (ih (fs.flatMap (docsOf P g))).mpr ⟨hall, rfl⟩
          rw [hrest] at this
          cases this
        | ok rest =>
          have := (ih rest).mp hrest
          simp only [Except.ok.injEq]
          constructor
          · rintro rfl
            exact ⟨this.1, by rw [this.2]⟩
          · rintro ⟨_, rfl⟩
            rw [this.2]

/-- a failed load names a file of the walk that cannot be read (`ReadRule`, status 5) or parsed
    (`ParseRule`, status 8) -/
theorem loadList_error (P : Params D U G) (g : G) (fs : List (Path × Bytes)) (e : Err)
    (h : loadList P g fs = .error e) :
    ∃ f ∈ fs, fileOk P g f = false ∧ (e = .readRule f.1 ∨ e = .parseRule f.1) := by
  induction fs with
  | nil => simp [loadList] at h
  | cons f fs ih =>
    simp only [loadList, readRuleFile] at h
    cases hr : P.readable f.2 with
    | false =>
      simp only [hr, Bool.not_false, ↓reduceIte, Except.error.injEq] at h
      exact ⟨f, List.mem_cons_self, by simp [fileOk, hr], Or.inl h.symm⟩
    | true =>
      cases hp : P.parseRules g f.2 with
      | none =>
        simp only [hr, hp, Bool.not_true, Bool.false_eq_true, ↓reduceIte, Except.error.injEq] at h
        exact ⟨f, List.mem_cons_self, by simp [fileOk, hp], Or.inr h.symm⟩
      | some d0 =>
        simp only [hr, hp, Bool.not_true, Bool.false_eq_true, ↓reduceIte] at h
        cases hrest : loadList P g fs with
        | error e' =>
          rw [hrest] at h
          cases h
          obtain ⟨f', hm, hk⟩ := ih hrest
          exact ⟨f', List.mem_cons_of_mem _ hm, hk⟩
        | ok rest => rw [hrest] at h; cases h

/-- **rules_exact** (one `ruleDirs` entry).  When the load succeeds, a document is loaded iff it is a
    document of the entry itself (when it names a file) or of a listed file below it: recursively, hidden
    and ignored directories pruned, names `*.yml` / `*.yaml` (hidden files included).  Nothing else is
    loaded, and no document is dropped (`loadList_ok_iff`: the result IS the concatenation). -/
theorem rules_exact (P : Params D U G) (g : G) (root : Entry) (base : Path)
    (fs : List (Path × Bytes)) (ds : List D)
    (hw : walkRoot P.ign base (root.lookup base) = .ok fs) (hl : loadList P g fs = .ok ds) (x : D) :
    x ∈ ds ↔ ∃ p c docs, RuleFileOf P.ign root base p c ∧ P.parseRules g c = some docs ∧ x ∈ docs := by
  obtain ⟨hall, rfl⟩ := (loadList_ok_iff P g fs ds).mp hl
  simp only [List.mem_flatMap, docsOf]
  constructor
  · rintro ⟨⟨p, c⟩, hm, hx⟩
    have hk := hall _ hm
    simp only [fileOk, Bool.and_eq_true, Option.isSome_iff_exists] at hk
    obtain ⟨docs, hd⟩ := hk.2
    rw [hd] at hx
    exact ⟨p, c, docs, (walkRoot_mem P.ign root base fs hw p c).mp hm, hd, hx⟩
  · rintro ⟨p, c, docs, hr, hd, hx⟩
    refine ⟨(p, c), (walkRoot_mem P.ign root base fs hw p c).mpr hr, ?_⟩
    simp [hd, hx]

/-- one step of the outer loop of `read_directory_yaml` -/
theorem readDirs_cons (P : Params D U G) (root : Entry) (dir : Path) (g : G) (rd : Path)
    (rds : List Path) (ds : List D) :
    readDirs P root dir g (rd :: rds) = .ok ds ↔
      ∃ fs part rest, walkRoot P.ign (dir ++ rd) (root.lookup (dir ++ rd)) = .ok fs ∧
        loadList P g fs = .ok part ∧ readDirs P root dir g rds = .ok rest ∧ ds = part ++ rest := by
  cases hw : walkRoot P.ign (dir ++ rd) (root.lookup (dir ++ rd)) with
  | error e => simp [readDirs, hw]
  | ok fs =>
    cases hl : loadList P g fs with
    | error e => simp [readDirs, hw, hl]
    | ok part =>
      cases hr : readDirs P root dir g rds with
      | error e => simp [readDirs, hw, hl, hr]
      | ok rest =>
        simp only [readDirs, hw, hl, hr, Except.ok.injEq, exists_and_left, exists_eq_left']
        exact eq_comm

/-- **rules_exact** (all of `ruleDirs`).  A document is loaded iff it is a document of a rule file of
    one of the `ruleDirs` entries; the result is the concatenation in `ruleDirs` order
    (`readDirs_cons`). -/
theorem rules_exact_dirs (P : Params D U G) (root : Entry) (dir : Path) (g : G) (rds : List Path)
    (ds : List D) (h : readDirs P root dir g rds = .ok ds) (x : D) :
    x ∈ ds ↔ ∃ rd ∈ rds, ∃ p c docs,
      RuleFileOf P.ign root (dir ++ rd) p c ∧ P.parseRules g c = some docs ∧ x ∈ docs := by
  induction rds generalizing ds with
  | nil =>
    simp only [readDirs, Except.ok.injEq] at h
    subst h
    simp
  | cons rd rds ih =>
    obtain ⟨fs, part, rest, hw, hl, hr, rfl⟩ := (readDirs_cons P root dir g rd rds ds).mp h
    simp only [List.mem_append, List.mem_cons, exists_eq_or_imp]
    rw [rules_exact P g root (dir ++ rd) fs part hw hl x, ih rest hr]

/-! ## 4. readdir order (C13) -/

/-- re-ordering the children of any directory of a tree, at any depth, any number of times -/
inductive Shuf : Dir → Dir → Prop
  | refl (d) : Shuf d d
  | swap (n e m f r) : Shuf (.cons n e (.cons m f r)) (.cons m f (.cons n e r))
  | inside {n a a' r} : Shuf a a' → Shuf (.cons n (.dir a) r) (.cons n (.dir a') r)
  | tail {n e r r'} : Shuf r r' → Shuf (.cons n e r) (.cons n e r')
  | trans {a b c} : Shuf a b → Shuf b c → Shuf a c

/-- every permutation of the children of a directory is a `Shuf` -/
theorem shuf_of_perm {l l' : List (Name × Entry)} (h : l.Perm l') :
    Shuf (Dir.ofList l) (Dir.ofList l') := by
  induction h with
  | nil => exact Shuf.refl _
  | cons x _ ih => exact Shuf.tail ih
  | swap x y l => exact Shuf.swap _ _ _ _ _
  | trans _ _ ih1 ih2 => exact Shuf.trans ih1 ih2

/-- the walk yields the same files, each as often, in whatever order the directories are read -/
theorem walk_perm (ign : Path → Bool) {d d' : Dir} (h : Shuf d d') :
    ∀ pre, (walkDir ign pre d).Perm (walkDir ign pre d') := by
  induction h with
  | refl d => intro pre; exact List.Perm.refl _
  | swap n e m f r =>
    intro pre
    simp only [walkDir, ← List.append_assoc]
    exact List.Perm.append_right _ List.perm_append_comm
  | @inside n a a' r _ ih =>
    intro pre
    simp only [walkDir, walkEntry]
    by_cases hc : (ign (pre ++ [n]) || hidden n) = true
    · simp [hc]
    · simp only [hc, Bool.false_eq_true, ↓reduceIte]
      exact List.Perm.append_right _ (ih _)
  | tail _ ih =>
    intro pre
    simp only [walkDir]
    exact List.Perm.append_left _ (ih pre)
  | trans _ _ ih1 ih2 => intro pre; exact (ih1 pre).trans (ih2 pre)

theorem loadList_perm (P : Params D U G) (g : G) {fs fs' : List (Path × Bytes)} (h : fs.Perm fs')
    {ds : List D} (hok : loadList P g fs = .ok ds) :
    ∃ ds', loadList P g fs' = .ok ds' ∧ ds.Perm ds' := by
  obtain ⟨hall, rfl⟩ := (loadList_ok_iff P g fs ds).mp hok
  refine ⟨fs'.flatMap (docsOf P g), ?_, List.Perm.flatMap_right _ h⟩
  exact (loadList_ok_iff P g fs' _).mpr ⟨fun f hf => hall f (h.mem_iff.mpr hf), rfl⟩

/-- **order_irrelevant** (C13, rule files).  Re-ordering directory entries anywhere below a rule
    directory does not change WHETHER the load succeeds, and when it does the loaded documents are a
    permutation: the same set, every document as often, hence the same answer to every id-keyed
    look-up (`order_irrelevant_lookup`). -/
theorem order_irrelevant (P : Params D U G) (g : G) (pre : Path) {d d' : Dir} (h : Shuf d d')
    {ds : List D} (hok : loadList P g (walkDir P.ign pre d) = .ok ds) :
    ∃ ds', loadList P g (walkDir P.ign pre d') = .ok ds' ∧ ds.Perm ds' :=
  loadList_perm P g (walk_perm P.ign h pre) hok

theorem order_irrelevant_lookup (P : Params D U G) (g : G) (pre : Path) {d d' : Dir} (h : Shuf d d')
    {ds ds' : List D} (hok : loadList P g (walkDir P.ign pre d) = .ok ds)
    (hok' : loadList P g (walkDir P.ign pre d') = .ok ds') (q : D → Bool) :
    (∀ x, x ∈ ds ↔ x ∈ ds') ∧ (ds.filter q).Perm (ds'.filter q) ∧ ds.length = ds'.length := by
  obtain ⟨ds'', h1, h2⟩ := order_irrelevant P g pre h hok
  rw [hok'] at h1
  cases h1
  exact ⟨fun x => h2.mem_iff, h2.filter q, h2.length_eq⟩

/-- success of the load does not depend on the order either -/
theorem order_irrelevant_failure (P : Params D U G) (g : G) (pre : Path) {d d' : Dir} (h : Shuf d d')
    {e : Err} (herr : loadList P g (walkDir P.ign pre d) = .error e) :
    ∃ e', loadList P g (walkDir P.ign pre d') = .error e' := by
  cases h' : loadList P g (walkDir P.ign pre d') with
  | error e' => exact ⟨e', rfl⟩
  | ok ds' =>
    have hsym : Shuf d' d := by
      clear herr h'
      induction h with
      | refl d => exact Shuf.refl _
      | swap n e m f r => exact Shuf.swap _ _ _ _ _
      | inside _ ih => exact Shuf.inside ih
      | tail _ ih => exact Shuf.tail ih
      | trans _ _ ih1 ih2 => exact Shuf.trans ih2 ih1
    obtain ⟨ds, h1, _⟩ := order_irrelevant P g pre hsym h'
    rw [herr] at h1
    cases h1

/-! ### what DOES depend on the order -/

/-- parameters for the concrete witnesses: `[255]` is not UTF-8, `[33]` does not parse, any other text
    is one document per byte (the byte is the document; its id is `[byte]`); a utility file `[k, v]`
    declares the id `[k]` with body `v`; registration always succeeds and returns the map -/
def demo : Params UInt8 UInt8 (List (Name × UInt8)) where
  readable := fun b => b != [255]
  parseConfig := fun _ => some ⟨[[[114]]], some [[[117]]]⟩
  parseRules := fun _ b => if b = [33] then none else some b
  parseUtil := fun b => match b with | [k, v] => some ([k], v) | _ => none
  register := fun m => some m
  emptyGlobals := []
  ign := fun _ => false

def demoId (d : UInt8) : Name := [d]

/-- names `a.yml`, `b.yml` -/
def aYml : Name := [97, 46, 121, 109, 108]
def bYml : Name := [98, 46, 121, 109, 108]

def errOf {α} : Except Err α → Option Err
  | .error e => some e
  | .ok _ => none

def okOf {α} : Except Err α → Option α
  | .error _ => none
  | .ok a => some a

/-- **order_irrelevant, error side: counter-example.**  With two broken files in one rule directory
    (one not UTF-8, one not a rule) the error that is reported, its path and even the exit status (5
    vs 8) depend on which of the two the directory lists first. -/
theorem error_order_dependent_counterexample :
    let d1 := Dir.cons aYml (.file [255]) (.cons bYml (.file [33]) .nil)
    let d2 := Dir.cons bYml (.file [33]) (.cons aYml (.file [255]) .nil)
    Shuf d1 d2 ∧
    errOf (loadList demo [] (walkDir demo.ign [] d1)) = some (.readRule [aYml]) ∧
    errOf (loadList demo [] (walkDir demo.ign [] d2)) = some (.parseRule [bYml]) ∧
    (Err.readRule [aYml]).exitCode = 5 ∧ (Err.parseRule [bYml]).exitCode = 8 :=
  ⟨Shuf.swap _ _ _ _ _, by decide, by decide, rfl, rfl⟩

/-- `into_map` keeps, for every id, the document inserted LAST -/
def lastVal {β} (k : Name) : List (Name × β) → Option β
  | [] => none
  | u :: us => (lastVal k us).or (if u.1 = k then some u.2 else none)

theorem alookup_ainsert {β} (k k' : Name) (v : β) (m : List (Name × β)) :
    alookup k (ainsert k' v m) = if k' = k then some v else alookup k m := by
  induction m with
  | nil => simp [ainsert, alookup]
  | cons x m ih =>
    obtain ⟨k0, v0⟩ := x
    simp only [ainsert]
    by_cases h0 : k0 = k'
    · subst h0
      by_cases h1 : k0 = k <;> simp [alookup, h1]
    · simp only [h0, ↓reduceIte, alookup, ih]
      by_cases h1 : k0 = k
      · subst h1; simp [Ne.symm h0]
      · simp [h1]

theorem alookup_foldl_ainsert {β} (k : Name) (us : List (Name × β)) (m : List (Name × β)) :
    alookup k (us.foldl (fun m u => ainsert u.1 u.2 m) m) = (lastVal k us).or (alookup k m) := by
  induction us generalizing m with
  | nil => simp [lastVal]
  | cons u us ih =>
    simp only [List.foldl_cons, ih, lastVal, alookup_ainsert]
    cases lastVal k us <;> by_cases h : u.1 = k <;> simp [h]

/-- **duplicate global utility ids: the last file in walk order wins** (no error, no warning) -/
theorem duplicate_util_last_wins {β} (k : Name) (us : List (Name × β)) :
    alookup k (intoMap us) = lastVal k us := by
  unfold intoMap
  rw [alookup_foldl_ainsert]
  simp [alookup]

/-- **order_irrelevant, global utilities: counter-example.**  Two files of a `utilDirs` directory
    declaring the same id: the utility that every rule of the project sees is the one of the file the
    directory lists last. -/
theorem util_order_dependent_counterexample :
    let d1 := Dir.cons aYml (.file [117, 1]) (.cons bYml (.file [117, 2]) .nil)
    let d2 := Dir.cons bYml (.file [117, 2]) (.cons aYml (.file [117, 1]) .nil)
    let pr : Project := ⟨[], [], some [[[117]]]⟩
    Shuf d1 d2 ∧
    (okOf (findUtilRules demo (.dir (.cons [117] (.dir d1) .nil)) pr)).map (alookup [117]) = some (some 2) ∧
    (okOf (findUtilRules demo (.dir (.cons [117] (.dir d2) .nil)) pr)).map (alookup [117]) = some (some 1) :=
  ⟨Shuf.swap _ _ _ _ _, by decide, by decide⟩

theorem lastVal_some_mem {β} (k : Name) (us : List (Name × β)) (v : β) (h : lastVal k us = some v) :
    (k, v) ∈ us := by
  induction us with
  | nil => simp [lastVal] at h
  | cons u us ih =>
    obtain ⟨k0, v0⟩ := u
    simp only [lastVal] at h
    cases hl : lastVal k us with
    | some w =>
      rw [hl] at h
      simp only [Option.some_or, Option.some.injEq] at h
      subst h
      exact List.mem_cons_of_mem _ (ih hl)
    | none =>
      rw [hl] at h
      by_cases hk : k0 = k
      · simp only [hk, ↓reduceIte, Option.none_or, Option.some.injEq] at h
        subst hk; subst h
        exact List.mem_cons_self
      · simp [hk] at h

theorem lastVal_of_nodup {β} (k : Name) (us : List (Name × β)) (h : (us.map (·.1)).Nodup) (v : β) :
    lastVal k us = some v ↔ (k, v) ∈ us := by
  refine ⟨lastVal_some_mem k us v, ?_⟩
  induction us with
  | nil => simp
  | cons u us ih =>
    obtain ⟨k0, v0⟩ := u
    simp only [List.map_cons, List.nodup_cons, List.mem_map, not_exists, not_and] at h
    intro hm
    simp only [lastVal]
    rcases List.mem_cons.mp hm with heq | hm
    · cases heq
      cases hl : lastVal k us with
      | some w => exact absurd rfl (h.1 _ (lastVal_some_mem k us w hl))
      | none => simp
    · rw [ih h.2 hm]
      simp

/-- **order_irrelevant, global utilities (partial).**  When no two utility files declare the same id,
    the map handed to `parse_global_utils` answers every id look-up the same way in every order. -/
theorem util_order_irrelevant_partial {β} (us us' : List (Name × β)) (hp : us.Perm us')
    (hn : (us.map (·.1)).Nodup) (k : Name) :
    alookup k (intoMap us) = alookup k (intoMap us') := by
  rw [duplicate_util_last_wins, duplicate_util_last_wins]
  have hn' : (us'.map (·.1)).Nodup := (hp.map _).nodup_iff.mp hn
  apply Option.ext
  intro v
  rw [lastVal_of_nodup k us hn, lastVal_of_nodup k us' hn']
  exact hp.mem_iff

/-! ## 5. duplicate rule ids -/

/-- **duplicate_ids.**  Nothing looks at ids while rule files are collected: every document of every
    walked file is kept, so two documents with one id (in one file, in two files, or one file reached
    through two `ruleDirs` entries) are both loaded — no error, no winner.  (`RuleCollection` does not
    look at ids either; both rules run and both report.) -/
theorem duplicate_ids_all_kept (P : Params D U G) (g : G) (fs : List (Path × Bytes)) (ds : List D)
    (h : loadList P g fs = .ok ds) (idOf : D → Name) (i : Name) :
    (ds.filter (fun d => idOf d = i)).length =
      (fs.map (fun f => ((docsOf P g f).filter (fun d => idOf d = i)).length)).sum := by
  obtain ⟨_, rfl⟩ := (loadList_ok_iff P g fs ds).mp h
  clear h
  rename_i hall
  clear hall
  induction fs with
  | nil => rfl
  | cons f fs ih => simp [List.flatMap_cons, List.filter_append, ih]

/-- **rules_exact, "none twice": counter-example.**  A file reached through two `ruleDirs` entries
    (`ruleDirs: [r, r/a.yml]`, or a directory and one of its sub-directories) is loaded once per
    entry: its rules run twice and report twice. -/
theorem loaded_twice_counterexample :
    let tree := Entry.dir (.cons [114] (.dir (.cons aYml (.file [7]) .nil)) .nil)
    okOf (readDirs demo tree [] [] [[[114]], [[114], aYml]]) = some [7, 7] := by decide

/-! ## 6. which source of rules a scan uses -/

/-- `--rule` excludes `--inline-rules` and `--filter` (clap, exit status 2) -/
theorem rule_conflicts (P : Params D U G) (idOf : D → Name) (root : Entry) (cwd : Path) (fl : Flags)
    (proj : Option Project) (hs : setup P root cwd fl.config = .ok proj)
    (hr : fl.rule.isSome = true) (hc : fl.inline.isSome = true ∨ fl.filter.isSome = true) :
    scanRules P idOf root cwd fl = .error .argConflict := by
  unfold scanRules
  rw [hs]
  rcases hc with hc | hc <;> simp [hr, hc]

/-- `--rule FILE`: the documents of that file, parsed WITHOUT the project's global utilities; the
    project's rule directories are not read (so their errors cannot occur) and no project is needed -/
theorem rule_source (P : Params D U G) (idOf : D → Name) (root : Entry) (cwd : Path) (fl : Flags)
    (proj : Option Project) (hs : setup P root cwd fl.config = .ok proj) (p : Path) (c : Bytes)
    (hr : fl.rule = some p) (hi : fl.inline = none) (hf : fl.filter = none)
    (hl : root.lookup p = some (.file c)) (hu : P.readable c = true) :
    scanRules P idOf root cwd fl =
      match P.parseRules P.emptyGlobals c with
      | some ds => .ok ⟨ds, false⟩
      | none => .error (.parseRule p) := by
  unfold scanRules
  rw [hs]
  simp only [hr, hi, hf, Option.isSome_some, Option.isSome_none, Bool.or_self, Bool.and_false,
    Bool.false_eq_true, ↓reduceIte, hl, readRuleFile, hu, Bool.not_true]
  cases P.parseRules P.emptyGlobals c <;> rfl

/-- `--inline-rules TEXT`: the documents of the text, again without project and global utilities -/
theorem inline_source (P : Params D U G) (idOf : D → Name) (root : Entry) (cwd : Path) (fl : Flags)
    (proj : Option Project) (hs : setup P root cwd fl.config = .ok proj) (t : Bytes)
    (hr : fl.rule = none) (hi : fl.inline = some t) :
    scanRules P idOf root cwd fl =
      match P.parseRules P.emptyGlobals t with
      | some ds => .ok ⟨ds, false⟩
      | none => .error (.parseRule inlinePath) := by
  unfold scanRules
  rw [hs]
  simp only [hr, hi, Option.isSome_none, Bool.false_and, Bool.false_eq_true, ↓reduceIte]
  cases P.parseRules P.emptyGlobals t <;> rfl

/-- neither: the project is required; without one the scan stops with "no project" (status 2) -/
theorem no_project_error (P : Params D U G) (idOf : D → Name) (root : Entry) (cwd : Path) (fl : Flags)
    (hs : setup P root cwd fl.config = .ok none) (hr : fl.rule = none) (hi : fl.inline = none) :
    scanRules P idOf root cwd fl = .error .projectNotExist ∧ Err.projectNotExist.exitCode = 2 := by
  unfold scanRules
  rw [hs]
  simp [hr, hi, Err.exitCode]

/-- **source_selection / `--filter`** (project rules).  The scan uses exactly the project documents
    whose id the regex matches, in load order, each as often as it was loaded; when it matches none the
    scan fails with "rule not found" (status 2). -/
theorem filter_exact (P : Params D U G) (idOf : D → Name) (root : Entry) (cwd : Path) (fl : Flags)
    (pr : Project) (hs : setup P root cwd fl.config = .ok (some pr))
    (hr : fl.rule = none) (hi : fl.inline = none) (f : Name → Bool) (hf : fl.filter = some f)
    (all : List D) (hall : projectDocs P root pr = .ok all) :
    scanRules P idOf root cwd fl =
      if (all.filter (fun d => f (idOf d))).isEmpty then .error .ruleNotFound
      else .ok ⟨all.filter (fun d => f (idOf d)), true⟩ := by
  unfold scanRules
  rw [hs]
  simp only [hr, hi, hf, Option.isSome_none, Bool.false_and, Bool.false_eq_true, ↓reduceIte, findRules,
    hall, applyFilter]
  by_cases hE : (all.filter (fun d => f (idOf d))).isEmpty = true <;> simp [hE]

theorem no_filter_all (P : Params D U G) (idOf : D → Name) (root : Entry) (cwd : Path) (fl : Flags)
    (pr : Project) (hs : setup P root cwd fl.config = .ok (some pr))
    (hr : fl.rule = none) (hi : fl.inline = none) (hf : fl.filter = none)
    (all : List D) (hall : projectDocs P root pr = .ok all) :
    scanRules P idOf root cwd fl = .ok ⟨all, true⟩ := by
  unfold scanRules
  rw [hs]
  simp [hr, hi, hf, findRules, hall, applyFilter]

/-- **source_selection: counter-example.**  `--inline-rules` together with `--filter` is accepted,
    and the filter is ignored (as are the severity flags: `overwritten = false`): the text `[1, 2]`
    with a filter that only matches id `[2]` runs both rules. -/
theorem inline_ignores_filter_counterexample :
    let fl : Flags := { inline := some [1, 2], filter := some (fun i => i == [2]) }
    (okOf (scanRules demo demoId (.dir .nil) [] fl)).map (fun l => (l.docs, l.overwritten))
      = some ([1, 2], false) := by decide

/-! ## non-vacuity -/

/-- the tree `/sgconfig.yml  /p/sgconfig.yml  /p/q/  /r/{a.yml=[1,2], .h/b.yml, .c.yml=[3], d.txt, s/e.yaml=[4]}  /u/` -/
def demoTree : Entry :=
  .dir (.cons configName (.file [0])
    (.cons [112] (.dir (.cons configName (.file [0]) (.cons [113] (.dir .nil) .nil)))
    (.cons [114] (.dir
        (.cons aYml (.file [1, 2])
        (.cons [46, 104] (.dir (.cons bYml (.file [9]) .nil))
        (.cons [46, 99, 46, 121, 109, 108] (.file [3])
        (.cons [100, 46, 116, 120, 116] (.file [8])
        (.cons [115] (.dir (.cons [101, 46, 121, 97, 109, 108] (.file [4]) .nil)) .nil))))))
    (.cons [117] (.dir .nil) .nil))))

example : projectDirOf demoTree [[112], [113]] = some [[112]] := by decide
example : projectDirOf demoTree [[114], [115]] = some [] := by decide
example : projectDirOf (.dir .nil) [[114]] = none := by decide
example : (okOf (setup demo demoTree [[112], [113]] none)).map (·.map (·.dir)) = some (some [[112]]) := by decide
example : (okOf (setup demo demoTree [[112], [113]] (some [configName]))).map (·.map (·.dir)) = some (some []) := by decide
/-- hidden file loaded, hidden directory and `.txt` not, nested `.yaml` loaded, multi-document file in order -/
example : (okOf (scanRules demo demoId demoTree [[114]] {})).map (·.docs) = some [1, 2, 3, 4] := by decide
example : (okOf (scanRules demo demoId demoTree [[114]] { filter := some (fun i => i == [3]) })).map (·.docs) = some [3] := by decide
example : errOf (scanRules demo demoId demoTree [[114]] { filter := some (fun _ => false) }) = some .ruleNotFound := by decide
example : (okOf (scanRules demo demoId demoTree [] { rule := some [[114], [100, 46, 116, 120, 116]] })).map (·.docs) = some [8] := by decide
example : errOf (scanRules demo demoId (.dir .nil) [] {}) = some .projectNotExist := by decide
example : At (.cons [114] (.dir (.cons aYml (.file [1]) .nil)) .nil) [[114], aYml] (.file [1]) := At.down At.here
example : Listed (fun _ => false) [] [[114], aYml] := ⟨rfl, by decide, rfl, by decide⟩

/-! ## 7. "none twice": one walk yields no path twice; non-overlapping `ruleDirs` load every file once -/

mutual
/-- the child names are pairwise distinct inside every directory of the tree (as in a real file
    system); decidable: a `Bool` -/
def Dir.uniqueNames : Dir → Bool
  | .nil => true
  | .cons n e rest => (rest.get n).isNone && e.uniqueNames && rest.uniqueNames
def Entry.uniqueNames : Entry → Bool
  | .file _ => true
  | .dir d => d.uniqueNames
end

/-- `UniqueNames root`: no directory of the tree lists a name twice -/
abbrev UniqueNames (root : Entry) : Prop := root.uniqueNames = true

theorem Dir.get_uniqueNames : ∀ (d : Dir) (n : Name) (e : Entry),
    d.uniqueNames = true → d.get n = some e → e.uniqueNames = true
  | .nil, n, e, _, h => by simp [Dir.get] at h
  | .cons m x rest, n, e, hu, h => by
    simp only [Dir.uniqueNames, Bool.and_eq_true] at hu
    simp only [Dir.get] at h
    split at h
    · cases h; exact hu.1.2
    · exact Dir.get_uniqueNames rest n e hu.2 h

theorem lookup_uniqueNames (p : Path) : ∀ (e e' : Entry),
    e.uniqueNames = true → e.lookup p = some e' → e'.uniqueNames = true := by
  induction p with
  | nil => intro e e' hu h; simp only [Entry.lookup, Option.some.injEq] at h; exact h ▸ hu
  | cons n rest ih =>
    intro e e' hu h
    cases e with
    | file c => simp [Entry.lookup] at h
    | dir d =>
      simp only [Entry.lookup] at h
      split at h
      · rename_i x hx
        exact ih x e' (Dir.get_uniqueNames d n x (by simpa [Entry.uniqueNames] using hu) hx) h
      · cases h

/-- the first component of a relative path below `d` is a child of `d` -/
theorem At_head {d : Dir} {rel : List Name} {e : Entry} (h : At d rel e) :
    ∃ m rel', rel = m :: rel' ∧ (d.get m).isSome = true := by
  induction h with
  | @here n e rest => exact ⟨n, [], rfl, by simp [Dir.get]⟩
  | @down n d' rest rel e _ _ => exact ⟨n, rel, rfl, by simp [Dir.get]⟩
  | @skip n x rest rel e _ ih =>
    obtain ⟨m, rel', h1, h2⟩ := ih
    refine ⟨m, rel', h1, ?_⟩
    simp only [Dir.get]
    split
    · rfl
    · exact h2

theorem walkDir_path_head (ign : Path → Bool) (d : Dir) (pre p : Path) (c : Bytes)
    (h : (p, c) ∈ walkDir ign pre d) :
    ∃ m rel', p = pre ++ m :: rel' ∧ (d.get m).isSome = true := by
  obtain ⟨rel, hp, ha, _⟩ := walkDir_sound ign d pre p c h
  obtain ⟨m, rel', hr, hg⟩ := At_head ha
  exact ⟨m, rel', by rw [hp, hr], hg⟩

theorem walkEntry_path_head (ign : Path → Bool) (pre : Path) (n : Name) (e : Entry) (p : Path)
    (c : Bytes) (h : (p, c) ∈ walkEntry ign (pre ++ [n]) n e) : ∃ rel', p = pre ++ n :: rel' := by
  cases e with
  | file c' =>
    simp only [walkEntry] at h
    split at h
    · simp at h
    · simp only [List.mem_singleton, Prod.mk.injEq] at h
      exact ⟨[], h.1⟩
  | dir d' =>
    simp only [walkEntry] at h
    split at h
    · simp at h
    · obtain ⟨rel, hp, _, _⟩ := walkDir_sound ign d' (pre ++ [n]) p c h
      exact ⟨rel, by simp [hp]⟩

/-- **walk_nodup.**  In a tree with unique names one walk yields no path twice. -/
theorem walk_nodup (ign : Path → Bool) : ∀ (d : Dir) (pre : Path),
    d.uniqueNames = true → ((walkDir ign pre d).map (·.1)).Nodup
  | .nil, pre, _ => by simp [walkDir]
  | .cons n e rest, pre, hu => by
    simp only [Dir.uniqueNames, Bool.and_eq_true, Option.isNone_iff_eq_none] at hu
    obtain ⟨⟨hn, he⟩, hr⟩ := hu
    simp only [walkDir, List.map_append]
    rw [List.nodup_append]
    refine ⟨?_, walk_nodup ign rest pre hr, ?_⟩
    · cases e with
      | file c =>
        simp only [walkEntry]
        split <;> simp
      | dir d' =>
        simp only [walkEntry]
        split
        · simp
        · exact walk_nodup ign d' (pre ++ [n]) (by simpa [Entry.uniqueNames] using he)
    · intro a ha b hb hab
      simp only [List.mem_map] at ha hb
      obtain ⟨⟨pa, ca⟩, hma, rfl⟩ := ha
      obtain ⟨⟨pb, cb⟩, hmb, rfl⟩ := hb
      obtain ⟨rel', h1⟩ := walkEntry_path_head ign pre n e pa ca hma
      obtain ⟨m, rel'', h2, hg⟩ := walkDir_path_head ign rest pre pb cb hmb
      simp only at hab
      rw [h1, h2] at hab
      have := List.append_cancel_left hab
      simp only [List.cons.injEq] at this
      rw [← this.1, hn] at hg
      cases hg

/-- one `ruleDirs` / `utilDirs` entry: no path twice -/
theorem walkRoot_nodup (ign : Path → Bool) (root : Entry) (base : Path) (fs : List (Path × Bytes))
    (hu : UniqueNames root) (h : walkRoot ign base (root.lookup base) = .ok fs) :
    (fs.map (·.1)).Nodup := by
  cases hl : root.lookup base with
  | none => rw [hl] at h; cases h
  | some e =>
    rw [hl] at h
    cases e with
    | file c => cases h; simp
    | dir d =>
      cases h
      exact walk_nodup ign d base (by simpa [Entry.uniqueNames] using lookup_uniqueNames base root _ hu hl)

theorem RuleFileOf_prefix {ign : Path → Bool} {root : Entry} {base p : Path} {c : Bytes}
    (h : RuleFileOf ign root base p c) : base <+: p := by
  rcases h with ⟨_, rfl⟩ | ⟨_, rel, _, rfl, _, _⟩
  · exact List.prefix_refl _
  · exact List.prefix_append _ _

/-- the `ruleDirs` entries are pairwise non-overlapping: no entry is a prefix path of another
    (in particular no entry occurs twice) -/
def NonOverlapping (rds : List Path) : Prop :=
  rds.Pairwise (fun a b => ¬ a <+: b ∧ ¬ b <+: a)

instance (rds : List Path) : Decidable (NonOverlapping rds) := by
  unfold NonOverlapping; infer_instance

/-- with unique names and non-overlapping `ruleDirs`, the result of `read_directory_yaml` is the
    concatenation of the documents of a list of rule files in which NO PATH OCCURS TWICE, and which holds
    exactly the rule files of the entries -/
theorem rules_files_once (P : Params D U G) (root : Entry) (dir : Path) (g : G) (rds : List Path)
    (ds : List D) (hu : UniqueNames root) (hno : NonOverlapping rds)
    (h : readDirs P root dir g rds = .ok ds) :
    ∃ files : List (Path × Bytes),
      (files.map (·.1)).Nodup ∧
      (∀ p c, (p, c) ∈ files ↔ ∃ rd ∈ rds, RuleFileOf P.ign root (dir ++ rd) p c) ∧
      ds = files.flatMap (docsOf P g) := by
  induction rds generalizing ds with
  | nil =>
    simp only [readDirs, Except.ok.injEq] at h
    subst h
    exact ⟨[], by simp, by simp, rfl⟩
  | cons rd rds ih =>
    obtain ⟨fs, part, rest, hw, hl, hr, rfl⟩ := (readDirs_cons P root dir g rd rds ds).mp h
    have hno' := List.pairwise_cons.mp hno
    obtain ⟨files', hnd, hmem, rfl⟩ := ih rest hno'.2 hr
    obtain ⟨_, rfl⟩ := (loadList_ok_iff P g fs part).mp hl
    refine ⟨fs ++ files', ?_, ?_, by simp [List.flatMap_append]⟩
    · rw [List.map_append, List.nodup_append]
      refine ⟨walkRoot_nodup P.ign root (dir ++ rd) fs hu hw, hnd, ?_⟩
      intro a ha b hb hab
      simp only [List.mem_map] at ha hb
      obtain ⟨⟨pa, ca⟩, hma, rfl⟩ := ha
      obtain ⟨⟨pb, cb⟩, hmb, rfl⟩ := hb
      simp only at hab
      subst hab
      have h1 := RuleFileOf_prefix ((walkRoot_mem P.ign root (dir ++ rd) fs hw pa ca).mp hma)
      obtain ⟨rd', hrd', hf'⟩ := (hmem pa cb).mp hmb
      have h2 := RuleFileOf_prefix hf'
      rcases List.prefix_or_prefix_of_prefix h1 h2 with h3 | h3
      · exact (hno'.1 rd' hrd').1 ((List.prefix_append_right_inj dir).mp h3)
      · exact (hno'.1 rd' hrd').2 ((List.prefix_append_right_inj dir).mp h3)
    · intro p c
      simp only [List.mem_append, List.mem_cons, exists_eq_or_imp]
      rw [walkRoot_mem P.ign root (dir ++ rd) fs hw p c, hmem p c]

theorem length_filter_flatMap {α β} (q : β → Bool) (f : α → List β) (l : List α) :
    ((l.flatMap f).filter q).length = (l.map (fun a => ((f a).filter q).length)).sum := by
  induction l with
  | nil => rfl
  | cons a l ih => simp [List.flatMap_cons, List.filter_append, ih]

/-- **rules_loaded_once** ("none twice").  In a tree with unique names, when no `ruleDirs` entry is a
    prefix path of another, every rule FILE contributes its documents exactly once: there is a list of
    files without repeated path — exactly the rule files of the entries — such that, for every property
    `q` of documents (e.g. "is this document", "has this id"), the number of loaded documents with `q`
    is the sum over these files of the number of documents with `q` in the file.
    `loaded_twice_counterexample` shows that the non-overlap hypothesis is needed. -/
theorem rules_loaded_once (P : Params D U G) (root : Entry) (dir : Path) (g : G) (rds : List Path)
    (ds : List D) (hu : UniqueNames root) (hno : NonOverlapping rds)
    (h : readDirs P root dir g rds = .ok ds) :
    ∃ files : List (Path × Bytes),
      (files.map (·.1)).Nodup ∧
      (∀ p c, (p, c) ∈ files ↔ ∃ rd ∈ rds, RuleFileOf P.ign root (dir ++ rd) p c) ∧
      ∀ q : D → Bool,
        (ds.filter q).length = (files.map (fun f => ((docsOf P g f).filter q).length)).sum := by
  obtain ⟨files, h1, h2, rfl⟩ := rules_files_once P root dir g rds ds hu hno h
  exact ⟨files, h1, h2, fun q => length_filter_flatMap q _ files⟩

/-- the multiplicity form: a document occurs in the result as often as it occurs in the rule files,
    each file counted once -/
theorem rules_loaded_once_count [BEq D] (P : Params D U G) (root : Entry) (dir : Path) (g : G)
    (rds : List Path) (ds : List D) (hu : UniqueNames root) (hno : NonOverlapping rds)
    (h : readDirs P root dir g rds = .ok ds) :
    ∃ files : List (Path × Bytes),
      (files.map (·.1)).Nodup ∧
      (∀ p c, (p, c) ∈ files ↔ ∃ rd ∈ rds, RuleFileOf P.ign root (dir ++ rd) p c) ∧
      ∀ x : D, ds.count x = (files.map (fun f => (docsOf P g f).count x)).sum := by
  obtain ⟨files, h1, h2, h3⟩ := rules_loaded_once P root dir g rds ds hu hno h
  refine ⟨files, h1, h2, fun x => ?_⟩
  simp only [List.count_eq_countP, List.countP_eq_length_filter]
  exact h3 _

/-- the hypothesis of `rules_loaded_once` that `loaded_twice_counterexample` violates: `[r, r/a.yml]`
    overlap (and the tree there has unique names) -/
theorem loaded_twice_overlaps :
    ¬ NonOverlapping [[[114]], [[114], aYml]] ∧
    UniqueNames (Entry.dir (.cons [114] (.dir (.cons aYml (.file [7]) .nil)) .nil)) := by
  constructor
  · decide
  · decide

/-! ### non-vacuity of section 7 on the demo tree -/

example : UniqueNames demoTree := by decide
example : ¬ UniqueNames (.dir (.cons aYml (.file [1]) (.cons aYml (.file [2]) .nil))) := by decide
example : NonOverlapping [[[114]], [[112]]] := by decide
example : NonOverlapping [[[114], [115]], [[112]], [[117]]] := by decide
example : ¬ NonOverlapping [[[114]], [[114], [115]]] := by decide
/-- the rule directories `r` and `p` of the demo tree: four files walked, no path twice, five documents -/
example : (okOf (readDirs demo demoTree [] [] [[[114]], [[112]]])) = some [1, 2, 3, 4, 0] := by decide
example : ((walkDir demo.ign [] (match demoTree with | .dir d => d | _ => .nil)).map (·.1)).length = 5 := by decide
/-- document `2` occurs once in the load of `[r]` and twice when `r/a.yml` is listed as well -/
example : (okOf (readDirs demo demoTree [] [] [[[114]]])).map (·.count 2) = some 1 := by decide
example : (okOf (readDirs demo demoTree [] [] [[[114]], [[114], aYml]])).map (·.count 2) = some 2 := by decide

end AGV.Project
