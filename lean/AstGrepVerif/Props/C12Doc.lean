/-
C12, whole document: consistency of the main rule core AND of every rewriter core, soundness of
every error the consistency checks can report, and the exact characterisation of acceptance:

  * `accept_vars_defined_doc`   `load doc = ok ⇒ ConsistentDoc doc`
  * `load_ok_iff_consistent`    `load doc` is `ok` **iff** `ParsesOK doc ∧ ConsistentDoc doc`
  * `core_error_sound`, `load_error_sound`   a reported error names a defect that is really there

Scoping follows the loader: the local utility registry is ONE map shared by the rule and its
rewriters (`DeserializeEnv::clone` clones an `Arc`), filled in document order — the utilities
visible to the n-th rewriter are those of the rule and of the rewriters before it, plus its own.
The variables of the enclosing rule a rewriter's fix may use are the CAPTURED ones (`Captured`,
`mem_info_capturedVars_iff`), not the keys of its `transform` section (FIX_C12_3).
-/
import AstGrepVerif.Props.C12
import AstGrepVerif.Lemmas.LoaderIff
import AstGrepVerif.Lemmas.LoaderKinds

namespace AGV.C12

open AGV AGV.Loader AGV.Loader.Spec

/-! ## declarative vocabulary, per rule core -/

/-- the utilities visible to a core: id ↦ rule, looked up with `alookup` -/
abbrev Scope := List (Name × SRule)

def utilsOfCore (core : SCore) : Scope := core.utils.getD []

/-- `v` is captured by a pattern of the core's rule, of a visible utility or of a constraint -/
def DefinedIn (scope : Scope) (core : SCore) (v : Name) : Prop :=
  Defines core.rule v ∨ (∃ id r, alookup id scope = some r ∧ Defines r v) ∨
    (∃ c ∈ core.constraints, Defines c.2 v)

def ResolvesIn (scope : Scope) (globals : List GlobalUtil) (id : Name) : Prop :=
  id ∈ scope.map (·.1) ∨ id ∈ globals.map (·.id)

/-- `matches: id` occurs in the core's rule, a constraint, a visible utility or a fix expansion -/
def RefersToCore (scope : Scope) (core : SCore) (id : Name) : Prop :=
  Refs core.rule id ∨ (∃ c ∈ core.constraints, Refs c.2 id) ∨
    (∃ k r, alookup k scope = some r ∧ Refs r id) ∨
    (∃ e ∈ fixExpansions core, Refs e.rule id ∨ ∃ s, e.stop = .rule s ∧ Refs s id)

def fixVarsCore (core : SCore) : List Name :=
  match coreTemplate Fixes.all core with
  | some t => templateUsedVars t
  | none => []

def transformDepsCore (core : SCore) : Graph :=
  match core.transform with
  | some tr => tr.filterMap fun kt => (sourceVar kt.2).map fun v => (kt.1, [v])
  | none => []

/-- **self-consistency of one rule core** whose utilities are added to the scope `before`;
`upper` = the variables of the enclosing rule (a rewriter's fix may use them) -/
structure CoreConsistent (globals : List GlobalUtil) (before : Scope) (upper : Name → Prop) (core : SCore) :
    Prop where
  /-- no utility id is registered twice (`DuplicateRule`) -/
  utilsFresh : ∀ k ∈ (utilsOfCore core).map (·.1), k ∉ before.map (·.1)
  /-- no utility requires itself on the same node (`CyclicRule`) -/
  utilsAcyclic : ∀ k, ¬ Reach (Loader.utilGraph Fixes.all (utilsOfCore core)) k k
  /-- no transformation depends on itself (`Cyclic`) -/
  transformsAcyclic : ∀ k, ¬ Reach (transformDepsCore core) k k
  /-- every `matches` resolves (`UndefinedUtil`) -/
  refsResolve : ∀ id, RefersToCore (before ++ utilsOfCore core) core id →
    ResolvesIn (before ++ utilsOfCore core) globals id
  /-- `UndefinedMetaVar(_, "constraints")` -/
  constraintKeysDefined : ∀ c ∈ core.constraints, DefinedIn (before ++ utilsOfCore core) core c.1
  /-- `AlreadyDefined` -/
  noRedefinition : ∀ k ∈ transformKeys core, ¬ DefinedIn (before ++ utilsOfCore core) core k
  transformKeysDistinct : (transformKeys core).Nodup
  /-- `UndefinedMetaVar(_, "transform")` -/
  sourcesDefined : ∀ tr, core.transform = some tr → ∀ kt ∈ tr, ∃ v, sourceVar kt.2 = some v ∧
    (DefinedIn (before ++ utilsOfCore core) core v ∨ v ∈ transformKeys core)
  /-- `UndefinedMetaVar(_, "fix")` -/
  fixDefined : ∀ v ∈ fixVarsCore core,
    DefinedIn (before ++ utilsOfCore core) core v ∨ v ∈ transformKeys core ∨ upper v

/-- **well-formed fields of one rule core** -/
structure CoreParses (expando : Char) (core : SCore) : Prop where
  rule : RuleParses core.rule
  utils : ∀ id r, alookup id (utilsOfCore core) = some r → RuleParses r
  constraints : ∀ c ∈ core.constraints, RuleParses c.2
  transform : ∀ tr, core.transform = some tr → ∀ k t, alookup k tr = some t → TransParses expando t
  expansions : ∀ x ∈ fixExpansions core, ExpansionParses x

/-- the registry the loader holds corresponds to a declarative scope -/
structure RegMatches (reg : Registry) (scope : Scope) : Prop where
  ids : ∀ id, id ∈ reg.map (·.id) ↔ id ∈ scope.map (·.1)
  rules : ∀ u ∈ reg, alookup u.id scope = some u.rule

theorem RegMatches.nil : RegMatches [] [] := ⟨fun _ => by simp, fun u hu => by cases hu⟩

theorem alookup_append {β} (k : Name) (a b : List (Name × β)) :
    alookup k (a ++ b) = match alookup k a with | some v => some v | none => alookup k b := by
  induction a with
  | nil => rfl
  | cons hd tl ih =>
    obtain ⟨k', v⟩ := hd
    by_cases h : k' = k <;> simp [alookup, h, ih]

theorem alookup_none_of_not_mem {β} (k : Name) (l : List (Name × β)) (h : k ∉ l.map (·.1)) :
    alookup k l = none := by
  cases hl : alookup k l with
  | none => rfl
  | some v => exact absurd (mem_keys_of_alookup k v l hl) h

theorem RegMatches.lookup {reg : Registry} {scope : Scope} (h : RegMatches reg scope) (k : Name) (r : SRule)
    (hl : alookup k scope = some r) : ∃ u ∈ reg, u.id = k ∧ u.rule = r := by
  obtain ⟨u, hu, he⟩ := List.mem_map.mp ((h.ids k).mpr (mem_keys_of_alookup k r scope hl))
  have := h.rules u hu
  rw [he, hl] at this
  injection this with this
  exact ⟨u, hu, he, this.symm⟩

/-! ## the environment stage -/

theorem reach_nil (k : Name) : ¬ Reach ([] : Graph) k k := by
  intro h
  cases h with
  | single e => obtain ⟨_, hd, _⟩ := e; simp [alookup] at hd
  | step e _ => obtain ⟨_, hd, _⟩ := e; simp [alookup] at hd

theorem deserializeEnv_ok_iff (globals : List GlobalUtil) (reg : Registry) (core : SCore) :
    (∃ reg', deserializeEnv Fixes.all globals reg core = .ok reg') ↔
      (∀ k, ¬ Reach (Loader.utilGraph Fixes.all (utilsOfCore core)) k k) ∧
      (∀ id r, alookup id (utilsOfCore core) = some r → RuleParses r) ∧
      (∀ id ∈ (utilsOfCore core).map (·.1), id ∉ reg.map (·.id)) := by
  unfold deserializeEnv utilsOfCore
  cases hu : core.utils with
  | none =>
    simp only [Option.getD_none]
    constructor
    · intro _
      exact ⟨fun k => by simpa [Loader.utilGraph] using reach_nil k, fun id r h => by simp [alookup] at h,
        fun id h => by simp at h⟩
    · intro _; exact ⟨reg, rfl⟩
  | some utils =>
    simp only [Option.getD_some]
    exact withUtils_ok_iff Fixes.all rfl globals utils reg

theorem deserializeEnv_post {globals : List GlobalUtil} {reg reg' : Registry} {core : SCore} {before : Scope}
    (hm : RegMatches reg before) (h : deserializeEnv Fixes.all globals reg core = .ok reg') :
    RegMatches reg' (before ++ utilsOfCore core) := by
  have hfresh := ((deserializeEnv_ok_iff globals reg core).mp ⟨reg', h⟩).2.2
  unfold deserializeEnv at h
  unfold utilsOfCore at hfresh ⊢
  cases hu : core.utils with
  | none =>
    rw [hu] at h
    injection h with h
    subst h
    simpa using hm
  | some utils =>
    rw [hu] at h hfresh
    simp only [Option.getD_some] at hfresh ⊢
    obtain ⟨added, h1, h2, _, h4⟩ := withUtils_ok Fixes.all globals utils reg reg' h
    subst h1
    refine ⟨fun id => ?_, fun u hu' => ?_⟩
    · simp only [List.map_append, List.mem_append]
      rw [hm.ids id, h2 id]
    · rw [alookup_append]
      rcases List.mem_append.mp hu' with hr | ha
      · rw [hm.rules u hr]
      · have hk : u.id ∈ utils.map (·.1) := (h2 u.id).mp (List.mem_map.mpr ⟨u, ha, rfl⟩)
        have hnot : u.id ∉ before.map (·.1) := fun hb => hfresh u.id hk ((hm.ids u.id).mpr hb)
        rw [alookup_none_of_not_mem u.id before hnot]
        exact h4 u ha

/-! ## the parsing stages -/

theorem deserConstraints_ok_iff : ∀ cs : List (Name × SRule),
    deserConstraints Fixes.all cs = .ok () ↔ ∀ c ∈ cs, RuleParses c.2
  | [] => by simp [deserConstraints]
  | (k, r) :: rest => by
    have ih := deserConstraints_ok_iff rest
    simp only [deserConstraints, List.mem_cons, forall_eq_or_imp]
    rw [← deserRule_ok_iff Fixes.all rfl r, ← ih]
    rcases res_unit_cases _ (deserRule_noPanic Fixes.all rfl r) with hr | ⟨e, hr⟩ <;> rw [hr] <;> simp

theorem parseExpansion_ok_iff (e : Option SExpansion) :
    parseExpansion Fixes.all e = .ok () ↔ ∀ x ∈ e.toList, ExpansionParses x := by
  cases e with
  | none => simp [parseExpansion]
  | some x =>
    simp only [parseExpansion, Option.toList_some, List.mem_singleton, forall_eq, ExpansionParses]
    rw [← deserStop_ok_iff Fixes.all rfl x.stop, ← deserRule_ok_iff Fixes.all rfl x.rule]
    rcases res_unit_cases _ (deserStop_noPanic Fixes.all rfl x.stop) with hs | ⟨e, hs⟩ <;> rw [hs] <;> simp

theorem deserFixer_ok_iff (core : SCore) :
    deserFixer Fixes.all core = .ok () ↔ ∀ x ∈ fixExpansions core, ExpansionParses x := by
  unfold deserFixer fixExpansions
  cases hf : core.fix with
  | none => simp
  | some f =>
    cases f with
    | str t => simp [parseFixer]
    | config t es ee =>
      simp only [parseFixer, List.mem_append]
      rcases res_unit_cases _ (parseExpansion_noPanic Fixes.all rfl es) with h1 | ⟨e, h1⟩
      · rw [h1]; simp only
        rw [parseExpansion_ok_iff ee]
        have := (parseExpansion_ok_iff es).mp h1
        constructor
        · intro hh x hx
          rcases hx with hx | hx
          · exact this x hx
          · exact hh x hx
        · intro hh x hx; exact hh x (Or.inr hx)
      · rw [h1]; simp only
        constructor
        · intro hh; cases hh
        · intro hh
          have := (parseExpansion_ok_iff es).mpr (fun x hx => hh x (Or.inl hx))
          rw [h1] at this; cases this

theorem transformGraph_all (tr : List (Name × STrans)) :
    transformGraph Fixes.all tr = some (tr.filterMap fun kt => (sourceVar kt.2).map fun v => (kt.1, [v])) := by
  obtain ⟨g, hg, _⟩ := transformGraph_some Fixes.all rfl tr
  rw [hg, transformGraph_eq_deps tr g hg]

theorem deserTransform_ok_iff (expando : Char) (core : SCore) :
    deserTransform Fixes.all expando core = .ok () ↔
      (∀ k, ¬ Reach (transformDepsCore core) k k) ∧
      (∀ tr, core.transform = some tr → ∀ k t, alookup k tr = some t → TransParses expando t) := by
  unfold deserTransform transformDepsCore
  cases ht : core.transform with
  | none =>
    simp only [true_iff]
    exact ⟨reach_nil, fun tr h => by cases h⟩
  | some tr =>
    simp only
    rw [transformDeserialize_ok_iff expando tr _ (transformGraph_all tr)]
    constructor
    · rintro ⟨h1, h2⟩
      exact ⟨h1, fun tr' e => by injection e with e; subst e; exact h2⟩
    · rintro ⟨h1, h2⟩
      exact ⟨h1, h2 tr rfl⟩

/-! ## the consistency checks of one core -/

/-- the variables a rewriter inherits, as the hint carries them -/
def hintUpper : CheckHint → List Name
  | .rewriter u => u
  | _ => []

theorem mem_vars_iff_definedIn (globals : List GlobalUtil) (core : SCore) {reg : Registry} {scope : Scope}
    (hm : RegMatches reg scope) (v : Name) :
    v ∈ (checkInputOf Fixes.all globals reg core).vars0 ++ definedVarsList (core.constraints.map (·.2)) ↔
      DefinedIn scope core v := by
  unfold DefinedIn CheckInput.vars0 CheckInput.localUtilVars checkInputOf
  simp only [List.mem_append]
  rw [mem_definedVars_iff, mem_localUtilVars_iff hm.ids hm.rules, mem_definedVarsList_iff]
  constructor
  · rintro ((h | h) | ⟨r, hr, hd⟩)
    · exact Or.inl h
    · exact Or.inr (Or.inl h)
    · obtain ⟨c, hc, rfl⟩ := List.mem_map.mp hr
      exact Or.inr (Or.inr ⟨c, hc, hd⟩)
  · rintro (h | h | ⟨c, hc, hd⟩)
    · exact Or.inl (Or.inl h)
    · exact Or.inl (Or.inr h)
    · exact Or.inr ⟨c.2, List.mem_map.mpr ⟨c, hc, rfl⟩, hd⟩

theorem known_iff_resolves {globals : List GlobalUtil} {reg : Registry} {scope : Scope}
    (hm : RegMatches reg scope) (id : Name) :
    isKnown reg globals id = true ↔ ResolvesIn scope globals id := by
  rw [isKnown_iff]
  unfold ResolvesIn
  rw [hm.ids id]

theorem verifyUtilStop_none_iff (known : Name → Bool) (stop : SStop) :
    verifyUtilStop known stop = none ↔ ∀ s, stop = .rule s → ∀ id, Refs s id → known id = true := by
  cases stop with
  | neighbor => simp [verifyUtilStop]
  | end_ => simp [verifyUtilStop]
  | rule r =>
    simp only [verifyUtilStop, verifyUtil_none_iff]
    constructor
    · intro h s hs; injection hs with hs; subst hs; exact h
    · intro h; exact h r rfl

/-- `check_utils_defined` succeeds iff every reference of the core resolves in its scope -/
theorem checkUtilsDefined_iff_refs (globals : List GlobalUtil) (core : SCore) {reg : Registry} {scope : Scope}
    (hm : RegMatches reg scope) :
    checkUtilsDefined Fixes.all (checkInputOf Fixes.all globals reg core) = .ok () ↔
      ∀ id, RefersToCore scope core id → ResolvesIn scope globals id := by
  rw [checkUtilsDefined_ok_iff]
  simp only [checkInputOf, verifyUtil_none_iff, verifyUtilList_none_iff, verifyUtilExpansions_none_iff,
    verifyUtilStop_none_iff, known_iff_resolves hm]
  unfold RefersToCore
  constructor
  · rintro ⟨h1, h2, h3, h4⟩ id hr
    rcases hr with hr | ⟨c, hc, hr⟩ | ⟨k, r, hl, hr⟩ | ⟨e, he, hr⟩
    · exact h1 id hr
    · exact h2 c.2 (List.mem_map.mpr ⟨c, hc, rfl⟩) id hr
    · obtain ⟨u, hu, _, he⟩ := hm.lookup k r hl
      exact h3 u.rule (List.mem_map.mpr ⟨u, hu, rfl⟩) id (he ▸ hr)
    · rcases hr with hr | ⟨s, hs, hr⟩
      · exact (h4 e he).1 id hr
      · exact (h4 e he).2 s hs id hr
  · intro h
    refine ⟨fun id hr => h id (Or.inl hr), ?_, ?_, ?_⟩
    · intro r hr id hrf
      obtain ⟨c, hc, rfl⟩ := List.mem_map.mp hr
      exact h id (Or.inr (Or.inl ⟨c, hc, hrf⟩))
    · intro r hr id hrf
      obtain ⟨u, hu, rfl⟩ := List.mem_map.mp hr
      exact h id (Or.inr (Or.inr (Or.inl ⟨u.id, u.rule, hm.rules u hu, hrf⟩)))
    · intro e he
      exact ⟨fun id hrf => h id (Or.inr (Or.inr (Or.inr ⟨e, he, Or.inl hrf⟩))),
        fun s hs id hrf => h id (Or.inr (Or.inr (Or.inr ⟨e, he, Or.inr ⟨s, hs, hrf⟩⟩)))⟩

/-- the variable clauses of `CoreConsistent` -/
structure VarClauses (scope : Scope) (upper : Name → Prop) (core : SCore) : Prop where
  constraintKeysDefined : ∀ c ∈ core.constraints, DefinedIn scope core c.1
  noRedefinition : ∀ k ∈ transformKeys core, ¬ DefinedIn scope core k
  transformKeysDistinct : (transformKeys core).Nodup
  sourcesDefined : ∀ tr, core.transform = some tr → ∀ kt ∈ tr, ∃ v, sourceVar kt.2 = some v ∧
    (DefinedIn scope core v ∨ v ∈ transformKeys core)
  fixDefined : ∀ v ∈ fixVarsCore core, DefinedIn scope core v ∨ v ∈ transformKeys core ∨ upper v

theorem checkVars_iff_clauses (globals : List GlobalUtil) (core : SCore) {reg : Registry} {scope : Scope}
    (hm : RegMatches reg scope) (upper : List Name) :
    checkVars Fixes.all (checkInputOf Fixes.all globals reg core) upper = .ok () ↔
      VarClauses scope (· ∈ upper) core := by
  rw [checkVars_ok_iff]
  have hmem := mem_vars_iff_definedIn globals core hm
  have hcons : (checkInputOf Fixes.all globals reg core).constraints = core.constraints := rfl
  have htrans : (checkInputOf Fixes.all globals reg core).transform = core.transform := rfl
  have hfix : (checkInputOf Fixes.all globals reg core).fixVars = (coreTemplate Fixes.all core).map templateUsedVars := rfl
  constructor
  · rintro ⟨hv, hnd⟩
    refine ⟨?_, ?_, ?_, ?_, ?_⟩
    · intro c hc
      exact (hmem c.1).mp (hv.constraintKeys c.1 (List.mem_map.mpr ⟨c, hc, rfl⟩))
    · intro k hk hd
      unfold transformKeys at hk
      cases htt : core.transform with
      | none => rw [htt] at hk; cases hk
      | some tr =>
        rw [htt] at hk
        exact (hv.transformKeys tr (htrans ▸ htt)).1 k hk ((hmem k).mpr hd)
    · unfold transformKeys
      cases htt : core.transform with
      | none => exact List.nodup_nil
      | some tr => exact hnd tr (htrans ▸ htt)
    · intro tr htt kt hkt
      obtain ⟨v, hu, hvm⟩ := (hv.transformKeys tr (htrans ▸ htt)).2 kt.2 (List.mem_map.mpr ⟨kt, hkt, rfl⟩)
      refine ⟨v, hu, ?_⟩
      rcases List.mem_append.mp hvm with h1 | h1
      · exact Or.inl ((hmem v).mp h1)
      · right; unfold transformKeys; rw [htt]; exact h1
    · intro v hvf
      unfold fixVarsCore at hvf
      cases hct : coreTemplate Fixes.all core with
      | none => rw [hct] at hvf; cases hvf
      | some t =>
        rw [hct] at hvf
        have := hv.fixVars (templateUsedVars t) (by rw [hfix, hct]; rfl) v hvf
        simp only [List.mem_append] at this
        rcases this with (h1 | h1) | h1
        · exact Or.inl ((hmem v).mp (List.mem_append.mpr h1))
        · right; left
          unfold transformKeys
          rw [htrans] at h1
          cases htt : core.transform with
          | none => rw [htt] at h1; cases h1
          | some tr => rw [htt] at h1; exact h1
        · exact Or.inr (Or.inr h1)
  · intro hc
    refine ⟨⟨?_, ?_, ?_⟩, ?_⟩
    · intro k hk
      rw [hcons] at hk ⊢
      obtain ⟨c, hcm, rfl⟩ := List.mem_map.mp hk
      exact (hmem c.1).mpr (hc.constraintKeysDefined c hcm)
    · intro tr htt
      rw [htrans] at htt
      rw [hcons]
      have hkeys : transformKeys core = tr.map (·.1) := by unfold transformKeys; rw [htt]
      refine ⟨?_, ?_⟩
      · intro k hk hm'
        exact hc.noRedefinition k (hkeys ▸ hk) ((hmem k).mp hm')
      · intro t ht
        obtain ⟨kt, hkt, rfl⟩ := List.mem_map.mp ht
        obtain ⟨v, hu, hd⟩ := hc.sourcesDefined tr htt kt hkt
        refine ⟨v, hu, ?_⟩
        rcases hd with hd | hd
        · exact List.mem_append_left _ ((hmem v).mpr hd)
        · exact List.mem_append_right _ (hkeys ▸ hd)
    · intro used hu v hvu
      rw [hfix] at hu
      rw [hcons, htrans]
      cases hct : coreTemplate Fixes.all core with
      | none => rw [hct] at hu; cases hu
      | some t =>
        rw [hct] at hu
        simp only [Option.map_some, Option.some.injEq] at hu
        have hvf : v ∈ fixVarsCore core := by
          unfold fixVarsCore; rw [hct]; simp only; rw [hu]; exact hvu
        simp only [List.mem_append]
        rcases hc.fixDefined v hvf with hd | hd | hd
        · exact Or.inl (Or.inl (List.mem_append.mp ((hmem v).mpr hd)))
        · left; right
          unfold transformKeys at hd
          cases htt : core.transform with
          | none => rw [htt] at hd; cases hd
          | some tr => rw [htt] at hd; exact hd
        · exact Or.inr hd
    · intro tr htt
      rw [htrans] at htt
      have := hc.transformKeysDistinct
      unfold transformKeys at this
      rw [htt] at this
      exact this

/-! ## one core: accepted iff well formed and consistent -/

theorem getMatcher_ok_iff_stages (expando : Char) (globals : List GlobalUtil) (reg reg' : Registry)
    (core : SCore) (hint : CheckHint) (info : CoreInfo) :
    getMatcher Fixes.all expando globals reg core hint = .ok (reg', info) ↔
      deserializeEnv Fixes.all globals reg core = .ok reg' ∧ deserRule Fixes.all core.rule = .ok () ∧
      deserConstraints Fixes.all core.constraints = .ok () ∧ deserTransform Fixes.all expando core = .ok () ∧
      deserFixer Fixes.all core = .ok () ∧
      checkRuleWithHint Fixes.all (checkInputOf Fixes.all globals reg' core) hint = .ok () ∧
      info = coreInfoOf Fixes.all reg' core := by
  simp only [getMatcher]
  cases h1 : deserializeEnv Fixes.all globals reg core with
  | err e => simp
  | panic s => simp
  | ok r1 =>
    simp only
    cases h2 : deserRule Fixes.all core.rule with
    | err e => simp
    | panic s => simp
    | ok u2 =>
      simp only
      cases h3 : deserConstraints Fixes.all core.constraints with
      | err e => simp
      | panic s => simp
      | ok u3 =>
        simp only
        cases h4 : deserTransform Fixes.all expando core with
        | err e => simp
        | panic s => simp
        | ok u4 =>
          simp only
          cases h5 : deserFixer Fixes.all core with
          | err e => simp
          | panic s => simp
          | ok u5 =>
            simp only
            by_cases hr : r1 = reg'
            · subst hr
              cases h6 : checkRuleWithHint Fixes.all (checkInputOf Fixes.all globals r1 core) hint with
              | err e => simp
              | panic s => simp
              | ok u6 =>
                simp only [Res.ok.injEq, Prod.mk.injEq, true_and]
                exact ⟨fun h => h.symm, fun h => h.symm⟩
            · cases h6 : checkRuleWithHint Fixes.all (checkInputOf Fixes.all globals r1 core) hint with
              | err e => simp [hr]
              | panic s => simp [hr]
              | ok u6 => simp [hr]

theorem checkRuleWithHint_ok_iff (i : CheckInput) (hint : CheckHint) (hg : ∀ h, hint ≠ h ∨ h ≠ .global) :
    checkRuleWithHint Fixes.all i hint = .ok () ↔
      checkUtilsDefined Fixes.all i = .ok () ∧ checkVars Fixes.all i (hintUpper hint) = .ok () := by
  cases hint with
  | global => exact absurd rfl ((hg .global).elim id id)
  | normal =>
    simp only [checkRuleWithHint, hintUpper]
    rcases res_unit_cases _ (checkUtilsDefined_noPanic Fixes.all i) with h | ⟨e, h⟩ <;> rw [h] <;> simp
  | rewriter u =>
    simp only [checkRuleWithHint, hintUpper]
    rcases res_unit_cases _ (checkUtilsDefined_noPanic Fixes.all i) with h | ⟨e, h⟩ <;> rw [h] <;> simp

/-- `CheckHint::Normal` or `CheckHint::Rewriter` (the hints `load` uses) -/
def LocalHint : CheckHint → Prop
  | .global => False
  | _ => True

/-- **one rule core is accepted iff its fields are well formed and it is self-consistent** in the
scope of the utilities registered before it -/
theorem core_ok_iff (expando : Char) (globals : List GlobalUtil) {reg : Registry} {before : Scope}
    (hm : RegMatches reg before) (core : SCore) (hint : CheckHint) (hl : LocalHint hint) :
    (∃ reg' info, getMatcher Fixes.all expando globals reg core hint = .ok (reg', info)) ↔
      CoreParses expando core ∧ CoreConsistent globals before (· ∈ hintUpper hint) core := by
  have hg : ∀ h, hint ≠ h ∨ h ≠ .global := by
    intro h
    by_cases e : h = .global
    · subst e; left; intro e'; subst e'; exact hl
    · exact Or.inr e
  constructor
  · rintro ⟨reg', info, h⟩
    obtain ⟨h1, h2, h3, h4, h5, h6, _⟩ := (getMatcher_ok_iff_stages _ _ _ _ _ _ _).mp h
    obtain ⟨ha, hp, hf⟩ := (deserializeEnv_ok_iff globals reg core).mp ⟨reg', h1⟩
    have hm' := deserializeEnv_post hm h1
    obtain ⟨hta, htp⟩ := (deserTransform_ok_iff expando core).mp h4
    obtain ⟨hu, hv⟩ := (checkRuleWithHint_ok_iff _ hint hg).mp h6
    have hrefs := (checkUtilsDefined_iff_refs globals core hm').mp hu
    have hvc := (checkVars_iff_clauses globals core hm' (hintUpper hint)).mp hv
    refine ⟨⟨(deserRule_ok_iff Fixes.all rfl _).mp h2, hp, (deserConstraints_ok_iff _).mp h3, htp,
      (deserFixer_ok_iff core).mp h5⟩, ⟨?_, ha, hta, hrefs, hvc.constraintKeysDefined, hvc.noRedefinition,
      hvc.transformKeysDistinct, hvc.sourcesDefined, hvc.fixDefined⟩⟩
    intro k hk hb
    exact hf k hk ((hm.ids k).mpr hb)
  · rintro ⟨hp, hc⟩
    obtain ⟨reg', h1⟩ := (deserializeEnv_ok_iff globals reg core).mpr
      ⟨hc.utilsAcyclic, hp.utils, fun id hid hr => hc.utilsFresh id hid ((hm.ids id).mp hr)⟩
    have hm' := deserializeEnv_post hm h1
    refine ⟨reg', coreInfoOf Fixes.all reg' core, (getMatcher_ok_iff_stages _ _ _ _ _ _ _).mpr
      ⟨h1, (deserRule_ok_iff Fixes.all rfl _).mpr hp.rule, (deserConstraints_ok_iff _).mpr hp.constraints,
       (deserTransform_ok_iff expando core).mpr ⟨hc.transformsAcyclic, hp.transform⟩,
       (deserFixer_ok_iff core).mpr hp.expansions, ?_, rfl⟩⟩
    rw [checkRuleWithHint_ok_iff _ hint hg]
    exact ⟨(checkUtilsDefined_iff_refs globals core hm').mpr hc.refsResolve,
      (checkVars_iff_clauses globals core hm' (hintUpper hint)).mpr
        ⟨hc.constraintKeysDefined, hc.noRedefinition, hc.transformKeysDistinct, hc.sourcesDefined, hc.fixDefined⟩⟩

/-- what an accepted core leaves behind: the extended registry and its summary -/
theorem core_ok_post {expando : Char} {globals : List GlobalUtil} {reg reg' : Registry} {before : Scope}
    (hm : RegMatches reg before) {core : SCore} {hint : CheckHint} {info : CoreInfo}
    (h : getMatcher Fixes.all expando globals reg core hint = .ok (reg', info)) :
    RegMatches reg' (before ++ utilsOfCore core) ∧ info = coreInfoOf Fixes.all reg' core := by
  obtain ⟨h1, _, _, _, _, _, h7⟩ := (getMatcher_ok_iff_stages _ _ _ _ _ _ _).mp h
  exact ⟨deserializeEnv_post hm h1, h7⟩

theorem CoreConsistent.congr_upper {globals : List GlobalUtil} {before : Scope} {u1 u2 : Name → Prop}
    {core : SCore} (h : ∀ v, u1 v ↔ u2 v) (hc : CoreConsistent globals before u1 core) :
    CoreConsistent globals before u2 core :=
  { hc with fixDefined := fun v hv => (hc.fixDefined v hv).imp_right (Or.imp_right (h v).mp) }

/-! ## the rewriters -/

/-- the rewriter ids a core's `rewrite` transformations name -/
def usedRewritersOf (core : SCore) : List Name :=
  match core.transform with
  | none => []
  | some tr => (tr.map (·.2)).flatMap STrans.usedRewriters

theorem coreInfoOf_usedRewriters (reg : Registry) (core : SCore) :
    (coreInfoOf Fixes.all reg core).usedRewriters = usedRewritersOf core := rfl

/-- **consistency of the rewriter list**, in document order: every rewriter has a fix, a fresh
id, does not refer to its own id on the same node, and its core is consistent in the scope of all
utilities registered before it (`upper` = the variables of the enclosing rule) -/
def RewritersConsistent (globals : List GlobalUtil) (upper : Name → Prop) :
    Scope → List Name → List SRewriter → Prop
  | _, _, [] => True
  | before, ids, rw :: rest =>
    rw.core.fix ≠ none ∧ rw.id ∉ ids ∧ ¬ RefsSame true rw.core.rule rw.id ∧
    CoreConsistent globals before upper rw.core ∧
    RewritersConsistent globals upper (before ++ utilsOfCore rw.core) (ids ++ [rw.id]) rest

theorem RewritersConsistent.congr_upper {globals : List GlobalUtil} {u1 u2 : Name → Prop}
    (h : ∀ v, u1 v ↔ u2 v) : ∀ {before : Scope} {ids : List Name} {rws : List SRewriter},
    RewritersConsistent globals u1 before ids rws → RewritersConsistent globals u2 before ids rws
  | _, _, [], _ => trivial
  | _, _, _ :: _, ⟨h1, h2, h3, h4, h5⟩ => ⟨h1, h2, h3, h4.congr_upper h, RewritersConsistent.congr_upper h h5⟩

/-- the scope after all rewriters -/
def scopeAfter (before : Scope) (rws : List SRewriter) : Scope :=
  before ++ rws.flatMap fun rw => utilsOfCore rw.core

theorem scopeAfter_cons (before : Scope) (rw : SRewriter) (rest : List SRewriter) :
    scopeAfter before (rw :: rest) = scopeAfter (before ++ utilsOfCore rw.core) rest := by
  simp [scopeAfter]

/-- **`register_rewriters` succeeds iff** every rewriter core is well formed and the list is
consistent; then the registry matches the scope extended by all rewriter utilities and the
recorded summaries are the rewriters' own -/
theorem rewriters_ok_iff (expando : Char) (globals : List GlobalUtil) (upper : List Name) :
    ∀ (rws : List SRewriter) {reg : Registry} {before : Scope} (done : List (Name × CoreInfo)),
      RegMatches reg before →
      ((∃ reg' done', registerRewriters Fixes.all expando globals upper rws reg done = .ok (reg', done')) ↔
        (∀ rw ∈ rws, CoreParses expando rw.core) ∧
        RewritersConsistent globals (· ∈ upper) before (done.map (·.1)) rws)
  | [], reg, before, done, _ => by
    simp only [registerRewriters, List.not_mem_nil, false_imp_iff, implies_true, RewritersConsistent, and_self,
      iff_true]
    exact ⟨reg, done, rfl⟩
  | rw :: rest, reg, before, done, hm => by
    simp only [registerRewriters, List.mem_cons, forall_eq_or_imp, RewritersConsistent]
    cases hf : rw.core.fix with
    | none =>
      simp only [ne_eq, not_true_eq_false, false_and, and_false, iff_false, not_exists]
      intro r d h; cases h
    | some f =>
      simp only [ne_eq, reduceCtorEq, not_false_eq_true, true_and]
      have hcore := core_ok_iff expando globals hm rw.core (.rewriter upper) trivial
      simp only [hintUpper] at hcore
      cases hg : getMatcher Fixes.all expando globals reg rw.core (.rewriter upper) with
      | err e =>
        simp only
        constructor
        · rintro ⟨_, _, h⟩; cases h
        · rintro ⟨⟨hp, _⟩, _, _, hc, _⟩
          obtain ⟨r', i', h'⟩ := hcore.mpr ⟨hp, hc⟩
          rw [hg] at h'; cases h'
      | panic s =>
        simp only
        constructor
        · rintro ⟨_, _, h⟩; cases h
        · rintro ⟨⟨hp, _⟩, _, _, hc, _⟩
          obtain ⟨r', i', h'⟩ := hcore.mpr ⟨hp, hc⟩
          rw [hg] at h'; cases h'
      | ok p =>
        obtain ⟨reg1, info⟩ := p
        simp only
        obtain ⟨hp, hc⟩ := hcore.mp ⟨reg1, info, hg⟩
        obtain ⟨hm1, _⟩ := core_ok_post hm hg
        have hr : Fixes.all.rewriterErr = true := rfl
        have ih := rewriters_ok_iff expando globals upper rest (done ++ [(rw.id, info)]) hm1
        simp only [List.map_append, List.map_cons, List.map_nil] at ih
        by_cases hdup : (done.map (·.1)).contains rw.id = true
        · simp only [hdup, ↓reduceIte, hr]
          constructor
          · rintro ⟨_, _, h⟩; cases h
          · rintro ⟨_, h2, _⟩
            exact absurd (by simpa using hdup) h2
        · simp only [hdup, Bool.false_eq_true, ↓reduceIte]
          have hnot : rw.id ∉ done.map (·.1) := by simpa using hdup
          by_cases hcy : checkCyclic Fixes.all rw.id rw.core.rule = true
          · simp only [hcy, ↓reduceIte, hr]
            constructor
            · rintro ⟨_, _, h⟩; cases h
            · rintro ⟨_, _, h3, _⟩
              exact absurd ((checkCyclic_iff Fixes.all rw.id rw.core.rule).mp hcy) h3
          · simp only [hcy, Bool.false_eq_true, ↓reduceIte]
            have hns : ¬ RefsSame true rw.core.rule rw.id :=
              fun hh => hcy ((checkCyclic_iff Fixes.all rw.id rw.core.rule).mpr hh)
            rw [ih]
            constructor
            · rintro ⟨h1, h2⟩
              exact ⟨⟨hp, h1⟩, hnot, hns, hc, h2⟩
            · rintro ⟨⟨_, h1⟩, _, _, _, h2⟩
              exact ⟨h1, h2⟩

/-- what successful registration leaves behind -/
theorem rewriters_ok_post (expando : Char) (globals : List GlobalUtil) (upper : List Name) :
    ∀ (rws : List SRewriter) {reg reg' : Registry} {before : Scope} (done done' : List (Name × CoreInfo)),
      RegMatches reg before →
      registerRewriters Fixes.all expando globals upper rws reg done = .ok (reg', done') →
      RegMatches reg' (scopeAfter before rws) ∧
      done'.map (fun p => (p.1, p.2.usedRewriters)) =
        done.map (fun p => (p.1, p.2.usedRewriters)) ++ rws.map (fun rw => (rw.id, usedRewritersOf rw.core))
  | [], reg, reg', before, done, done', hm, h => by
    simp only [registerRewriters] at h
    injection h with h
    injection h with h1 h2
    subst h1; subst h2
    simpa [scopeAfter] using hm
  | rw :: rest, reg, reg', before, done, done', hm, h => by
    simp only [registerRewriters] at h
    split at h
    · cases h
    · split at h
      · cases h
      · cases h
      · rename_i reg1 info hg
        split at h
        · split at h <;> cases h
        · split at h
          · split at h <;> cases h
          · obtain ⟨hm1, hinfo⟩ := core_ok_post hm hg
            obtain ⟨h1, h2⟩ := rewriters_ok_post expando globals upper rest _ done' hm1 h
            refine ⟨by rw [scopeAfter_cons]; exact h1, ?_⟩
            rw [h2, hinfo]
            simp [coreInfoOf_usedRewriters]

theorem checkRewriters_none_iff (info : CoreInfo) (done : List (Name × CoreInfo)) :
    checkRewritersInTransform info done = none ↔
      (∀ r ∈ info.usedRewriters, r ∈ done.map (·.1)) ∧
      ∀ rw ∈ done, ∀ r ∈ rw.2.usedRewriters, r ∈ done.map (·.1) := by
  have hfu : ∀ used : List Name, firstUndefinedRewriter (done.map (·.1)) used = none ↔
      ∀ r ∈ used, r ∈ done.map (·.1) := by
    intro used
    unfold firstUndefinedRewriter
    rw [List.find?_eq_none]
    simp
  unfold checkRewritersInTransform
  simp only
  cases h1 : firstUndefinedRewriter (done.map (·.1)) info.usedRewriters with
  | some x =>
    simp only [reduceCtorEq, false_iff, not_and]
    intro hh
    rw [(hfu _).mpr hh] at h1; cases h1
  | none =>
    simp only [List.findSome?_eq_none_iff]
    constructor
    · intro hh
      exact ⟨(hfu _).mp h1, fun rw hrw => (hfu _).mp (hh rw hrw)⟩
    · intro hh rw hrw
      exact (hfu _).mpr (hh.2 rw hrw)

/-! ## the whole document -/

def rewritersOf (doc : SDoc) : List SRewriter := doc.rewriters.getD []

theorem rewriterIds_eq (doc : SDoc) : rewriterIds doc = (rewritersOf doc).map (·.id) := by
  unfold rewriterIds rewritersOf
  cases doc.rewriters <;> rfl

/-- every utility of the document, in registration order of the cores -/
def fullScope (doc : SDoc) : Scope := scopeAfter (utilsOf doc) (rewritersOf doc)

/-- every rewriter a `rewrite` transformation names — in the rule or in a rewriter — is declared -/
def RewritersResolve (doc : SDoc) : Prop :=
  (∀ r ∈ usedRewritersOf doc.core, r ∈ rewriterIds doc) ∧
  ∀ rw ∈ rewritersOf doc, ∀ r ∈ usedRewritersOf rw.core, r ∈ rewriterIds doc

/-- **self-consistency of the whole document** (everything but the potential-kinds clause):
the main core, every rewriter core in the scope the loader gives it — the utilities of the rule
and of the rewriters before it are visible, the variables the rule CAPTURES (`Captured`: by a
pattern of the rule, of a utility or of a constraint; NOT the keys of its `transform` section, whose
texts a rewriter's fix cannot see — FIX_C12_3) may be used by a rewriter's fix — and the rewriter
references.  Global utilities are what `doc.globals` lists: the
loader of a rule file only resolves against them. -/
structure ConsistentDoc (doc : SDoc) : Prop where
  main : CoreConsistent doc.globals [] (fun _ => False) doc.core
  rewriters : RewritersConsistent doc.globals (Captured doc) (utilsOf doc) [] (rewritersOf doc)
  rewritersResolve : RewritersResolve doc

/-- **well-formed fields of the whole document**: the per-field facts supplied by the harness
(a pattern parses, a kind / field exists, a regex compiles, a transformation source is a
meta-variable) and the number ranges, for the rule core and every rewriter core -/
structure ParsesOK (doc : SDoc) : Prop where
  main : CoreParses doc.expando doc.core
  rewriters : ∀ rw ∈ rewritersOf doc, CoreParses doc.expando rw.core

theorem definedIn_main_iff (doc : SDoc) (v : Name) : DefinedIn ([] ++ utilsOfCore doc.core) doc.core v ↔ DefinedBy doc v := by
  simp only [List.nil_append]; rfl

theorem mem_info_definedVars_iff (doc : SDoc) {reg : Registry} (hm : RegMatches reg (utilsOf doc)) (v : Name) :
    v ∈ (coreInfoOf Fixes.all reg doc.core).definedVars ↔ Available doc v := by
  have := mem_vars_iff_definedIn doc.globals doc.core hm v
  unfold Available
  rw [← show DefinedIn (utilsOf doc) doc.core v ↔ DefinedBy doc v from Iff.rfl, ← this]
  simp only [coreInfoOf, CheckInput.vars0, CheckInput.localUtilVars, checkInputOf, localUtilVars, List.mem_append]

/-- `RuleCore::captured_vars()` of the main core = `Captured`: no transformation key -/
theorem mem_info_capturedVars_iff (doc : SDoc) {reg : Registry} (hm : RegMatches reg (utilsOf doc)) (v : Name) :
    v ∈ (coreInfoOf Fixes.all reg doc.core).capturedVars ↔ Captured doc v := by
  have := mem_vars_iff_definedIn doc.globals doc.core hm v
  unfold Captured
  rw [← show DefinedIn (utilsOf doc) doc.core v ↔ DefinedBy doc v from Iff.rfl, ← this]
  simp only [coreInfoOf, CheckInput.vars0, CheckInput.localUtilVars, checkInputOf, localUtilVars, List.mem_append]

/-- the upper variables the repaired loader hands to `register_rewriters` -/
theorem rewriterUpper_all (info : CoreInfo) : rewriterUpper Fixes.all info = info.capturedVars := rfl

/-- the upper variables of the released code: `defined_vars()`, transformation keys included -/
theorem rewriterUpper_pinned (fx : Fixes) (h : fx.rewriterCaptured = false) (info : CoreInfo) :
    rewriterUpper fx info = info.definedVars := by
  simp [rewriterUpper, h]

/-- `defined_vars()` = `captured_vars()` + the transformation keys -/
theorem coreInfoOf_definedVars (fx : Fixes) (reg : Registry) (core : SCore) :
    (coreInfoOf fx reg core).definedVars = (coreInfoOf fx reg core).capturedVars ++ transformKeys core := rfl

/-- the consistent old-style summary of the main core follows from the new one -/
theorem ConsistentDoc.main_refs {doc : SDoc} (h : ConsistentDoc doc) : ∀ id, RefersTo doc id → Resolves doc id := by
  intro id hr
  have := h.main.refsResolve id (by simpa [RefersToCore, RefersTo, utilsOf, utilsOfCore, expansionsOf] using hr)
  simpa [ResolvesIn, Resolves, utilsOf, utilsOfCore] using this

theorem loadRewriters_ok_iff (doc : SDoc) {reg : Registry} (hm : RegMatches reg (utilsOf doc)) :
    (∃ reg' done, loadRewriters Fixes.all doc reg (coreInfoOf Fixes.all reg doc.core) = .ok (reg', done)) ↔
      (∀ rw ∈ rewritersOf doc, CoreParses doc.expando rw.core) ∧
      RewritersConsistent doc.globals (Captured doc) (utilsOf doc) [] (rewritersOf doc) ∧
      RewritersResolve doc := by
  have hup : ∀ v, v ∈ rewriterUpper Fixes.all (coreInfoOf Fixes.all reg doc.core) ↔ Captured doc v :=
    mem_info_capturedVars_iff doc hm
  unfold loadRewriters RewritersResolve
  rw [rewriterIds_eq]
  unfold rewritersOf
  cases hr : doc.rewriters with
  | none =>
    have hca : Fixes.all.rewriterCheckAlways = true := rfl
    simp only [hca, ↓reduceIte, Option.getD_none, List.not_mem_nil, false_imp_iff, implies_true,
      RewritersConsistent, true_and, List.map_nil, and_true]
    have := checkRewriters_none_iff (coreInfoOf Fixes.all reg doc.core) []
    simp only [List.map_nil, List.not_mem_nil, false_imp_iff, implies_true, and_true] at this
    rw [coreInfoOf_usedRewriters] at this
    cases hc : checkRewritersInTransform (coreInfoOf Fixes.all reg doc.core) [] with
    | none =>
      simp only
      exact ⟨fun _ => this.mp hc, fun _ => ⟨reg, [], rfl⟩⟩
    | some x =>
      simp only
      constructor
      · rintro ⟨_, _, h⟩; cases h
      · intro hh
        rw [this.mpr hh] at hc; cases hc
  | some rws =>
    simp only [Option.getD_some]
    have hiff := rewriters_ok_iff doc.expando doc.globals (rewriterUpper Fixes.all (coreInfoOf Fixes.all reg doc.core)) rws [] hm
    simp only [List.map_nil] at hiff
    cases hreg : registerRewriters Fixes.all doc.expando doc.globals (rewriterUpper Fixes.all (coreInfoOf Fixes.all reg doc.core)) rws reg [] with
    | err e =>
      simp only
      constructor
      · rintro ⟨_, _, h⟩; cases h
      · rintro ⟨h1, h2, _⟩
        obtain ⟨r', d', h'⟩ := hiff.mpr ⟨h1, h2.congr_upper (fun v => (hup v).symm)⟩
        rw [hreg] at h'; cases h'
    | panic s =>
      simp only
      constructor
      · rintro ⟨_, _, h⟩; cases h
      · rintro ⟨h1, h2, _⟩
        obtain ⟨r', d', h'⟩ := hiff.mpr ⟨h1, h2.congr_upper (fun v => (hup v).symm)⟩
        rw [hreg] at h'; cases h'
    | ok p =>
      obtain ⟨reg1, done1⟩ := p
      simp only
      obtain ⟨h1, h2⟩ := hiff.mp ⟨reg1, done1, hreg⟩
      obtain ⟨_, hdone⟩ := rewriters_ok_post _ _ _ rws [] done1 hm hreg
      simp only [List.map_nil, List.nil_append] at hdone
      have hids : done1.map (·.1) = rws.map (·.id) := by
        have := congrArg (List.map (·.1)) hdone
        simpa [List.map_map, Function.comp_def] using this
      have hused : (∀ p ∈ done1, ∀ r ∈ p.2.usedRewriters, r ∈ rws.map (·.id)) ↔
          ∀ rw ∈ rws, ∀ r ∈ usedRewritersOf rw.core, r ∈ rws.map (·.id) := by
        constructor
        · intro hh rw hrw r hr'
          have : (rw.id, usedRewritersOf rw.core) ∈ done1.map (fun p => (p.1, p.2.usedRewriters)) := by
            rw [hdone]; exact List.mem_map.mpr ⟨rw, hrw, rfl⟩
          obtain ⟨p, hp, he⟩ := List.mem_map.mp this
          injection he with _ he2
          exact hh p hp r (he2 ▸ hr')
        · intro hh p hp r hr'
          have : (p.1, p.2.usedRewriters) ∈ rws.map (fun rw => (rw.id, usedRewritersOf rw.core)) := by
            rw [← hdone]; exact List.mem_map.mpr ⟨p, hp, rfl⟩
          obtain ⟨rw, hrw, he⟩ := List.mem_map.mp this
          injection he with _ he2
          exact hh rw hrw r (he2 ▸ hr')
      have hcr := checkRewriters_none_iff (coreInfoOf Fixes.all reg doc.core) done1
      rw [hids, coreInfoOf_usedRewriters, hused] at hcr
      cases hc : checkRewritersInTransform (coreInfoOf Fixes.all reg doc.core) done1 with
      | none =>
        simp only
        exact ⟨fun _ => ⟨h1, h2.congr_upper hup, hcr.mp hc⟩, fun _ => ⟨reg1, done1, rfl⟩⟩
      | some x =>
        simp only
        constructor
        · rintro ⟨_, _, h⟩; cases h
        · rintro ⟨_, _, h3⟩
          rw [hcr.mpr h3] at hc; cases hc

theorem loadRewriters_post (doc : SDoc) {reg reg' : Registry} {done : List (Name × CoreInfo)}
    (hm : RegMatches reg (utilsOf doc))
    (h : loadRewriters Fixes.all doc reg (coreInfoOf Fixes.all reg doc.core) = .ok (reg', done)) :
    RegMatches reg' (fullScope doc) := by
  unfold fullScope rewritersOf
  cases hr : doc.rewriters with
  | none =>
    simp only [loadRewriters, hr] at h
    simp only [Option.getD_none]
    have hca : Fixes.all.rewriterCheckAlways = true := rfl
    simp only [hca, ↓reduceIte] at h
    cases hc : checkRewritersInTransform (coreInfoOf Fixes.all reg doc.core) [] with
    | some x => rw [hc] at h; cases h
    | none =>
      rw [hc] at h
      injection h with h; injection h with h1 _
      subst h1; simpa [scopeAfter] using hm
  | some rws =>
    simp only [loadRewriters, hr] at h
    simp only [Option.getD_some]
    cases hreg : registerRewriters Fixes.all doc.expando doc.globals (rewriterUpper Fixes.all (coreInfoOf Fixes.all reg doc.core)) rws reg [] with
    | err e => rw [hreg] at h; cases h
    | panic s => rw [hreg] at h; cases h
    | ok p =>
      obtain ⟨reg1, done1⟩ := p
      rw [hreg] at h
      simp only at h
      cases hc : checkRewritersInTransform (coreInfoOf Fixes.all reg doc.core) done1 with
      | some x => rw [hc] at h; cases h
      | none =>
        rw [hc] at h
        injection h with h; injection h with h1 _
        subst h1
        exact (rewriters_ok_post _ _ _ rws [] done1 hm hreg).1

/-- the potential-kinds clause, as the loader evaluates it: on the registry it has built -/
def KindsOnRegistry (doc : SDoc) : Prop :=
  ∀ reg info reg' done,
    getMatcher Fixes.all doc.expando doc.globals [] doc.core .normal = .ok (reg, info) →
    loadRewriters Fixes.all doc reg info = .ok (reg', done) →
    potKinds reg' doc.globals doc.core.rule ≠ none

/-- **acceptance is exactly well-formed fields + consistency + potential kinds** (the kinds
clause still phrased on the loader's registry; `load_ok_iff_consistent` makes it declarative) -/
theorem load_ok_iff_registry (doc : SDoc) :
    (∃ L, load doc = .ok L) ↔ ParsesOK doc ∧ ConsistentDoc doc ∧ KindsOnRegistry doc := by
  have hcore := core_ok_iff doc.expando doc.globals RegMatches.nil doc.core .normal trivial
  simp only [hintUpper, List.not_mem_nil] at hcore
  constructor
  · rintro ⟨L, h⟩
    obtain ⟨reg, info, reg', done, hg, hrw, hk⟩ := loadWith_ok h
    obtain ⟨hp, hc⟩ := hcore.mp ⟨reg, info, hg⟩
    obtain ⟨hm, hinfo⟩ := core_ok_post RegMatches.nil hg
    simp only [List.nil_append] at hm
    subst hinfo
    obtain ⟨h1, h2, h3⟩ := (loadRewriters_ok_iff doc hm).mp ⟨reg', done, hrw⟩
    refine ⟨⟨hp, h1⟩, ⟨hc, h2, h3⟩, ?_⟩
    intro r i r' d hg' hrw'
    rw [hg] at hg'
    injection hg' with hg'
    injection hg' with e1 e2
    subst e1; subst e2
    rw [hrw] at hrw'
    injection hrw' with hrw'
    injection hrw' with e1 _
    subst e1
    rw [hk]; simp
  · rintro ⟨hp, hc, hk⟩
    obtain ⟨reg, info, hg⟩ := hcore.mpr ⟨hp.main, hc.main⟩
    obtain ⟨hm, hinfo⟩ := core_ok_post RegMatches.nil hg
    simp only [List.nil_append] at hm
    subst hinfo
    obtain ⟨reg', done, hrw⟩ := (loadRewriters_ok_iff doc hm).mpr ⟨hp.rewriters, hc.rewriters, hc.rewritersResolve⟩
    have := hk reg _ reg' done hg hrw
    cases hkk : potKinds reg' doc.globals doc.core.rule with
    | none => exact absurd hkk this
    | some ks =>
      refine ⟨{ registry := reg', core := coreInfoOf Fixes.all reg doc.core, rewriters := done, kinds := ks }, ?_⟩
      simp only [load, loadWith, hg, hrw, hkk]

/-- **C12, whole document.** A document the loader accepts is well formed and self-consistent:
the main core, every rewriter core in its scope, and all rewriter references. -/
theorem accept_vars_defined_doc (doc : SDoc) (L : Loaded) (h : load doc = .ok L) :
    ConsistentDoc doc ∧ ParsesOK doc ∧ Consistent doc :=
  have hh := (load_ok_iff_registry doc).mp ⟨L, h⟩
  ⟨hh.2.1, hh.1, accept_vars_defined doc L h⟩

/-! ## the potential-kinds clause, declaratively -/

/-- **the rule can only match a known set of node kinds** (`MissingPotentialKinds` otherwise):
`Pos` over all utilities of the document -/
def HasKinds (doc : SDoc) : Prop := Pos (fullScope doc) doc.globals doc.core.rule

/-- no local utility (of the rule or of a rewriter) is named like a registered global utility.
(With such a clash the loader resolves a name differently before and after the clashing
utility is registered; the declarative kinds clause is stated for documents without it.) -/
def NoGlobalShadow (doc : SDoc) : Prop :=
  ∀ k ∈ (fullScope doc).map (·.1), k ∉ doc.globals.map (·.id)

theorem withUtils_inv {globals : List GlobalUtil} {utils : List (Name × SRule)} {reg reg' : Registry}
    (h : withUtils Fixes.all globals utils reg = .ok reg') :
    ∃ order added, getOrder (Loader.utilGraph Fixes.all utils) = .ok order ∧ reg' = reg ++ added ∧
      Registered Fixes.all globals utils reg order added := by
  unfold withUtils at h
  cases ho : getOrder (utils.map fun kv => (kv.1, depIds Fixes.all kv.2)) with
  | error e => rw [ho] at h; cases e <;> cases h
  | ok order =>
    rw [ho] at h
    obtain ⟨added, h1, hR⟩ := registerUtils_inv Fixes.all globals utils order reg reg' h
    exact ⟨order, added, ho, h1, hR⟩

/-- registering one core's utilities keeps the stored kinds coherent with `Pos` -/
theorem core_kinv {S before later : Scope} {G : List GlobalUtil} {upper : Name → Prop} {core : SCore}
    {reg reg' : Registry}
    (hns : ∀ k ∈ S.map (·.1), k ∉ G.map (·.id))
    (hS : S = before ++ utilsOfCore core ++ later)
    (hm : RegMatches reg before) (hk : KInv S G reg) (hc : CoreConsistent G before upper core)
    (henv : deserializeEnv Fixes.all G reg core = .ok reg') : KInv S G reg' := by
  unfold deserializeEnv at henv
  cases hu : core.utils with
  | none =>
    rw [hu] at henv
    injection henv with henv
    subst henv; exact hk
  | some utils =>
    rw [hu] at henv
    have hutils : utilsOfCore core = utils := by unfold utilsOfCore; rw [hu]; rfl
    rw [hutils] at hS
    obtain ⟨order, added, ho, h1, hR⟩ := withUtils_inv henv
    obtain ⟨hord, hkeys⟩ := getOrder_ok _ order ho
    subst h1
    apply kinv_extend added reg hk
    intro pre u post hsplit
    have hu' : u ∈ added := by rw [hsplit]; simp
    have hnb : u.id ∉ before.map (·.1) := fun hb => hR.fresh u hu' ((hm.ids u.id).mpr hb)
    have hl_scope : alookup u.id (before ++ utils) = some u.rule := by
      rw [alookup_append, alookup_none_of_not_mem u.id before hnb]
      exact hR.rules u hu'
    have hl_S : alookup u.id S = some u.rule := by
      rw [hS, alookup_append, hl_scope]
    refine ⟨hR.kinds pre u post hsplit, hl_S, ?_⟩
    intro id hrs
    by_cases hid : id ∈ utils.map (·.1)
    · -- a utility of the same map: the topological order registered it before `u`
      left
      have hedge_deps : alookup u.id (Loader.utilGraph Fixes.all utils) = some (depIds Fixes.all u.rule) := by
        unfold Loader.utilGraph
        rw [alookup_map_snd', hR.rules u hu']; rfl
      have horder : order = pre.map (·.id) ++ u.id :: post.map (·.id) := by
        rw [← hR.ids_eq, hsplit]; simp
      have := hord.before (pre.map (·.id)) u.id (post.map (·.id)) horder (depIds Fixes.all u.rule) hedge_deps id
        ((mem_depIds_iff Fixes.all u.rule id).mpr hrs) ((utilGraph_keys Fixes.all utils id).mpr hid)
      simp only [List.map_append, List.mem_append]
      exact Or.inr this
    · -- not of this map: it resolves in the scope before, or it is a global utility
      have href : RefersToCore (before ++ utilsOfCore core) core id := by
        rw [hutils]
        exact Or.inr (Or.inr (Or.inl ⟨u.id, u.rule, hl_scope, hrs.refs⟩))
      have hres := hc.refsResolve id href
      rw [hutils] at hres
      rcases hres with hres | hres
      · left
        simp only [List.map_append, List.mem_append] at hres ⊢
        rcases hres with hres | hres
        · exact Or.inl ((hm.ids id).mpr hres)
        · exact absurd hres hid
      · right
        apply alookup_none_of_not_mem
        intro hmem
        exact hns id hmem hres

/-- ... and so does registering the rewriters one after the other -/
theorem rewriters_kinv {S : Scope} {G : List GlobalUtil} (expando : Char) (upper : List Name) (upperP : Name → Prop)
    (hns : ∀ k ∈ S.map (·.1), k ∉ G.map (·.id)) :
    ∀ (rws : List SRewriter) {reg reg' : Registry} {before : Scope} (ids : List Name)
      (done done' : List (Name × CoreInfo)),
      RegMatches reg before → KInv S G reg → S = scopeAfter before rws →
      RewritersConsistent G upperP before ids rws →
      registerRewriters Fixes.all expando G upper rws reg done = .ok (reg', done') → KInv S G reg'
  | [], reg, reg', before, ids, done, done', _, hk, _, _, h => by
    simp only [registerRewriters] at h
    injection h with h; injection h with h1 _
    subst h1; exact hk
  | rw :: rest, reg, reg', before, ids, done, done', hm, hk, hS, hc, h => by
    obtain ⟨_, _, _, hcc, hcr⟩ := hc
    simp only [registerRewriters] at h
    split at h
    · cases h
    · split at h
      · cases h
      · cases h
      · rename_i reg1 info hg
        split at h
        · split at h <;> cases h
        · split at h
          · split at h <;> cases h
          · obtain ⟨henv, _⟩ := (getMatcher_ok_iff_stages _ _ _ _ _ _ _).mp hg
            obtain ⟨hm1, _⟩ := core_ok_post hm hg
            have hk1 : KInv S G reg1 :=
              core_kinv (later := rest.flatMap fun r => utilsOfCore r.core) hns
                (by rw [hS]; simp [scopeAfter]) hm hk hcc henv
            exact rewriters_kinv expando upper upperP hns rest _ _ done' hm1 hk1
              (by rw [hS, scopeAfter_cons]) hcr h

/-- on the registry the loader has built, the computed kinds are `some` exactly when `HasKinds` -/
theorem kinds_iff_hasKinds (doc : SDoc) (hns : NoGlobalShadow doc) (hc : ConsistentDoc doc)
    {reg reg' : Registry} {info : CoreInfo} {done : List (Name × CoreInfo)}
    (hg : getMatcher Fixes.all doc.expando doc.globals [] doc.core .normal = .ok (reg, info))
    (hrw : loadRewriters Fixes.all doc reg info = .ok (reg', done)) :
    potKinds reg' doc.globals doc.core.rule ≠ none ↔ HasKinds doc := by
  obtain ⟨henv, _⟩ := (getMatcher_ok_iff_stages _ _ _ _ _ _ _).mp hg
  obtain ⟨hm, hinfo⟩ := core_ok_post RegMatches.nil hg
  simp only [List.nil_append] at hm
  subst hinfo
  have hm' := loadRewriters_post doc hm hrw
  -- coherence of the main block
  have hk0 : KInv (fullScope doc) doc.globals reg :=
    core_kinv (before := []) (later := (rewritersOf doc).flatMap fun r => utilsOfCore r.core) hns
      (by simp [fullScope, scopeAfter, utilsOf, utilsOfCore]) RegMatches.nil
      (fun u hu => by cases hu) hc.main henv
  -- coherence after the rewriters
  have hk' : KInv (fullScope doc) doc.globals reg' := by
    unfold loadRewriters at hrw
    cases hr : doc.rewriters with
    | none =>
      rw [hr] at hrw
      simp only at hrw
      split at hrw
      · split at hrw
        · cases hrw
        · injection hrw with hrw; injection hrw with h1 _
          subst h1; exact hk0
      · injection hrw with hrw; injection hrw with h1 _
        subst h1; exact hk0
    | some rws =>
      rw [hr] at hrw
      simp only at hrw
      cases hreg : registerRewriters Fixes.all doc.expando doc.globals (rewriterUpper Fixes.all (coreInfoOf Fixes.all reg doc.core)) rws reg [] with
      | err e => rw [hreg] at hrw; cases hrw
      | panic s => rw [hreg] at hrw; cases hrw
      | ok p =>
        obtain ⟨reg1, done1⟩ := p
        rw [hreg] at hrw
        simp only at hrw
        have hreq : reg1 = reg' := by
          split at hrw
          · cases hrw
          · injection hrw with hrw; injection hrw with h1 _
        subst hreq
        have hrws : rewritersOf doc = rws := by unfold rewritersOf; rw [hr]; rfl
        exact rewriters_kinv doc.expando _ (Captured doc) hns rws [] [] done1 hm hk0
          (by unfold fullScope; rw [hrws]; rfl) (hrws ▸ hc.rewriters) hreg
  unfold HasKinds
  apply potKinds_iff_pos hk'
  intro id hrs
  have href : RefersToCore ([] ++ utilsOfCore doc.core) doc.core id := Or.inl hrs.refs
  rcases hc.main.refsResolve id href with hres | hres
  · left
    rw [hm'.ids id]
    simp only [List.nil_append] at hres
    unfold fullScope scopeAfter
    simp only [List.map_append, List.mem_append]
    exact Or.inl hres
  · right
    apply alookup_none_of_not_mem
    intro hmem
    exact hns id hmem hres

/-- **C12, completeness: acceptance is EXACTLY well-formed fields + consistency.**  For a
document without a local utility named like a global one, the (repaired) loader accepts it
**iff** every field is well formed (`ParsesOK`: patterns parse, kinds / fields exist, regexes
compile, positions and ranges are in range, every rule object has a matcher), the document is
self-consistent (`ConsistentDoc`: variables, utility and rewriter references, acyclicity, for the
rule core and every rewriter core) and the rule has potential kinds (`HasKinds`). -/
theorem load_ok_iff_consistent (doc : SDoc) (hns : NoGlobalShadow doc) :
    (∃ L, load doc = .ok L) ↔ ParsesOK doc ∧ ConsistentDoc doc ∧ HasKinds doc := by
  constructor
  · rintro ⟨L, h⟩
    obtain ⟨hp, hc, _⟩ := (load_ok_iff_registry doc).mp ⟨L, h⟩
    obtain ⟨reg, info, reg', done, hg, hrw, hk⟩ := loadWith_ok h
    exact ⟨hp, hc, (kinds_iff_hasKinds doc hns hc hg hrw).mp (by rw [hk]; simp)⟩
  · rintro ⟨hp, hc, hk⟩
    exact (load_ok_iff_registry doc).mpr ⟨hp, hc, fun reg info reg' done hg hrw =>
      (kinds_iff_hasKinds doc hns hc hg hrw).mpr hk⟩

/-- the converse of acceptance, as rejection: a document that is ill formed, inconsistent or
without potential kinds is not accepted -/
theorem reject_perturbed_doc (doc : SDoc) (hns : NoGlobalShadow doc)
    (h : ¬ (ParsesOK doc ∧ ConsistentDoc doc ∧ HasKinds doc)) : ∀ L, load doc ≠ .ok L :=
  fun L hl => h ((load_ok_iff_consistent doc hns).mp ⟨L, hl⟩)

end AGV.C12
