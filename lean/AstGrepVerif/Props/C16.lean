/-
C16 — everything the CLI prints about a match agrees with the bytes on disk.
Property theorems only; helper lemmas live in `AstGrepVerif/Lemmas/{Bytes,Print,Lines,Report,JsonFrame}.lean`.

The model (`Model/{Bytes,Print,JsonFrame}.lean`) transcribes the Rust code; what it is proved
against here is written independently of it:
* a character column is a *number of characters* of the decoded text (`Utf8Like`, `encode`),
* a line number is a *number of newlines*,
* "whole lines" are slices that start at `IsLineStart` and end at `IsLineEnd`,
* the `k`-th line of a file is the `k`-th piece of `split('\n')` (`fileLine`),
* well-formed output is what a token-level JSON-array / NDJSON recogniser accepts
  (`JsonFrame.parseArray`, `JsonFrame.parseStream`).
-/
import AstGrepVerif.Model.Bytes
import AstGrepVerif.Model.Print
import AstGrepVerif.Model.JsonFrame
import AstGrepVerif.Lemmas.Bytes
import AstGrepVerif.Lemmas.Utf8
import AstGrepVerif.Lemmas.Print
import AstGrepVerif.Lemmas.Lines
import AstGrepVerif.Lemmas.Report
import AstGrepVerif.Lemmas.JsonFrame

set_option linter.unusedSimpArgs false
set_option linter.unusedVariables false

namespace AGV.C16

/-! ## positions: line and character column -/

/-- `line` of a position = number of newlines before the offset (tree-sitter's row, which the model
takes from `position_for_offset`'s loop) -/
theorem position_line (src : Bytes) (off : Nat) :
    lineOf src off = (src.take off).count NL ∧
    (off ≤ src.length → ∃ col, positionForOffset src off = some ((src.take off).count NL, col)) := by
  refine ⟨lineOf_eq src off, fun h => ?_⟩
  refine ⟨(posScan (src.take off) 0 0).2, ?_⟩
  simp only [positionForOffset, h, ↓reduceIte, Option.some.injEq]
  have := posScan_row (src.take off) 0 0
  rw [Nat.zero_add] at this
  rw [← this]

/-- byte-level reading of `get_char_column`: the number of non-continuation bytes between the
last newline before the offset (or the start of the text) and the offset -/
theorem charColumn_bytes (src : Bytes) (off : Nat) (h : off ≤ src.length) :
    getCharColumn src off = some (charCount ((src.take off).reverse.takeWhile (· ≠ NL))) :=
  getCharColumn_bytes src off h

/-- **`column` is a character column.** When the text is the encoding of a character list and the
offset is the boundary after the characters `pre`, `get_char_column` returns the number of
characters since the last newline character — for any encoder with UTF-8's shape. -/
theorem charColumn_spec (enc1 : Char → Bytes) (henc : Utf8Like enc1) (pre post : List Char) :
    getCharColumn (encode enc1 (pre ++ post)) (encode enc1 pre).length
      = some (pre.reverse.takeWhile (· ≠ '\n')).length := by
  rw [encode_append, getCharColumn_bytes _ _ (by simp)]
  rw [List.take_left' rfl, reverse_encode, takeWhile_reverse_encode henc]

/-- `chars().count()` of a slice that is the encoding of `cs` is `cs.length`
(used for `charCount.leading` / `charCount.trailing`) -/
theorem charCount_spec (enc1 : Char → Bytes) (henc : Utf8Like enc1) (cs : List Char) :
    charCount (encode enc1 cs) = cs.length :=
  charCount_encode henc cs

/-- the real UTF-8 encoder (Lean core's `String.utf8EncodeChar`, 1- to 4-byte images) has the
assumed shape, so the interface is not vacuous and `charColumn_spec` applies to real text -/
theorem utf8_is_utf8Like : Utf8Like String.utf8EncodeChar := utf8EncodeChar_utf8Like

/-- `column` for real UTF-8: the number of characters since the last `\n`, whatever their width -/
theorem charColumn_utf8 (pre post : List Char) :
    getCharColumn (encode String.utf8EncodeChar (pre ++ post)) (encode String.utf8EncodeChar pre).length
      = some (pre.reverse.takeWhile (· ≠ '\n')).length :=
  charColumn_spec _ utf8_is_utf8Like pre post

/-- real UTF-8 bytes of `"é\nab𝒳c"`: the column of `c` (byte offset 10) is 3, not 6 -/
example : getCharColumn [0xC3, 0xA9, 0x0A, 0x61, 0x62, 0xF0, 0x9D, 0x92, 0xB3, 0x63] 9 = some 3 := by
  decide

/-! ## `display_context`: whole lines around the match -/

/-- **`lines` is a slice of whole lines.** For a node `s..e` inside the text, `display_context`
does not panic and `leading ++ matched ++ trailing = src[ls..te)` where `ls` is `0` or follows a
newline, `te` is the end of the text or at a newline, `matched = src[s..e)`; `leading` holds
exactly `min before (lines above the match)` newlines — i.e. that many full context lines —,
`trailing` exactly `min after (newlines after the match)`; and `start_line` is the number of
newlines before `ls`. -/
theorem displayContext_spec (src : Bytes) (s e before after : Nat) (hse : s ≤ e) (he : e ≤ src.length) :
    ∃ ls te d, displayContext src s e before after = some d ∧
      ls ≤ s ∧ e ≤ te ∧ te ≤ src.length ∧
      d.leading = slice src ls s ∧ d.matched = slice src s e ∧ d.trailing = slice src e te ∧
      d.leading ++ d.matched ++ d.trailing = slice src ls te ∧
      (ls = 0 ∨ src[ls - 1]? = some NL) ∧
      (te = src.length ∨ src[te]? = some NL) ∧
      d.leading.count NL = min before ((src.take s).count NL) ∧
      d.trailing.count NL = min after ((src.drop e).count NL) ∧
      d.startLine = (src.take ls).count NL := by
  obtain ⟨ls, te, h1, h2, hdc, hLS, hLE, hc1, hc2⟩ := displayContext_index src s e before after hse he
  refine ⟨ls, te, _, hdc, h1, h2, hLE.1, rfl, rfl, rfl, ?_, hLS.2, hLE.2, ?_, hc2, lineOf_eq src ls⟩
  · simp only
    rw [slice_append src ls s e h1 hse, slice_append src ls e te (by omega) h2]
  · simp only; rw [hc1, lineOf_eq]

/-- `start_line` is `line(start) - min before line(start)`: the reported first line is `before`
lines above the match, or line 0 when the file has fewer lines above -/
theorem displayContext_startLine (src : Bytes) (s e before after : Nat) (hse : s ≤ e)
    (he : e ≤ src.length) :
    ∃ d, displayContext src s e before after = some d ∧
      d.startLine = lineOf src s - min before (lineOf src s) := by
  obtain ⟨ls, te, h1, h2, hdc, hLS, hLE, hc1, hc2⟩ := displayContext_index src s e before after hse he
  refine ⟨_, hdc, ?_⟩
  simp only
  have : lineOf src s = lineOf src ls + (slice src ls s).count NL := by
    rw [lineOf_eq, lineOf_eq, ← take_append_slice src ls s h1, List.count_append]
  omega

/-- **the stated edge.** With no trailing context the `trailing` text is everything up to the next
newline — also when the node itself ends right after a newline, in which case this is the *next*
line, which the node does not touch: `lines` then shows one line more than the node covers. -/
theorem displayContext_trailing_zero (src : Bytes) (s e before : Nat) (hse : s ≤ e)
    (he : e ≤ src.length) :
    ∃ d, displayContext src s e before 0 = some d ∧
      d.trailing = (src.drop e).takeWhile (· ≠ NL) := by
  obtain ⟨ls, te, h1, h2, hdc, hLS, hLE, hc1, hc2⟩ := displayContext_index src s e before 0 hse he
  refine ⟨_, hdc, ?_⟩
  simp only
  have hno : NL ∉ slice src e te := by
    have : (slice src e te).count NL = 0 := by rw [hc2]; simp
    exact List.count_eq_zero.mp this
  have hsplit : src.drop e = slice src e te ++ src.drop te := (slice_append_drop src e te h2).symm
  rw [hsplit]
  rcases drop_of_isLineEnd src te hLE with hB | ⟨B', hB⟩
  · rw [hB, List.takeWhile_append_of_pos (fun x hx => by
      simp only [ne_eq, decide_eq_true_eq]; intro hxe; exact hno (hxe ▸ hx))]
    simp
  · rw [hB, List.takeWhile_append_of_pos (fun x hx => by
      simp only [ne_eq, decide_eq_true_eq]; intro hxe; exact hno (hxe ▸ hx))]
    simp

/-- the edge on `"a\nb\n"`, node `"a\n"` (0..2): `lines` is `"a\nb"` although the node ends
before `b`'s line; with one line of trailing context it is `"a\nb\n"` (lines 0–2, the last one
empty) -/
example : displayContext [0x61, 0x0A, 0x62, 0x0A] 0 2 0 0
    = some { matched := [0x61, 0x0A], leading := [], trailing := [0x62], startLine := 0 } := by decide
example : (displayContext [0x61, 0x0A, 0x62, 0x0A] 0 2 0 1).map (·.trailing) = some [0x62, 0x0A] := by
  decide
/-- fewer lines above than requested: `-B 3` on line 1 starts at line 0 -/
example : (displayContext [0x61, 0x0A, 0x62, 0x0A, 0x63] 2 3 3 0).map (fun d => (d.leading, d.startLine))
    = some ([0x61, 0x0A], 0) := by decide
/-- outside the hypothesis: a node range beyond the text is the panic outcome -/
example : displayContext [0x61] 0 2 0 0 = none := by decide

/-! ## JSON records -/

/-- **every position-dependent field of a JSON record** agrees with the text: `text` is
`src[s..e)`, `range.byteOffset` is `s..e`, `start`/`end` lines are the numbers of newlines before
`s`/`e`, columns are the numbers of non-continuation bytes since the last newline (characters, by
`charColumn_spec`), `lines` is a slice of whole lines containing `s..e`, and `charCount` counts the
characters of `lines` before and after the match. -/
theorem record_fields (src : Bytes) (s e before after : Nat) (hse : s ≤ e) (he : e ≤ src.length) :
    ∃ ls te r, matchJSON src s e before after = some r ∧
      ls ≤ s ∧ e ≤ te ∧ te ≤ src.length ∧
      r.text = slice src s e ∧
      r.range.startByte = s ∧ r.range.endByte = e ∧
      r.range.start.line = (src.take s).count NL ∧
      r.range.stop.line = (src.take e).count NL ∧
      r.range.start.column = charCount ((src.take s).reverse.takeWhile (· ≠ NL)) ∧
      r.range.stop.column = charCount ((src.take e).reverse.takeWhile (· ≠ NL)) ∧
      r.lines = slice src ls te ∧
      (ls = 0 ∨ src[ls - 1]? = some NL) ∧ (te = src.length ∨ src[te]? = some NL) ∧
      r.leadingCount = charCount (slice src ls s) ∧
      r.trailingCount = charCount (slice src e te) := by
  obtain ⟨ls, te, h1, h2, hdc, hLS, hLE, hc1, hc2⟩ := displayContext_index src s e before after hse he
  have hs : s ≤ src.length := Nat.le_trans hse he
  refine ⟨ls, te, ?_⟩
  simp only [matchJSON, hdc, getRange, posAt, Position.column, getCharColumn_bytes src s hs,
    getCharColumn_bytes src e he, Option.bind_eq_bind, Option.bind_some, Option.pure_def]
  refine ⟨_, rfl, h1, h2, hLE.1, rfl, rfl, rfl, lineOf_eq src s, lineOf_eq src e, rfl, rfl, ?_,
    hLS.2, hLE.2, rfl, rfl⟩
  simp only
  rw [slice_append src ls s e h1 hse, slice_append src ls e te (by omega) h2]

/-- meta-variable entries and labels: text and range of the captured node agree likewise -/
theorem matchNode_fields (src : Bytes) (s e : Nat) (hse : s ≤ e) (he : e ≤ src.length) :
    ∃ n, jsonMatchNode src s e = some n ∧ n.text = slice src s e ∧
      n.range.startByte = s ∧ n.range.endByte = e ∧
      n.range.start.line = (src.take s).count NL ∧ n.range.stop.line = (src.take e).count NL ∧
      n.range.start.column = charCount ((src.take s).reverse.takeWhile (· ≠ NL)) ∧
      n.range.stop.column = charCount ((src.take e).reverse.takeWhile (· ≠ NL)) := by
  have hs : s ≤ src.length := Nat.le_trans hse he
  simp only [jsonMatchNode, slice?, hse, he, and_self, ↓reduceIte, getRange, posAt, Position.column,
    getCharColumn_bytes src s hs, getCharColumn_bytes src e he, Option.bind_eq_bind,
    Option.bind_some, Option.pure_def]
  exact ⟨_, rfl, rfl, rfl, rfl, lineOf_eq src s, lineOf_eq src e, rfl, rfl⟩

/-- `"é = f(1)\r\nf(2)"`, node `f(2)` at 11..15 with `-B 1`: line 1, column 0; `lines` is both
lines, 10 characters (not 11 bytes) precede the match -/
example : (matchJSON [0xC3, 0xA9, 0x20, 0x3D, 0x20, 0x66, 0x28, 0x31, 0x29, 0x0D, 0x0A,
                      0x66, 0x28, 0x32, 0x29] 11 15 1 0).map
      (fun r => (r.range.start.line, r.range.start.column, r.range.stop.column, r.leadingCount, r.lines.length))
    = some (1, 0, 4, 10, 15) := by decide

/-! ## JSON framing -/

open JsonFrame in
/-- **the output is well-formed however many buffers arrive.** For any sequence of per-file
record lists (each becomes one buffer through `print_docs`; empty lists are the files without
matches), the token stream written by `before_print; process*; after_print` is accepted by a
JSON-array recogniser (pretty, compact) resp. an NDJSON recogniser (stream), and what it contains
is exactly the records in arrival order. -/
theorem json_frame_wellformed {ρ : Type} (style : JsonStyle) (files : List (List ρ)) :
    (style ≠ .stream → parseArray (run style files) = some files.flatten) ∧
    (style = .stream → parseStream (run style files) = some files.flatten) := by
  rw [run_eq_expected]
  exact ⟨fun h => parseArray_expected style h _, fun h => by subst h; exact parseStream_expected _⟩

open JsonFrame in
/-- token-exact form: `[` records separated by exactly one separator `]` (one record per line for
stream); the output depends on the records only -/
theorem json_frame_exact {ρ : Type} (style : JsonStyle) (files : List (List ρ)) :
    run style files = expected style files.flatten :=
  run_eq_expected style files

open JsonFrame in
/-- empty buffers (files without matches) leave no trace, wherever they arrive -/
theorem json_frame_ignores_empty {ρ : Type} (style : JsonStyle) (files : List (List ρ)) :
    run style files = run style (files.filter (· ≠ [])) := by
  rw [run_eq_expected, run_eq_expected]
  congr 1
  induction files with
  | nil => rfl
  | cons f fs ih =>
    cases f with
    | nil => simpa using ih
    | cons x xs => simp [ih]

open JsonFrame in
/-- how the records are grouped into buffers is irrelevant (reused by C17: any schedule that
delivers the same records in the same order prints the same bytes) -/
theorem json_frame_grouping_irrelevant {ρ : Type} (style : JsonStyle) (f1 f2 : List (List ρ))
    (h : f1.flatten = f2.flatten) : run style f1 = run style f2 := by
  rw [run_eq_expected, run_eq_expected, h]

open JsonFrame in
/-- the invariant on the `matched` flag, as such: after any prefix of the buffers the flag is
set iff a record has been written -/
theorem json_frame_matched_flag {ρ : Type} (style : JsonStyle) (files : List (List ρ)) :
    ((files.map (printDocs style)).foldl process (beforePrint (new style))).matched
      = !files.flatten.isEmpty := by
  have := (inv_foldl style files (beforePrint (new style)) [] (inv_init style)).matched_iff
  simpa using this

open JsonFrame in
example : run JsonStyle.pretty [[], [1, 2], [], [3], []]
    = [.openB, .nl, .record 1, .comma, .nl, .record 2, .comma, .nl, .record 3, .nl, .closeB, .nl] := by
  decide
open JsonFrame in
example : run JsonStyle.stream [[], [1, 2], [], [3], []] = [.record 1, .nl, .record 2, .nl, .record 3] := by
  decide
open JsonFrame in
example : run JsonStyle.compact ([[], []] : List (List Nat)) = [.openB, .closeB, .nl] := by decide
open JsonFrame in
/-- the recogniser is not trivial: a doubled or a missing separator is rejected -/
example : parseArray ([.openB, .record 1, .comma, .comma, .record 2, .closeB] : List (Tok Nat)) = none
    ∧ parseArray ([.openB, .record 1, .record 2, .closeB] : List (Tok Nat)) = none
    ∧ parseArray ([.openB, .record 1, .comma, .closeB] : List (Tok Nat)) = none
    ∧ parseStream ([.record 1, .record 2] : List (Tok Nat)) = none
    ∧ parseStream ([.record 1, .nl, .nl, .record 2] : List (Tok Nat)) = none := by decide

/-! ## the plain-text report -/

/-- the statement at full strength: every `path:num:text` entry of `print_matches_with_prefix`,
for any matches inside the file and any `-A / -B / -C`, is the text of line `num` -/
def PrefixReportFull : Prop :=
  ∀ (src : Bytes) (before after : Nat) (ms : List (Nat × Nat)) (out : List ReportLine),
    (∀ se ∈ ms, se.1 ≤ se.2 ∧ se.2 ≤ src.length) →
    printMatchesWithPrefix src before after ms = some out →
    ∀ x ∈ out, GoodEntry src x

/-- `"#define X 1\nint x = 1;\n#define Y 2\nint y = 2;\n"` (C), matches `#define X 1\n` (0..12)
and `#define Y 2\n` (23..35): the witness that refuted the statement before /repo 0b29009 -/
def witnessSrc : Bytes :=
  [0x23, 0x64, 0x65, 0x66, 0x69, 0x6E, 0x65, 0x20, 0x58, 0x20, 0x31, 0x0A,
   0x69, 0x6E, 0x74, 0x20, 0x78, 0x20, 0x3D, 0x20, 0x31, 0x3B, 0x0A,
   0x23, 0x64, 0x65, 0x66, 0x69, 0x6E, 0x65, 0x20, 0x59, 0x20, 0x32, 0x0A,
   0x69, 0x6E, 0x74, 0x20, 0x79, 0x20, 0x3D, 0x20, 0x32, 0x3B, 0x0A]

/-- what the repaired code prints for the former witness: the four lines `1:#define X 1`,
`2:int x = 1;`, `3:#define Y 2`, `4:int y = 2;` (one merged group; lines 2 and 4 are the next
lines pulled in by `display_context`, see `displayContext_trailing_zero`) — before the repair it
was `1:#define X 1int x = 1;`, `2:#define Y 2int y = 2;` -/
theorem witness_output :
    printMatchesWithPrefix witnessSrc 0 0 [(0, 12), (23, 35)] = some [
      .entry 1 [0x23, 0x64, 0x65, 0x66, 0x69, 0x6E, 0x65, 0x20, 0x58, 0x20, 0x31],
      .entry 2 [0x69, 0x6E, 0x74, 0x20, 0x78, 0x20, 0x3D, 0x20, 0x31, 0x3B],
      .entry 3 [0x23, 0x64, 0x65, 0x66, 0x69, 0x6E, 0x65, 0x20, 0x59, 0x20, 0x32],
      .entry 4 [0x69, 0x6E, 0x74, 0x20, 0x79, 0x20, 0x3D, 0x20, 0x32, 0x3B]] := by
  decide

/-- **the restriction that holds, for every `-A` / `-B` / `-C`.** If no matched text contains
`\r` — it may end with a newline, as C preprocessor directives do —, every entry — through all
merging of adjacent matches by `MatchMerger`, skipped overlapping matches and context lines —
carries the text of line `num` (1-based) of the file, up to the `\r` of a `\r\n` terminator.
Matches need not be sorted: `check_overlapping` either skips or (debug build) panics. -/
theorem prefix_report_lines_partial (src : Bytes) (before after : Nat) (ms : List (Nat × Nat))
    (out : List ReportLine)
    (hms : ∀ se ∈ ms, se.1 ≤ se.2 ∧ se.2 ≤ src.length ∧ CR ∉ slice src se.1 se.2)
    (h : printMatchesWithPrefix src before after ms = some out) :
    ∀ x ∈ out, GoodEntry src x :=
  printMatchesWithPrefix_good src before after ms out hms h

/-- the former witness is inside the theorem now: every entry printed for it is a real line -/
theorem prefix_report_lines_witness_good :
    ∀ x ∈ [ReportLine.entry 1 [0x23, 0x64, 0x65, 0x66, 0x69, 0x6E, 0x65, 0x20, 0x58, 0x20, 0x31],
           .entry 2 [0x69, 0x6E, 0x74, 0x20, 0x78, 0x20, 0x3D, 0x20, 0x31, 0x3B],
           .entry 3 [0x23, 0x64, 0x65, 0x66, 0x69, 0x6E, 0x65, 0x20, 0x59, 0x20, 0x32],
           .entry 4 [0x69, 0x6E, 0x74, 0x20, 0x79, 0x20, 0x3D, 0x20, 0x32, 0x3B]],
      GoodEntry witnessSrc x :=
  prefix_report_lines_partial witnessSrc 0 0 [(0, 12), (23, 35)] _ (by decide) witness_output

/-- `"a\r\r\nb"`, one match spanning both lines (0..5) -/
def crWitnessSrc : Bytes := [0x61, 0x0D, 0x0D, 0x0A, 0x62]

/-- what the code prints for it: `1:a`, `2:b` — line 1 of the file is `a\r` + terminator `\r\n` -/
theorem crWitness_output :
    printMatchesWithPrefix crWitnessSrc 0 0 [(0, 5)] = some [.entry 1 [0x61], .entry 2 [0x62]] := by
  decide

/-- **the full statement is still false for the code as it is**, now only for a pathological
text: a line ending in `\r\r\n` whose `\r\n` lies inside a matched node loses *both* `\r`
(`matched.lines()` in `push_matched_to_ret` strips one, the final `ret.lines()` the next),
although the first `\r` is content of the line. Confirmed on the real CLI; KNOWN_FINDINGS
`text-report:cr-cr-lf-in-match`. (The former witness, a match ending with a newline, was repaired
in /repo 0b29009: `witness_output`, `prefix_report_lines_witness_good`.) -/
theorem prefix_report_lines_counterexample : ¬ PrefixReportFull := by
  intro h
  have := h crWitnessSrc 0 0 [(0, 5)] _ (by decide) crWitness_output (.entry 1 [0x61]) (by simp)
  revert this
  simp only [GoodEntry, fileLine]
  decide

/-- non-vacuity: `"a\r\nb\nb\na a\nc"`, three plain matches (`a` on line 1, two on line 4) and
`-A 1`: two groups with a separator, the second one merged from two matches; line 1 is reported
without the `\r` of its terminator -/
example : printMatchesWithPrefix [0x61, 0x0D, 0x0A, 0x62, 0x0A, 0x62, 0x0A, 0x61, 0x20, 0x61, 0x0A, 0x63] 0 1
      [(0, 1), (7, 8), (9, 10)]
    = some [.entry 1 [0x61], .entry 2 [0x62], .sep, .entry 4 [0x61, 0x20, 0x61], .entry 5 [0x63]] := by
  decide

end AGV.C16
