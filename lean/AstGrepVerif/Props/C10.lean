/-
C10 — Editing a parsed document is indistinguishable from parsing the edited text.

What is proved here, over the model `Model/EditDoc.lean` of `String::accept_edit`, `perform_edit`,
`Root::do_edit`, `AstGrep::edit/replace` and of tree-sitter's `ts_tree_edit` position rule:

* TEXT clause, in full: the text after any history of `edit` / `replace` calls is the splices applied in
  order (`acceptEdit_text`, `edit_history_text`), an edit fails exactly when it is out of range
  (`acceptEdit_ok_iff`).
* EDIT DESCRIPTION, in full (texts below 4 GiB): the six `InputEdit` fields describe the splice in the
  sense of tree-sitter's documentation (`inputEdit_correct`), the points are (row, BYTE column), a line
  break resets the column, multi-byte characters count with all their bytes
  (`positionForOffset_append`, `positionForOffset_newline`, `positionForOffset_multibyte`).
* TREE clause: NOT provable for the code as released (v0.37.0).  `Root::do_edit` applies the description to
  the old tree twice; `editTree_twice_ne` shows that for every edit that changes the length and every tree
  with a node ending after the edit (the root, unless the edit touches the last byte) the tree handed to
  the re-parser is not the one a single, correct application gives — it describes a document of the wrong
  length (`doEdit_misdescribes`, concrete witness `doEdit_counterexample`, observed on the real code by the
  oracle `c10_tree`).  Only for length-preserving edits twice = once (`doEdit_length_preserving_partial`).
  With the second `tree.edit` removed (FIX_C10, model `doEditFixed`) the tree clause reduces to tree-sitter's
  own contract for incremental parsing (`ReparseContract`, a hypothesis, not an axiom): `history_fixed_tree`.
  That contract itself is covered by differential testing only.
-/
import AstGrepVerif.Lemmas.EditDoc

set_option linter.unusedSimpArgs false
set_option linter.unusedVariables false

namespace AGV.C10

open AGV.EditDoc

open AGV.Spec (splice1 spliceSeq spliceTrace spliceAll pointAt pointAdd extent Describes)

/-- the documented reading of `Edit { position, deleted_length, inserted_text }`:
replace `[position, position + deleted_length)` by `inserted_text` -/
def specEdit (e : REdit) : Spec.Edit UInt8 :=
  { start := e.position, stop := e.position + e.deleted, rep := e.inserted }

/-! ## text -/

/-- `accept_edit` succeeds exactly on in-range edits (otherwise it panics) -/
theorem acceptEdit_ok_iff (text : Bytes) (e : REdit) :
    (acceptEdit text e).isSome ↔ e.position + e.deleted ≤ text.length := by
  by_cases h : e.position + e.deleted ≤ text.length
  · simp [acceptEdit_eq text e h, h]
  · simp [acceptEdit_none text e (by omega), h]

/-- the new text is the splice of the old one -/
theorem acceptEdit_text {text t' : Bytes} {e : REdit} {ie : InputEdit}
    (h : acceptEdit text e = some (t', ie)) : t' = splice1 text (specEdit e) := by
  have hr : e.position + e.deleted ≤ text.length := (acceptEdit_ok_iff text e).mp (by simp [h])
  rw [acceptEdit_eq text e hr] at h
  simp only [Option.some.injEq, Prod.mk.injEq] at h
  rw [← h.1]
  rfl

example : acceptEdit [0x61, 0x0A, 0x62] ⟨1, 1, [0xC3, 0xA9]⟩ =
    some ([0x61, 0xC3, 0xA9, 0x62], ⟨1, 2, 3, (0, 1), (1, 0), (0, 3)⟩) := by decide

/-- one `Root::do_edit` (however often the tree is edited, whatever the parser returns): the text is
the splice -/
theorem doEditWith_text {k : Nat} {reparse : Bytes → Tree → Option Tree} {d d' : Document} {e : REdit}
    (h : doEditWith k reparse d e = .ok d') : d'.text = splice1 d.text (specEdit e) := by
  unfold doEditWith at h
  split at h
  · cases h
  · rename_i t' ie hacc
    split at h
    · cases h
    · cases h
      exact acceptEdit_text hacc

/-- TEXT CLAUSE: after any history of `edit` / `replace` calls that ran through, the document's text is
the left fold of the splices of the edits performed -/
theorem runHistory_text {k : Nat} {reparse : Bytes → Tree → Option Tree} :
    ∀ (as : List Action) (d d' : Document) (es : List REdit),
      runHistory (doEditWith k reparse) d as = .ok (d', es) →
      d'.text = spliceSeq d.text (es.map specEdit)
  | [], d, d', es, h => by
    simp only [runHistory, Except.ok.injEq, Prod.mk.injEq] at h
    rw [← h.1, ← h.2]; rfl
  | a :: as, d, d', es, h => by
    simp only [runHistory] at h
    split at h
    · exact runHistory_text as d d' es h
    · rename_i e he
      split at h
      · cases h
      · rename_i d1 hstep
        split at h
        · cases h
        · rename_i d2 es2 hrest
          simp only [Except.ok.injEq, Prod.mk.injEq] at h
          rw [← h.1, ← h.2]
          have := runHistory_text as d1 d2 es2 hrest
          rw [this, doEditWith_text hstep]
          rfl

/-- the released code -/
theorem edit_history_text {reparse : Bytes → Tree → Option Tree} {as : List Action} {d d' : Document}
    {es : List REdit} (h : runHistory (doEdit reparse) d as = .ok (d', es)) :
    d'.text = spliceSeq d.text (es.map specEdit) := runHistory_text as d d' es h

/-- in the vocabulary of `Spec/Splice.lean`: one edit at a time, the LAST performed edit outermost -/
theorem spliceSeq_eq_spliceAll (s : Bytes) (es : List (Spec.Edit UInt8)) :
    spliceSeq s es = spliceAll s es.reverse := by
  simp [spliceSeq, spliceAll, List.foldr_reverse]

/-- a two-step history on `a\nb`: replace the line break by `é`, then delete `a` -/
example :
    (runHistory (doEdit fun _ t => some t) ⟨[0x61, 0x0A, 0x62], .node default []⟩
      [.edit ⟨1, 1, [0xC3, 0xA9]⟩, .replace (fun _ => some ⟨0, 1, []⟩)]).toOption.map (·.1.text)
      = some [0xC3, 0xA9, 0x62] := by decide

/-! ## the edit description -/

/-- EDIT DESCRIPTION: for texts shorter than 2^32 bytes all six fields of the `InputEdit` describe the
splice as tree-sitter's documentation demands: ordered offsets inside the old / new text, the texts agree
before `start_byte` and after `old_end_byte` / `new_end_byte`, the three points are the documented
`TSPoint`s (row, BYTE column) of the offsets — the first two in the OLD text, the third in the NEW text —
and the region in between is the inserted text. -/
theorem inputEdit_correct {text t' : Bytes} {e : REdit} {ie : InputEdit}
    (h : acceptEdit text e = some (t', ie)) (hl : text.length < U32_MOD) (hl' : t'.length < U32_MOD) :
    Describes text t' ie.startByte ie.oldEndByte ie.newEndByte ie.startPoint ie.oldEndPoint ie.newEndPoint
    ∧ (t'.drop ie.startByte).take (ie.newEndByte - ie.startByte) = e.inserted
    ∧ ie.startByte = e.position ∧ ie.oldEndByte = e.position + e.deleted
    ∧ ie.newEndByte = e.position + e.inserted.length := by
  have hr : e.position + e.deleted ≤ text.length := (acceptEdit_ok_iff text e).mp (by simp [h])
  rw [acceptEdit_eq text e hr] at h
  simp only [Option.some.injEq, Prod.mk.injEq] at h
  obtain ⟨ht, hie⟩ := h
  have hlen := vecSplice_length text e.position (e.position + e.deleted) e.inserted (by omega) hr
  rw [ht] at hlen
  have m1 : e.position % U32_MOD = e.position := Nat.mod_eq_of_lt (by omega)
  have m2 : (e.position + e.deleted) % U32_MOD = e.position + e.deleted := Nat.mod_eq_of_lt (by omega)
  have m3 : (e.position + e.inserted.length) % U32_MOD = e.position + e.inserted.length :=
    Nat.mod_eq_of_lt (by omega)
  have hp : (text.take e.position).length = e.position := by simp; omega
  have hpi : (text.take e.position ++ e.inserted).length = e.position + e.inserted.length := by
    simp; omega
  subst hie
  simp only [m1, m2, m3]
  rw [← ht]
  refine ⟨⟨⟨by omega, hr⟩, ⟨by omega, ?_⟩, ?_, ?_, rfl, rfl, rfl⟩, ?_, by simp, by simp, by simp⟩
  · simp only [vecSplice, List.length_append, List.length_take, List.length_drop]; omega
  · simp only [vecSplice, List.append_assoc]
    rw [List.take_left' hp]
  · simp only [vecSplice]
    rw [List.drop_left' hpi]
  · simp only [vecSplice, List.append_assoc]
    rw [List.drop_left' hp]
    have : e.position + e.inserted.length - e.position = e.inserted.length := by omega
    rw [this, List.take_left' rfl]

/-- `position_for_offset` walks on from the end of a prefix exactly as tree-sitter's `point_add` does:
this is how `new_end_point` relates to `start_point` and the extent of the inserted text -/
theorem positionForOffset_append (a b : Bytes) (k : Nat) (hk : k ≤ b.length) :
    positionForOffset (a ++ b) (a.length + k) = some (pointAdd (extent a) (pointAt b k)) := by
  rw [positionForOffset_eq_pointAt _ _ (by simp; omega), pointAt_append]

/-- an inserted (or surviving) line break: the byte after it is at column 0 of the next row;
removing it (`positionForOffset_append` on `a ++ b`) puts the same byte at the end of `a`'s last line -/
theorem positionForOffset_newline (a b : Bytes) :
    positionForOffset (a ++ NL :: b) (a.length + 1) = some ((extent a).1 + 1, 0) := by
  rw [positionForOffset_eq_pointAt _ _ (by simp), pointAt_newline]

/-- multi-byte characters: on a line without line break the column advances by the number of BYTES of
the characters (what tree-sitter expects), not by their number -/
theorem positionForOffset_multibyte {enc1 : Char → Bytes} (hu : Utf8Like enc1) (a b : Bytes)
    (cs : List Char) (hcs : ∀ c ∈ cs, c ≠ '\n') :
    positionForOffset (a ++ encode enc1 cs ++ b) (a.length + (encode enc1 cs).length)
      = some ((extent a).1, (extent a).2 + (encode enc1 cs).length)
    ∧ cs.length ≤ (encode enc1 cs).length := by
  have hno : NL ∉ encode enc1 cs := by
    induction cs with
    | nil => simp [encode]
    | cons c cs ih =>
      rw [encode_cons, List.mem_append]
      rintro (h | h)
      · exact hu.no_nl c (hcs c (by simp)) h
      · exact ih (fun c hc => hcs c (by simp [hc])) h
  refine ⟨?_, ?_⟩
  · rw [positionForOffset_eq_pointAt _ _ (by simp), pointAt_no_newline a _ b hno]
  · have h1 := charCount_encode hu cs
    have h2 : charCount (encode enc1 cs) ≤ (encode enc1 cs).length := by
      simp only [charCount]; exact List.countP_le_length
    omega

/-- `x = "é"` then an offset after the `é`: column 7 in bytes (6 in characters) -/
example : positionForOffset [0x78, 0x20, 0x3D, 0x20, 0x22, 0xC3, 0xA9, 0x22] 7 = some (0, 7) := by decide

/-- the new end point is the start point advanced by the extent of the inserted text -/
theorem inputEdit_new_end_point {text t' : Bytes} {e : REdit} {ie : InputEdit}
    (h : acceptEdit text e = some (t', ie)) :
    ie.newEndPoint = pointAdd ie.startPoint (extent e.inserted) := by
  have hr : e.position + e.deleted ≤ text.length := (acceptEdit_ok_iff text e).mp (by simp [h])
  rw [acceptEdit_eq text e hr] at h
  simp only [Option.some.injEq, Prod.mk.injEq] at h
  obtain ⟨ht, hie⟩ := h
  subst hie
  have hp : (text.take e.position).length = e.position := by simp; omega
  simp only [vecSplice, List.append_assoc]
  have h1 := pointAt_append (text.take e.position)
    (e.inserted ++ text.drop (e.position + e.deleted)) e.inserted.length
  rw [hp] at h1
  rw [h1]
  have h2 : pointAt (e.inserted ++ text.drop (e.position + e.deleted)) e.inserted.length
      = extent e.inserted := by
    have := pointAt_append e.inserted (text.drop (e.position + e.deleted)) 0
    simpa [Spec.pointAt, Spec.pointAdd, Spec.extent] using this
  rw [h2]
  simp only [Spec.extent, Spec.pointAt, hp, List.take_take, Nat.min_self]

/-- non-vacuity of `inputEdit_correct`: inserting `é\n` into `ab\ncd` after `c` -/
example : ∃ t' ie, acceptEdit [0x61, 0x62, 0x0A, 0x63, 0x64] ⟨4, 0, [0xC3, 0xA9, 0x0A]⟩ = some (t', ie)
    ∧ ie.startPoint = (1, 1) ∧ ie.newEndPoint = (2, 0) ∧ t'.length < U32_MOD := by
  refine ⟨_, _, rfl, ?_, ?_, ?_⟩ <;> decide

/-! ## the old tree handed to the re-parser -/

theorem editTree_stop (t : Tree) (ie : InputEdit) : (editTree t ie).stop = editEnd ie t.stop := by
  cases t; rfl

theorem editTree_start (t : Tree) (ie : InputEdit) : (editTree t ie).start = editStart ie t.start := by
  cases t; rfl

/-- the position rule applied twice moves every node end behind the edit once more -/
theorem editEnd_twice_ne (ie : InputEdit) (hs : ie.startByte ≤ ie.oldEndByte)
    (hn : ie.startByte ≤ ie.newEndByte) (hne : ie.newEndByte ≠ ie.oldEndByte)
    (p : Nat) (hp : ie.oldEndByte < p) : editEnd ie (editEnd ie p) ≠ editEnd ie p := by
  have h1 : editEnd ie p = ie.newEndByte + (p - ie.oldEndByte) := by
    unfold editEnd
    rw [if_neg (by omega), if_pos (by omega)]
  rw [h1]
  unfold editEnd
  split
  · omega
  · split <;> omega

/-- TREE CLAUSE, negative result for the released code: if the edit changes the length
(`new_end ≠ old_end`) and some node of the tree ends after the edit, applying the description twice
(as `Root::do_edit` does) gives a different tree than applying it once: the old tree handed to the
re-parser is mis-described. -/
theorem editTree_twice_ne (t : Tree) (ie : InputEdit) (hs : ie.startByte ≤ ie.oldEndByte)
    (hn : ie.startByte ≤ ie.newEndByte) (hne : ie.newEndByte ≠ ie.oldEndByte)
    (hnode : ∃ n ∈ t.preorder, ie.oldEndByte < n.stop) :
    editTree (editTree t ie) ie ≠ editTree t ie := by
  intro h
  obtain ⟨n, hn', hp⟩ := hnode
  have := editInfo_fixed_of_editTree_fixed t ie h n hn'
  have h2 := congrArg Info.stop this
  simp only [editInfo] at h2
  exact editEnd_twice_ne ie hs hn hne n.stop hp h2

/-- in particular: a non-empty node after the edit -/
theorem editTree_twice_ne_after (t : Tree) (ie : InputEdit) (hs : ie.startByte ≤ ie.oldEndByte)
    (hn : ie.startByte ≤ ie.newEndByte) (hne : ie.newEndByte ≠ ie.oldEndByte)
    (hnode : ∃ n ∈ t.preorder, ie.oldEndByte ≤ n.start ∧ n.start < n.stop) :
    editTree (editTree t ie) ie ≠ editTree t ie := by
  obtain ⟨n, hm, h1, h2⟩ := hnode
  exact editTree_twice_ne t ie hs hn hne ⟨n, hm, by omega⟩

/-- … and what is wrong with it: a tree whose root spans the old text describes, after ONE application,
a document of the new length; after TWO applications — whenever the edit changes the length — a document
of another length (for a growing edit: longer by the growth once more). -/
theorem doEdit_misdescribes {text t' : Bytes} {e : REdit} {ie : InputEdit} (t : Tree)
    (h : acceptEdit text e = some (t', ie)) (hl : text.length < U32_MOD) (hl' : t'.length < U32_MOD)
    (hroot : t.stop = text.length) (hend : e.position + e.deleted < text.length) :
    (editTreeN 1 t ie).stop = t'.length
    ∧ (e.inserted.length ≠ e.deleted → (editTreeN 2 t ie).stop ≠ t'.length)
    ∧ (e.deleted ≤ e.inserted.length →
        (editTreeN 2 t ie).stop = t'.length + (e.inserted.length - e.deleted)) := by
  obtain ⟨hd, _, h1, h2, h3⟩ := inputEdit_correct h hl hl'
  have hr : e.position + e.deleted ≤ text.length := by omega
  have ht := acceptEdit_text h
  have hlen := vecSplice_length text e.position (e.position + e.deleted) e.inserted (by omega) hr
  have ht' : t' = vecSplice text e.position (e.position + e.deleted) e.inserted := by
    rw [ht]; rfl
  rw [← ht'] at hlen
  have hlen' : t'.length + e.deleted = text.length + e.inserted.length := by omega
  clear hlen
  have once : editEnd ie t.stop = t'.length := by
    unfold editEnd
    rw [if_neg (by omega), if_pos (by omega)]
    omega
  refine ⟨by simp only [editTreeN, editTree_stop, once], ?_, ?_⟩
  · intro hne
    have := editEnd_twice_ne ie (by omega) (by omega) (by omega) t.stop (by omega)
    simp only [editTreeN, editTree_stop]
    rw [once] at this ⊢
    exact this
  · intro hge
    simp only [editTreeN, editTree_stop, once]
    unfold editEnd
    rw [if_neg (by omega), if_pos (by omega)]
    omega

/-- the witness found by the oracle (JSON `[1, 22, 333]`, delete `1, `: the text becomes `[22, 333]`,
9 bytes).  The dumped tree of the old text, edited once, describes 9 bytes and the number `22` at
[1, 3); edited twice — what v0.37.0 hands to the parser — it describes 6 bytes with the first number
squeezed to nothing and `333` at [2, 5).  The real re-parse returns exactly that stale picture
(document [0..6], one number [2..5]). -/
def witnessTree : Tree :=
  .node ⟨15, true, false, false, 0, 12, none, 0⟩ [       -- document
    .node ⟨19, true, false, false, 0, 12, none, 1⟩ [     -- array
      .node ⟨5, false, false, false, 0, 1, none, 2⟩ [],  -- [
      .node ⟨10, true, false, false, 1, 2, none, 3⟩ [],  -- number 1
      .node ⟨2, false, false, false, 2, 3, none, 4⟩ [],  -- ,
      .node ⟨10, true, false, false, 4, 6, none, 5⟩ [],  -- number 22
      .node ⟨2, false, false, false, 6, 7, none, 6⟩ [],  -- ,
      .node ⟨10, true, false, false, 8, 11, none, 7⟩ [], -- number 333
      .node ⟨6, false, false, false, 11, 12, none, 8⟩ []]] -- ]

def witnessText : Bytes := [0x5B, 0x31, 0x2C, 0x20, 0x32, 0x32, 0x2C, 0x20, 0x33, 0x33, 0x33, 0x5D]

theorem doEdit_counterexample :
    ∃ t' ie, acceptEdit witnessText ⟨1, 3, []⟩ = some (t', ie) ∧ t'.length = 9
      ∧ (editTreeN 1 witnessTree ie).stop = 9
      ∧ (editTreeN 2 witnessTree ie).stop = 6
      ∧ ((editTreeN 1 witnessTree ie).preorder.map fun n => (n.start, n.stop))
          = [(0, 9), (0, 9), (0, 1), (1, 1), (1, 1), (1, 3), (3, 4), (5, 8), (8, 9)]
      ∧ ((editTreeN 2 witnessTree ie).preorder.map fun n => (n.start, n.stop))
          = [(0, 6), (0, 6), (0, 1), (1, 1), (1, 1), (1, 1), (1, 1), (2, 5), (5, 6)] := by
  refine ⟨_, _, rfl, ?_, ?_, ?_, ?_, ?_⟩ <;> decide

/-- the hypotheses of `editTree_twice_ne` / `doEdit_misdescribes` hold for the witness -/
example : ∃ ie, (acceptEdit witnessText ⟨1, 3, []⟩).map (·.2) = some ie
    ∧ ie.startByte ≤ ie.oldEndByte ∧ ie.startByte ≤ ie.newEndByte ∧ ie.newEndByte ≠ ie.oldEndByte
    ∧ (∃ n ∈ witnessTree.preorder, ie.oldEndByte < n.stop)
    ∧ witnessTree.stop = witnessText.length := by
  refine ⟨_, rfl, by decide, by decide, by decide, ⟨witnessTree, ?_, by decide⟩, by decide⟩
  simp [witnessTree, Tree.preorder]

/-- the position rule of a length-preserving description is idempotent -/
theorem editInfo_idem_of_same_length (ie : InputEdit) (h : ie.newEndByte = ie.oldEndByte) (i : Info) :
    editInfo ie (editInfo ie i) = editInfo ie i := by
  have hs : editStart ie (editStart ie i.start) = editStart ie i.start := by
    unfold editStart; rw [h]; repeat' split
    all_goals omega
  have he : editEnd ie (editEnd ie i.stop) = editEnd ie i.stop := by
    unfold editEnd; rw [h]; repeat' split
    all_goals omega
  simp only [editInfo, hs, he]

/-- for a length-preserving edit the second `tree.edit` is harmless -/
theorem editTree_twice_eq_of_same_length (t : Tree) (ie : InputEdit)
    (h : ie.newEndByte = ie.oldEndByte) : editTree (editTree t ie) ie = editTree t ie :=
  editTree_idem ie (editInfo_idem_of_same_length ie h) t

/-- TREE CLAUSE, the part that survives for the released code: on a length-preserving edit
(`inserted_text.len() == deleted_length`) `Root::do_edit` hands the re-parser the same tree as the
repaired code and so returns the same document -/
theorem doEdit_length_preserving_partial (reparse : Bytes → Tree → Option Tree) (d : Document)
    (e : REdit) (hlen : e.inserted.length = e.deleted) :
    doEdit reparse d e = doEditFixed reparse d e := by
  unfold doEdit doEditFixed doEditWith
  cases hacc : acceptEdit d.text e with
  | none => rfl
  | some r =>
    obtain ⟨t', ie⟩ := r
    have hr : e.position + e.deleted ≤ d.text.length := (acceptEdit_ok_iff d.text e).mp (by simp [hacc])
    have hie : ie.newEndByte = ie.oldEndByte := by
      rw [acceptEdit_eq d.text e hr] at hacc
      simp only [Option.some.injEq, Prod.mk.injEq] at hacc
      rw [← hacc.2, hlen]
    simp only [editTreeN, editTree_twice_eq_of_same_length d.tree ie hie]

example : (⟨2, 3, [0x78, 0x79, 0x7A]⟩ : REdit).inserted.length = (⟨2, 3, [0x78, 0x79, 0x7A]⟩ : REdit).deleted := rfl

/-! ## the tree clause modulo tree-sitter's contract -/

/-- tree-sitter's documented contract for incremental parsing, as a HYPOTHESIS on the parameter
`reparse`: given the old tree of `text`, edited ONCE with a description of the change `text → text'`,
the parser returns what parsing `text'` from scratch returns (for the texts of interest: `clean`, no
ERROR / MISSING).  Not provable here (the parser is not modelled); checked by the differential oracle. -/
structure ReparseContract (clean : Bytes → Prop) (parse : Bytes → Tree)
    (reparse : Bytes → Tree → Option Tree) : Prop where
  incremental : ∀ text e text' ie, acceptEdit text e = some (text', ie) → clean text' →
    reparse text' (editTree (parse text) ie) = some (parse text')

/-- one edit with the repaired code: the document stays "as freshly parsed" -/
theorem doEditFixed_tree {clean : Bytes → Prop} {parse : Bytes → Tree}
    {reparse : Bytes → Tree → Option Tree} (c : ReparseContract clean parse reparse)
    {d d' : Document} {e : REdit} (hd : d.tree = parse d.text)
    (h : doEditFixed reparse d e = .ok d') (hc : clean d'.text) : d'.tree = parse d'.text := by
  unfold doEditFixed doEditWith at h
  split at h
  · cases h
  · rename_i t' ie hacc
    have hcon := c.incremental d.text e t' ie hacc
    split at h
    · cases h
    · rename_i tr hre
      cases h
      simp only [editTreeN, hd] at hre
      simp only at hc
      rw [hcon hc] at hre
      simp only [Option.some.injEq] at hre
      exact hre.symm

/-- THE PROPERTY for the repaired code, modulo the contract: after any history whose texts are all
`clean`, the text is the spliced text and the tree is the fresh parse of that text -/
theorem history_fixed_tree {clean : Bytes → Prop} {parse : Bytes → Tree}
    {reparse : Bytes → Tree → Option Tree} (c : ReparseContract clean parse reparse) :
    ∀ (as : List Action) (d d' : Document) (es : List REdit), d.tree = parse d.text →
      runHistory (doEditFixed reparse) d as = .ok (d', es) →
      (∀ x ∈ spliceTrace d.text (es.map specEdit), clean x) →
      d'.tree = parse d'.text ∧ d'.text = spliceSeq d.text (es.map specEdit)
  | [], d, d', es, hd, h, _ => by
    simp only [runHistory, Except.ok.injEq, Prod.mk.injEq] at h
    rw [← h.1, ← h.2]; exact ⟨hd, rfl⟩
  | a :: as, d, d', es, hd, h, hc => by
    simp only [runHistory] at h
    split at h
    · exact history_fixed_tree c as d d' es hd h hc
    · rename_i e he
      split at h
      · cases h
      · rename_i d1 hstep
        split at h
        · cases h
        · rename_i d2 es2 hrest
          simp only [Except.ok.injEq, Prod.mk.injEq] at h
          obtain ⟨hd2, hes⟩ := h
          subst hd2; subst hes
          have htext : d1.text = splice1 d.text (specEdit e) := doEditWith_text hstep
          simp only [List.map_cons, spliceTrace, List.mem_cons, forall_eq_or_imp] at hc
          have hd1 : d1.tree = parse d1.text := doEditFixed_tree c hd hstep (htext ▸ hc.1)
          have := history_fixed_tree c as d1 d2 es2 hd1 hrest (htext ▸ hc.2)
          refine ⟨this.1, ?_⟩
          rw [this.2, htext]; rfl

/-- the same for the RELEASED code, but only for histories of length-preserving edits -/
theorem history_length_preserving_partial {clean : Bytes → Prop} {parse : Bytes → Tree}
    {reparse : Bytes → Tree → Option Tree} (c : ReparseContract clean parse reparse) :
    ∀ (as : List Action) (d d' : Document) (es : List REdit), d.tree = parse d.text →
      runHistory (doEdit reparse) d as = .ok (d', es) →
      (∀ e ∈ es, e.inserted.length = e.deleted) →
      (∀ x ∈ spliceTrace d.text (es.map specEdit), clean x) →
      d'.tree = parse d'.text ∧ d'.text = spliceSeq d.text (es.map specEdit)
  | [], d, d', es, hd, h, _, _ => by
    simp only [runHistory, Except.ok.injEq, Prod.mk.injEq] at h
    rw [← h.1, ← h.2]; exact ⟨hd, rfl⟩
  | a :: as, d, d', es, hd, h, hl, hc => by
    simp only [runHistory] at h
    split at h
    · exact history_length_preserving_partial c as d d' es hd h hl hc
    · rename_i e he
      split at h
      · cases h
      · rename_i d1 hstep
        split at h
        · cases h
        · rename_i d2 es2 hrest
          simp only [Except.ok.injEq, Prod.mk.injEq] at h
          obtain ⟨hd2, hes⟩ := h
          subst hd2; subst hes
          have hle : e.inserted.length = e.deleted := hl e (by simp)
          have hstep' : doEditFixed reparse d e = .ok d1 := by
            rw [← doEdit_length_preserving_partial reparse d e hle]; exact hstep
          have htext : d1.text = splice1 d.text (specEdit e) := doEditWith_text hstep
          simp only [List.map_cons, spliceTrace, List.mem_cons, forall_eq_or_imp] at hc
          have hd1 : d1.tree = parse d1.text := doEditFixed_tree c hd hstep' (htext ▸ hc.1)
          have := history_length_preserving_partial c as d1 d2 es2 hd1 hrest
            (fun x hx => hl x (by simp [hx])) (htext ▸ hc.2)
          refine ⟨this.1, ?_⟩
          rw [this.2, htext]; rfl

/-- THE SEARCH CLAUSE ("later searches on the edited document see what a fresh parse would see"):
whatever is computed from a document — `find`, `find_all`, `replace` with any matcher — is a function
of its text and its tree, because a `Document` holds nothing else (the real `Root` likewise owns the
source and the tree only; a per-document cache that survived an edit would break exactly this, which
is what the `c10_search` oracle of unit `editdoc` looks for on the implementation: searches by kind
and by pattern before and after an edit that introduces node kinds the document did not contain).
So after any history of error-free texts every search answers as on the fresh parse of the final text. -/
theorem history_fixed_search {α : Type} {clean : Bytes → Prop} {parse : Bytes → Tree}
    {reparse : Bytes → Tree → Option Tree} (c : ReparseContract clean parse reparse)
    (search : Document → α) (as : List Action) (d d' : Document) (es : List REdit)
    (hd : d.tree = parse d.text)
    (h : runHistory (doEditFixed reparse) d as = .ok (d', es))
    (hc : ∀ x ∈ spliceTrace d.text (es.map specEdit), clean x) :
    search d' = search { text := spliceSeq d.text (es.map specEdit),
                         tree := parse (spliceSeq d.text (es.map specEdit)) } := by
  have ht := history_fixed_tree c as d d' es hd h hc
  have : d' = { text := spliceSeq d.text (es.map specEdit),
                tree := parse (spliceSeq d.text (es.map specEdit)) } := by
    cases d' with
    | mk t tr =>
      simp only at ht
      simp only [Document.mk.injEq]
      exact ⟨ht.2, by rw [ht.1, ht.2]⟩
  rw [this]

/-- the contract is satisfiable (so the two theorems above are not vacuous): a "parser" that ignores the
old tree -/
example : ReparseContract (fun _ => True) (fun s => .node { (default : Info) with stop := s.length } [])
    (fun s _ => some (.node { (default : Info) with stop := s.length } [])) :=
  ⟨fun _ _ _ _ _ _ => rfl⟩

end AGV.C10
