/-
C13 — results do not depend on map order, hash seeds, repetition or file order.
Property theorems only; helper lemmas live in `Lemmas/Topo.lean` and `Lemmas/Order.lean`.

Hash maps are association lists whose *list order is the iteration order*; "independent of the
hash seed" is therefore "invariant under every permutation of the list".
-/
import AstGrepVerif.Model.Topo
import AstGrepVerif.Model.Snapshot
import AstGrepVerif.Model.Rule
import AstGrepVerif.Lemmas.Topo
import AstGrepVerif.Lemmas.Order

set_option linter.unusedSimpArgs false
set_option linter.unusedVariables false

namespace AGV.C13

open AGV.Topo

variable {α : Type} [DecidableEq α]

/-! ## the dependency sort -/

/-- the fuel `getOrder` passes to `visit` is never exhausted (the recursion depth is bounded by
the number of keys) -/
theorem getOrder_fuel_enough (maps : List (α × List α)) (keys : List α) :
    getOrderWith maps keys ≠ .error .fuel := by
  have h := getOrderWith_post maps keys
  unfold getOrderWith
  cases hf : foldE (fun s k => visit maps (maps.length + 1) k s) ⟨[], []⟩ keys with
  | error e =>
    rw [hf] at h
    cases e with
    | fuel => exact h.elim
    | cyclic k => simp
  | ok st => simp

/-- **Cycle detection is sound.** When the sort fails, the key it reports really lies on a
dependency cycle of the map (through keys of the map only). -/
theorem topo_detects_cycles (maps : List (α × List α)) (keys : List α) (e : Err α)
    (h : getOrderWith maps keys = .error e) : ∃ k, e = .cyclic k ∧ Cyclic maps k := by
  have hp := getOrderWith_post maps keys
  unfold getOrderWith at h
  cases hf : foldE (fun s k => visit maps (maps.length + 1) k s) ⟨[], []⟩ keys with
  | error e' =>
    rw [hf] at hp h
    simp only [Except.error.injEq] at h
    subst h
    cases e' with
    | fuel => exact hp.elim
    | cyclic k => exact ⟨k, rfl, hp⟩
  | ok st => rw [hf] at h; simp at h

/-- **A successful sort is a valid order.** No key twice; every key handed to the sort occurs;
every element is a key and all its dependencies that are keys occur *before* it. -/
theorem getOrder_valid (maps : List (α × List α)) (keys order : List α)
    (h : getOrderWith maps keys = .ok order) :
    order.Nodup ∧ (∀ k ∈ keys, IsKey maps k → k ∈ order) ∧
    ∀ pre x post, order = pre ++ x :: post →
      IsKey maps x ∧ ∀ deps, lookup x maps = some deps → ∀ d ∈ deps, IsKey maps d → d ∈ pre := by
  have hp := getOrderWith_post maps keys
  unfold getOrderWith at h
  cases hf : foldE (fun s k => visit maps (maps.length + 1) k s) ⟨[], []⟩ keys with
  | error e' => rw [hf] at h; simp at h
  | ok st =>
    rw [hf] at hp h
    simp only [Except.ok.injEq] at h
    subst h
    obtain ⟨hinv, _, hmem⟩ := hp
    refine ⟨nodup_of_reverse hinv.valid.nodup, hmem, ?_⟩
    intro pre x post hsplit
    have hv := hinv.valid
    rw [hsplit] at hv
    simp only [List.reverse_append, List.reverse_cons, List.append_assoc, List.singleton_append] at hv
    obtain ⟨hk, hd⟩ := ValidR.deps_after hv
    exact ⟨hk, fun deps hl d hdm hdk => by simpa using hd deps hl d hdm hdk⟩

/-- **Acceptance = acyclicity.** If every key of the map is handed to the sort (in whatever
order), the sort succeeds exactly when the dependency graph has no cycle. -/
theorem getOrder_ok_iff_acyclic (maps : List (α × List α)) (keys : List α)
    (hcover : ∀ k, IsKey maps k → k ∈ keys) :
    (∃ order, getOrderWith maps keys = .ok order) ↔ ∀ k, ¬ Cyclic maps k := by
  constructor
  · rintro ⟨order, h⟩ k hc
    have hk : IsKey maps k := by
      cases hc with
      | single e => exact ⟨e.choose, e.choose_spec.1⟩
      | step e _ => exact ⟨e.choose, e.choose_spec.1⟩
    have hp := getOrderWith_post maps keys
    unfold getOrderWith at h
    cases hf : foldE (fun s k => visit maps (maps.length + 1) k s) ⟨[], []⟩ keys with
    | error e' => rw [hf] at h; simp at h
    | ok st =>
      rw [hf] at hp
      obtain ⟨hinv, _, hmem⟩ := hp
      have hin : k ∈ st.order := hmem k (hcover k hk) hk
      exact hinv.valid.acyclic (by simpa using hin) hc
  · intro hac
    cases h : getOrderWith maps keys with
    | ok order => exact ⟨order, rfl⟩
    | error e =>
      obtain ⟨k, _, hc⟩ := topo_detects_cycles maps keys e h
      exact (hac k hc).elim

/-- **Hash order of the keys is irrelevant for acceptance**: any two iteration orders of the
keys (here: any two lists covering the keys, in particular permutations of each other) are both
accepted or both rejected; when accepted both results are valid orders (`getOrder_valid`). -/
theorem getOrder_perm_invariant (maps : List (α × List α)) (keys keys' : List α)
    (hperm : keys.Perm keys') (hcover : ∀ k, IsKey maps k → k ∈ keys) :
    (∃ o, getOrderWith maps keys = .ok o) ↔ (∃ o, getOrderWith maps keys' = .ok o) := by
  rw [getOrder_ok_iff_acyclic maps keys hcover,
    getOrder_ok_iff_acyclic maps keys' (fun k hk => (hperm.mem_iff).mp (hcover k hk))]

theorem lookup_perm {β : Type} {m m' : List (α × β)} (hp : m.Perm m') (hnd : (m.map (·.1)).Nodup)
    (k : α) : lookup k m = lookup k m' := by
  induction hp with
  | nil => rfl
  | cons x _ ih =>
    obtain ⟨kx, vx⟩ := x
    simp only [List.map_cons, List.nodup_cons] at hnd
    simp only [lookup]
    rw [ih hnd.2]
  | swap x y l =>
    obtain ⟨kx, vx⟩ := x
    obtain ⟨ky, vy⟩ := y
    simp only [List.map_cons, List.nodup_cons, List.mem_cons, not_or] at hnd
    simp only [lookup]
    by_cases h1 : kx = k
    · have h2 : ¬ ky = k := fun h => hnd.1.1 (by rw [h, h1])
      simp [h1, h2]
    · simp [h1]
  | trans h1 _ ih1 ih2 =>
    rw [ih1 hnd, ih2 (((h1.map (·.1)).nodup_iff).mp hnd)]

theorem reach_congr {maps maps' : List (α × List α)} (hl : ∀ k, lookup k maps = lookup k maps')
    {a b : α} (h : Reach maps a b) : Reach maps' a b := by
  have he : ∀ {a b}, Edge maps a b → Edge maps' a b := by
    rintro a b ⟨deps, h1, h2, ⟨d', h3⟩⟩
    exact ⟨deps, by rw [← hl]; exact h1, h2, ⟨d', by rw [← hl]; exact h3⟩⟩
  induction h with
  | single e => exact .single (he e)
  | step e _ ih => exact .step (he e) ih

/-- **Hash order of the map itself is irrelevant**: permuting the entries of the map (pairwise
different keys, as in a `HashMap`) and iterating the keys in the new order gives the same verdict. -/
theorem getOrder_map_perm_invariant (maps maps' : List (α × List α)) (hperm : maps.Perm maps')
    (hnd : (maps.map (·.1)).Nodup) :
    (∃ o, getOrder maps = .ok o) ↔ (∃ o, getOrder maps' = .ok o) := by
  have hl := lookup_perm hperm hnd
  have hl' : ∀ k, lookup k maps' = lookup k maps := fun k => (hl k).symm
  unfold getOrder
  rw [getOrder_ok_iff_acyclic maps _ (fun k ⟨d, hd⟩ => lookup_isSome_mem hd),
    getOrder_ok_iff_acyclic maps' _ (fun k ⟨d, hd⟩ => lookup_isSome_mem hd)]
  constructor
  · intro h k hc; exact h k (reach_congr hl' hc)
  · intro h k hc; exact h k (reach_congr hl hc)

/-- The *reported* key of a failing sort does depend on the iteration order (both keys lie on the
cycle, as `topo_detects_cycles` promises): the text of the load error is hash-order dependent.
Map: `0 ↦ [1]`, `1 ↦ [0]`. -/
theorem getOrder_error_key_order_dependent :
    getOrderWith [((0 : Nat), [1]), (1, [0])] [0, 1] = .error (.cyclic 0) ∧
    getOrderWith [((0 : Nat), [1]), (1, [0])] [1, 0] = .error (.cyclic 1) := by
  decide

/-- what the sort returns for the shapes the reference mentions: a chain is listed dependencies
first, a reference to an unknown key is accepted and ignored, a self-reference is a cycle. -/
example : getOrder [((0 : Nat), [1]), (1, [2]), (2, [])] = .ok [2, 1, 0] ∧
    getOrder [((0 : Nat), [7]), (1, [0])] = .ok [0, 1] ∧
    getOrder [((0 : Nat), [0])] = .error (.cyclic 0) ∧
    getOrder [((3 : Nat), [1]), (1, [2]), (2, [1])] = .error (.cyclic 1) := by
  decide

/-- non-vacuity of `getOrder_ok_iff_acyclic` / `getOrder_perm_invariant`: a diamond is accepted
in both iteration orders, with different but valid results -/
example : getOrderWith [((0 : Nat), [1, 2]), (1, [3]), (2, [3]), (3, [])] [0, 1, 2, 3] = .ok [3, 1, 2, 0] ∧
    getOrderWith [((0 : Nat), [1, 2]), (1, [3]), (2, [3]), (3, [])] [2, 3, 1, 0] = .ok [3, 2, 1, 0] := by
  decide

/-! ## transformations -/

section Transform
variable {V : Type}

/-- the dependency map `get_transform_order` sorts: key ↦ its one source variable -/
def depMap (steps : List (Step α V)) : List (α × List α) :=
  steps.map (fun s => (s.key, [s.source]))

/-- `orders.into_iter().map(|key| map[key].parse(..))`: the steps arranged in a key order -/
def stepsIn (steps : List (Step α V)) (order : List α) : List (Step α V) :=
  order.filterMap (fun k => steps.find? (fun s => s.key = k))

theorem lookup_depMap_of_find {steps : List (Step α V)} {k : α} {s : Step α V}
    (h : steps.find? (fun s => s.key = k) = some s) :
    s.key = k ∧ lookup k (depMap steps) = some [s.source] := by
  induction steps with
  | nil => simp at h
  | cons t steps ih =>
    simp only [List.find?_cons] at h
    by_cases ht : t.key = k
    · simp [ht] at h
      subst h
      simp [depMap, lookup, ht]
    · simp [ht] at h
      obtain ⟨h1, h2⟩ := ih h
      refine ⟨h1, ?_⟩
      simp only [depMap, List.map_cons, lookup, ht, if_false]
      exact h2

theorem find_of_isKey_depMap {steps : List (Step α V)} {k : α} (h : IsKey (depMap steps) k) :
    ∃ s, steps.find? (fun s => s.key = k) = some s := by
  induction steps with
  | nil => obtain ⟨d, hd⟩ := h; simp [depMap, lookup] at hd
  | cons t steps ih =>
    by_cases ht : t.key = k
    · exact ⟨t, by simp [List.find?_cons, ht]⟩
    · obtain ⟨d, hd⟩ := h
      simp only [depMap, List.map_cons, lookup, ht, if_false] at hd
      obtain ⟨s, hs⟩ := ih ⟨d, hd⟩
      exact ⟨s, by simp [List.find?_cons, ht, hs]⟩

/-- **Any two accepted orders give the same transformed variables.** For a transform map
(pairwise different keys; every step writes its own key and reads its source variable), the
orders the sort returns for two different iteration orders of the map apply the steps to the same
final environment — whatever the step functions are. -/
theorem transform_order_irrelevant (steps : List (Step α V)) (keys keys' o o' : List α)
    (hcover : ∀ k, IsKey (depMap steps) k → k ∈ keys)
    (hcover' : ∀ k, IsKey (depMap steps) k → k ∈ keys')
    (h : getOrderWith (depMap steps) keys = .ok o)
    (h' : getOrderWith (depMap steps) keys' = .ok o')
    (e : TEnv α V) :
    applyTransform (stepsIn steps o) e = applyTransform (stepsIn steps o') e := by
  obtain ⟨hv, hall⟩ := getOrderWith_ok h
  obtain ⟨hv', hall'⟩ := getOrderWith_ok h'
  have hnd : o.Nodup := nodup_of_reverse hv.nodup
  have hnd' : o'.Nodup := nodup_of_reverse hv'.nodup
  -- both orders list exactly the keys, once
  have hperm : o.Perm o' := by
    rw [List.perm_ext_iff_of_nodup hnd hnd']
    intro k
    constructor
    · intro hk
      have := hv.all_keys k (by simpa using hk)
      exact hall' k (hcover' k this) this
    · intro hk
      have := hv'.all_keys k (by simpa using hk)
      exact hall k (hcover k this) this
  -- a later step never writes the source of an earlier one
  have hvalid : ∀ {ord : List α}, ValidR (depMap steps) ord.reverse →
      (stepsIn steps ord).Pairwise (fun a b => b.key ≠ a.source) := by
    intro ord hvo
    have hpw := List.pairwise_reverse.mp hvo.pairwise_no_later_writer
    refine List.Pairwise.filterMap _ ?_ hpw
    intro a a' hR b hb b' hb'
    obtain ⟨_, hl⟩ := lookup_depMap_of_find hb
    obtain ⟨hk', _⟩ := lookup_depMap_of_find hb'
    have := hR [b.source] hl
    rw [hk']
    intro heq
    exact this (by simp [heq])
  have hkeys : (stepsIn steps o).Pairwise (fun a b => a.key ≠ b.key) := by
    refine List.Pairwise.filterMap _ ?_ (List.nodup_iff_pairwise_ne.mp hnd)
    intro a a' hne b hb b' hb'
    rw [(lookup_depMap_of_find hb).1, (lookup_depMap_of_find hb').1]
    exact hne
  exact applyTransform_perm _ _ (hperm.filterMap _) hkeys (hvalid hv) (hvalid hv') e

/-- non-vacuity of `transform_order_irrelevant`: two independent transformations of the same
source are sorted differently by the two iteration orders; both hypotheses hold -/
example :
    let steps : List (Step Nat Nat) := [⟨1, 0, fun o => o.getD 0 + 1⟩, ⟨2, 0, fun o => o.getD 0 * 2⟩]
    getOrderWith (depMap steps) [1, 2] = .ok [1, 2] ∧ getOrderWith (depMap steps) [2, 1] = .ok [2, 1] := by
  decide

/-- the order does matter when it is *not* an accepted one: running `B := f(A)` before
`A := g(X)` reads an unbound `A` — so the theorem above is not a triviality about `foldl` -/
theorem transform_wrong_order_differs :
    let a : Step Nat Nat := ⟨1, 0, fun o => o.getD 0 + 1⟩   -- A := X + 1
    let b : Step Nat Nat := ⟨2, 1, fun o => o.getD 0 * 2⟩   -- B := A * 2
    let e : TEnv Nat Nat := ⟨fun x => if x = 0 then some 5 else none, fun _ => none⟩
    (applyTransform [a, b] e).transformed 2 = some 12 ∧
    (applyTransform [b, a] e).transformed 2 = some 0 := by
  decide

end Transform

/-! ## dispatch order of `CombinedScan` -/

/-- **The dispatch order is a function of the rule set.** `CombinedScan::new` sorts the rules
by `(has fix, id)`; with pairwise different ids any permutation of the input (any order in which
rule files were read, any order of a map) gives the same rule vector. -/
theorem combined_order_irrelevant (rules rules' : List (Bool × List UInt8)) (hp : rules.Perm rules')
    (hid : (rules.map (·.2)).Nodup) : combinedOrder rules = combinedOrder rules' := by
  refine sortBy_canonical fixIdLt_trans fixIdLt_asymm hp ?_
  have := List.pairwise_map.mp (List.nodup_iff_pairwise_ne.mp hid)
  exact this.imp (fun {a b} h => fixIdLt_total a b h)

/-- … and it does not depend on the sorting algorithm either (`sort_unstable_by_key`): every
strictly sorted arrangement of the rules is the model's. -/
theorem combinedOrder_unique (rules out : List (Bool × List UInt8)) (hp : out.Perm rules)
    (hs : out.Pairwise (fun a b => fixIdLt a b = true)) : out = combinedOrder rules :=
  sortBy_unique fixIdLt_trans fixIdLt_asymm hp hs

/-- non-vacuity: rules without a fix come first, each group by id (`a`=97, `b`=98) -/
example : combinedOrder [(true, [97]), (false, [98]), (false, [97, 98]), (false, [97])] =
    [(false, [97]), (false, [97, 98]), (false, [98]), (true, [97])] := by decide

/-- with two rules of the same id the order is *not* canonical for a stable sort: duplicates
keep their input order (ids are documented to be unique; ast-grep does not check it) -/
theorem combined_order_duplicate_ids_example :
    combinedOrder [(false, [97]), (true, [98]), (true, [98])] =
      [(false, [97]), (true, [98]), (true, [98])] ∧
    ¬ ((List.map (·.2) [(false, [97]), (true, [98]), ((true, [98]) : Bool × List UInt8)]).Nodup) := by
  decide

/-! ## snapshots -/

open AGV.Snapshot in
/-- **Snapshot files are canonical.** The serialised map does not depend on the iteration order
of the `HashMap` holding the snapshots: permuting the entries (pairwise different sources) gives
byte-identical output, for every rendering of an entry. -/
theorem snapshot_canonical {V : Type} (render : Source × V → List UInt8)
    (entries entries' : List (Source × V)) (hp : entries.Perm entries')
    (hk : (entries.map (·.1)).Nodup) :
    orderedMap entries = orderedMap entries' ∧ serialize render entries = serialize render entries' := by
  have h : orderedMap entries = orderedMap entries' := by
    refine sortBy_canonical (lt := keyLt) (fun a b c => bytesLt_trans a.1 b.1 c.1)
      (fun a b => bytesLt_asymm a.1 b.1) hp ?_
    have := List.pairwise_map.mp (List.nodup_iff_pairwise_ne.mp hk)
    exact this.imp (fun {a b} h => bytesLt_total a.1 b.1 h)
  exact ⟨h, by simp only [serialize, h]⟩

open AGV.Snapshot in
/-- the written order is the byte-wise lexicographic order of the sources (what a reader of the
YAML file sees): `"b"`, `"a"`, `"ab"` are written `a`, `ab`, `b` -/
example : orderedMap [(([98] : Source), 0), ([97], 1), ([97, 98], 2)] = [([97], 1), ([97, 98], 2), ([98], 0)] := by
  decide

/-! ## constraints (H20) -/

section Constraints
variable {V : Type}

/-- one iteration of the loop of `match_constraints` -/
def stepC (cons : α → Option (Constraint α V)) (x : α) : Constraint α V :=
  fun e => match cons x with
    | none => some e
    | some c => c e

omit [DecidableEq α] in
theorem matchConstraints_cons (cons : α → Option (Constraint α V)) (x : α) (xs : List α) (e : CEnv α V) :
    matchConstraints cons (x :: xs) e = (stepC cons x e).bind (matchConstraints cons xs) := by
  simp only [matchConstraints, stepC]
  cases h : cons x with
  | none => rfl
  | some c =>
    show (match c e with | none => none | some e' => matchConstraints cons xs e') = (c e).bind _
    cases c e <;> rfl

omit [DecidableEq α] in
theorem stepC_local (cons : α → Option (Constraint α V)) (fp : α → α → Prop)
    (hloc : ∀ x c, cons x = some c → Local c (fp x)) (x : α) : Local (stepC cons x) (fp x) := by
  unfold stepC
  cases h : cons x with
  | some c => exact hloc x c h
  | none =>
    refine ⟨?_, ?_, ?_⟩
    · intro e r hr y _; simp at hr; rw [hr]
    · intro e e' _; rfl
    · intro e e' r r' hag hr hr' y hy
      simp at hr hr'; rw [← hr, ← hr']; exact hag y hy

/-- **H20, why the captures are sorted.** Before ec1c602 `match_constraints` iterated
`single_matched` (a `HashMap`) directly while threading one environment through all constraints.
Two constraints that bind the same new variable then make the verdict depend on the iteration
order: rule `foo($A, $B)`, constraints `A: {has: {kind: number, pattern: $X, stopBy: end}}`,
`B: {pattern: g($X)}` on `foo(f(1, 2), g(2))` — variables `A`=0, `B`=1, `X`=9; the candidates of
`$X` are `[1, 2]` under `A` and `[2]` under `B`. Order A,B fails (X:=1, then 2≠1); order B,A
matches (X:=2, found again under A). This is a statement about the *un-sorted* loop
(`matchConstraints` applied to the raw iteration order); it was confirmed on the real CLI. -/
theorem constraints_order_irrelevant_unsorted_counterexample :
    let cons : Nat → Option (Constraint Nat Nat) := fun x =>
      if x = 0 then some (captureFirst 9 [1, 2]) else if x = 1 then some (captureFirst 9 [2]) else none
    let e0 : CEnv Nat Nat := fun _ => none
    (matchConstraints cons [0, 1] e0).isSome = false ∧ (matchConstraints cons [1, 0] e0).isSome = true := by
  decide

omit [DecidableEq α] in
/-- **H20, full statement for the code as it is now.** `match_constraints` collects the
constrained captures, sorts them by variable name and only then runs the constraints: verdict
*and* resulting environment are the same for every iteration order of the capture map — for
arbitrary constraints (shared variables included), any total order on the names. -/
theorem constraints_order_irrelevant (le : α → α → Bool)
    (htotal : ∀ a b, le a b = true ∨ le b a = true)
    (htrans : ∀ a b c, le a b = true → le b c = true → le a c = true)
    (hanti : ∀ a b, le a b = true → le b a = true → a = b)
    (cons : α → Option (Constraint α V)) (vars vars' : List α) (hp : vars.Perm vars') (e : CEnv α V) :
    matchConstraintsSorted le cons vars e = matchConstraintsSorted le cons vars' e := by
  unfold matchConstraintsSorted
  rw [sortByLe_canonical htotal htrans hanti (hp.filter _)]

/-- … instantiated with the order of the code: `String`'s `Ord` on the variable names -/
theorem constraints_order_irrelevant_names {V : Type} (cons : List Char → Option (Constraint (List Char) V))
    (vars vars' : List (List Char)) (hp : vars.Perm vars') (e : CEnv (List Char) V) :
    matchConstraintsSorted AGV.Topo.nameLe cons vars e = matchConstraintsSorted AGV.Topo.nameLe cons vars' e :=
  constraints_order_irrelevant AGV.Topo.nameLe nameLe_total nameLe_trans nameLe_antisymm cons vars vars' hp e

/-- the order and the sort restated in `Model/Topo.lean` are those of `Model/Rule.lean`
(`constraintLoop` runs over `sortByName env.single`) -/
theorem nameLe_eq_rule : ∀ a b : List Char, AGV.Topo.nameLe a b = AGV.nameLe a b := by
  intro a
  induction a with
  | nil => intro b; simp [AGV.Topo.nameLe, AGV.nameLe]
  | cons x a ih =>
    intro b
    cases b with
    | nil => simp [AGV.Topo.nameLe, AGV.nameLe]
    | cons y b => simp only [AGV.Topo.nameLe, AGV.nameLe, ih b]

theorem sortByName_eq_sortByLe {β : Type} (l : List (AGV.Name × β)) :
    (AGV.sortByName l).map (·.1) = sortByLe AGV.Topo.nameLe (l.map (·.1)) := by
  have hins : ∀ (x : AGV.Name × β) (ys : List (AGV.Name × β)),
      (AGV.insertByName x ys).map (·.1) = insertByLe AGV.Topo.nameLe x.1 (ys.map (·.1)) := by
    intro x ys
    induction ys with
    | nil => simp [AGV.insertByName, insertByLe]
    | cons y ys ih =>
      simp only [AGV.insertByName, insertByLe, List.map_cons, nameLe_eq_rule]
      split
      · simp
      · simp [ih]
  induction l with
  | nil => simp [AGV.sortByName, sortByLe]
  | cons x xs ih =>
    show (AGV.insertByName x (AGV.sortByName xs)).map (·.1) = insertByLe AGV.Topo.nameLe x.1 (sortByLe AGV.Topo.nameLe (xs.map (·.1)))
    rw [hins, ih]

/-- the witness of the un-sorted counter-example now gives the same verdict in both orders
(variables sorted: A=0 before B=1, so X:=1 and the constraint on B fails — deterministically) -/
example :
    let cons : Nat → Option (Constraint Nat Nat) := fun x =>
      if x = 0 then some (captureFirst 9 [1, 2]) else if x = 1 then some (captureFirst 9 [2]) else none
    let e0 : CEnv Nat Nat := fun _ => none
    (matchConstraintsSorted (fun a b => decide (a ≤ b)) cons [0, 1] e0).isSome = false ∧
    (matchConstraintsSorted (fun a b => decide (a ≤ b)) cons [1, 0] e0).isSome = false ∧
    (matchConstraintsSorted (fun a b => decide (a ≤ b)) cons [1, 7, 0] e0).isSome = false := by
  decide

omit [DecidableEq α] in
/-- **Order independence that held before the fix too.** When every constraint only reads and writes its own set of
variables (`Local c (fp x)`) and these sets are pairwise disjoint, the result of
`match_constraints` (verdict *and* resulting environment) is the same for every iteration order. -/
theorem constraints_order_irrelevant_partial (cons : α → Option (Constraint α V)) (fp : α → α → Prop)
    (hloc : ∀ x c, cons x = some c → Local c (fp x)) (vars vars' : List α) (hp : vars.Perm vars')
    (hdisj : vars.Pairwise (fun x y => ∀ z, ¬ (fp x z ∧ fp y z))) (e : CEnv α V) :
    matchConstraints cons vars e = matchConstraints cons vars' e := by
  induction hp generalizing e with
  | nil => rfl
  | cons x _ ih =>
    rw [matchConstraints_cons, matchConstraints_cons]
    have hd := (List.pairwise_cons.mp hdisj).2
    congr 1
    funext e'
    exact ih hd e'
  | swap x y l =>
    have two : ∀ a b, matchConstraints cons (a :: b :: l) e =
        ((stepC cons a e).bind (stepC cons b)).bind (matchConstraints cons l) := by
      intro a b
      rw [matchConstraints_cons]
      cases stepC cons a e with
      | none => rfl
      | some e' => exact matchConstraints_cons cons b l e'
    have hxy : ∀ z, ¬ (fp y z ∧ fp x z) := (List.pairwise_cons.mp hdisj).1 x (by simp)
    rw [two, two, constraint_comm (stepC_local cons fp hloc y) (stepC_local cons fp hloc x) hxy e]
  | trans h1 _ ih1 ih2 =>
    have hsymm : ∀ {x y : α}, (∀ z, ¬ (fp x z ∧ fp y z)) → ∀ z, ¬ (fp y z ∧ fp x z) :=
      fun h z hz => h z ⟨hz.2, hz.1⟩
    rw [ih1 hdisj e, ih2 ((h1.pairwise_iff hsymm).mp hdisj) e]

/-- non-vacuity of the locality hypothesis: the pattern-capture constraint of the counter-example
is local to its one variable, so constraints capturing *different* new variables commute -/
theorem captureFirst_local [DecidableEq V] (x : α) (vs : List V) :
    Local (captureFirst x vs : Constraint α V) (fun y => y = x) := by
  have hb : ∀ (v : V) (e r : CEnv α V), bindVar x v e = some r →
      (∀ y, y ≠ x → r y = e y) ∧ r x = some v ∧ (e x = none ∨ e x = some v) := by
    intro v e r h
    unfold bindVar at h
    split at h
    · next hn =>
      simp at h; subst h
      exact ⟨fun y hy => by simp [hy], by simp, .inl hn⟩
    · next w hw =>
      split at h
      · next hwv => simp at h; subst h; subst hwv; exact ⟨fun _ _ => rfl, hw, .inr hw⟩
      · simp at h
  have hdep : ∀ (v : V) (e e' : CEnv α V), e x = e' x →
      (bindVar x v e).isSome = (bindVar x v e').isSome := by
    intro v e e' h
    unfold bindVar
    rw [← h]
    cases e x with
    | none => rfl
    | some w => by_cases hwv : w = v <;> simp [hwv]
  induction vs with
  | nil =>
    refine ⟨?_, ?_, ?_⟩ <;> intros <;> simp_all [captureFirst]
  | cons v vs ih =>
    refine ⟨?_, ?_, ?_⟩
    · intro e r hr y hy
      simp only [captureFirst] at hr
      cases hbv : bindVar x v e with
      | some r1 => rw [hbv] at hr; simp at hr; subst hr; exact (hb v e r1 hbv).1 y hy
      | none => rw [hbv] at hr; exact ih.frame e r hr y hy
    · intro e e' hag
      simp only [captureFirst]
      have hx := hag x rfl
      have := hdep v e e' hx
      cases hbv : bindVar x v e with
      | some r1 =>
        rw [hbv] at this
        cases hbv' : bindVar x v e' with
        | some r1' => rfl
        | none => rw [hbv'] at this; simp at this
      | none =>
        rw [hbv] at this
        cases hbv' : bindVar x v e' with
        | some r1' => rw [hbv'] at this; simp at this
        | none => exact ih.success e e' hag
    · intro e e' r r' hag hr hr' y hy
      subst hy
      simp only [captureFirst] at hr hr'
      have hx := hag y rfl
      have := hdep v e e' hx
      cases hbv : bindVar y v e with
      | some r1 =>
        rw [hbv] at this hr
        cases hbv' : bindVar y v e' with
        | some r1' =>
          rw [hbv'] at hr'
          simp at hr hr'; subst hr; subst hr'
          rw [(hb v e r1 hbv).2.1, (hb v e' r1' hbv').2.1]
        | none => rw [hbv'] at this; simp at this
      | none =>
        rw [hbv] at this hr
        cases hbv' : bindVar y v e' with
        | some r1' => rw [hbv'] at this; simp at this
        | none => rw [hbv'] at hr'; exact ih.value e e' r r' hag hr hr' y rfl

/-- non-vacuous instance of `constraints_order_irrelevant_partial`: the two constraints of the
counter-example, but capturing *different* variables (8 and 9), give the same result in both orders -/
example :
    let cons : Nat → Option (Constraint Nat Nat) := fun x =>
      if x = 0 then some (captureFirst 8 [1, 2]) else if x = 1 then some (captureFirst 9 [2]) else none
    let e0 : CEnv Nat Nat := fun _ => none
    (matchConstraints cons [0, 1] e0).isSome = true ∧ (matchConstraints cons [1, 0] e0).isSome = true := by
  decide

end Constraints

end AGV.C13
