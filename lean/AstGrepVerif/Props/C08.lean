/-
C08 — one rule, one fix: every front end proposes the same edit.

The model (`Model/Frontends.lean`) is a faithful but *shallow* transcription of plumbing: which
`Replacer` / `Matcher` implementation each front end reaches `get_replaced_range` /
`get_match_len` through, and what the language server does with the result.  The theorems say that
these call chains produce the documented edit (`Spec.ruleEdit`); which nodes match, what the
template expands to and what the expansions' rules say about the siblings are data (C01-C07).
Most of the assurance for this property comes from the end-to-end comparison of the real front
ends (harness unit `frontends_edit`), which also confirmed the three divergences proved below for
the pinned code (`Variant.pinned`) and their absence in the code with FIX_C08 (`Variant.fixed`).

Pinned code, confirmed on the real CLI / server and repaired by FIX_C08:
* `impl Replacer for &T` forwards `generate_replacement` only, so `Node::replace(&rule, &fixer)`,
  `AstGrep::replace` and therefore the `fixed` text of `sg test` snapshots use the *default* range
  and ignore `expandStart` / `expandEnd` (`forwarding_pinned_counterexample`,
  `snapshot_expand_counterexample`);
* the language server builds its quick fix with `replace_by`, i.e. on the node's own range
  (`lsp_expand_counterexample`, H12);
* fix-all sorts by `(start, end)`, so of two fixable matches starting at the same byte it keeps the
  inner one while `--update-all` keeps the outer one (`fixAll_nested_counterexample`).
-/
import AstGrepVerif.Lemmas.Frontends
import AstGrepVerif.Lemmas.Interactive

namespace AGV.Spec

/-- **What the documentation of `fix` says** (guide "Rewrite Code", `FixConfig` reference): the
replacement text is the expanded template; it replaces the matched node, extended to the left up
to the start of the sibling selected by `expandStart` and to the right up to the end of the sibling
selected by `expandEnd` (each: the rule tried on the siblings going outwards until `stopBy`; no
expansion when nothing is selected).  A rule's matcher never trims the node. -/
def ruleEdit (f : AGV.FixRule) (s : AGV.MatchSite) : Edit UInt8 :=
  { start := AGV.expandStart f.es s.node s.prevs,
    stop := AGV.expandEnd f.ee s.node s.nexts,
    rep := s.inserted }

end AGV.Spec

namespace AGV.C08

/-- an `REdit` as a specification edit -/
def toSpec (e : REdit) : Spec.Edit UInt8 := { start := e.position, stop := e.position + e.deleted, rep := e.inserted }

/-- well-formed site: the node's range is not inverted, the siblings selected by the expansions lie
on the correct side (tree-sitter contract, checked by the C06 range oracle) -/
def SiteWF (f : FixRule) (s : MatchSite) : Prop :=
  expandStart f.es s.node s.prevs ≤ expandEnd f.ee s.node s.nexts

theorem toSpec_editOfRange (r : Rng) (t : Bytes) (h : r.start ≤ r.stop) :
    toSpec (editOfRange r t) = { start := r.start, stop := r.stop, rep := t } := by
  simp only [toSpec, editOfRange, Spec.Edit.mk.injEq, and_true, true_and]
  omega

/-! ## dispatch -/

theorem cliEdit_eq (v : Variant) (f : FixRule) (s : MatchSite) :
    cliEdit v f s = editOfRange (fixerReplacedRange f.es f.ee s.node none s.prevs s.nexts) s.inserted := rfl

theorem fixerRange_ruleCore (f : FixRule) (s : MatchSite) :
    fixerReplacedRange f.es f.ee s.node none s.prevs s.nexts
      = ⟨expandStart f.es s.node s.prevs, expandEnd f.ee s.node s.nexts⟩ := by
  unfold fixerReplacedRange
  cases hs : f.es <;> cases he : f.ee <;> simp [defaultReplacedRange, expandStart, expandEnd]

/-- **`forwarding_ok`**: with FIX_C08, asking a replacer for its range through any number of `&`
gives the replacer's own answer, and a matcher's match length survives `&` (this already holds on
the pinned code).  A wrapper that forgets to forward breaks this theorem's model counterpart
(`forwarding_pinned_counterexample`). -/
theorem forwarding_ok (v : Variant) (hv : v.refForwards = true) (r : ReplacerImpl) (m : MatcherImpl)
    (s : MatchSite) :
    (ReplacerImpl.ref r).replacedRange v m s = r.replacedRange v m s ∧
    (MatcherImpl.ref m).getMatchLen = m.getMatchLen := by
  constructor
  · simp [ReplacerImpl.replacedRange, hv]
  · rfl

/-- the witness used below: the node `b` of `foo(b, c)` (bytes 4..5), followed by the `,` (5..6)
that `expandEnd: {regex: ','}` selects, then `c` and `)` -/
def commaSite : MatchSite :=
  { node := ⟨4, 5⟩, prevs := [⟨⟨3, 4⟩, false, false⟩],
    nexts := [⟨⟨5, 6⟩, true, false⟩, ⟨⟨7, 8⟩, false, false⟩, ⟨⟨8, 9⟩, false, false⟩], inserted := [] }

def commaFix : FixRule := { es := none, ee := some .neighbor }

/-- on the pinned code `&Fixer` answers with the default range: the expansion is lost -/
theorem forwarding_pinned_counterexample :
    ¬ ∀ (r : ReplacerImpl) (m : MatcherImpl) (s : MatchSite),
        (ReplacerImpl.ref r).replacedRange .pinned m s = r.replacedRange .pinned m s := by
  intro h
  have := h (.fixer none (some .neighbor)) .ruleCore commaSite
  revert this
  decide

/-! ## CLI = snapshot = library -/

/-- **The CLI's edit is the documented edit**, on either code base. -/
theorem cliEdit_spec (v : Variant) (f : FixRule) (s : MatchSite) (hwf : SiteWF f s) :
    toSpec (cliEdit v f s) = Spec.ruleEdit f s := by
  rw [cliEdit_eq, fixerRange_ruleCore]
  have := toSpec_editOfRange ⟨expandStart f.es s.node s.prevs, expandEnd f.ee s.node s.nexts⟩
    s.inserted hwf
  rw [this]
  rfl

/-- **`edits_agree_cli_snapshot_lib`** (code with FIX_C08): `scan --json` / `-U`, the `fixed`
snapshot of `sg test`, and `Node::replace` with the fixer by value or by reference build the same
`Edit` (range and text) for every rule and match, expansions included. -/
theorem edits_agree_cli_snapshot_lib (v : Variant) (hv : v.refForwards = true) (f : FixRule)
    (s : MatchSite) (byRef : Bool) :
    snapshotEdit v f s = cliEdit v f s ∧ libEdit v byRef f s = cliEdit v f s := by
  constructor
  · simp [snapshotEdit, nodeReplace, cliEdit, nmMakeEdit, ReplacerImpl.replacedRange, hv,
      MatcherImpl.getMatchLen]
  · cases byRef <;>
      simp [libEdit, nodeReplace, cliEdit, nmMakeEdit, ReplacerImpl.replacedRange, hv,
        MatcherImpl.getMatchLen]

/-- on any code base the fixer passed *by value* agrees with the CLI -/
theorem lib_by_value_agrees (v : Variant) (f : FixRule) (s : MatchSite) :
    libEdit v false f s = cliEdit v f s := by
  simp [libEdit, nodeReplace, cliEdit, nmMakeEdit, ReplacerImpl.replacedRange,
    MatcherImpl.getMatchLen]

/-- **`edits_agree_partial`** (any code base): fixers without expansion -/
theorem edits_agree_partial (v : Variant) (f : FixRule) (hf : f.es = none ∧ f.ee = none)
    (s : MatchSite) (byRef : Bool) :
    snapshotEdit v f s = cliEdit v f s ∧ libEdit v byRef f s = cliEdit v f s := by
  obtain ⟨h1, h2⟩ := hf
  constructor
  · cases hv : v.refForwards <;>
      simp [snapshotEdit, nodeReplace, cliEdit, nmMakeEdit, ReplacerImpl.replacedRange, hv,
        MatcherImpl.getMatchLen, fixerReplacedRange, h1, h2]
  · cases byRef <;> cases hv : v.refForwards <;>
      simp [libEdit, nodeReplace, cliEdit, nmMakeEdit, ReplacerImpl.replacedRange, hv,
        MatcherImpl.getMatchLen, fixerReplacedRange, h1, h2]

/-- **the full statement is false on the pinned code**: `foo(b, c)`, rule `b` with
`fix: {template: '', expandEnd: {regex: ','}}`: the CLI deletes `b,` (4..6), the snapshot of
`sg test` deletes `b` (4..5).  Replayed on the real CLI by the harness. -/
theorem snapshot_expand_counterexample :
    ¬ ∀ (f : FixRule) (s : MatchSite), snapshotEdit .pinned f s = cliEdit .pinned f s := by
  intro h
  have := h commaFix commaSite
  revert this
  decide

theorem snapshot_expand_counterexample_observed :
    cliDiff .pinned commaFix commaSite = ⟨4, 6, []⟩ ∧
    diffOfEdit (snapshotEdit .pinned commaFix commaSite) = ⟨4, 5, []⟩ ∧
    diffOfEdit (snapshotEdit .fixed commaFix commaSite) = ⟨4, 6, []⟩ := by decide

/-! ## `Pattern` trimming (`sg run`, library calls with a pattern) -/

/-- `sg run -p P -r F` and `node.replace(P, "F")` agree, trimming included, on either code base:
both take the default range with the pattern's match length. -/
theorem edits_agree_run_lib (v : Variant) (len : Option Nat) (s : MatchSite) :
    libPatternEdit v len s = runEdit v len s := by
  cases hv : v.refForwards <;>
    simp [libPatternEdit, nodeReplace, runEdit, nmMakeEdit, ReplacerImpl.replacedRange, hv,
      MatcherImpl.getMatchLen, fixerReplacedRange]

/-- the trimmed range: from the node's start over the matched prefix -/
theorem run_trims (v : Variant) (len : Nat) (s : MatchSite) :
    runEdit v (some len) s = editOfRange ⟨s.node.start, s.node.start + len⟩ s.inserted := by
  simp [runEdit, nmMakeEdit, ReplacerImpl.replacedRange, MatcherImpl.getMatchLen,
    fixerReplacedRange, defaultReplacedRange]

/-- a rule never trims (`RuleCore` has the trait's default `get_match_len`): without expansions the
whole node is replaced, trailing punctuation included (`pattern: var $A = $B` on `var a = 1;`
replaces the `;` too, unlike `sg run -p 'var $A = $B'`) -/
theorem rule_never_trims (v : Variant) (f : FixRule) (hf : f.es = none ∧ f.ee = none) (s : MatchSite) :
    cliEdit v f s = editOfRange s.node s.inserted := by
  simp [cliEdit, nmMakeEdit, ReplacerImpl.replacedRange, MatcherImpl.getMatchLen,
    fixerReplacedRange, defaultReplacedRange, hf.1, hf.2]

/-! ## language server: quick fix -/

/-- **`lsp_agrees_full`** (code with FIX_C08): the quick fix replaces what the CLI replaces. -/
theorem lsp_agrees_full (v : Variant) (hv : v.lspFixerRange = true) (f : FixRule) (s : MatchSite) :
    lspEdit v f s = cliEdit v f s := by
  simp [lspEdit, hv, cliEdit]

/-- **`lsp_agrees_partial`** (any code base): fixers without expansion. -/
theorem lsp_agrees_partial (v : Variant) (f : FixRule) (hf : f.es = none ∧ f.ee = none)
    (s : MatchSite) : lspEdit v f s = cliEdit v f s := by
  rw [rule_never_trims v f hf]
  cases hv : v.lspFixerRange
  · simp [lspEdit, hv, replaceBy]
  · simp only [lspEdit, hv, ↓reduceIte]; exact rule_never_trims v f hf s

/-- **`lsp_expand_counterexample`** (H12, pinned code): same witness, the quick fix deletes only `b`. -/
theorem lsp_expand_counterexample :
    ¬ ∀ (f : FixRule) (s : MatchSite), lspEdit .pinned f s = cliEdit .pinned f s := by
  intro h
  have := h commaFix commaSite
  revert this
  decide

/-- **One rule, one fix** (code with FIX_C08): all four front ends build the documented edit. -/
theorem one_rule_one_fix (f : FixRule) (s : MatchSite) (hwf : SiteWF f s) (byRef : Bool) :
    toSpec (cliEdit .fixed f s) = Spec.ruleEdit f s ∧
    toSpec (snapshotEdit .fixed f s) = Spec.ruleEdit f s ∧
    toSpec (libEdit .fixed byRef f s) = Spec.ruleEdit f s ∧
    toSpec (lspEdit .fixed f s) = Spec.ruleEdit f s := by
  have h := edits_agree_cli_snapshot_lib .fixed rfl f s byRef
  rw [h.1, h.2, lsp_agrees_full .fixed rfl]
  exact ⟨cliEdit_spec _ f s hwf, cliEdit_spec _ f s hwf, cliEdit_spec _ f s hwf, cliEdit_spec _ f s hwf⟩

/-- the snapshot text is the source with the documented edit of the first match spliced in -/
theorem snapshotFixed_spec (f : FixRule) (src : Bytes) (s : MatchSite) (rest : List MatchSite)
    (hwf : SiteWF f s) (hin : expandEnd f.ee s.node s.nexts ≤ src.length) :
    snapshotFixed .fixed f src (s :: rest) = some (some (Spec.splice1 src (Spec.ruleEdit f s))) := by
  have he : snapshotEdit .fixed f s
      = editOfRange ⟨expandStart f.es s.node s.prevs, expandEnd f.ee s.node s.nexts⟩ s.inserted := by
    rw [(edits_agree_cli_snapshot_lib .fixed rfl f s true).1, cliEdit_eq, fixerRange_ruleCore]
  have hsum : expandStart f.es s.node s.prevs
      + (expandEnd f.ee s.node s.nexts - expandStart f.es s.node s.prevs)
      = expandEnd f.ee s.node s.nexts := by
    unfold SiteWF at hwf; omega
  simp only [snapshotFixed, he, acceptEdit, editOfRange, hsum, Spec.splice1, Spec.ruleEdit]
  simp [hin]

/-! ## language server: fix-all = `--update-all` -/

/-- position of a byte offset of `src` -/
def P (src : Bytes) (off : Nat) : LPos := (lineOf src off, colOf src off)

/-- pre-order of the matched nodes: by start, and of nodes that start together the outer first -/
def PreOrdered : List MatchSite → Prop
  | [] => True
  | [_] => True
  | a :: b :: r =>
    (a.node.start < b.node.start ∨ (a.node.start = b.node.start ∧ b.node.stop ≤ a.node.stop)) ∧
    PreOrdered (b :: r)

/-- no two matches start at the same byte -/
def StrictStarts : List MatchSite → Prop
  | [] => True
  | [_] => True
  | a :: b :: r => a.node.start < b.node.start ∧ StrictStarts (b :: r)

instance : (ms : List MatchSite) → Decidable (PreOrdered ms)
  | [] => isTrue trivial
  | [_] => isTrue trivial
  | a :: b :: r =>
    have := instDecidablePreOrdered (b :: r)
    inferInstanceAs (Decidable (_ ∧ _))

/-- offsets that are in the text and start a character (node borders, sibling borders) -/
def OffOK (src : Bytes) (o : Nat) : Prop := o ≤ src.length ∧ CharStart src o

structure SiteOK (v : Variant) (f : FixRule) (src : Bytes) (s : MatchSite) : Prop where
  nodeStart : OffOK src s.node.start
  nodeStop : OffOK src s.node.stop
  editStart : OffOK src (cliDiff v f s).start
  editStop : OffOK src (cliDiff v f s).stop

/-- the diagnostic the model publishes for a site, in closed form -/
def diagOf (v : Variant) (f : FixRule) (src : Bytes) (s : MatchSite) : LspDiag :=
  { start := P src s.node.start, stop := P src s.node.stop, fixed := some s.inserted,
    editStart := P src (cliDiff v f s).start, editStop := P src (cliDiff v f s).stop }

theorem P_zero (src : Bytes) : P src 0 = (0, 0) := by
  simp [P, lineOf_eq, colOf, charCount]

theorem lposLt_P (src : Bytes) {a b : Nat} (ha : OffOK src a) (hb : OffOK src b) :
    lposLt (P src a) (P src b) = true ↔ a < b :=
  position_order_iso src ha.1 hb.1 ha.2 hb.2

theorem lspDiag?_eq (v : Variant) (f : FixRule) (src : Bytes) (s : MatchSite)
    (hl : lspEdit v f s = cliEdit v f s) (hok : SiteOK v f src s) :
    lspDiag? v f src s = some (diagOf v f src s) := by
  have h3 : lspPos? src (diffOfEdit (cliEdit v f s)).start = some (P src (cliDiff v f s).start) :=
    lspPos?_eq src _ hok.editStart.1
  have h4 : lspPos? src (diffOfEdit (cliEdit v f s)).stop = some (P src (cliDiff v f s).stop) :=
    lspPos?_eq src _ hok.editStop.1
  simp only [lspDiag?, hl, lspPos?_eq src _ hok.nodeStart.1, lspPos?_eq src _ hok.nodeStop.1, h3, h4,
    Option.pure_def, Option.bind_eq_bind, Option.bind_some]
  rfl

theorem lspDiags?_eq (v : Variant) (f : FixRule) (src : Bytes) (ms : List MatchSite)
    (hl : ∀ s, lspEdit v f s = cliEdit v f s) (hok : ∀ s ∈ ms, SiteOK v f src s) :
    lspDiags? v f src ms = some (ms.map (diagOf v f src)) := by
  induction ms with
  | nil => rfl
  | cons s r ih =>
    have h1 := lspDiag?_eq v f src s (hl s) (hok s (by simp))
    have h2 := ih (fun x hx => hok x (by simp [hx]))
    unfold lspDiags? at h2 ⊢
    simp [allSome, h1, h2]

/-- the filter of `compute_all_fixes` and the filter of `process_diffs_interactive` make the same
decisions when positions and bytes are compared on the same text -/
theorem fixAllGo_eq_processDiffsGo (v : Variant) (f : FixRule) (src : Bytes) :
    ∀ (ms : List MatchSite) (e : Nat), OffOK src e → (∀ s ∈ ms, SiteOK v f src s) →
      (lspFixAllGo (P src e) (ms.map (diagOf v f src))).map
          (fun d => (d.editStart, d.editStop, d.fixed))
        = (processDiffsGo e (ms.map (cliDiff v f))).map
          (fun d => (P src d.start, P src d.stop, some d.rep))
  | [], _, _, _ => rfl
  | s :: r, e, he, hok => by
    have hs := hok s (by simp)
    have hr : ∀ x ∈ r, SiteOK v f src x := fun x hx => hok x (by simp [hx])
    simp only [List.map_cons, lspFixAllGo, diagOf, processDiffsGo]
    by_cases hlt : (cliDiff v f s).start < e
    · have := (lposLt_P src hs.editStart he).mpr hlt
      simp only [this, ↓reduceIte, hlt]
      exact fixAllGo_eq_processDiffsGo v f src r e he hr
    · have hn : lposLt (P src (cliDiff v f s).start) (P src e) = false := by
        cases h : lposLt (P src (cliDiff v f s).start) (P src e)
        · rfl
        · exact absurd ((lposLt_P src hs.editStart he).mp h) hlt
      simp only [hn, Bool.false_eq_true, ↓reduceIte, hlt, List.map_cons]
      have ih := fixAllGo_eq_processDiffsGo v f src r (cliDiff v f s).stop hs.editStop hr
      rw [ih]
      rfl

theorem sorted_of_preOrdered (v : Variant) (f : FixRule) (src : Bytes) :
    ∀ (ms : List MatchSite), PreOrdered ms → (∀ s ∈ ms, SiteOK v f src s) →
      SortedBy (diagLe true) (ms.map (diagOf v f src))
  | [], _, _ => trivial
  | [_], _, _ => trivial
  | a :: b :: r, h, hok => by
    have ha := hok a (by simp)
    have hb := hok b (by simp)
    refine ⟨?_, sorted_of_preOrdered v f src (b :: r) h.2 (fun x hx => hok x (by simp [hx]))⟩
    show diagLe true (diagOf v f src a) (diagOf v f src b) = true
    simp only [diagLe, diagOf]
    rcases h.1 with hlt | ⟨heq, hle⟩
    · simp [(lposLt_P src ha.nodeStart hb.nodeStart).mpr hlt]
    · have h1 : lposLt (P src a.node.start) (P src b.node.start) = false := by
        rw [heq]; exact pos_not_lt_self _
      have h2 : lposLt (P src b.node.start) (P src a.node.start) = false := by
        rw [heq]; exact pos_not_lt_self _
      have h3 : lposLt (P src a.node.stop) (P src b.node.stop) = false := by
        cases h : lposLt (P src a.node.stop) (P src b.node.stop)
        · rfl
        · have := (lposLt_P src ha.nodeStop hb.nodeStop).mp h; omega
      simp [h1, h2, h3]

theorem sorted_of_strictStarts (v : Variant) (f : FixRule) (src : Bytes) (o : Bool) :
    ∀ (ms : List MatchSite), StrictStarts ms → (∀ s ∈ ms, SiteOK v f src s) →
      SortedBy (diagLe o) (ms.map (diagOf v f src))
  | [], _, _ => trivial
  | [_], _, _ => trivial
  | a :: b :: r, h, hok => by
    have ha := hok a (by simp)
    have hb := hok b (by simp)
    refine ⟨?_, sorted_of_strictStarts v f src o (b :: r) h.2 (fun x hx => hok x (by simp [hx]))⟩
    show diagLe o (diagOf v f src a) (diagOf v f src b) = true
    simp [diagLe, diagOf, (lposLt_P src ha.nodeStart hb.nodeStart).mpr h.1]

/-- the general form: whenever the quick-fix range is the CLI's range and the published order is
already the sort order, fix-all and `--update-all` keep the same edits -/
theorem fixAll_eq_updateAll_of (v : Variant) (f : FixRule) (src : Bytes) (h0 : CharStart src 0)
    (ms : List MatchSite) (hl : ∀ s, lspEdit v f s = cliEdit v f s)
    (hsorted : SortedBy (diagLe v.lspOuterFirst) (ms.map (diagOf v f src)))
    (hok : ∀ s ∈ ms, SiteOK v f src s) :
    ∃ ds, lspDiags? v f src ms = some ds ∧
      (lspFixAll v ds).map (fun d => (d.editStart, d.editStop, d.fixed))
        = (processDiffs (ms.map (cliDiff v f))).map
            (fun d => (P src d.start, P src d.stop, some d.rep)) := by
  refine ⟨_, lspDiags?_eq v f src ms hl hok, ?_⟩
  unfold lspFixAll processDiffs
  rw [sortDiags_id _ _ hsorted, ← P_zero src]
  exact fixAllGo_eq_processDiffsGo v f src ms 0 ⟨Nat.zero_le _, h0⟩ hok

/-- **`fixAll_eq_updateAll`** (code with FIX_C08).  For the matches of a rule in pre-order, on a
text in which node and sibling borders start characters: the text edits of the fix-all code action
are, position for position and text for text, the diffs that `--update-all` accepts
(`processDiffs`), i.e. both front ends keep the same sub-list of the rule's edits.  Uses
`position_order_iso`. -/
theorem fixAll_eq_updateAll (v : Variant) (hv : v.lspFixerRange = true) (ho : v.lspOuterFirst = true)
    (f : FixRule) (src : Bytes) (h0 : CharStart src 0) (ms : List MatchSite) (hpre : PreOrdered ms)
    (hok : ∀ s ∈ ms, SiteOK v f src s) :
    ∃ ds, lspDiags? v f src ms = some ds ∧
      (lspFixAll v ds).map (fun d => (d.editStart, d.editStop, d.fixed))
        = (processDiffs (ms.map (cliDiff v f))).map
            (fun d => (P src d.start, P src d.stop, some d.rep)) :=
  fixAll_eq_updateAll_of v f src h0 ms (lsp_agrees_full v hv f)
    (ho ▸ sorted_of_preOrdered v f src ms hpre hok) hok

/-- **`fixAll_eq_updateAll_partial`** (any code base, in particular the pinned one): fixers
without expansion and matches that all start at different bytes. -/
theorem fixAll_eq_updateAll_partial (v : Variant) (f : FixRule) (hf : f.es = none ∧ f.ee = none)
    (src : Bytes) (h0 : CharStart src 0) (ms : List MatchSite) (hstrict : StrictStarts ms)
    (hok : ∀ s ∈ ms, SiteOK v f src s) :
    ∃ ds, lspDiags? v f src ms = some ds ∧
      (lspFixAll v ds).map (fun d => (d.editStart, d.editStop, d.fixed))
        = (processDiffs (ms.map (cliDiff v f))).map
            (fun d => (P src d.start, P src d.stop, some d.rep)) :=
  fixAll_eq_updateAll_of v f src h0 ms (lsp_agrees_partial v f hf)
    (sorted_of_strictStarts v f src _ ms hstrict hok) hok

/-! ### witnesses (replayed on the real server and CLI by the harness, rules 1-3 of `frontends_edit`) -/

/-- `foo(1);` -/
def fooSrc : Bytes := [0x66, 0x6f, 0x6f, 0x28, 0x31, 0x29, 0x3b]

/-- rule `any: [{kind: expression_statement}, {kind: call_expression}]`, `fix: X`, on `foo(1);`:
the statement (0..7) and the call (0..6), in pre-order -/
def nestedSites : List MatchSite :=
  [{ node := ⟨0, 7⟩, prevs := [], nexts := [], inserted := [0x58] },
   { node := ⟨0, 6⟩, prevs := [], nexts := [], inserted := [0x58] }]

def plainFix : FixRule := { es := none, ee := none }

/-- an edit a front end keeps: (start, stop, text) in positions -/
structure Kept where
  start : LPos
  stop : LPos
  text : Option Bytes
deriving DecidableEq, Repr

def keptLsp (v : Variant) (f : FixRule) (src : Bytes) (ms : List MatchSite) : Option (List Kept) :=
  (lspDiags? v f src ms).map fun ds =>
    (lspFixAll v ds).map fun d => ⟨d.editStart, d.editStop, d.fixed⟩

/-- **`fixAll_nested_counterexample`** (pinned code): of two fixable matches that start together
`--update-all` keeps the outer (`X`), fix-all keeps the inner (`X;`).  With FIX_C08 both keep the
outer one. -/
theorem fixAll_nested_counterexample :
    PreOrdered nestedSites ∧
    processDiffs (nestedSites.map (cliDiff .pinned plainFix)) = [⟨0, 7, [0x58]⟩] ∧
    keptLsp .pinned plainFix fooSrc nestedSites = some [⟨(0, 0), (0, 6), some [0x58]⟩] ∧
    keptLsp .fixed plainFix fooSrc nestedSites = some [⟨(0, 0), (0, 7), some [0x58]⟩] := by
  decide

/-- `foo(b, c)` -/
def commaSrc : Bytes := [0x66, 0x6f, 0x6f, 0x28, 0x62, 0x2c, 0x20, 0x63, 0x29]

/-- **`fixAll_expand_counterexample`** (pinned code, H12): fix-all replaces 4..5, `-U` 4..6. -/
theorem fixAll_expand_counterexample :
    processDiffs ([commaSite].map (cliDiff .pinned commaFix)) = [⟨4, 6, []⟩] ∧
    keptLsp .pinned commaFix commaSrc [commaSite] = some [⟨(0, 4), (0, 5), some []⟩] ∧
    keptLsp .fixed commaFix commaSrc [commaSite] = some [⟨(0, 4), (0, 6), some []⟩] := by
  decide

/-! ### non-vacuity of the hypotheses -/

/-- `SiteWF`, `SiteOK`, `PreOrdered`, `CharStart` hold on the `foo(b, c)` witness (both code bases) -/
example : SiteWF commaFix commaSite ∧ CharStart commaSrc 0 ∧ PreOrdered [commaSite] ∧
    OffOK commaSrc commaSite.node.start ∧ OffOK commaSrc commaSite.node.stop ∧
    OffOK commaSrc (cliDiff .fixed commaFix commaSite).start ∧
    OffOK commaSrc (cliDiff .fixed commaFix commaSite).stop := by
  unfold SiteWF OffOK
  decide

/-- and on a text with multi-byte characters: `é;b` (`c3 a9 3b 62`), node `b` at 3..4: offsets 0, 3, 4
start characters, offset 1 does not -/
example : CharStart [0xc3, 0xa9, 0x3b, 0x62] 0 ∧ CharStart [0xc3, 0xa9, 0x3b, 0x62] 3 ∧
    CharStart [0xc3, 0xa9, 0x3b, 0x62] 4 ∧ ¬ CharStart [0xc3, 0xa9, 0x3b, 0x62] 1 ∧
    P [0xc3, 0xa9, 0x3b, 0x62] 3 = (0, 2) := by
  decide

/-- trailing punctuation: `var a = 1;` (node 0..10, the pattern `var $A = $B` matched 9 bytes):
`sg run` keeps the `;`, a rule replaces it -/
example :
    let s : MatchSite := { node := ⟨0, 10⟩, prevs := [], nexts := [], inserted := [0x78] }
    diffOfEdit (runEdit .fixed (some 9) s) = ⟨0, 9, [0x78]⟩ ∧
    diffOfEdit (libPatternEdit .pinned (some 9) s) = ⟨0, 9, [0x78]⟩ ∧
    cliDiff .fixed plainFix s = ⟨0, 10, [0x78]⟩ ∧
    diffOfEdit (lspEdit .pinned plainFix s) = ⟨0, 10, [0x78]⟩ := by
  decide

/-- `fixAll_eq_updateAll` applies to the nested witness on the code with FIX_C08 (all hypotheses
hold there), and `forwarding_ok` / `edits_agree_partial` have inhabitants of their hypotheses -/
example : ∃ ds, lspDiags? .fixed plainFix fooSrc nestedSites = some ds ∧
    (lspFixAll .fixed ds).map (fun d => (d.editStart, d.editStop, d.fixed))
      = (processDiffs (nestedSites.map (cliDiff .fixed plainFix))).map
          (fun d => (P fooSrc d.start, P fooSrc d.stop, some d.rep)) :=
  fixAll_eq_updateAll .fixed rfl rfl plainFix fooSrc (by decide) nestedSites (by decide) (by
    intro s hs
    simp only [nestedSites, List.mem_cons, List.not_mem_nil, or_false] at hs
    rcases hs with rfl | rfl <;>
      exact ⟨by unfold OffOK; decide, by unfold OffOK; decide, by unfold OffOK; decide,
             by unfold OffOK; decide⟩)

example : Variant.fixed.refForwards = true ∧ plainFix.es = none ∧ plainFix.ee = none ∧
    StrictStarts [commaSite] := ⟨rfl, rfl, rfl, trivial⟩

end AGV.C08
