/-
C06 — rewrites touch only what was matched: edits are well-formed and local.
Property theorems only; helper lemmas live in `AstGrepVerif/Lemmas/`.

Specification: `Spec/Splice.lean` (`spliceAll` = apply the edits one at a time, last first).
Models: `Model/Interactive.lean` (CLI filter + splice), `Model/Rewrite.lean` (rewriter splice),
`Model/Edit.lean` (edit range from a match, expansions).
-/
import AstGrepVerif.Lemmas.Splice
import AstGrepVerif.Lemmas.Interactive
import AstGrepVerif.Lemmas.SpliceUtf8
import AstGrepVerif.Lemmas.SpliceUtf8Bridge
import AstGrepVerif.Lemmas.Rewrite

set_option linter.unusedSimpArgs false
set_option linter.unusedVariables false

namespace AGV.C06
open Spec

/-! ## The accept-all overlap filter (`process_diffs_interactive`) -/

/-- **For any input list** (unsorted, overlapping, nested, inverted ranges): the accepted list is a
sub-list of the input (same order, nothing invented), each accepted diff starts at or after the
stop of the previously accepted one, and when every range has `start ≤ stop` the accepted list is
ordered and disjoint in the sense of the specification, hence pairwise disjoint. -/
theorem processDiffs_sorted (ds : List Diff) :
    (processDiffs ds).Sublist ds ∧
    ChainFrom 0 (processDiffs ds) ∧
    ((∀ d ∈ ds, d.start ≤ d.stop) →
      OrderedFrom 0 ((processDiffs ds).map Diff.toEdit) ∧
      PairwiseDisjoint ((processDiffs ds).map Diff.toEdit)) := by
  refine ⟨processDiffsGo_sublist 0 ds, processDiffsGo_chain 0 ds, fun hw => ?_⟩
  have ho : OrderedFrom 0 ((processDiffs ds).map Diff.toEdit) :=
    orderedFrom_of_chain (processDiffsGo_chain 0 ds)
      (fun d hd => hw d ((processDiffsGo_sublist 0 ds).subset hd))
  exact ⟨ho, ho.pairwise⟩

/-- decisions never depend on later diffs: the accepted list of a prefix is a prefix of the
accepted list -/
theorem processDiffs_prefix_stable (pre post : List Diff) :
    processDiffs pre <+: processDiffs (pre ++ post) := by
  unfold processDiffs
  rw [processDiffsGo_append]
  exact List.prefix_append _ _

/-- **why a diff is dropped**: the diff after any prefix is either accepted, or it starts strictly
before the stop of a diff accepted earlier (it overlaps it, or lies before it) -/
theorem processDiffs_drop_reason (pre : List Diff) (d : Diff) :
    processDiffs (pre ++ [d]) = processDiffs pre ++ [d] ∨
    (processDiffs (pre ++ [d]) = processDiffs pre ∧ ∃ a ∈ processDiffs pre, d.start < a.stop) := by
  unfold processDiffs
  rw [processDiffsGo_append]
  simp only [processDiffsGo]
  split
  · rename_i hlt
    right
    refine ⟨by simp, ?_⟩
    rcases endAfter_eq 0 pre with ⟨_, h2⟩ | ⟨a, h1, h2⟩
    · omega
    · exact ⟨a, List.mem_of_getLast? h1, by omega⟩
  · left; rfl

/-- **the first of an overlapping pair wins** (ranges with `start ≤ stop`): once `a` is accepted,
any later diff that starts before `a.stop` is dropped, whatever lies in between -/
theorem processDiffs_keeps_first (pre mid : List Diff) (a b : Diff)
    (hw : ∀ d ∈ pre ++ a :: mid, d.start ≤ d.stop)
    (ha : processDiffs (pre ++ [a]) = processDiffs pre ++ [a])
    (hov : b.start < a.stop) :
    processDiffs (pre ++ a :: mid ++ [b]) = processDiffs (pre ++ a :: mid) := by
  have hsplit : pre ++ a :: mid = (pre ++ [a]) ++ mid := by simp
  unfold processDiffs at *
  rw [processDiffsGo_append]
  have hend : a.stop ≤ endAfter 0 (pre ++ a :: mid) := by
    have hm := (endAfter_mono (e := 0) hw).2 a
    apply hm
    rw [hsplit, processDiffsGo_append, ha]
    simp
  have : b.start < endAfter 0 (pre ++ a :: mid) := by omega
  simp [processDiffsGo, this]

/-- nothing is dropped needlessly: an ordered list passes unchanged -/
theorem processDiffs_id_of_ordered (ds : List Diff) (h : OrderedFrom 0 (ds.map Diff.toEdit)) :
    processDiffs ds = ds :=
  processDiffsGo_id (chain_of_orderedFrom h)

/-- the `start ≤ stop` hypothesis of `processDiffs_sorted` is needed: `end = range.end` is an
assignment, not a maximum, so an inverted range moves `end` backwards and a later diff overlapping
an earlier accepted one gets through (never produced by `Diff::generate`, whose range is
`position .. position + deleted_length`). -/
theorem processDiffs_inverted_range_counterexample :
    ¬ ∀ ds : List Diff, PairwiseDisjoint ((processDiffs ds).map Diff.toEdit) := by
  intro h
  have := h [⟨5, 10, []⟩, ⟨12, 3, []⟩, ⟨4, 6, []⟩]
  revert this
  simp [processDiffs, processDiffsGo, PairwiseDisjoint, Diff.toEdit]

/-! ## The splice (`apply_rewrite`) -/

/-- **`apply_rewrite` = the specification's splice** for ordered, disjoint ranges on char
boundaries (in range follows from being on a boundary). -/
theorem applyRewrite_eq_splice (old : Bytes) (acc : List Diff)
    (ho : OrderedFrom 0 (acc.map Diff.toEdit)) (hb : Sliceable old acc) :
    applyRewrite old acc = .ok (spliceAll old (acc.map Diff.toEdit)) :=
  applyRewrite_eq_spliceAll old acc ho hb

/-- **no panic**: on the output of the filter, with well-formed ranges on char boundaries, the
`.error` branch of the model (`&str[a..b]` out of range / off a boundary / `a > b`) is unreachable -/
theorem splice_no_panic (old : Bytes) (ds : List Diff)
    (hw : ∀ d ∈ ds, d.start ≤ d.stop) (hb : Sliceable old ds) :
    applyRewrite old (processDiffs ds) = .ok (spliceAll old ((processDiffs ds).map Diff.toEdit)) := by
  apply applyRewrite_eq_splice
  · exact ((processDiffs_sorted ds).2.2 hw).1
  · exact fun d hd => hb d ((processDiffsGo_sublist 0 ds).subset hd)

/-- conversely a panic-free `apply_rewrite` means every cursor position was ordered and on a char
boundary (so the panic outcome of the model is exact, not an artefact) -/
theorem applyRewrite_ok_only_if (old : Bytes) (acc : List Diff) (r : Bytes)
    (h : applyRewrite old acc = .ok r) : ChainFrom 0 acc ∧ Sliceable old acc :=
  let ⟨h1, _, h3⟩ := applyRewriteGo_ok_inv old acc 0 r h
  ⟨h1, h3⟩

/-- the closed form of the design: `old[0..r₁.s] ++ rep₁ ++ old[r₁.e..r₂.s] ++ … ++ old[rₖ.e..]` -/
theorem splice_closed_form {α : Type} (old : List α) (es : List (Edit α)) (h : Valid old.length es) :
    spliceAll old es = segments old 0 es :=
  spliceAll_eq_segments old es h

/-- **every byte outside all ranges is preserved**: old index `i` lands at
`newPos es i = i + (inserted before i) − (deleted before i)` with the same byte. -/
theorem splice_preserves_outside {α : Type} (old : List α) (es : List (Edit α)) (h : Valid old.length es)
    (i : Nat) (hout : Outside es i) :
    (spliceAll old es)[newPos es i]? = old[i]? := by
  rw [spliceAll_eq_segments old es h]
  have := segments_getElem? old es 0 i h.1 h.2 (Nat.zero_le _) hout
  simpa [newPos] using this

/-- the surviving bytes keep their relative order (`newPos` is strictly monotone on outside
positions), so the result is the old text with the ranges substituted and nothing permuted -/
theorem newPos_strictMono {α : Type} (es : List (Edit α)) (lo : Nat) (h : OrderedFrom lo es)
    (i j : Nat) (hi : lo ≤ i) (hij : i < j) (houti : Outside es i) (houtj : Outside es j) :
    newPos es i < newPos es j := by
  induction es generalizing lo with
  | nil => simp [newPos, insBefore, delBefore]; exact hij
  | cons e es ih =>
    obtain ⟨h1, h2, h3⟩ := h
    have houti' : Outside es i := fun x hx => houti x (List.mem_cons_of_mem _ hx)
    have houtj' : Outside es j := fun x hx => houtj x (List.mem_cons_of_mem _ hx)
    have hdi := delBefore_le (i := i) (OrderedFrom.mono h3 (Nat.le_refl _))
    have hdj := delBefore_le (i := j) (OrderedFrom.mono h3 (Nat.le_refl _))
    simp only [newPos, insBefore, delBefore] at *
    rcases houti e (List.mem_cons_self ..) with hlt | hge
    · -- i before e: nothing ends before i
      have hall : ∀ x ∈ es, i < x.stop := by
        intro x hx
        have := OrderedFrom.stop_ge h3 x hx
        omega
      have hi0 := insBefore_eq_zero hall
      have hd0 := delBefore_eq_zero hall
      have hns : ¬ e.stop ≤ i := by omega
      rcases houtj e (List.mem_cons_self ..) with hlt' | hge'
      · have hall' : ∀ x ∈ es, j < x.stop := by
          intro x hx
          have := OrderedFrom.stop_ge h3 x hx
          omega
        have hns' : ¬ e.stop ≤ j := by omega
        simp [hns, hns', hi0, hd0, insBefore_eq_zero hall', delBefore_eq_zero hall']
        exact hij
      · have := hdj hge'
        simp [hns, hge', hi0, hd0]
        omega
    · have hge' : e.stop ≤ j := by omega
      have := ih e.stop h3 hge houti' houtj'
      have h4 := hdi hge
      have h5 := hdj hge'
      simp [hge, hge']
      omega

/-- length bookkeeping: `|new| + Σ deleted = |old| + Σ inserted` -/
theorem splice_length {α : Type} (old : List α) (es : List (Edit α)) (h : Valid old.length es) :
    (spliceAll old es).length + (es.map (fun e => e.stop - e.start)).sum
      = old.length + (es.map (fun e => e.rep.length)).sum := by
  rw [spliceAll_eq_segments old es h]
  simpa using segments_length old es 0 h.1 h.2 (Nat.zero_le _)

/-! ## UTF-8 (abstract interface of DESIGN §3.1) -/

/-- **valid UTF-8 by construction**: for any per-character encoder `enc`, if the text is the
encoding of `cs`, every range end-point is the byte offset of a character index and every
replacement is an encoding, then the spliced bytes are the encoding of the character-level splice. -/
theorem splice_utf8 {α χ : Type} (enc : χ → List α) (cs : List χ) (ces : List (Edit χ))
    (h : Valid cs.length ces) :
    spliceAll (encAll enc cs) (ces.map (encEdit enc cs)) = encAll enc (spliceAll cs ces) :=
  spliceAll_enc enc cs ces 0 h.1 h.2

/-- the byte-level consequence for the CLI's splice: on char-level-valid edits `apply_rewrite` does
not panic and returns an encoding (Rust's encoder satisfies `LeadContEnc`; checked by the harness) -/
theorem applyRewrite_utf8 {χ : Type} (enc : χ → Bytes) (henc : LeadContEnc enc) (cs : List χ)
    (ces : List (Edit χ)) (h : Valid cs.length ces) :
    applyRewrite (encAll enc cs)
        (ces.map fun e => ⟨byteOff enc cs e.start, byteOff enc cs e.stop, encAll enc e.rep⟩)
      = .ok (encAll enc (spliceAll cs ces)) := by
  let ds : List Diff := ces.map fun e => ⟨byteOff enc cs e.start, byteOff enc cs e.stop, encAll enc e.rep⟩
  have hmap : ds.map Diff.toEdit = ces.map (encEdit enc cs) := by
    simp [ds, List.map_map, Function.comp_def, Diff.toEdit, encEdit]
  have hb : Sliceable (encAll enc cs) ds := by
    intro d hd
    obtain ⟨e, _, rfl⟩ := List.mem_map.1 hd
    exact ⟨byteOff_isCharBoundary henc cs _, byteOff_isCharBoundary henc cs _⟩
  have hap := applyRewriteGo_ok_inv
  -- ordered at byte level: via the panic-free characterisation of the closed form
  have hord : OrderedFrom 0 (ds.map Diff.toEdit) := by
    rw [hmap]
    have : ∀ (es : List (Edit χ)) (lo : Nat), OrderedFrom lo es → InRange cs.length es →
        OrderedFrom (byteOff enc cs lo) (es.map (encEdit enc cs)) := by
      intro es
      induction es with
      | nil => intro _ _ _; trivial
      | cons e es ih =>
        intro lo ho hr
        have mono : ∀ a b : Nat, a ≤ b → byteOff enc cs a ≤ byteOff enc cs b := by
          intro a b hab
          unfold byteOff
          have : cs.take b = cs.take a ++ (cs.take b).drop a := by
            have h1 : (cs.take b).take a = cs.take a := by simp [List.take_take, Nat.min_eq_left hab]
            rw [← h1, List.take_append_drop]
          rw [this, encAll_append]; simp
        exact ⟨mono _ _ ho.1, mono _ _ ho.2.1,
          ih e.stop ho.2.2 (fun x hx => hr x (List.mem_cons_of_mem _ hx))⟩
    have h0 := this ces 0 h.1 h.2
    simpa [byteOff, encAll] using h0
  have := applyRewrite_eq_splice (encAll enc cs) ds hord hb
  rw [this, hmap, splice_utf8 enc cs ces h]

/-! ## Rewriters (`transform.rewrite`) -/

/-- **the rewriter's `make_edit` = the specification's splice of the kept edits, relative to the
captured slice**; the kept edits are selected by the same greedy filter as the CLI's
(`processDiffs`, so `processDiffs_sorted`/`_keeps_first`/`_drop_reason` apply: ordered, disjoint,
first of an overlapping pair wins).  Hypotheses: every edit lies at or after the start of the
capture (else `position - offset` panics) and every kept edit ends inside the captured slice
(else the slice panics). -/
theorem rewrite_makeEdit_eq_splice (old : Bytes) (edits : List REdit) (offset : Nat)
    (hpos : ∀ e ∈ edits, offset ≤ e.position)
    (hin : ∀ d ∈ processDiffs (edits.map (REdit.rel offset)), d.stop ≤ old.length) :
    makeEdit old edits offset
      = .ok (spliceAll old ((processDiffs (edits.map (REdit.rel offset))).map Diff.toEdit)) := by
  unfold makeEdit
  rw [makeEditGo_eq_segments old offset edits 0 hpos (Nat.zero_le _) hin]
  have hw : ∀ d ∈ edits.map (REdit.rel offset), d.start ≤ d.stop := by
    intro d hd
    obtain ⟨e, _, rfl⟩ := List.mem_map.1 hd
    exact REdit.rel_wf offset e
  have ho := ((processDiffs_sorted (edits.map (REdit.rel offset))).2.2 hw).1
  have hr : InRange old.length ((processDiffs (edits.map (REdit.rel offset))).map Diff.toEdit) := by
    intro e he
    obtain ⟨d, hd, rfl⟩ := List.mem_map.1 he
    exact hin d hd
  rw [spliceAll_eq_segments old _ ⟨ho, hr⟩]
  rfl

/-- **`joinBy` variant**: the output is the kept replacements joined by the separator (same filter) -/
theorem rewrite_joinBy_eq (edits : List REdit) (start : Nat) (joiner : Bytes)
    (hpos : ∀ e ∈ edits, start ≤ e.position) :
    joinBy edits start joiner
      = .ok (joinWith joiner ((processDiffs (edits.map (REdit.rel start))).map (·.rep))) := by
  cases edits with
  | nil => rfl
  | cons e es =>
    have hp := hpos e (List.mem_cons_self ..)
    have hpos' : ∀ x ∈ es, start ≤ x.position := fun x hx => hpos x (List.mem_cons_of_mem _ hx)
    simp only [joinBy, subUsize, hp, if_true, bind, Except.bind, pure, Except.pure]
    rw [joinByGo_eq start joiner es _ hpos']
    simp only [processDiffs, List.map_cons, processDiffsGo, Nat.not_lt_zero, if_false]
    rw [joinWith_cons]
    simp [REdit.rel, List.flatMap_map]

/-- a position before the start of the capture is a panic (overflow-checked subtraction) -/
theorem rewrite_makeEdit_underflow_panics (old : Bytes) (e : REdit) (es : List REdit) (offset : Nat)
    (h : e.position < offset) : makeEdit old (e :: es) offset = .error .subOverflow := by
  have : ¬ offset ≤ e.position := by omega
  simp [makeEdit, makeEditGo, subUsize, this, bind, Except.bind]

/-! ### The repaired rewriter splice (`makeEditFixed` / `joinByFixed` / `rewriteComputeFixed`)

The theorems above are regression facts about the released code (`position - offset` and the two
slices panic for an edit that starts before, or reaches beyond, the captured text).  The repaired
code clamps the edit to the slice; the theorems below are about its transcription. -/

/-- **the repaired `make_edit` cannot panic**: for ALL texts, edit lists and offsets (edits before
the capture, beyond its end, overlapping, unsorted) both slices are in range -/
theorem rewrite_makeEditFixed_total (old : Bytes) (edits : List REdit) (offset : Nat) :
    ∃ r, makeEditFixed old edits offset = .ok r :=
  ⟨_, makeEditFixedGo_eq_segments old offset edits 0 (Nat.zero_le _)⟩

/-- **what the repaired `make_edit` computes, without hypotheses**: the specification's splice of
the edits clamped to the captured slice (`REdit.relClamp`: start and stop cut to `0 .. |old|`)
that the greedy filter keeps; in particular every byte outside the clamped kept ranges is
preserved (`splice_preserves_outside`) -/
theorem rewrite_makeEditFixed_eq_splice_clamped (old : Bytes) (edits : List REdit) (offset : Nat) :
    makeEditFixed old edits offset
      = .ok (spliceAll old
          ((processDiffs (edits.map (REdit.relClamp offset old.length))).map Diff.toEdit)) := by
  unfold makeEditFixed
  rw [makeEditFixedGo_eq_segments old offset edits 0 (Nat.zero_le _)]
  have hw : ∀ d ∈ edits.map (REdit.relClamp offset old.length), d.start ≤ d.stop := by
    intro d hd
    obtain ⟨e, _, rfl⟩ := List.mem_map.1 hd
    exact REdit.relClamp_wf offset old.length e
  have ho := ((processDiffs_sorted (edits.map (REdit.relClamp offset old.length))).2.2 hw).1
  have hr : InRange old.length
      ((processDiffs (edits.map (REdit.relClamp offset old.length))).map Diff.toEdit) := by
    intro e he
    obtain ⟨d, hd, rfl⟩ := List.mem_map.1 he
    obtain ⟨x, _, rfl⟩ := List.mem_map.1 ((processDiffsGo_sublist 0 _).subset hd)
    exact REdit.relClamp_stop_le offset old.length x
  rw [spliceAll_eq_segments old _ ⟨ho, hr⟩]
  rfl

/-- **the repair changes nothing where the released code worked**: whenever the pinned `make_edit`
returns (no panic), the repaired one returns the same bytes -/
theorem makeEditFixed_eq_of_pinned_ok (old : Bytes) (edits : List REdit) (offset : Nat) (r : Bytes)
    (h : makeEdit old edits offset = .ok r) : makeEditFixed old edits offset = .ok r :=
  makeEditFixedGo_eq_of_pinned_ok old offset edits 0 r h

/-- the repaired `make_edit` under the hypotheses of `rewrite_makeEdit_eq_splice` (edits at or after
the start of the capture, kept edits ending inside it): the same specification splice -/
theorem rewrite_makeEditFixed_eq_splice (old : Bytes) (edits : List REdit) (offset : Nat)
    (hpos : ∀ e ∈ edits, offset ≤ e.position)
    (hin : ∀ d ∈ processDiffs (edits.map (REdit.rel offset)), d.stop ≤ old.length) :
    makeEditFixed old edits offset
      = .ok (spliceAll old ((processDiffs (edits.map (REdit.rel offset))).map Diff.toEdit)) :=
  makeEditFixed_eq_of_pinned_ok old edits offset _ (rewrite_makeEdit_eq_splice old edits offset hpos hin)

/-- **the repaired `joinBy` branch, without hypotheses**: the kept replacements joined by the
separator, the greedy filter running on the saturating relative positions (`REdit.rel` subtracts
in `Nat`); in particular it cannot panic -/
theorem rewrite_joinByFixed_eq (edits : List REdit) (start : Nat) (joiner : Bytes) :
    joinByFixed edits start joiner
      = .ok (joinWith joiner ((processDiffs (edits.map (REdit.rel start))).map (·.rep))) := by
  cases edits with
  | nil => rfl
  | cons e es =>
    simp only [joinByFixed, bind, Except.bind, pure, Except.pure]
    rw [joinByFixedGo_eq start joiner es _]
    simp only [processDiffs, List.map_cons, processDiffsGo, Nat.not_lt_zero, if_false]
    rw [joinWith_cons]
    simp [REdit.rel, List.flatMap_map]

theorem rewrite_joinByFixed_total (edits : List REdit) (start : Nat) (joiner : Bytes) :
    ∃ r, joinByFixed edits start joiner = .ok r :=
  ⟨_, rewrite_joinByFixed_eq edits start joiner⟩

/-- whenever the pinned `joinBy` branch returns, the repaired one returns the same bytes -/
theorem joinByFixed_eq_of_pinned_ok (edits : List REdit) (start : Nat) (joiner r : Bytes)
    (h : joinBy edits start joiner = .ok r) : joinByFixed edits start joiner = .ok r := by
  cases edits with
  | nil => exact h
  | cons e es =>
    simp only [joinBy, subUsize] at h
    by_cases hp : start ≤ e.position
    · simp only [hp, if_true, bind, Except.bind] at h
      cases hrest : joinByGo start joiner (e.position - start + e.deleted) es with
      | error err => rw [hrest] at h; cases h
      | ok rest =>
        rw [hrest] at h
        simp only [joinByFixed, bind, Except.bind, joinByFixedGo_eq_of_pinned_ok start joiner es _ rest hrest]
        exact h
    · simp only [hp, if_false, bind, Except.bind] at h
      cases h

/-- **the repaired `Rewrite::compute` (after the edits were collected) cannot panic** -/
theorem rewrite_computeFixed_total (old : Bytes) (edits : List REdit) (start : Nat) (joiner : Option Bytes) :
    ∃ r, rewriteComputeFixed old edits start joiner = .ok r := by
  cases joiner with
  | none => exact rewrite_makeEditFixed_total old edits start
  | some j => exact rewrite_joinByFixed_total edits start j

/-- and returns what the released code returned wherever that one did not panic -/
theorem rewriteComputeFixed_eq_of_pinned_ok (old : Bytes) (edits : List REdit) (start : Nat)
    (joiner : Option Bytes) (r : Bytes) (h : rewriteCompute old edits start joiner = .ok r) :
    rewriteComputeFixed old edits start joiner = .ok r := by
  cases joiner with
  | none => exact makeEditFixed_eq_of_pinned_ok old edits start r h
  | some j => exact joinByFixed_eq_of_pinned_ok edits start j r h

/-! ## Where an edit's range comes from -/

/-- **default replaced range** (`replace_by`, `make_edit` with the default `get_replaced_range`, and
a `Fixer` without expansions): the edit starts at the match and ends inside it, given the
match-length bound `len ≤ |node|` (C03 `match_end_bounds`) as hypothesis. -/
theorem edit_in_node (node : Rng) (matchLen : Option Nat) (ins : Bytes)
    (hlen : ∀ len, matchLen = some len → len ≤ node.stop - node.start) (hn : node.start ≤ node.stop) :
    let e := editOfRange (fixerReplacedRange none none node matchLen [] []) ins
    e.position = node.start ∧ e.position + e.deleted ≤ node.stop ∧
    (matchLen = none → e.position + e.deleted = node.stop) ∧ e.inserted = ins := by
  cases matchLen with
  | none => simp [fixerReplacedRange, defaultReplacedRange, editOfRange]; omega
  | some len =>
    have := hlen len rfl
    simp [fixerReplacedRange, defaultReplacedRange, editOfRange]; omega

/-- `replace_by` always takes the node's own range -/
theorem replaceBy_exact (node : Rng) (ins : Bytes) (hn : node.start ≤ node.stop) :
    (replaceBy node ins).position = node.start ∧
    (replaceBy node ins).position + (replaceBy node ins).deleted = node.stop := by
  simp [replaceBy, editOfRange]; omega

/-- the CLI's `Diff::generate` range is never inverted -/
theorem diffOfEdit_wf (e : REdit) : (diffOfEdit e).start ≤ (diffOfEdit e).stop := by
  simp [diffOfEdit]

theorem expansionFind_mem (sb : ExpandStop) (sibs : List Sib) (s : Sib) (h : expansionFind sb sibs = some s) :
    s ∈ sibs ∧ s.matched = true := by
  cases sb with
  | neighbor =>
    cases sibs with
    | nil => simp [expansionFind] at h
    | cons x xs =>
      simp only [expansionFind] at h
      split at h
      · rename_i hm; cases h; exact ⟨List.mem_cons_self .., hm⟩
      · cases h
  | end_ =>
    simp only [expansionFind] at h
    exact ⟨List.mem_of_find?_eq_some h, by simpa using List.find?_some h⟩
  | rule =>
    simp only [expansionFind] at h
    have hsub : ∀ l : List Sib, ∀ x ∈ inclusiveUntil l, x ∈ l := by
      intro l
      induction l with
      | nil => intro x hx; cases hx
      | cons y ys ih =>
        intro x hx
        simp only [inclusiveUntil] at hx
        split at hx
        · simp at hx; subst hx; exact List.mem_cons_self ..
        · rcases List.mem_cons.1 hx with rfl | hx
          · exact List.mem_cons_self ..
          · exact List.mem_cons_of_mem _ (ih x hx)
    exact ⟨hsub _ _ (List.mem_of_find?_eq_some h), by simpa using List.find?_some h⟩

/-- **expansions only widen, and only to sibling borders**: with previous siblings lying before the
node and next siblings after it (tree-sitter contract §5.2), the expanded range contains the
node's range, and each end is the node's own or the start (resp. end) of a listed sibling that
the expansion rule matched — hence inside the parent and inside the file. -/
theorem expand_monotone (es ee : Option ExpandStop) (node : Rng) (matchLen : Option Nat) (prevs nexts : List Sib)
    (hp : ∀ s ∈ prevs, s.range.start ≤ node.start) (hx : ∀ s ∈ nexts, node.stop ≤ s.range.stop) :
    (expandStart es node prevs ≤ node.start ∧ node.stop ≤ expandEnd ee node nexts) ∧
    (expandStart es node prevs = node.start ∨
      ∃ s ∈ prevs, s.matched = true ∧ expandStart es node prevs = s.range.start) ∧
    (expandEnd ee node nexts = node.stop ∨
      ∃ s ∈ nexts, s.matched = true ∧ expandEnd ee node nexts = s.range.stop) := by
  have hs : (expandStart es node prevs = node.start ∨
      ∃ s ∈ prevs, s.matched = true ∧ expandStart es node prevs = s.range.start) := by
    cases es with
    | none => left; rfl
    | some sb =>
      simp only [expandStart]
      cases hf : expansionFind sb prevs with
      | none => left; rfl
      | some s => right; exact ⟨s, (expansionFind_mem sb prevs s hf).1, (expansionFind_mem sb prevs s hf).2, rfl⟩
  have he : (expandEnd ee node nexts = node.stop ∨
      ∃ s ∈ nexts, s.matched = true ∧ expandEnd ee node nexts = s.range.stop) := by
    cases ee with
    | none => left; rfl
    | some sb =>
      simp only [expandEnd]
      cases hf : expansionFind sb nexts with
      | none => left; rfl
      | some s => right; exact ⟨s, (expansionFind_mem sb nexts s hf).1, (expansionFind_mem sb nexts s hf).2, rfl⟩
  refine ⟨⟨?_, ?_⟩, hs, he⟩
  · rcases hs with h | ⟨s, hm, _, h⟩
    · omega
    · rw [h]; exact hp s hm
  · rcases he with h | ⟨s, hm, _, h⟩
    · omega
    · rw [h]; exact hx s hm

/-- with an expansion configured the fixer's range is exactly `expandStart .. expandEnd`, contains
the node and is not inverted -/
theorem fixer_expanded_range (es ee : Option ExpandStop) (node : Rng) (matchLen : Option Nat) (prevs nexts : List Sib)
    (hcfg : es.isSome ∨ ee.isSome) (hn : node.start ≤ node.stop)
    (hp : ∀ s ∈ prevs, s.range.start ≤ node.start) (hx : ∀ s ∈ nexts, node.stop ≤ s.range.stop) :
    let r := fixerReplacedRange es ee node matchLen prevs nexts
    r.start ≤ node.start ∧ node.stop ≤ r.stop ∧ r.start ≤ r.stop := by
  have hm := (expand_monotone es ee node matchLen prevs nexts hp hx).1
  have hne : (es.isNone && ee.isNone) = false := by
    rcases hcfg with h | h
    · cases es <;> simp_all
    · cases ee <;> simp_all
  simp only [fixerReplacedRange, hne]
  simp
  omega

/-! ## Non-vacuity: concrete instances satisfying the hypotheses -/

-- "héllo" = 68 C3 A9 6C 6C 6F ; overlapping + nested + unsorted diffs
example : processDiffs [⟨0, 1, [0x48]⟩, ⟨0, 3, [0x58]⟩, ⟨3, 5, []⟩, ⟨4, 5, [0x59]⟩, ⟨1, 3, [0x5A]⟩, ⟨5, 5, [0x21]⟩]
    = [⟨0, 1, [0x48]⟩, ⟨3, 5, []⟩, ⟨5, 5, [0x21]⟩] := by decide

example : applyRewrite [0x68, 0xC3, 0xA9, 0x6C, 0x6C, 0x6F] [⟨0, 1, [0x48]⟩, ⟨3, 5, []⟩, ⟨5, 5, [0x21]⟩]
    = .ok [0x48, 0xC3, 0xA9, 0x21, 0x6F] := by decide

-- off a char boundary (inside `é`): the panic outcome
example : applyRewrite [0x68, 0xC3, 0xA9, 0x6C] [⟨2, 3, []⟩] = .error .strSlice := by decide
-- out of range
example : applyRewrite [0x68, 0x69] [⟨1, 3, []⟩] = .error .strSlice := by decide

example : Valid 6 ([⟨0, 1, [0x48]⟩, ⟨3, 5, []⟩, ⟨5, 5, [0x21]⟩] : List (Edit UInt8)) := by decide

example : spliceAll [0x68, 0xC3, 0xA9, 0x6C, 0x6C, 0x6F] ([⟨0, 1, [0x48]⟩, ⟨3, 5, []⟩, ⟨5, 5, [0x21]⟩] : List (Edit UInt8))
    = [0x48, 0xC3, 0xA9, 0x21, 0x6F] := by decide

-- rewriter: capture starts at 10; second edit overlaps the first and is skipped
example : makeEdit [0x61, 0x62, 0x63, 0x64] [⟨10, 2, [0x58]⟩, ⟨11, 2, [0x59]⟩, ⟨13, 1, [0x5A]⟩] 10
    = .ok [0x58, 0x63, 0x5A] := by decide
example : joinBy [⟨10, 2, [0x58]⟩, ⟨11, 2, [0x59]⟩, ⟨13, 1, [0x5A]⟩] 10 [0x2C]
    = .ok [0x58, 0x2C, 0x5A] := by decide

-- the same on the repaired functions
example : makeEditFixed [0x61, 0x62, 0x63, 0x64] [⟨10, 2, [0x58]⟩, ⟨11, 2, [0x59]⟩, ⟨13, 1, [0x5A]⟩] 10
    = .ok [0x58, 0x63, 0x5A] := by decide
example : joinByFixed [⟨10, 2, [0x58]⟩, ⟨11, 2, [0x59]⟩, ⟨13, 1, [0x5A]⟩] 10 [0x2C]
    = .ok [0x58, 0x2C, 0x5A] := by decide

-- pinned vs repaired, an edit reaching past the end of the slice: old = "1" captured at 4, the edit
-- deletes [4,6) (`expandEnd` swallowed the comma after the capture): the released code slices
-- `old[2..]` of a 1-byte text and panics, the repaired code replaces the part inside the slice
example : makeEdit [0x31] [⟨4, 2, [0x58]⟩] 4 = .error .byteSlice := by decide
example : makeEditFixed [0x31] [⟨4, 2, [0x58]⟩] 4 = .ok [0x58] := by decide
-- an edit starting before the slice: old = "ab" captured at 4, the edit deletes [2,5): the released
-- code panics on `2 - 4`, the repaired code replaces `old[0..1]`
example : makeEdit [0x61, 0x62] [⟨2, 3, [0x58]⟩] 4 = .error .subOverflow := by decide
example : makeEditFixed [0x61, 0x62] [⟨2, 3, [0x58]⟩] 4 = .ok [0x58, 0x62] := by decide
-- an edit entirely before the slice is an insertion at its start, one entirely beyond it an
-- insertion at its end; a later edit inside the slice is still applied
example : makeEditFixed [0x61, 0x62] [⟨0, 2, [0x58]⟩, ⟨5, 1, [0x59]⟩, ⟨9, 3, [0x5A]⟩] 4
    = .ok [0x58, 0x61, 0x59, 0x5A] := by decide
example : makeEdit [0x61, 0x62] [⟨4, 1, [0x58]⟩, ⟨9, 3, [0x5A]⟩] 4 = .error .byteSlice := by decide
-- `joinBy`: the first edit starts before the capture
example : joinBy [⟨2, 3, [0x58]⟩, ⟨7, 1, [0x59]⟩] 4 [0x2C] = .error .subOverflow := by decide
example : joinByFixed [⟨2, 3, [0x58]⟩, ⟨7, 1, [0x59]⟩] 4 [0x2C] = .ok [0x58, 0x2C, 0x59] := by decide
-- (the two branches do not filter alike for an edit that starts before the capture: `joinBy` takes
-- `saturating(position - start) + deleted` as its end, `make_edit` the real `(position + deleted) - start`)
example : joinByFixed [⟨2, 3, [0x58]⟩, ⟨5, 1, [0x59]⟩] 4 [0x2C] = .ok [0x58] ∧
    makeEditFixed [0x61, 0x62] [⟨2, 3, [0x58]⟩, ⟨5, 1, [0x59]⟩] 4 = .ok [0x58, 0x59] := by decide
example : rewriteCompute [0x31] [⟨4, 2, [0x58]⟩] 4 none = .error .byteSlice := by decide
example : rewriteComputeFixed [0x31] [⟨4, 2, [0x58]⟩] 4 none = .ok [0x58] := by decide
-- the clamped view of that edit is the range [0,1) of the slice
example : REdit.relClamp 4 1 ⟨4, 2, [0x58]⟩ = ⟨0, 1, [0x58]⟩ ∧ REdit.relClamp 4 2 ⟨2, 3, [0x58]⟩ = ⟨0, 1, [0x58]⟩ := by decide

-- expansion: `a, b` with the node `a` = [0,1), next siblings `,` [1,2) and `b` [3,4); expandEnd regex `,`
example : fixerReplacedRange none (some .neighbor) ⟨0, 1⟩ none [] [⟨⟨1, 2⟩, true, false⟩, ⟨⟨3, 4⟩, false, false⟩]
    = ⟨0, 2⟩ := by decide

/-! ### the hypotheses of the theorems are satisfiable by non-trivial instances -/

-- processDiffs_keeps_first: `a = [0,3)` accepted, `[3,4)` in between, `b = [2,5)` starts inside `a`
example : processDiffs ([] ++ [(⟨0, 3, []⟩ : Diff)]) = processDiffs [] ++ [⟨0, 3, []⟩] ∧
    (∀ d ∈ ([] : List Diff) ++ ⟨0, 3, []⟩ :: [⟨3, 4, []⟩], d.start ≤ d.stop) ∧ (2 : Nat) < 3 := by decide

-- applyRewrite_eq_splice / splice_no_panic: ordered ranges on the char boundaries of "héllo"
example : OrderedFrom 0 (([⟨0, 1, [0x48]⟩, ⟨3, 5, []⟩, ⟨5, 5, [0x21]⟩] : List Diff).map Diff.toEdit) ∧
    Sliceable [0x68, 0xC3, 0xA9, 0x6C, 0x6C, 0x6F] [⟨0, 1, [0x48]⟩, ⟨3, 5, []⟩, ⟨5, 5, [0x21]⟩] := by decide

-- splice_preserves_outside: index 2 (second byte of `é`) is outside all ranges and lands at newPos = 2;
-- index 5 (`o`) lands at 4
example : Outside ([⟨0, 1, [0x48]⟩, ⟨3, 5, []⟩, ⟨5, 5, [0x21]⟩] : List (Edit UInt8)) 5 ∧
    newPos ([⟨0, 1, [0x48]⟩, ⟨3, 5, []⟩, ⟨5, 5, [0x21]⟩] : List (Edit UInt8)) 5 = 4 ∧
    (spliceAll [0x68, 0xC3, 0xA9, 0x6C, 0x6C, 0x6F]
      ([⟨0, 1, [0x48]⟩, ⟨3, 5, []⟩, ⟨5, 5, [0x21]⟩] : List (Edit UInt8)))[4]? = some 0x6F := by decide

/-- a two-character alphabet with a one-byte and a two-byte encoding (`a`, `é`) -/
def encDemo : Bool → Bytes
  | false => [0x61]
  | true => [0xC3, 0xA9]

example : LeadContEnc encDemo := by
  intro c
  cases c
  · exact ⟨0x61, [], rfl, by decide, by intro x hx; cases hx⟩
  · exact ⟨0xC3, [0xA9], rfl, by decide, by decide⟩

-- splice_utf8 / applyRewrite_utf8: replace the character `é` (index 1) of "aéa" by "aa"
example : Valid [false, true, false].length ([⟨1, 2, [false, false]⟩] : List (Edit Bool)) := by decide
example : spliceAll (encAll encDemo [false, true, false]) (([⟨1, 2, [false, false]⟩] : List (Edit Bool)).map (encEdit encDemo [false, true, false]))
    = encAll encDemo [false, false, false, false] := by decide

-- rewrite_makeEdit_eq_splice: capture at offset 10, the overlapping second edit is skipped
example : (∀ e ∈ ([⟨10, 2, [0x58]⟩, ⟨11, 2, [0x59]⟩, ⟨13, 1, [0x5A]⟩] : List REdit), 10 ≤ e.position) ∧
    (∀ d ∈ processDiffs (([⟨10, 2, [0x58]⟩, ⟨11, 2, [0x59]⟩, ⟨13, 1, [0x5A]⟩] : List REdit).map (REdit.rel 10)),
      d.stop ≤ ([0x61, 0x62, 0x63, 0x64] : Bytes).length) := by decide

-- makeEditFixed_eq_of_pinned_ok / rewrite_makeEditFixed_eq_splice: the same instance, the pinned run returns
example : makeEdit [0x61, 0x62, 0x63, 0x64] [⟨10, 2, [0x58]⟩, ⟨11, 2, [0x59]⟩, ⟨13, 1, [0x5A]⟩] 10
    = .ok [0x58, 0x63, 0x5A] ∧
    joinBy [⟨10, 2, [0x58]⟩, ⟨11, 2, [0x59]⟩, ⟨13, 1, [0x5A]⟩] 10 [0x2C] = .ok [0x58, 0x2C, 0x5A] := by decide

-- edit_in_node: a match of length 3 inside the node [2,7)
example : (∀ len, some 3 = some len → len ≤ 7 - 2) ∧ (2 : Nat) ≤ 7 := by
  refine ⟨?_, by decide⟩
  intro len h; cases h; decide

-- expand_monotone: siblings before start before the node, siblings after end after it
example : (∀ s ∈ [(⟨⟨1, 2⟩, true, false⟩ : Sib), ⟨⟨0, 1⟩, false, false⟩], s.range.start ≤ 3) ∧
    (∀ s ∈ [(⟨⟨4, 5⟩, true, false⟩ : Sib)], 4 ≤ s.range.stop) ∧
    fixerReplacedRange (some .end_) (some .neighbor) ⟨3, 4⟩ none
      [⟨⟨1, 2⟩, true, false⟩, ⟨⟨0, 1⟩, false, false⟩] [⟨⟨4, 5⟩, true, false⟩] = ⟨1, 5⟩ := by decide

end AGV.C06
