/-
C05 for rules that carry kind caches (real rules carry the caches computed by `All::new` /
`Any::new` / `RuleCore::new`): the reference semantics never looks at them and sound caches are
transparent for the evaluator (C01, `Lemmas/KindsDeep.lean`).  Kept apart from `Props/C05.lean`
because it depends on the C01 development.
-/
import AstGrepVerif.Props.C05
import AstGrepVerif.Lemmas.RuleRefCached

set_option linter.unusedSimpArgs false
set_option linter.unusedVariables false

namespace AGV.C05

open AGV Spec

/-! `stripR` / `stripCtx` remove every cache. -/

/-- the reference semantics ignores the kind caches -/
theorem sat_ignores_caches (ctx : RCtx) (F : Nat) (r : Rule) (n : Tree) :
    sat ctx F r n = sat (stripCtx ctx) F (stripR r) n :=
  sat_strip ctx F r n

/-- **with sound caches**: whenever the cache-free evaluation ends normally, the evaluation with
the caches gives the same outcome (C01) and its verdict is the reference verdict.  `RegOK`,
`CachesOK`: every cache in the rule and in the registries is sound (C01 shows `All::new`,
`Any::new`, `RuleCore::new` produce such caches); the fragment conditions are those of
`rule_ref_equiv_vars`, asked of the rule and registries with the caches removed. -/
theorem rule_ref_equiv_cached (ctx : RCtx) (hreg : RegOK ctx) (r : Rule) (hc : CachesOK ctx r)
    (hctx : CtxVarFree (stripCtx ctx)) (hu : Tree.UniqueIds ctx.root) (hz : NoZeroWidth ctx.root)
    (hr : (stripR r).varDisjoint = true) (n : Tree)
    (hn : n ∈ ctx.root.preorder) (f : Nat) (env : Env)
    (hfresh : ∀ v ∈ (stripR r).vars, alookup v env.single = none ∧ alookup v env.multi = none)
    (v : Option Tree × Env)
    (h : matchRule (stripCtx ctx) f (stripR r) n env = .ok v) (f' : Nat) (hf : f ≤ f') :
    matchRule ctx f r n env = .ok v ∧ sat ctx f' r n = v.1.isSome := by
  refine ⟨matchRule_transparent ctx hreg f r hc n env v h, ?_⟩
  rw [sat_strip]
  obtain ⟨res, env'⟩ := v
  exact (rule_ref_equiv_vars (stripCtx ctx) hctx hu hz (stripR r) hr n hn f env hfresh
    res env' h).1 f' hf


end AGV.C05
