/-
C03, the oracle side — the executable procedure `Spec.alignsB` the driver runs on every match
the real implementation reports (`Driver/TreeIO.lean`, `oracle:aligns`) decides the alignment
specification `Spec.Aligns` exactly:

  * `alignsB_sound`            a `true` verdict, at any fuel, is an alignment
  * `alignsB_fuel_mono`        more fuel never loses a `true` verdict
  * `alignsB_complete`         an alignment is found with the fuel `alignFuel p c` the driver uses
  * `alignsB_iff`              hence `alignsB … (alignFuel p c) p c = true ↔ Aligns … p c`
  * `oracle_no_false_alarm`    what `match_sound` concludes makes the oracle's test `true`

`alignFuel` did not need correcting: the search needs at most `3 * p.size + c.size` steps
(`Spec.needFuel`), and `alignFuel p c = 4 * (p.size + 2) * (c.size + 2)` is above that.
Property theorems only; the inductions live in `AstGrepVerif/Lemmas/AlignB.lean`.
-/
import AstGrepVerif.Lemmas.AlignB
import AstGrepVerif.Props.C03

set_option linter.unusedVariables false

namespace AGV.C03

open AGV Spec

/-! ## The hole test is the specification's `holeNamedOK` -/

theorem holeNamedOKB_iff (mv : MetaVar) (c : Tree) :
    holeNamedOKB mv c = true ↔ holeNamedOK mv c :=
  Spec.holeNamedOKB_iff mv c

/-! ## 1. Soundness, for every fuel -/

theorem alignsB_sound (s : Strictness) (src : Bytes) (fuel : Nat) (p : PNode) (c : Tree)
    (h : alignsB s src fuel p c = true) : Aligns s src holeNamedOK p c :=
  (alignB_sound_all s src holeNamedOK (fun mv c h => (Spec.holeNamedOKB_iff mv c).1 h) fuel).1 p c h

theorem alignsLB_sound (s : Strictness) (src : Bytes) (fuel : Nat) (ps : List PNode)
    (cs : List Tree) (h : alignsLB s src fuel ps cs = true) : AlignsL s src holeNamedOK ps cs :=
  (alignB_sound_all s src holeNamedOK (fun mv c h => (Spec.holeNamedOKB_iff mv c).1 h) fuel).2.1
    ps cs h

/-- `ellipsisB` on what follows an ellipsis: some unnamed tokens `trivs` written directly after
it are dropped, a run of candidates is absorbed, the rest aligns -/
theorem ellipsisB_sound (s : Strictness) (src : Bytes) (fuel : Nat) (ps : List PNode)
    (cs : List Tree) (h : ellipsisB s src fuel ps cs = true) :
    ∃ trivs ps' run cs', ps = trivs ++ ps' ∧ (∀ t ∈ trivs, t.isTrivial = true) ∧
      cs = run ++ cs' ∧ AlignsL s src holeNamedOK ps' cs' :=
  (alignB_sound_all s src holeNamedOK (fun mv c h => (Spec.holeNamedOKB_iff mv c).1 h) fuel).2.2.1
    ps cs h

/-- … so the list headed by the ellipsis aligns -/
theorem ellipsisB_sound_cons (s : Strictness) (src : Bytes) (fuel : Nat) (p : PNode)
    (hp : isEllipsis p = true) (ps : List PNode) (cs : List Tree)
    (h : ellipsisB s src fuel ps cs = true) : AlignsL s src holeNamedOK (p :: ps) cs :=
  EllipsisSpec.alignsL (ellipsisB_sound s src fuel ps cs h) p hp

/-- `runB`: a run of candidates is absorbed, the rest aligns -/
theorem runB_sound (s : Strictness) (src : Bytes) (fuel : Nat) (ps : List PNode)
    (cs : List Tree) (h : runB s src fuel ps cs = true) :
    ∃ run cs', cs = run ++ cs' ∧ AlignsL s src holeNamedOK ps cs' :=
  (alignB_sound_all s src holeNamedOK (fun mv c h => (Spec.holeNamedOKB_iff mv c).1 h) fuel).2.2.2
    ps cs h

theorem runB_sound_cons (s : Strictness) (src : Bytes) (fuel : Nat) (p : PNode)
    (hp : isEllipsis p = true) (ps : List PNode) (cs : List Tree)
    (h : runB s src fuel ps cs = true) : AlignsL s src holeNamedOK (p :: ps) cs :=
  EllipsisSpec.alignsL (RunSpec.ellipsisSpec (runB_sound s src fuel ps cs h)) p hp

/-- soundness for any reading `ok` of a hole binding that the executable test guarantees (for
instance the trivial one of the end-offset aggregator) -/
theorem alignsB_sound_ok (ok : MetaVar → Tree → Prop)
    (hok : ∀ mv c, holeNamedOKB mv c = true → ok mv c)
    (s : Strictness) (src : Bytes) (fuel : Nat) (p : PNode) (c : Tree)
    (h : alignsB s src fuel p c = true) : Aligns s src ok p c :=
  (alignB_sound_all s src ok hok fuel).1 p c h

/-! ## 2. Fuel monotonicity -/

theorem alignsB_fuel_mono (s : Strictness) (src : Bytes) (f f' : Nat) (p : PNode) (c : Tree)
    (h : alignsB s src f p c = true) (hf : f ≤ f') : alignsB s src f' p c = true :=
  alignsB_mono h hf

theorem alignsLB_fuel_mono (s : Strictness) (src : Bytes) (f f' : Nat) (ps : List PNode)
    (cs : List Tree) (h : alignsLB s src f ps cs = true) (hf : f ≤ f') :
    alignsLB s src f' ps cs = true :=
  alignsLB_mono h hf

theorem ellipsisB_fuel_mono (s : Strictness) (src : Bytes) (f f' : Nat) (ps : List PNode)
    (cs : List Tree) (h : ellipsisB s src f ps cs = true) (hf : f ≤ f') :
    ellipsisB s src f' ps cs = true :=
  ellipsisB_mono h hf

theorem runB_fuel_mono (s : Strictness) (src : Bytes) (f f' : Nat) (ps : List PNode)
    (cs : List Tree) (h : runB s src f ps cs = true) (hf : f ≤ f') :
    runB s src f' ps cs = true :=
  runB_mono h hf

/-! ## 3. Completeness -/

/-- with the linear fuel `needFuel p c = 3 * p.size + c.size` -/
theorem alignsB_complete_need (s : Strictness) (src : Bytes) (p : PNode) (c : Tree)
    (h : Aligns s src holeNamedOK p c) : alignsB s src (needFuel p c) p c = true :=
  (alignB_complete_need s src holeNamedOK (fun mv c h => (Spec.holeNamedOKB_iff mv c).2 h)).1 p c h

/-- list level, fuel `needFuelL ps cs = 3 * sizeList ps + sizeList cs + 1` -/
theorem alignsLB_complete_need (s : Strictness) (src : Bytes) (ps : List PNode) (cs : List Tree)
    (h : AlignsL s src holeNamedOK ps cs) : alignsLB s src (needFuelL ps cs) ps cs = true :=
  (alignB_complete_need s src holeNamedOK (fun mv c h => (Spec.holeNamedOKB_iff mv c).2 h)).2 ps cs h

theorem ellipsisB_complete_need (s : Strictness) (src : Bytes) (trivs ps : List PNode)
    (run cs : List Tree) (ht : ∀ t ∈ trivs, t.isTrivial = true)
    (h : AlignsL s src holeNamedOK ps cs) :
    ellipsisB s src (needFuelL (trivs ++ ps) (run ++ cs) + 2) (trivs ++ ps) (run ++ cs) = true :=
  ellipsisB_complete s src holeNamedOK (fun mv c h => (Spec.holeNamedOKB_iff mv c).2 h) _ _
    ⟨trivs, ps, run, cs, rfl, ht, rfl, h⟩

theorem runB_complete_need (s : Strictness) (src : Bytes) (ps : List PNode)
    (run cs : List Tree) (h : AlignsL s src holeNamedOK ps cs) :
    runB s src (needFuelL ps (run ++ cs) + 1) ps (run ++ cs) = true :=
  runB_complete s src holeNamedOK (fun mv c h => (Spec.holeNamedOKB_iff mv c).2 h) _ _
    ⟨run, cs, rfl, h⟩

/-- 3a: existential form -/
theorem alignsB_complete_exists (s : Strictness) (src : Bytes) (p : PNode) (c : Tree)
    (h : Aligns s src holeNamedOK p c) : ∃ f, alignsB s src f p c = true :=
  ⟨needFuel p c, alignsB_complete_need s src p c h⟩

theorem alignsLB_complete_exists (s : Strictness) (src : Bytes) (ps : List PNode) (cs : List Tree)
    (h : AlignsL s src holeNamedOK ps cs) : ∃ f, alignsLB s src f ps cs = true :=
  ⟨needFuelL ps cs, alignsLB_complete_need s src ps cs h⟩

/-- `alignFuel` is generous enough -/
theorem needFuel_le_alignFuel (p : PNode) (c : Tree) : needFuel p c ≤ alignFuel p c :=
  Spec.needFuel_le_alignFuel p c

/-- 3b: the closed form the oracle uses -/
theorem alignsB_complete (s : Strictness) (src : Bytes) (p : PNode) (c : Tree)
    (h : Aligns s src holeNamedOK p c) : alignsB s src (alignFuel p c) p c = true :=
  alignsB_mono (alignsB_complete_need s src p c h) (Spec.needFuel_le_alignFuel p c)

/-! ## 4. The oracle decides the specification -/

theorem alignsB_iff (s : Strictness) (src : Bytes) (p : PNode) (c : Tree) :
    alignsB s src (alignFuel p c) p c = true ↔ Aligns s src holeNamedOK p c :=
  ⟨alignsB_sound s src _ p c, alignsB_complete s src p c⟩

theorem alignsB_exists_iff (s : Strictness) (src : Bytes) (p : PNode) (c : Tree) :
    (∃ f, alignsB s src f p c = true) ↔ Aligns s src holeNamedOK p c :=
  ⟨fun ⟨f, h⟩ => alignsB_sound s src f p c h, alignsB_complete_exists s src p c⟩

/-- a `false` verdict of the oracle means that no alignment exists -/
theorem alignsB_false_iff (s : Strictness) (src : Bytes) (p : PNode) (c : Tree) :
    alignsB s src (alignFuel p c) p c = false ↔ ¬ Aligns s src holeNamedOK p c := by
  rw [← alignsB_iff, Bool.not_eq_true]

/-- the verdict does not depend on the fuel from `needFuel p c` on: the driver may use the linear
budget instead of the quadratic one -/
theorem alignsB_fuel_irrelevant (s : Strictness) (src : Bytes) (p : PNode) (c : Tree) (f : Nat)
    (hf : needFuel p c ≤ f) : alignsB s src f p c = alignsB s src (alignFuel p c) p c :=
  Spec.alignsB_fuel_irrelevant s src p c f hf

instance (s : Strictness) (src : Bytes) (p : PNode) (c : Tree) :
    Decidable (Aligns s src holeNamedOK p c) :=
  decidable_of_iff _ (alignsB_iff s src p c)

/-- From the conclusion of `match_sound` (with the environment aggregator's reading of a hole
binding) the oracle's test is `true`. -/
theorem oracle_no_false_alarm (s : Strictness) (src : Bytes) (p : PNode) (c : Tree)
    (h : Aligns s src holeNamedOK p c) : alignsB s src (alignFuel p c) p c = true :=
  alignsB_complete s src p c h

/-- Composed with `pattern_match_sound`: whenever the model matcher reports a match of a
well-formed pattern, at whatever fuel and starting environment, the oracle agrees. -/
theorem oracle_accepts_reported_match (s : Strictness) (src : Bytes) (fuel : Nat) (p : PNode)
    (hwf : PatternWF p) (c : Tree) (env env' : Env)
    (h : matchPatternEnv s src fuel p c env = .ok (some env')) :
    alignsB s src (alignFuel p c) p c = true :=
  oracle_no_false_alarm s src p c (pattern_match_sound s src fuel p hwf c env env' h)

/-- the same through `match_sound` for any aggregator whose hole bindings guarantee
`holeNamedOK` -/
theorem oracle_accepts_match_sound {σ : Type} (agg : Agg σ)
    (hagg : ∀ st mv c st', agg.metaVar st mv c = some st' → holeNamedOK mv c)
    (s : Strictness) (src : Bytes) (fuel : Nat) (p : PNode) (hwf : PatternWF p) (c : Tree)
    (st st' : σ) (h : matchNode agg s src fuel p c st = .ok (.matchedBoth, st')) :
    alignsB s src (alignFuel p c) p c = true :=
  oracle_no_false_alarm s src p c (match_sound agg holeNamedOK hagg s src fuel p hwf c st st' h)

/-! ## Non-vacuity -/

/-- `f($A)` against `f(x)`: accepted at every strictness level, with the driver's fuel -/
example : ∀ s : Strictness, alignsB s exSrc (alignFuel exPattern exTree) exPattern exTree = true := by
  intro s; cases s <;> decide

/-- … so the alignment exists (through `alignsB_iff`, not through the matcher) -/
example : Aligns .cst exSrc holeNamedOK exPattern exTree :=
  (alignsB_iff .cst exSrc exPattern exTree).1 (by decide)

/-- `f($A)` against the text `g(x)` of the same tree: rejected -/
example : alignsB .smart [103, 40, 120, 41] (alignFuel exPattern exTree) exPattern exTree = false := by
  decide

/-- … so no alignment exists -/
example : ¬ Aligns .smart [103, 40, 120, 41] holeNamedOK exPattern exTree :=
  (alignsB_false_iff .smart _ exPattern exTree).1 (by decide)

/-- a hole marked *named* does not bind an unnamed token: `f($A)` against `f(()`, where the
argument is the unnamed token `(` -/
example :
    alignsB .cst exSrc 20 (.internal 11 [.terminal [40] false 2, .metaVar (.capture ['A'] true)])
      (.node ⟨11, true, false, false, 1, 3, none, 2⟩
        [.node ⟨2, false, false, false, 1, 2, none, 3⟩ [],
         .node ⟨2, false, false, false, 2, 3, none, 4⟩ []]) = false := by decide

/-- the ellipsis search with its dropped trailing token: `( $$$A )` against `( x ]` under `cst`
(`ellipsis_trivia_counterexample`) is an alignment in the sense of the specification -/
example :
    alignsLB .cst [40, 120, 93] 12
      [PNode.terminal [40] false 2, .metaVar (.multiCapture ['A']), .terminal [41] false 3]
      [Tree.node ⟨2, false, false, false, 0, 1, none, 1⟩ [],
       Tree.node ⟨5, true, false, false, 1, 2, none, 2⟩ [],
       Tree.node ⟨4, false, false, false, 2, 3, none, 3⟩ []] = true := by decide

/-- the `Decidable` instance runs: the unmatched named child under `cst`
(`empty_internal_counterexample`) -/
example : ¬ Aligns .cst [] holeNamedOK (.internal 1 [])
    (.node ⟨1, true, false, false, 0, 1, none, 0⟩
      [.node ⟨2, true, false, false, 0, 1, none, 1⟩ []]) := by decide

/-- fuel matters below `needFuel`, and only there: one unit is not enough for an inner node -/
example : alignsB .smart exSrc 1 exPattern exTree = false ∧
    alignsB .smart exSrc (needFuel exPattern exTree) exPattern exTree = true := by decide

end AGV.C03
