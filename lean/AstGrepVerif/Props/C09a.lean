/-
C09 (findings half) — all front ends report the same findings for the same rules and text.
(The open/change/close history half lives in `Props/C09.lean`.)

Like C08 this is a theorem about a faithful but *shallow* model of plumbing
(`Model/Frontends.lean`): which rules each front end registers, how a match becomes a reported
record, how the message is produced and decorated.  The matches of each rule on the text are data
(C01 / C05 say what they are; C14 what suppression comments do).  The assurance that the real front
ends behave like the model comes from the end-to-end comparison (harness unit
`frontends_findings`: `scan` on a file, the three JSON styles, `--format github`, `scan --stdin`,
`sg test`, in-process language server), which also confirmed H17 on the pinned code.

Scope of `frontends_same_findings`: texts without suppression comments (`sg test` does not apply
them: `test_ignores_suppression` is observed by the harness on the real CLI), either no
`severity: off` rule or the code with FIX_C09 (`stdin_runs_off_rules_example`, H17), and either no
rule written for another language than the document's (`FRule.foreign`; stdin mode parses the text
in the language of the first rule) or the code with the second part of FIX_C09
(`stdin_runs_foreign_rules_example`: the pinned `scan --stdin` ran such a rule on the foreign tree).
The three JSON styles print the same records and differ only in framing (C16 `JsonFrame`); they
are one function here and three comparisons in the harness.
-/
import AstGrepVerif.Lemmas.Frontends
import AstGrepVerif.Props.C07

namespace AGV.Spec

/-- **What the property says is reported**: a rule that is not switched off and is written for the
document's language reports each of its matches, as (rule id, byte range of the node, message with
the variables substituted). -/
def Reported (src : Bytes) (rs : List AGV.RuleMatches) (k : Bytes × AGV.Rng × Bytes) : Prop :=
  ∃ rm ∈ rs, rm.1.sev ≠ .off ∧ rm.1.foreign = false ∧
    ∃ m ∈ rm.2, k = (rm.1.id, m.node, AGV.getMessage src rm.1 m)

end AGV.Spec

namespace AGV.C09a

open Spec

/-- position of a byte offset -/
def P (src : Bytes) (off : Nat) : LPos := (lineOf src off, colOf src off)

/-- the record of one match, in closed form -/
def mk (src : Bytes) (r : FRule) (m : FMatch) : Finding :=
  { id := r.id, range := m.node, start := P src m.node.start, stop := P src m.node.stop,
    message := getMessage src r m }

/-- every matched node lies in the text (tree-sitter contract) -/
def InText (src : Bytes) (rs : List RuleMatches) : Prop :=
  ∀ rm ∈ rs, ∀ m ∈ rm.2, m.node.start ≤ src.length ∧ m.node.stop ≤ src.length

def key (f : Finding) : Bytes × Rng × Bytes := (f.id, f.range, f.message)

theorem sev_bne_off (s : Sev) : (s != Sev.off) = true ↔ s ≠ Sev.off := by
  cases s <;> decide

theorem flatMap_congr' {α β : Type} {f g : α → List β} :
    ∀ (l : List α), (∀ x ∈ l, f x = g x) → l.flatMap f = l.flatMap g
  | [], _ => rfl
  | x :: xs, h => by
    rw [List.flatMap_cons, List.flatMap_cons, h x (by simp),
      flatMap_congr' xs (fun y hy => h y (by simp [hy]))]

theorem allSome_map_of_forall {α β : Type} (f : α → Option β) (g : α → β) :
    ∀ (l : List α), (∀ x ∈ l, f x = some (g x)) → allSome (l.map f) = some (l.map g)
  | [], _ => rfl
  | x :: xs, h => by
    simp [allSome, h x (by simp), allSome_map_of_forall f g xs (fun y hy => h y (by simp [hy]))]

theorem findingOf?_eq (src : Bytes) (r : FRule) (m : FMatch)
    (h : m.node.start ≤ src.length ∧ m.node.stop ≤ src.length) :
    findingOf? src r m = some (mk src r m) := by
  simp [findingOf?, lspPos?_eq src _ h.1, lspPos?_eq src _ h.2, mk, P]

theorem inText_enabled {src : Bytes} {rs : List RuleMatches} (h : InText src rs) :
    InText src (enabledRules rs) := by
  intro rm hrm m hm
  exact h rm (List.mem_filter.mp hrm).1 m hm

theorem inText_own {src : Bytes} {rs : List RuleMatches} (h : InText src rs) :
    InText src (ownRules rs) := by
  intro rm hrm m hm
  exact h rm (List.mem_filter.mp hrm).1 m hm

theorem inText_file {src : Bytes} {rs : List RuleMatches} (h : InText src rs) :
    InText src (fileRules rs) :=
  inText_own (inText_enabled h)

theorem foreign_not (b : Bool) : (!b) = true ↔ b = false := by
  cases b <;> decide

/-- membership in the rules a file scan applies -/
theorem mem_fileRules {rs : List RuleMatches} {rm : RuleMatches} :
    rm ∈ fileRules rs ↔ rm ∈ rs ∧ rm.1.sev ≠ .off ∧ rm.1.foreign = false := by
  unfold fileRules ownRules enabledRules
  rw [List.mem_filter, List.mem_filter, sev_bne_off, foreign_not, and_assoc]

theorem findingsOfRules_eq (src : Bytes) (rs : List RuleMatches) (hin : InText src rs) :
    findingsOfRules src rs = some (rs.flatMap fun rm => rm.2.map (mk src rm.1)) := by
  unfold findingsOfRules
  rw [allSome_map_of_forall _ (fun rm : RuleMatches => rm.2.map (mk src rm.1))]
  · simp [List.flatMap]
  · intro rm hrm
    exact allSome_map_of_forall _ _ _ (fun m hm => findingOf?_eq src rm.1 m (hin rm hrm m hm))

/-- closed form of what `scan` on a file reports -/
def scanList (src : Bytes) (rs : List RuleMatches) : List Finding :=
  (fileRules rs).flatMap fun rm => rm.2.map (mk src rm.1)

theorem scanFindings_eq (src : Bytes) (rs : List RuleMatches) (hin : InText src rs) :
    scanFindings src rs = some (scanList src rs) :=
  findingsOfRules_eq src _ (inText_file hin)

/-- **`scan` reports exactly what the property says** (sound and complete w.r.t. `Spec.Reported`). -/
theorem scan_reports_spec (src : Bytes) (rs : List RuleMatches) (k : Bytes × Rng × Bytes) :
    (∃ f ∈ scanList src rs, key f = k) ↔ Reported src rs k := by
  unfold scanList Reported
  constructor
  · rintro ⟨f, hf, rfl⟩
    obtain ⟨rm, hrm, hfm⟩ := List.mem_flatMap.mp hf
    obtain ⟨m, hm, rfl⟩ := List.mem_map.mp hfm
    have := mem_fileRules.mp hrm
    exact ⟨rm, this.1, this.2.1, this.2.2, m, hm, by simp only [key, mk]⟩
  · rintro ⟨rm, hrm, hoff, hown, m, hm, rfl⟩
    refine ⟨mk src rm.1 m, List.mem_flatMap.mpr ⟨rm, mem_fileRules.mpr ⟨hrm, hoff, hown⟩, ?_⟩, by simp only [key, mk]⟩
    exact List.mem_map.mpr ⟨m, hm, rfl⟩

/-- no rule is switched off -/
def NoOff (rs : List RuleMatches) : Prop := ∀ rm ∈ rs, rm.1.sev ≠ .off

theorem enabledRules_of_noOff {rs : List RuleMatches} (h : NoOff rs) : enabledRules rs = rs := by
  unfold enabledRules
  apply List.filter_eq_self.mpr
  intro rm hrm
  exact (sev_bne_off _).mpr (h rm hrm)

/-- no rule is written for another language than the document's -/
def NoForeign (rs : List RuleMatches) : Prop := ∀ rm ∈ rs, rm.1.foreign = false

theorem ownRules_of_noForeign {rs : List RuleMatches} (h : NoForeign rs) : ownRules rs = rs := by
  unfold ownRules
  apply List.filter_eq_self.mpr
  intro rm hrm
  exact (foreign_not _).mpr (h rm hrm)

theorem noForeign_enabled {rs : List RuleMatches} (h : NoForeign rs) : NoForeign (enabledRules rs) :=
  fun rm hrm => h rm (List.mem_filter.mp hrm).1

/-- the rules `scan --stdin` applies are the rules a file scan applies -/
theorem stdinRules_eq_fileRules (v : Variant) (rs : List RuleMatches)
    (hoff : v.stdinFiltersOff = true ∨ NoOff rs) (hlang : v.stdinFiltersLang = true ∨ NoForeign rs) :
    stdinRules v rs = fileRules rs := by
  have h1 : (if v.stdinFiltersOff = true then enabledRules rs else rs) = enabledRules rs := by
    rcases hoff with h | h
    · simp [h]
    · simp [enabledRules_of_noOff h]
  unfold stdinRules fileRules
  simp only [h1]
  rcases hlang with h | h
  · simp [h]
  · simp [ownRules_of_noForeign (noForeign_enabled h)]

/-- **stdin = file**: with FIX_C09, or when no rule is `off` and no rule is written for another
language than the one stdin is parsed as (any code base). -/
theorem stdin_eq_file (v : Variant) (src : Bytes) (rs : List RuleMatches)
    (h : (v.stdinFiltersOff = true ∨ NoOff rs) ∧ (v.stdinFiltersLang = true ∨ NoForeign rs)) :
    stdinFindings v src rs = scanFindings src rs := by
  unfold stdinFindings scanFindings
  rw [stdinRules_eq_fileRules v rs h.1 h.2]

/-- **stdin = file, repaired code**: no condition on the rule set. -/
theorem stdin_eq_file_fixed (src : Bytes) (rs : List RuleMatches) :
    stdinFindings .fixed src rs = scanFindings src rs :=
  stdin_eq_file .fixed src rs ⟨Or.inl rfl, Or.inl rfl⟩

/-- **`stdin_runs_off_rules_example`** (H17, pinned code): one `off` rule with one match (node 0..1
of the text `1`): the file scan reports nothing, `--stdin` reports the match.  With FIX_C09 both
report nothing.  Replayed on the real CLI by the harness. -/
theorem stdin_runs_off_rules_example :
    let r : FRule := { id := [0x72], sev := .off, message := [0x6d], note := none, keys := [] }
    let rs : List RuleMatches := [(r, [{ node := ⟨0, 1⟩, env := {} }])]
    scanFindings [0x31] rs = some [] ∧
    (stdinFindings .pinned [0x31] rs).map (·.map key) = some [([0x72], ⟨0, 1⟩, [0x6d])] ∧
    stdinFindings .fixed [0x31] rs = some [] := by
  decide

/-- **`stdin_runs_foreign_rules_example`** (pinned code before the second part of FIX_C09): the text
`try{}finally{}`, parsed as JavaScript because the first rule is a JavaScript rule (`j`, one match:
the whole statement 0..14); the second rule (`t`) is written for TypeScript, and its matcher, which
compares numeric kind ids of the TypeScript grammar, answers yes on the keyword `finally` (5..12).
The file scan reports `j` only, `--stdin` reports both.  With the fix both report `j` only; if only
the `off` filter is present (the code between the two fixes) stdin still reports `t`.  Replayed on
the real CLI by the harness (`try { console.log(1) } finally { f() }`, TypeScript `pattern: debugger`). -/
theorem stdin_runs_foreign_rules_example :
    let src : Bytes := [0x74, 0x72, 0x79, 0x7b, 0x7d, 0x66, 0x69, 0x6e, 0x61, 0x6c, 0x6c, 0x79, 0x7b, 0x7d]
    let j : FRule := { id := [0x6a], sev := .error, message := [0x6d], note := none, keys := [] }
    let t : FRule := { id := [0x74], sev := .warning, message := [0x74, 0x73], note := none, keys := [],
                       foreign := true }
    let rs : List RuleMatches :=
      [(j, [{ node := ⟨0, 14⟩, env := {} }]), (t, [{ node := ⟨5, 12⟩, env := {} }])]
    (scanFindings src rs).map (·.map key) = some [([0x6a], ⟨0, 14⟩, [0x6d])] ∧
    (stdinFindings .pinned src rs).map (·.map key)
      = some [([0x6a], ⟨0, 14⟩, [0x6d]), ([0x74], ⟨5, 12⟩, [0x74, 0x73])] ∧
    (stdinFindings ⟨false, false, false, true, false⟩ src rs).map (·.map key)
      = some [([0x6a], ⟨0, 14⟩, [0x6d]), ([0x74], ⟨5, 12⟩, [0x74, 0x73])] ∧
    stdinFindings .fixed src rs = scanFindings src rs ∧
    stdinFindings .pinned src rs ≠ scanFindings src rs := by
  intro src j t rs
  refine ⟨by decide, by decide, by decide, by decide, by decide⟩

/-- the diagnostic of a finding -/
def lspOf (r : FRule) (f : Finding) : LspFinding :=
  { id := f.id, start := f.start, stop := f.stop, message := lspMessage r f.message,
    severity := lspSeverity r.sev }

theorem lspDiagnostics_eq (src : Bytes) (rs : List RuleMatches) (hin : InText src rs) :
    lspDiagnostics src rs
      = some ((fileRules rs).flatMap fun rm => rm.2.map fun m => lspOf rm.1 (mk src rm.1 m)) := by
  unfold lspDiagnostics
  rw [allSome_map_of_forall _ (fun rm : RuleMatches => rm.2.map fun m => lspOf rm.1 (mk src rm.1 m))]
  · simp [List.flatMap]
  · intro rm hrm
    unfold lspFindingsOfRule
    rw [allSome_map_of_forall _ (mk src rm.1) _
      (fun m hm => findingOf?_eq src rm.1 m (inText_file hin rm hrm m hm))]
    simp [lspOf]

/-- GitHub level of a severity (`hint` is not annotated) -/
def ghLevel : Sev → Option GhLevel
  | .error => some .error | .warning => some .warning | .info => some .notice
  | .hint => none | .off => none

theorem githubFindings_eq (src : Bytes) (rs : List RuleMatches) (hin : InText src rs) :
    githubFindings src rs
      = some ((fileRules rs).flatMap fun rm =>
          match ghLevel rm.1.sev with
          | none => []
          | some l => rm.2.map fun m =>
              ((mk src rm.1 m).id, l, (mk src rm.1 m).start.1 + 1, (mk src rm.1 m).stop.1 + 1,
               (mk src rm.1 m).message)) := by
  unfold githubFindings
  rw [allSome_map_of_forall _ (fun rm : RuleMatches =>
        match ghLevel rm.1.sev with
        | none => []
        | some l => rm.2.map fun m =>
            ((mk src rm.1 m).id, l, (mk src rm.1 m).start.1 + 1, (mk src rm.1 m).stop.1 + 1,
             (mk src rm.1 m).message))]
  · simp [List.flatMap]
  · intro rm hrm
    have hall := allSome_map_of_forall (findingOf? src rm.1) (mk src rm.1) rm.2
      (fun m hm => findingOf?_eq src rm.1 m (inText_file hin rm hrm m hm))
    unfold githubOfRule
    cases hs : rm.1.sev <;> simp [ghLevel, hall]

/-- **`frontends_same_findings`**.  For a rule set and a text whose matched nodes lie in the text,
with FIX_C09 or without `off` rules and without rules of another language:
* `scan` on a file (= each JSON style) reports exactly the `Spec.Reported` triples;
* `scan --stdin` reports the same list;
* the language server publishes one diagnostic per reported finding: same rule id, same
  (line, character) range, the message decorated as documented (`lspMessage`: an empty template
  shows the id, the note is appended);
* the GitHub format prints one annotation per reported finding of a rule above `hint`: same id,
  same message, one-based lines. -/
theorem frontends_same_findings (v : Variant) (src : Bytes) (rs : List RuleMatches)
    (hin : InText src rs)
    (hoff : (v.stdinFiltersOff = true ∨ NoOff rs) ∧ (v.stdinFiltersLang = true ∨ NoForeign rs)) :
    scanFindings src rs = some (scanList src rs) ∧
    (∀ k, (∃ f ∈ scanList src rs, key f = k) ↔ Reported src rs k) ∧
    stdinFindings v src rs = some (scanList src rs) ∧
    lspDiagnostics src rs
      = some ((fileRules rs).flatMap fun rm => (rm.2.map (mk src rm.1)).map (lspOf rm.1)) ∧
    githubFindings src rs
      = some ((fileRules rs).flatMap fun rm =>
          match ghLevel rm.1.sev with
          | none => []
          | some l => (rm.2.map (mk src rm.1)).map fun f => (f.id, l, f.start.1 + 1, f.stop.1 + 1, f.message)) := by
  refine ⟨scanFindings_eq src rs hin, scan_reports_spec src rs, ?_, ?_, ?_⟩
  · rw [stdin_eq_file v src rs hoff, scanFindings_eq src rs hin]
  · rw [lspDiagnostics_eq src rs hin]; simp [List.map_map, Function.comp_def]
  · rw [githubFindings_eq src rs hin]
    congr 1
    exact flatMap_congr' _ (fun rm _ => by
      cases ghLevel rm.1.sev <;> simp [List.map_map, Function.comp_def])

/-- **`sg test`**: for a rule that is not `off` and is written for the document's language (the test
runner parses a case in the language of the rule under test: for a foreign rule it looks at another
tree than `scan` does), in a rule set with distinct ids, a `valid` case passes iff `scan` reports no
finding of that rule on the case's text. -/
theorem test_valid_iff_no_finding (src : Bytes) (rs : List RuleMatches) (r : FRule) (ms : List FMatch)
    (hmem : (r, ms) ∈ rs) (hne : r.sev ≠ .off) (hown : r.foreign = false)
    (hids : ∀ rm ∈ rs, rm.1.id = r.id → rm = (r, ms)) :
    testVerdictValid r ms = some true ↔ ∀ f ∈ scanList src rs, f.id ≠ r.id := by
  simp only [testVerdictValid, hne, ↓reduceIte, Option.some.injEq, List.isEmpty_iff]
  constructor
  · intro hnil f hf hid
    obtain ⟨rm, hrm, hfm⟩ := List.mem_flatMap.mp hf
    obtain ⟨m, hm, rfl⟩ := List.mem_map.mp hfm
    have := hids rm (mem_fileRules.mp hrm).1 hid
    subst this
    simp [hnil] at hm
  · intro h
    cases ms with
    | nil => rfl
    | cons m rest =>
      exfalso
      refine h (mk src r m) ?_ rfl
      apply List.mem_flatMap.mpr
      refine ⟨(r, m :: rest), mem_fileRules.mpr ⟨hmem, hne, hown⟩, ?_⟩
      simp

/-- an `off` rule has no test verdict ("Configuration not found") -/
theorem test_off_rule (r : FRule) (ms : List FMatch) (h : r.sev = .off) :
    testVerdictValid r ms = none := by
  simp [testVerdictValid, h]

/-- **`message_subst`**: the reported message is the message template with every `$VAR` /
`$$$VAR` replaced by the captured source text, every transformation name by its value and unbound
names by nothing, literal text kept (instance of C07 `replace_verbatim`; single-line captures). -/
theorem message_subst (src : Bytes) (r : FRule) (m : FMatch)
    (hsl : C07.SingleLineCaptures src m.env (createTemplate r.message 0x24 r.keys)) :
    getMessage src r m =
      shiftNL (indentAt (src.take m.node.start))
        (interleave (createTemplate r.message 0x24 r.keys).fragments
          ((createTemplate r.message 0x24 r.keys).vars.map fun v => (capturedText src m.env v.1).getD [])) :=
  C07.replace_verbatim src m.node.start m.env r.message r.keys hsl

/-- non-vacuity: message `no $A!` on the text `ab`, `A ↦ ab` (0..2): `no ab!`; the hypotheses of
`frontends_same_findings` and `test_valid_iff_no_finding` hold for this rule set -/
example :
    let src : Bytes := [0x61, 0x62]
    let r : FRule := { id := [0x72], sev := .warning, message := [0x6e, 0x6f, 0x20, 0x24, 0x41, 0x21],
                       note := none, keys := [] }
    let m : FMatch := { node := ⟨0, 2⟩, env := { single := [([0x41], (0, 2))] } }
    C07.SingleLineCaptures src m.env (createTemplate r.message 0x24 r.keys) ∧
    getMessage src r m = [0x6e, 0x6f, 0x20, 0x61, 0x62, 0x21] ∧
    (scanFindings src [(r, [m])]).map (·.map key) = some [([0x72], ⟨0, 2⟩, [0x6e, 0x6f, 0x20, 0x61, 0x62, 0x21])] ∧
    lspDiagnostics src [(r, [m])]
      = some [{ id := [0x72], start := (0, 0), stop := (0, 2),
                message := [0x6e, 0x6f, 0x20, 0x61, 0x62, 0x21], severity := 2 }] ∧
    testVerdictValid r [m] = some false := by
  decide

example : InText [0x61, 0x62] [(⟨[0x72], .warning, [], none, [], false⟩, [{ node := ⟨0, 2⟩, env := {} }])] ∧
    NoOff [((⟨[0x72], .warning, [], none, [], false⟩ : FRule), ([{ node := ⟨0, 2⟩, env := {} }] : List FMatch))] ∧
    NoForeign [((⟨[0x72], .warning, [], none, [], false⟩ : FRule), ([{ node := ⟨0, 2⟩, env := {} }] : List FMatch))] := by
  refine ⟨?_, ?_, ?_⟩
  · intro rm hrm m hm
    simp at hrm; subst hrm
    simp at hm; subst hm
    decide
  · intro rm hrm
    simp at hrm; subst hrm
    decide
  · intro rm hrm
    simp at hrm; subst hrm
    rfl

/-- non-vacuity of the second disjunct pair of `stdin_eq_file`: a rule set WITH an `off` rule and a
foreign rule that has a match satisfies the hypotheses for the repaired code (and only for it: the
hypotheses fail for the pinned code), and the conclusion is not the trivial `none = none` -/
example :
    let o : FRule := { id := [0x6f], sev := .off, message := [], note := none, keys := [] }
    let t : FRule := { id := [0x74], sev := .warning, message := [], note := none, keys := [], foreign := true }
    let w : FRule := { id := [0x77], sev := .warning, message := [], note := none, keys := [] }
    let rs : List RuleMatches :=
      [(w, [{ node := ⟨0, 1⟩, env := {} }]), (o, [{ node := ⟨0, 2⟩, env := {} }]), (t, [{ node := ⟨1, 2⟩, env := {} }])]
    ((Variant.fixed.stdinFiltersOff = true ∨ NoOff rs) ∧ (Variant.fixed.stdinFiltersLang = true ∨ NoForeign rs)) ∧
    ¬ NoOff rs ∧ ¬ NoForeign rs ∧
    ¬ ((Variant.pinned.stdinFiltersOff = true ∨ NoOff rs) ∧ (Variant.pinned.stdinFiltersLang = true ∨ NoForeign rs)) ∧
    (stdinFindings .fixed [0x61, 0x62] rs).map (·.map key) = some [([0x77], ⟨0, 1⟩, [])] := by
  intro o t w rs
  have hno : ¬ NoOff rs := fun h =>
    h (o, [{ node := ⟨0, 2⟩, env := {} }]) (List.mem_cons_of_mem _ List.mem_cons_self) rfl
  have hnf : ¬ NoForeign rs := fun h =>
    absurd (h (t, [{ node := ⟨1, 2⟩, env := {} }])
      (List.mem_cons_of_mem _ (List.mem_cons_of_mem _ List.mem_cons_self))) (by decide)
  refine ⟨⟨Or.inl rfl, Or.inl rfl⟩, hno, hnf, ?_, by decide⟩
  rintro ⟨h | h, _⟩
  · exact absurd h (by decide)
  · exact hno h

/-- the hypotheses of `test_valid_iff_no_finding` hold for a two-rule set with distinct ids -/
example :
    let r0 : FRule := ⟨[0x72, 0x30], .warning, [], none, [], false⟩
    let r1 : FRule := ⟨[0x72, 0x31], .error, [], none, [], false⟩
    let rs : List RuleMatches := [(r0, []), (r1, [{ node := ⟨0, 1⟩, env := {} }])]
    (r0, []) ∈ rs ∧ r0.sev ≠ .off ∧ r0.foreign = false ∧ (∀ rm ∈ rs, rm.1.id = r0.id → rm = (r0, [])) ∧
    testVerdictValid r0 [] = some true := by
  refine ⟨by simp, by decide, rfl, ?_, by decide⟩
  intro rm hrm hid
  simp only [List.mem_cons, List.not_mem_nil, or_false] at hrm
  rcases hrm with rfl | rfl
  · rfl
  · exact absurd hid (by decide)

end AGV.C09a
