/-
C09 (findings half) — all front ends report the same findings for the same rules and text.
(The open/change/close history half lives in `Props/C09.lean`.)

Like C08 this is a theorem about a faithful but *shallow* model of plumbing
(`Model/Frontends.lean`): which rules each front end registers, how a match becomes a reported
record, how the message is produced and decorated.  The matches of each rule on the text are data
(C01 / C05 say what they are; C14 what suppression comments do).  The assurance that the real front
ends behave like the model comes from the end-to-end comparison (harness unit
`frontends_findings`: `scan` on a file, the three JSON styles, `--format github`, `scan --stdin`,
`sg test`, in-process language server), which also confirmed H17 on the pinned code.

Scope of `frontends_same_findings`: rule sets of one language (stdin mode parses the text in the
language of the first rule), texts without suppression comments (`sg test` does not apply them:
`test_ignores_suppression` is observed by the harness on the real CLI), and either no
`severity: off` rule or the code with FIX_C09 (`stdin_runs_off_rules_example`, H17).
The three JSON styles print the same records and differ only in framing (C16 `JsonFrame`); they
are one function here and three comparisons in the harness.
-/
import AstGrepVerif.Lemmas.Frontends
import AstGrepVerif.Props.C07

namespace AGV.Spec

/-- **What the property says is reported**: a rule that is not switched off reports each of its
matches, as (rule id, byte range of the node, message with the variables substituted). -/
def Reported (src : Bytes) (rs : List AGV.RuleMatches) (k : Bytes × AGV.Rng × Bytes) : Prop :=
  ∃ rm ∈ rs, rm.1.sev ≠ .off ∧ ∃ m ∈ rm.2, k = (rm.1.id, m.node, AGV.getMessage src rm.1 m)

end AGV.Spec

namespace AGV.C09a

open Spec

/-- position of a byte offset -/
def P (src : Bytes) (off : Nat) : LPos := (lineOf src off, colOf src off)

/-- the record of one match, in closed form -/
def mk (src : Bytes) (r : FRule) (m : FMatch) : Finding :=
  { id := r.id, range := m.node, start := P src m.node.start, stop := P src m.node.stop,
    message := getMessage src r m }

/-- every matched node lies in the text (tree-sitter contract) -/
def InText (src : Bytes) (rs : List RuleMatches) : Prop :=
  ∀ rm ∈ rs, ∀ m ∈ rm.2, m.node.start ≤ src.length ∧ m.node.stop ≤ src.length

def key (f : Finding) : Bytes × Rng × Bytes := (f.id, f.range, f.message)

theorem sev_bne_off (s : Sev) : (s != Sev.off) = true ↔ s ≠ Sev.off := by
  cases s <;> decide

theorem flatMap_congr' {α β : Type} {f g : α → List β} :
    ∀ (l : List α), (∀ x ∈ l, f x = g x) → l.flatMap f = l.flatMap g
  | [], _ => rfl
  | x :: xs, h => by
    rw [List.flatMap_cons, List.flatMap_cons, h x (by simp),
      flatMap_congr' xs (fun y hy => h y (by simp [hy]))]

theorem allSome_map_of_forall {α β : Type} (f : α → Option β) (g : α → β) :
    ∀ (l : List α), (∀ x ∈ l, f x = some (g x)) → allSome (l.map f) = some (l.map g)
  | [], _ => rfl
  | x :: xs, h => by
    simp [allSome, h x (by simp), allSome_map_of_forall f g xs (fun y hy => h y (by simp [hy]))]

theorem findingOf?_eq (src : Bytes) (r : FRule) (m : FMatch)
    (h : m.node.start ≤ src.length ∧ m.node.stop ≤ src.length) :
    findingOf? src r m = some (mk src r m) := by
  simp [findingOf?, lspPos?_eq src _ h.1, lspPos?_eq src _ h.2, mk, P]

theorem inText_enabled {src : Bytes} {rs : List RuleMatches} (h : InText src rs) :
    InText src (enabledRules rs) := by
  intro rm hrm m hm
  exact h rm (List.mem_filter.mp hrm).1 m hm

theorem findingsOfRules_eq (src : Bytes) (rs : List RuleMatches) (hin : InText src rs) :
    findingsOfRules src rs = some (rs.flatMap fun rm => rm.2.map (mk src rm.1)) := by
  unfold findingsOfRules
  rw [allSome_map_of_forall _ (fun rm : RuleMatches => rm.2.map (mk src rm.1))]
  · simp [List.flatMap]
  · intro rm hrm
    exact allSome_map_of_forall _ _ _ (fun m hm => findingOf?_eq src rm.1 m (hin rm hrm m hm))

/-- closed form of what `scan` on a file reports -/
def scanList (src : Bytes) (rs : List RuleMatches) : List Finding :=
  (enabledRules rs).flatMap fun rm => rm.2.map (mk src rm.1)

theorem scanFindings_eq (src : Bytes) (rs : List RuleMatches) (hin : InText src rs) :
    scanFindings src rs = some (scanList src rs) :=
  findingsOfRules_eq src _ (inText_enabled hin)

/-- **`scan` reports exactly what the property says** (sound and complete w.r.t. `Spec.Reported`). -/
theorem scan_reports_spec (src : Bytes) (rs : List RuleMatches) (k : Bytes × Rng × Bytes) :
    (∃ f ∈ scanList src rs, key f = k) ↔ Reported src rs k := by
  unfold scanList Reported enabledRules
  constructor
  · rintro ⟨f, hf, rfl⟩
    obtain ⟨rm, hrm, hfm⟩ := List.mem_flatMap.mp hf
    obtain ⟨m, hm, rfl⟩ := List.mem_map.mp hfm
    have := List.mem_filter.mp hrm
    exact ⟨rm, this.1, (sev_bne_off _).mp this.2, m, hm, by simp only [key, mk]⟩
  · rintro ⟨rm, hrm, hoff, m, hm, rfl⟩
    refine ⟨mk src rm.1 m, List.mem_flatMap.mpr ⟨rm, List.mem_filter.mpr ⟨hrm, (sev_bne_off _).mpr hoff⟩, ?_⟩, by simp only [key, mk]⟩
    exact List.mem_map.mpr ⟨m, hm, rfl⟩

/-- no rule is switched off -/
def NoOff (rs : List RuleMatches) : Prop := ∀ rm ∈ rs, rm.1.sev ≠ .off

theorem enabledRules_of_noOff {rs : List RuleMatches} (h : NoOff rs) : enabledRules rs = rs := by
  unfold enabledRules
  apply List.filter_eq_self.mpr
  intro rm hrm
  exact (sev_bne_off _).mpr (h rm hrm)

/-- **stdin = file**: with FIX_C09, or when no rule is `off` (any code base). -/
theorem stdin_eq_file (v : Variant) (src : Bytes) (rs : List RuleMatches)
    (h : v.stdinFiltersOff = true ∨ NoOff rs) :
    stdinFindings v src rs = scanFindings src rs := by
  unfold stdinFindings scanFindings
  rcases h with h | h
  · simp [h]
  · cases hv : v.stdinFiltersOff
    · simp [enabledRules_of_noOff h]
    · simp

/-- **`stdin_runs_off_rules_example`** (H17, pinned code): one `off` rule with one match (node 0..1
of the text `1`): the file scan reports nothing, `--stdin` reports the match.  With FIX_C09 both
report nothing.  Replayed on the real CLI by the harness. -/
theorem stdin_runs_off_rules_example :
    let r : FRule := { id := [0x72], sev := .off, message := [0x6d], note := none, keys := [] }
    let rs : List RuleMatches := [(r, [{ node := ⟨0, 1⟩, env := {} }])]
    scanFindings [0x31] rs = some [] ∧
    (stdinFindings .pinned [0x31] rs).map (·.map key) = some [([0x72], ⟨0, 1⟩, [0x6d])] ∧
    stdinFindings .fixed [0x31] rs = some [] := by
  decide

/-- the diagnostic of a finding -/
def lspOf (r : FRule) (f : Finding) : LspFinding :=
  { id := f.id, start := f.start, stop := f.stop, message := lspMessage r f.message,
    severity := lspSeverity r.sev }

theorem lspDiagnostics_eq (src : Bytes) (rs : List RuleMatches) (hin : InText src rs) :
    lspDiagnostics src rs
      = some ((enabledRules rs).flatMap fun rm => rm.2.map fun m => lspOf rm.1 (mk src rm.1 m)) := by
  unfold lspDiagnostics
  rw [allSome_map_of_forall _ (fun rm : RuleMatches => rm.2.map fun m => lspOf rm.1 (mk src rm.1 m))]
  · simp [List.flatMap]
  · intro rm hrm
    unfold lspFindingsOfRule
    rw [allSome_map_of_forall _ (mk src rm.1) _
      (fun m hm => findingOf?_eq src rm.1 m (inText_enabled hin rm hrm m hm))]
    simp [lspOf]

/-- GitHub level of a severity (`hint` is not annotated) -/
def ghLevel : Sev → Option GhLevel
  | .error => some .error | .warning => some .warning | .info => some .notice
  | .hint => none | .off => none

theorem githubFindings_eq (src : Bytes) (rs : List RuleMatches) (hin : InText src rs) :
    githubFindings src rs
      = some ((enabledRules rs).flatMap fun rm =>
          match ghLevel rm.1.sev with
          | none => []
          | some l => rm.2.map fun m =>
              ((mk src rm.1 m).id, l, (mk src rm.1 m).start.1 + 1, (mk src rm.1 m).stop.1 + 1,
               (mk src rm.1 m).message)) := by
  unfold githubFindings
  rw [allSome_map_of_forall _ (fun rm : RuleMatches =>
        match ghLevel rm.1.sev with
        | none => []
        | some l => rm.2.map fun m =>
            ((mk src rm.1 m).id, l, (mk src rm.1 m).start.1 + 1, (mk src rm.1 m).stop.1 + 1,
             (mk src rm.1 m).message))]
  · simp [List.flatMap]
  · intro rm hrm
    have hall := allSome_map_of_forall (findingOf? src rm.1) (mk src rm.1) rm.2
      (fun m hm => findingOf?_eq src rm.1 m (inText_enabled hin rm hrm m hm))
    unfold githubOfRule
    cases hs : rm.1.sev <;> simp [ghLevel, hall]

/-- **`frontends_same_findings`**.  For a rule set and a text whose matched nodes lie in the text,
with FIX_C09 or without `off` rules:
* `scan` on a file (= each JSON style) reports exactly the `Spec.Reported` triples;
* `scan --stdin` reports the same list;
* the language server publishes one diagnostic per reported finding: same rule id, same
  (line, character) range, the message decorated as documented (`lspMessage`: an empty template
  shows the id, the note is appended);
* the GitHub format prints one annotation per reported finding of a rule above `hint`: same id,
  same message, one-based lines. -/
theorem frontends_same_findings (v : Variant) (src : Bytes) (rs : List RuleMatches)
    (hin : InText src rs) (hoff : v.stdinFiltersOff = true ∨ NoOff rs) :
    scanFindings src rs = some (scanList src rs) ∧
    (∀ k, (∃ f ∈ scanList src rs, key f = k) ↔ Reported src rs k) ∧
    stdinFindings v src rs = some (scanList src rs) ∧
    lspDiagnostics src rs
      = some ((enabledRules rs).flatMap fun rm => (rm.2.map (mk src rm.1)).map (lspOf rm.1)) ∧
    githubFindings src rs
      = some ((enabledRules rs).flatMap fun rm =>
          match ghLevel rm.1.sev with
          | none => []
          | some l => (rm.2.map (mk src rm.1)).map fun f => (f.id, l, f.start.1 + 1, f.stop.1 + 1, f.message)) := by
  refine ⟨scanFindings_eq src rs hin, scan_reports_spec src rs, ?_, ?_, ?_⟩
  · rw [stdin_eq_file v src rs hoff, scanFindings_eq src rs hin]
  · rw [lspDiagnostics_eq src rs hin]; simp [List.map_map, Function.comp_def]
  · rw [githubFindings_eq src rs hin]
    congr 1
    exact flatMap_congr' _ (fun rm _ => by
      cases ghLevel rm.1.sev <;> simp [List.map_map, Function.comp_def])

/-- **`sg test`**: for a rule that is not `off`, in a rule set with distinct ids, a `valid` case
passes iff `scan` reports no finding of that rule on the case's text. -/
theorem test_valid_iff_no_finding (src : Bytes) (rs : List RuleMatches) (r : FRule) (ms : List FMatch)
    (hmem : (r, ms) ∈ rs) (hne : r.sev ≠ .off)
    (hids : ∀ rm ∈ rs, rm.1.id = r.id → rm = (r, ms)) :
    testVerdictValid r ms = some true ↔ ∀ f ∈ scanList src rs, f.id ≠ r.id := by
  simp only [testVerdictValid, hne, ↓reduceIte, Option.some.injEq, List.isEmpty_iff]
  constructor
  · intro hnil f hf hid
    obtain ⟨rm, hrm, hfm⟩ := List.mem_flatMap.mp hf
    obtain ⟨m, hm, rfl⟩ := List.mem_map.mp hfm
    have := hids rm (List.mem_filter.mp hrm).1 hid
    subst this
    simp [hnil] at hm
  · intro h
    cases ms with
    | nil => rfl
    | cons m rest =>
      exfalso
      refine h (mk src r m) ?_ rfl
      apply List.mem_flatMap.mpr
      refine ⟨(r, m :: rest), List.mem_filter.mpr ⟨hmem, (sev_bne_off _).mpr hne⟩, ?_⟩
      simp

/-- an `off` rule has no test verdict ("Configuration not found") -/
theorem test_off_rule (r : FRule) (ms : List FMatch) (h : r.sev = .off) :
    testVerdictValid r ms = none := by
  simp [testVerdictValid, h]

/-- **`message_subst`**: the reported message is the message template with every `$VAR` /
`$$$VAR` replaced by the captured source text, every transformation name by its value and unbound
names by nothing, literal text kept (instance of C07 `replace_verbatim`; single-line captures). -/
theorem message_subst (src : Bytes) (r : FRule) (m : FMatch)
    (hsl : C07.SingleLineCaptures src m.env (createTemplate r.message 0x24 r.keys)) :
    getMessage src r m =
      shiftNL (indentAt (src.take m.node.start))
        (interleave (createTemplate r.message 0x24 r.keys).fragments
          ((createTemplate r.message 0x24 r.keys).vars.map fun v => (capturedText src m.env v.1).getD [])) :=
  C07.replace_verbatim src m.node.start m.env r.message r.keys hsl

/-- non-vacuity: message `no $A!` on the text `ab`, `A ↦ ab` (0..2): `no ab!`; the hypotheses of
`frontends_same_findings` and `test_valid_iff_no_finding` hold for this rule set -/
example :
    let src : Bytes := [0x61, 0x62]
    let r : FRule := { id := [0x72], sev := .warning, message := [0x6e, 0x6f, 0x20, 0x24, 0x41, 0x21],
                       note := none, keys := [] }
    let m : FMatch := { node := ⟨0, 2⟩, env := { single := [([0x41], (0, 2))] } }
    C07.SingleLineCaptures src m.env (createTemplate r.message 0x24 r.keys) ∧
    getMessage src r m = [0x6e, 0x6f, 0x20, 0x61, 0x62, 0x21] ∧
    (scanFindings src [(r, [m])]).map (·.map key) = some [([0x72], ⟨0, 2⟩, [0x6e, 0x6f, 0x20, 0x61, 0x62, 0x21])] ∧
    lspDiagnostics src [(r, [m])]
      = some [{ id := [0x72], start := (0, 0), stop := (0, 2),
                message := [0x6e, 0x6f, 0x20, 0x61, 0x62, 0x21], severity := 2 }] ∧
    testVerdictValid r [m] = some false := by
  decide

example : InText [0x61, 0x62] [(⟨[0x72], .warning, [], none, []⟩, [{ node := ⟨0, 2⟩, env := {} }])] ∧
    NoOff [((⟨[0x72], .warning, [], none, []⟩ : FRule), ([{ node := ⟨0, 2⟩, env := {} }] : List FMatch))] := by
  constructor
  · intro rm hrm m hm
    simp at hrm; subst hrm
    simp at hm; subst hm
    decide
  · intro rm hrm
    simp at hrm; subst hrm
    decide

/-- the hypotheses of `test_valid_iff_no_finding` hold for a two-rule set with distinct ids -/
example :
    let r0 : FRule := ⟨[0x72, 0x30], .warning, [], none, []⟩
    let r1 : FRule := ⟨[0x72, 0x31], .error, [], none, []⟩
    let rs : List RuleMatches := [(r0, []), (r1, [{ node := ⟨0, 1⟩, env := {} }])]
    (r0, []) ∈ rs ∧ r0.sev ≠ .off ∧ (∀ rm ∈ rs, rm.1.id = r0.id → rm = (r0, [])) ∧
    testVerdictValid r0 [] = some true := by
  refine ⟨by simp, by decide, ?_, by decide⟩
  intro rm hrm hid
  simp only [List.mem_cons, List.not_mem_nil, or_false] at hrm
  rcases hrm with rfl | rfl
  · rfl
  · exact absurd hid (by decide)

end AGV.C09a
