/-
Model of the CLI's own account of its work: `--inspect summary|entity`.

Mirrors (as the code is)
  * `crates/cli/src/utils/inspect.rs`   `Granularity` (ordering, `semi_structured_print`'s level
        test), `FileTrace::{add_scanned, add_skipped}`, `TraceInfo::{print_files, print_project,
        print, print_file, print_rules}`, `RuleTrace`
  * `crates/cli/src/utils/worker.rs:125-142`  where the counters are bumped: `add_scanned()` for
        EVERY path the walker yields, *before* `produce_item`; `add_skipped()` when `produce_item`
        returns `Err`
  * `crates/cli/src/utils/mod.rs:96-151`  `read_file`, `collect_file_stats`, `filter_file_rule`
        (no language → `Ok(vec![])`; `read_file` error *before* any trace line; one trace line for
        the host document and one per injected language that has a document, de-duplicated)
  * `crates/cli/src/utils/mod.rs:155-186`  `filter_file_pattern`
  * `crates/cli/src/run.rs:195-243,290-325`  `produce_item` of `RunWithInferredLang` /
        `RunWithSpecificLang`: `print_file` *before* the pattern is built and the file is read
  * `crates/cli/src/scan.rs:120-162,194-225`  `ScanWithConfig::{try_new, consume_items,
        produce_item}`: `print_rules` once before the walk, `trace.print()` after the last item
  * `crates/cli/src/config.rs:193-218`   `read_directory_yaml` / `with_rule_stats`:
        `total_rule_count` is taken BEFORE `process_configs` (`--filter`, severity flags),
        `skipped_rule_count = total - effective`
  * `crates/config/src/rule_collection.rs:143-158`  `total_rule_count`, `for_each_rule`

Trace lines are data (`Line`), not formatted strings.  Threads are lists of files; what one
thread does for a file is a list of `Event`s (counter bumps, lines written under the output
mutex); an execution is any interleaving (`Worker.Interleave`) of the per-thread event lists;
the counters are a fold over that interleaving.

Assumed, not modelled: the walker hands every file it yields to exactly one thread, once
(`Run.Valid.partition`); atomics are linearizable and a line is written atomically (the output
`Mutex`); `consume_items` prints the summary after every walker thread is done (the channel is
closed when the last sender is dropped); writes to stderr do not fail.
No imports beyond Model files: compiled into the native driver.
-/
import AstGrepVerif.Model.Worker
import AstGrepVerif.Model.Select

namespace AGV.Inspect

open AGV.Select
open AGV.Worker (Content Skip readFile Interleave)

/-! ## granularity and trace lines -/

inductive Granularity
  | nothing | summary | entity
  deriving DecidableEq, Repr

/-- the discriminants (`Nothing = 0, Summary = 1, Entity = 2`) that `PartialOrd` compares -/
def Granularity.rank : Granularity → Nat
  | .nothing => 0 | .summary => 1 | .entity => 2

/-- `semi_structured_print(level, …)`: `if self.level < level { return Ok(()) }` -/
def shows (level want : Granularity) : Bool := decide (want.rank ≤ level.rank)

/-- one line on stderr, `sg: <granularity>|<entity type>[|<entity>]: k=v,…` -/
inductive Line
  /-- `sg: summary|project: isProject=…` (the directory is not modelled) -/
  | project (isProject : Bool)
  /-- `sg: summary|file: scannedFileCount=…,skippedFileCount=…` -/
  | fileSummary (scanned skipped : Nat)
  /-- `sg: summary|rule: effectiveRuleCount=…,skippedRuleCount=…` -/
  | ruleSummary (effective skipped : Nat)
  /-- `sg: entity|file|<path>: language=…[,appliedRuleCount=…]` (`run` has no count) -/
  | fileEntity (path : Path) (lang : Lang) (applied : Option Nat)
  /-- `sg: entity|rule|<id>: finalSeverity=…` -/
  | ruleEntity (id : RuleId) (sev : Severity)
  deriving DecidableEq, Repr

/-- the granularity a line is printed at (`print_summary` / `print_entity`) -/
def Line.level : Line → Granularity
  | .project _ => .summary
  | .fileSummary _ _ => .summary
  | .ruleSummary _ _ => .summary
  | .fileEntity _ _ _ => .entity
  | .ruleEntity _ _ => .entity

/-! ## one file -/

structure File where
  path : Path
  content : Content
  deriving DecidableEq, Repr

/-- why `produce_item` returned `Err` -/
inductive Reason
  | read (why : Skip)     -- `read_file`: unreadable / not UTF-8 / too large / empty
  | pattern               -- `sg run` without `-l`: `build_pattern(lang)?` failed for the file's language
  deriving DecidableEq, Repr

/-- what happened to one path the walker yielded -/
inductive Outcome
  /-- `SgLang::from_path` is `None`: `Ok(vec![])`, nothing printed, nothing read -/
  | noLang
  /-- `produce_item` returned `Err` → `add_skipped()` -/
  | skipped (why : Reason)
  /-- documents handed to the matcher: `(language, number of rules applied)`; for `sg run` the
  number is 1 (the pattern) -/
  | scanned (docs : List (Lang × Nat))
  deriving DecidableEq, Repr

abbrev Finding := Path × RuleId × Nat

/-- everything `produce_item` does for one path -/
structure PerFile where
  outcome : Outcome
  /-- entity lines written while the file is processed, in order -/
  lines : List Line
  /-- what the file contributes to stdout: `(path, rule id, number of records)`, counts > 0 -/
  findings : List Finding
  deriving DecidableEq, Repr

def Outcome.isSkipped : Outcome → Bool
  | .skipped _ => true
  | _ => false

/-! ## threads, events, counters -/

inductive Event
  | addScanned
  | addSkipped
  | emit (l : Line)
  deriving DecidableEq, Repr

/-- the closure of `run_worker` for one path: `stats.add_scanned()`, `produce_item` (which writes
its trace lines), `stats.add_skipped()` on `Err` -/
def fileEvents (process : File → PerFile) (f : File) : List Event :=
  .addScanned :: ((process f).lines.map .emit ++
    (if (process f).outcome.isSkipped then [.addSkipped] else []))

def threadEvents (process : File → PerFile) (fs : List File) : List Event :=
  fs.flatMap (fileEvents process)

structure Counters where
  scanned : Nat
  skipped : Nat
  deriving DecidableEq, Repr

/-- `fetch_add(1)` on the two atomics -/
def Counters.step (c : Counters) : Event → Counters
  | .addScanned => { c with scanned := c.scanned + 1 }
  | .addSkipped => { c with skipped := c.skipped + 1 }
  | .emit _ => c

/-- the counters after a linearised sequence of events -/
def counters (evs : List Event) : Counters := evs.foldl Counters.step ⟨0, 0⟩

def Event.line? : Event → Option Line
  | .emit l => some l
  | _ => none

/-- one execution: which files each walker thread visited (in its order) and the order in which
the events of all threads were linearised -/
structure Run where
  parts : List (List File)
  events : List Event

structure Run.Valid (process : File → PerFile) (files : List File) (r : Run) : Prop where
  partition : r.parts.flatten.Perm files
  interleaved : Interleave (r.parts.map (threadEvents process)) r.events

/-- the sequential schedule (`-j 1`) -/
def Run.sequential (process : File → PerFile) (files : List File) : Run :=
  { parts := [files], events := threadEvents process files }

/-- what the main thread prints around the walk -/
structure Session where
  /-- before the walk: the project line, then (scan) one line per rule of the collection -/
  prologue : List Line
  /-- scan only: `(effective_rule_count, skipped_rule_count)` -/
  ruleCounts : Option (Nat × Nat)
  deriving DecidableEq, Repr

def Session.epilogue (s : Session) (c : Counters) : List Line :=
  .fileSummary c.scanned c.skipped ::
    (match s.ruleCounts with
     | some (e, k) => [.ruleSummary e k]
     | none => [])

/-- all trace lines of the execution, before the level test -/
def Run.allLines (s : Session) (r : Run) : List Line :=
  s.prologue ++ r.events.filterMap Event.line? ++ s.epilogue (counters r.events)

/-- stderr trace of the execution at a granularity -/
def Run.trace (s : Session) (level : Granularity) (r : Run) : List Line :=
  (r.allLines s).filter (fun l => shows level l.level)

/-- stdout findings of the execution: what the threads sent, in some order (C17: the order is
the arrival order; here only the multiset matters) -/
def allFindings (process : File → PerFile) (files : List File) : List Finding :=
  files.flatMap (fun f => (process f).findings)

/-! ## `sg scan` -/

/-- the `seen` loop of `filter_file_rule`: every injectable language once, first occurrence -/
def dedupAux : List Lang → List Lang → List Lang
  | _, [] => []
  | seen, l :: rest =>
    if seen.contains l then dedupAux seen rest else l :: dedupAux (l :: seen) rest

/-- `filter_file_rule`: the host document, then every injectable language (once) for which a
document exists -/
def scanDocLangs (env : Env) (l : Lang) (p : Path) : List Lang :=
  l :: (dedupAux [] (injectableOf env l)).filter (fun i => (env.present p).contains i)

/-- records of one document (the inner expression of `Select.findingsOn`) -/
def docFindings (env : Env) (a : OverwriteArgs) (c : Collection) (p : Path) (l : Lang) : List Finding :=
  let rules := getRuleFromLang env.globMatch c p l
  (rules.map (fun r => (p, r.id, env.matchCount r.id p l))) ++
  (if unusedSeverity a = .off then [] else [(p, unusedId, env.unusedCount (rules.map (·.id)) p l)])

def scanFindings (env : Env) (a : OverwriteArgs) (c : Collection) (p : Path) (docs : List Lang) : List Finding :=
  (docs.flatMap (docFindings env a c p)).filter (fun t => t.2.2 > 0)

/-- `ScanWithConfig::produce_item` = `filter_file_rule` (language, read, trace lines) + scan -/
def scanProcess (env : Env) (a : OverwriteArgs) (c : Collection) (f : File) : PerFile :=
  match fromPath env f.path with
  | none => ⟨.noLang, [], []⟩
  | some l =>
    match readFile f.content with
    | .error why => ⟨.skipped (.read why), [], []⟩
    | .ok () =>
      let docs := scanDocLangs env l f.path
      let counted := docs.map (fun d => (d, (getRuleFromLang env.globMatch c f.path d).length))
      ⟨.scanned counted,
       counted.map (fun dk => Line.fileEntity f.path dk.1 (some dk.2)),
       scanFindings env a c f.path docs⟩

/-- the rules `collect_file_stats` counted for a file -/
def scanApplied (env : Env) (a : OverwriteArgs) (c : Collection) (f : File) : List (Lang × Rule) :=
  match (scanProcess env a c f).outcome with
  | .scanned docs => docs.flatMap (fun dk => (getRuleFromLang env.globMatch c f.path dk.1).map (fun r => (dk.1, r)))
  | _ => []

/-- `RuleTrace` of `read_directory_yaml` / `with_rule_stats`: `configs` are the rules as read
from the rule files, BEFORE `--filter` and the severity flags; `c` is the collection built from
the processed rules.  `usize` subtraction: the model's truncated subtraction agrees because
`effective ≤ total` (`Props.Inspect.effective_le_total`). -/
def ruleCounts (configs : List Rule) (c : Collection) : Nat × Nat :=
  ((allRules c).length, configs.length - (allRules c).length)

/-- `print_rules`: one line per rule OF THE COLLECTION (rules that are off are not in it) -/
def ruleLines (c : Collection) : List Line :=
  (allRules c).map (fun r => Line.ruleEntity r.id r.severity)

/-- how the trace accounts for one rule of the rule files -/
inductive RuleStatus
  | effective (sev : Severity)    -- in the collection: counted effective, one `rule` line
  | off                           -- final severity off: counted skipped, no line
  | notSelected                   -- dropped by `--filter`: counted skipped as well, no line
  deriving DecidableEq, Repr

def ruleStatus (o : Overwrite) (r : Rule) : RuleStatus :=
  if (match o.filter with | some f => !f r.id | none => false) then .notSelected
  else if (overwriteRule o r).severity = .off then .off
  else .effective (overwriteRule o r).severity

/-- `ScanWithConfig::try_new` in project mode (for `-r` / `--inline-rules` the flags are not
applied: `with_rule_stats`, i.e. `a := {}`) -/
def scanSession (isProject : Bool) (env : Env) (a : OverwriteArgs) (configs : List Rule) :
    Except LoadError (Collection × Session) :=
  match loadCollection env a configs with
  | .error e => .error e
  | .ok c => .ok (c, { prologue := Line.project isProject :: ruleLines c,
                       ruleCounts := some (ruleCounts configs c) })

/-! ## `sg run` -/

structure RunCfg where
  /-- `-l LANG` -/
  lang : Option Lang
  /-- `build_pattern(lang)` succeeds (parser: trusted) -/
  patternOk : Lang → Bool
  /-- records the pattern produces in the documents of a language of a file, after the literal
  prefilter (C01) -/
  matchCount : Path → Lang → Nat

/-- documents `filter_file_pattern` hands to the matcher -/
def runDocLangs (env : Env) (cfg : RunCfg) (pl : Lang) (p : Path) : List Lang :=
  match cfg.lang with
  | none =>
    pl :: (env.present p).filter (fun i => (injectableOf env pl).contains i && cfg.patternOk i)
  | some l =>
    if pl = l then [pl] else (env.present p).filter (fun i => i = l)

def runFindings (cfg : RunCfg) (p : Path) (docs : List Lang) : List Finding :=
  [(p, [], (docs.map (cfg.matchCount p)).sum)].filter (fun t => t.2.2 > 0)

/-- `produce_item` of `RunWithInferredLang` / `RunWithSpecificLang` -/
def runProcess (env : Env) (cfg : RunCfg) (f : File) : PerFile :=
  match fromPath env f.path with
  | none => ⟨.noLang, [], []⟩
  | some pl =>
    let line := Line.fileEntity f.path pl none          -- `print_file` comes first
    if cfg.lang.isNone && !cfg.patternOk pl then ⟨.skipped .pattern, [line], []⟩
    else match readFile f.content with
      | .error why => ⟨.skipped (.read why), [line], []⟩
      | .ok () =>
        let docs := runDocLangs env cfg pl f.path
        ⟨.scanned (docs.map (fun d => (d, 1))), [line], runFindings cfg f.path docs⟩

def runSession (isProject : Bool) : Session :=
  { prologue := [Line.project isProject], ruleCounts := none }

/-! ## which paths the walker yields (`build_walk`) -/

/-- `walk_lang(lang)` / `walk()` of `sg run`, for a tree without ignore files and with the
default hidden-file rule; explicit path arguments bypass both filters (not modelled) -/
def runWalkerVisits (env : Env) (cfg : RunCfg) (p : Path) : Bool :=
  match cfg.lang with
  | some l => typeSelected env [l] p && !underHiddenDir p
  | none => !underHiddenDir p && (match fileName p with | some n => n.head? ≠ some 0x2E | none => false)

end AGV.Inspect
