/-
Positions (`crates/core/src/node.rs:17-46,222-234`, `crates/core/src/source.rs:198-212`).

`Position { line, byte_column, byte_offset }` is built from tree-sitter's `start_position()` /
`end_position()` (row, byte column) and the byte offset.  `line()` is tree-sitter's row;
`column(&node)` ignores the byte column and scans the source backwards from `byte_offset` to the
previous newline, counting the bytes that are not UTF-8 continuation bytes.
tree-sitter's row is a parameter of the model (contract, DESIGN 5.2): `row = lineOf src offset`,
the number of newline bytes before the offset; the correspondence run checks it on every node.

(Defined locally for C19; `Model/Bytes.lean` of C16 has the shared versions.)
-/
import AstGrepVerif.Model.Tree

namespace AGV
namespace Position

/-- tree-sitter's `row` of a byte offset: newlines before it (contract) -/
def lineOf (src : Bytes) (off : Nat) : Nat := (src.take off).count NL

/-- `b & 0b1100_0000 != 0b1000_0000`: not a UTF-8 continuation byte -/
def isCharStart (b : UInt8) : Bool := b &&& 0xC0 != 0x80

/-- the loop of `get_char_column` over `src[..offset].iter().rev()` -/
def charColumnScan : (rev : Bytes) → (col : Nat) → Nat
  | [], col => col
  | b :: bs, col =>
    if b = NL then col
    else if isCharStart b then charColumnScan bs (col + 1)
    else charColumnScan bs col

/-- `String::get_char_column(_, offset)`; `none` = the slice `src[..offset]` is out of range
(panic) -/
def charColumn (src : Bytes) (offset : Nat) : Option Nat :=
  if offset > src.length then none
  else some (charColumnScan (src.take offset).reverse 0)

/-- `(pos.line(), pos.column(&node))` of a byte offset -/
def lineCol (src : Bytes) (offset : Nat) : Option (Nat × Nat) :=
  match charColumn src offset with
  | some c => some (lineOf src offset, c)
  | none => none

/-- `node.start_pos()` as `(line, column)` -/
def startPos (src : Bytes) (n : Tree) : Option (Nat × Nat) := lineCol src n.start

/-- `node.end_pos()` as `(line, column)` -/
def endPos (src : Bytes) (n : Tree) : Option (Nat × Nat) := lineCol src n.stop

end Position
end AGV
