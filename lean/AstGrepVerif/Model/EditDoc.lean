/-
Model of editing a parsed document (C10).

Mirrors (ast-grep 0.37.0)
* `String::accept_edit`        crates/core/src/source.rs:170-187  (splice the text, build the `InputEdit`)
* `perform_edit`               crates/core/src/source.rs:58-62    (`accept_edit`, then `tree.edit(&edit)`)
* `Root::do_edit`              crates/core/src/node.rs:96-102     (`perform_edit`, then `tree.edit` AGAIN, then re-parse
                                                                   with the old tree)
* `AstGrep::edit` / `replace`  crates/core/src/lib.rs:47-63
and, for the old tree that is handed to the re-parser, tree-sitter 0.25.3
* `ts_tree_edit` / `ts_subtree_edit`  lib/src/tree.c:55-93, lib/src/subtree.c:628-778
* `ts_node_edit`                      lib/src/node.c:860-875 (the documented position rule for a node start)
read off on the absolute byte ranges of the dumped nodes (`editStart` / `editEnd`): positions at or after
`old_end_byte` move by `new_end_byte - old_end_byte`, positions inside the replaced range are clamped to
`new_end_byte`, a node that contains the edit (or ends exactly at a pure insertion) stretches.
The parser itself is a parameter (`reparse`), never modelled.

`start_byte as u32` etc. truncate silently: `% 2^32`.  The `u32` row/column counters of
`position_for_offset` cannot overflow for texts shorter than 2^32 bytes; beyond that the model (unbounded
`Nat` counters) is not claimed to be faithful.  A Rust panic (`debug_assert!`, slice / splice range check) is
the outcome `none`.
-/
import AstGrepVerif.Model.Bytes
import AstGrepVerif.Model.Rewrite
import AstGrepVerif.Model.Tree

namespace AGV.EditDoc

/-- `2^32`: the `as u32` casts of `accept_edit` -/
def U32_MOD : Nat := 4294967296

/-- `tree_sitter::InputEdit`; points are (row, **byte** column) -/
structure InputEdit where
  startByte : Nat
  oldEndByte : Nat
  newEndByte : Nat
  startPoint : Nat × Nat
  oldEndPoint : Nat × Nat
  newEndPoint : Nat × Nat
deriving DecidableEq, Repr

/-- `input.splice(a..b, ins)` on a `Vec<u8>` once `a ≤ b ≤ len` is established -/
def vecSplice (s : Bytes) (a b : Nat) (ins : Bytes) : Bytes := s.take a ++ ins ++ s.drop b

/-- `String::accept_edit(&mut self, edit)`: the new text and the `InputEdit`.
The first two `position_for_offset` calls run on the OLD text, the third on the NEW text.
`none` = panic: `position_for_offset(input, old_end_byte)` slices `input[0..old_end_byte]`
(and `splice` checks the same range). -/
def acceptEdit (text : Bytes) (e : REdit) : Option (Bytes × InputEdit) :=
  let startByte := e.position
  let oldEndByte := e.position + e.deleted
  let newEndByte := e.position + e.inserted.length
  match positionForOffset text startByte with
  | none => none
  | some startPosition =>
    match positionForOffset text oldEndByte with
    | none => none
    | some oldEndPosition =>
      let text' := vecSplice text startByte oldEndByte e.inserted
      match positionForOffset text' newEndByte with
      | none => none
      | some newEndPosition =>
        some (text', {
          startByte := startByte % U32_MOD
          oldEndByte := oldEndByte % U32_MOD
          newEndByte := newEndByte % U32_MOD
          startPoint := startPosition
          oldEndPoint := oldEndPosition
          newEndPoint := newEndPosition })

/-! ## `ts_tree_edit` on the byte ranges of the nodes -/

/-- where the START of a node goes (`ts_node_edit`; `ts_subtree_edit`'s padding cases):
at or after the old end: shifted; strictly inside the replaced range: clamped to the new end;
at or before the start of the edit: unchanged -/
def editStart (ie : InputEdit) (p : Nat) : Nat :=
  if ie.oldEndByte ≤ p then ie.newEndByte + (p - ie.oldEndByte)
  else if ie.startByte < p then ie.newEndByte
  else p

/-- where the END of a node goes (`ts_subtree_edit`'s size cases): before the edit (or touching the
start of a non-empty replaced range): unchanged; at or after the old end: shifted (a node containing the
edit stretches, a node ending exactly at a pure insertion takes the inserted text in);
inside the replaced range: clamped to the new end -/
def editEnd (ie : InputEdit) (p : Nat) : Nat :=
  if p < ie.startByte ∨ (p = ie.startByte ∧ ie.startByte < ie.oldEndByte) then p
  else if ie.oldEndByte ≤ p then ie.newEndByte + (p - ie.oldEndByte)
  else ie.newEndByte

def editInfo (ie : InputEdit) (i : Info) : Info :=
  { i with start := editStart ie i.start, stop := editEnd ie i.stop }

mutual
/-- `tree.edit(&input_edit)`: every node's range is re-described, the shape is untouched -/
def editTree : Tree → InputEdit → Tree
  | .node i cs, ie => .node (editInfo ie i) (editTreeList cs ie)
def editTreeList : List Tree → InputEdit → List Tree
  | [], _ => []
  | t :: ts, ie => editTree t ie :: editTreeList ts ie
end

/-- `tree.edit` applied `k` times with the same description -/
def editTreeN : Nat → Tree → InputEdit → Tree
  | 0, t, _ => t
  | k + 1, t, ie => editTreeN k (editTree t ie) ie

/-! ## `Root::do_edit`, `AstGrep::edit`, `AstGrep::replace` -/

/-- `Root { inner: Tree, doc: StrDoc { src, .. } }` -/
structure Document where
  text : Bytes
  tree : Tree

inductive EditFail where
  | panic         -- `accept_edit` out of range
  | parseError    -- `self.doc.parse(Some(&self.inner))?` returned `Err(TSParseError)`
deriving DecidableEq, Repr

/-- `Root::do_edit` with `k` calls of `tree.edit` before re-parsing.
`reparse newText oldTree` is tree-sitter's `parser.parse(newText, Some(oldTree))`. -/
def doEditWith (k : Nat) (reparse : Bytes → Tree → Option Tree) (d : Document) (e : REdit) :
    Except EditFail Document :=
  match acceptEdit d.text e with
  | none => .error .panic
  | some (text', ie) =>
    match reparse text' (editTreeN k d.tree ie) with
    | none => .error .parseError
    | some t' => .ok { text := text', tree := t' }

/-- the code as released: `perform_edit` calls `tree.edit(&edit)`, `do_edit` calls
`self.inner.edit(&input_edit)` once more -/
def doEdit := doEditWith 2

/-- the code with FIX_C10 (the second call removed) -/
def doEditFixed := doEditWith 1

/-- one step of a history -/
inductive Action where
  /-- `AstGrep::edit(edit)` -/
  | edit (e : REdit)
  /-- `AstGrep::replace(pattern, replacer)`: `find` = `self.root().replace(pattern, replacer)`, the edit
  of the first match in the CURRENT document (matcher and replacer are parameters) -/
  | replace (find : Document → Option REdit)

/-- the edit an action performs on `d` (`replace` without a match performs none and returns `Ok(false)`) -/
def Action.toEdit (d : Document) : Action → Option REdit
  | .edit e => some e
  | .replace find => find d

/-- a history of `edit` / `replace` calls on one `AstGrep`; returns the final document and the edits that
were actually performed, in order; stops at the first failure (`?` / panic) -/
def runHistory (step : Document → REdit → Except EditFail Document) :
    Document → List Action → Except EditFail (Document × List REdit)
  | d, [] => .ok (d, [])
  | d, a :: as =>
    match a.toEdit d with
    | none => runHistory step d as
    | some e =>
      match step d e with
      | .error f => .error f
      | .ok d' =>
        match runHistory step d' as with
        | .error f => .error f
        | .ok (d'', es) => .ok (d'', e :: es)

end AGV.EditDoc
