/-
Rule objects and their evaluator.

Mirrors (pinned commit):
  * `crates/config/src/rule/mod.rs:210-345`            `Rule`, `match_node_with_env`, `potential_kinds`,
                                                      `match_and_add_label`
  * `crates/core/src/ops.rs:38-238`                    `All`, `Any`, `Not` (copy-on-write discipline)
  * `crates/config/src/rule/relational_rule.rs:37-254` `Inside`, `Has`, `Precedes`, `Follows`
  * `crates/config/src/rule/stop_by.rs:123-160`        `StopBy::find`, `inclusive_until`
  * `crates/config/src/rule/nth_child.rs:206-261`      `NthChild::find_index`, `match_node_with_env`
  * `crates/config/src/rule/range.rs:71-95`            `RangeMatcher`
  * `crates/config/src/rule/referent_rule.rs:204-228`  `ReferentRule` (local, then global)
  * `crates/config/src/rule_core.rs:212-240`           `RuleCore::do_match` (kinds gate, constraints)
  * `crates/core/src/matcher/kind.rs`, `text.rs`       `KindMatcher`, `RegexMatcher` (regex = parameter)
  * `crates/core/src/node.rs:339-519`                  navigation, in its *intended* meaning (C19 relates
                                                      the cursor machinery to these recursive definitions)

Every matcher is `Env → Option Tree × Env`: the second component is the environment the caller
sees after the call, **also when the match failed** (`&mut Cow<MetaVarEnv>`).
-/
import AstGrepVerif.Model.Pattern
import AstGrepVerif.Model.Notation

namespace AGV

/-! ### navigation on a document (intended meaning of the `Node` API) -/

mutual
/-- chain of nodes from `t` down to the node with the given id (inclusive) -/
def pathTo (id : Nat) : Tree → Option (List Tree)
  | .node i cs =>
    if i.id == id then some [.node i cs]
    else match pathToList id cs with
      | some p => some (.node i cs :: p)
      | none => none
def pathToList (id : Nat) : List Tree → Option (List Tree)
  | [] => none
  | c :: cs =>
    match pathTo id c with
    | some p => some p
    | none => pathToList id cs
end

/-- `ancestors()`: nearest first -/
def ancestorsOf (root : Tree) (n : Tree) : List Tree :=
  match pathTo n.id root with
  | some p => p.dropLast.reverse
  | none => []

/-- `parent()` -/
def parentOf (root : Tree) (n : Tree) : Option Tree := (ancestorsOf root n).head?

/-- index of `n` among the children `cs` (by id) -/
def indexById (n : Tree) (cs : List Tree) : Option Nat := cs.findIdx? (·.id == n.id)

/-- `next()` : the real next sibling -/
def nextOf (root : Tree) (n : Tree) : Option Tree :=
  match parentOf root n with
  | none => none
  | some p => match indexById n p.children with
    | some k => p.children[k + 1]?
    | none => none

/-- `prev()` -/
def prevOf (root : Tree) (n : Tree) : Option Tree :=
  match parentOf root n with
  | none => none
  | some p => match indexById n p.children with
    | some (k + 1) => p.children[k]?
    | _ => none

/-- where `goto_first_child_for_byte(b)` lands: the first child that ends after `b` -/
def firstChildForByte (b : Nat) (cs : List Tree) : Option Nat := cs.findIdx? (fun c => c.stop > b)

/-- `next_all()`: a cursor on the parent is positioned
by byte offset on the first child ending after `n.start`, then walks right -/
def nextAllOf (root : Tree) (n : Tree) : List Tree :=
  match parentOf root n with
  | none => []                                   -- a node without parent has no siblings
  | some host =>
    match firstChildForByte n.start host.children with
    | some k => host.children.drop (k + 1)
    | none => []

/-- `prev_all()`: same positioning, then walks left (nearest first) -/
def prevAllOf (root : Tree) (n : Tree) : List Tree :=
  match parentOf root n with
  | none => []
  | some host =>
    match firstChildForByte n.start host.children with
    | some k => (host.children.take k).reverse
    | none => []

/-- `child_by_field_id(f)`: the first child hanging under field `f` -/
def childByField (n : Tree) (f : Nat) : Option Tree := n.children.find? (·.info.field == some f)

/-! ### positions (what `RangeMatcher` compares) -/

/-- tree-sitter row of a byte offset: number of newlines before it -/
def lineOfOffset (src : Bytes) (off : Nat) : Nat := ((src.take off).filter (· == NL)).length

/-- `get_char_column`: number of non-continuation bytes between the line start and the offset -/
def charColOfOffset (src : Bytes) (off : Nat) : Nat :=
  let before := (src.take off).reverse.takeWhile (· != NL)
  (before.filter fun b => (b &&& 0xC0) != 0x80).length

/-! ### rules -/

mutual
inductive Rule where
  | pattern (p : PNode) (rootKind : Option Nat) (s : Strictness)
  | kind (k : Nat)
  | regex (id : Nat)
  | nthChild (stepSize offset : Int) (ofRule : Option Rule) (reverse : Bool)
  | range (startLine startCol endLine endCol : Nat)
  | inside (r : Rule) (stop : StopBy) (field : Option Nat)
  | has (r : Rule) (stop : StopBy) (field : Option Nat)
  | precedes (r : Rule) (stop : StopBy)
  | follows (r : Rule) (stop : StopBy)
  | all (rs : List Rule) (kinds : Option (List Nat))     -- `kinds` = the cache computed by `All::new`
  | any (rs : List Rule) (kinds : Option (List Nat))     -- `kinds` = the cache computed by `Any::new`
  | not (r : Rule)
  | matches (id : Name)
inductive StopBy where
  | neighbor
  | end_
  | rule (r : Rule)
end

instance : Inhabited Rule := ⟨.kind 0⟩

/-- `RuleCore`: rule, constraints, the kind cache of `RuleCore::new` -/
structure RuleCore where
  rule : Rule
  constraints : List (Name × Rule) := []
  kinds : Option (List Nat) := none

/-- what a rule is evaluated against: the document, the regex oracle, the registries -/
structure RCtx where
  src : Bytes
  root : Tree
  regex : Nat → Tree → Bool
  locals : List (Name × Rule) := []
  globals : List (Name × RuleCore) := []

/-- `String` ordering on names: lexicographic by code point (= UTF-8 byte order) -/
def nameLe : Name → Name → Bool
  | [], _ => true
  | _ :: _, [] => false
  | a :: as, b :: bs => if a.toNat < b.toNat then true else if a.toNat > b.toNat then false else nameLe as bs

def insertByName {β} (x : Name × β) : List (Name × β) → List (Name × β)
  | [] => [x]
  | y :: ys => if nameLe x.1 y.1 then x :: y :: ys else y :: insertByName x ys

/-- `constrained.sort_by(|a, b| a.0.cmp(b.0))` (keys of a map are distinct) -/
def sortByName {β} (l : List (Name × β)) : List (Name × β) := l.foldr insertByName []

/-- `add_label("secondary", node)` -/
def Env.addLabel (env : Env) (label : Name) (n : Tree) : Env :=
  match alookup label env.multi with
  | some ns => { env with multi := ainsert label (ns ++ [n]) env.multi }
  | none => { env with multi := ainsert label [n] env.multi }

def secondaryLabel : Name := "secondary".toList

def kindsGate (kinds : Option (List Nat)) (n : Tree) : Bool :=
  match kinds with
  | some ks => ks.contains n.kind
  | none => true

section
variable (ctx : RCtx)

mutual

/-- `Rule::match_node_with_env(node, env)` -/
def matchRule : (fuel : Nat) → Rule → Tree → Env → Except Abn (Option Tree × Env)
  | 0, _, _, _ => .error .fuel
  | fuel + 1, r, n, env =>
    match r with
    | .pattern p rootKind s =>
      -- `Pattern::match_node_with_env`: root-kind test, then match on a scratch env, commit on success
      if (match rootKind with | some k => n.kind != k | none => false) then .ok (none, env)
      else
        match matchPatternEnv s ctx.src (matchFuel p n) p n env with
        | .error e => .error e
        | .ok (some env') => .ok (some n, env')
        | .ok none => .ok (none, env)
    | .kind k => .ok (if n.kind == k then some n else none, env)
    | .regex id => .ok (if ctx.regex id n then some n else none, env)
    | .range sl sc el ec =>
      if sl != lineOfOffset ctx.src n.start || el != lineOfOffset ctx.src n.stop then .ok (none, env)
      else if sc != charColOfOffset ctx.src n.start || ec != charColOfOffset ctx.src n.stop then
        .ok (none, env)
      else .ok (some n, env)
    | .nthChild stepSize offset ofRule reverse =>
      match parentOf ctx.root n with
      | none => .ok (none, env)
      | some parent =>
        let named := parent.children.filter (·.named)
        match (match ofRule with
               | some rule => filterMapRule fuel rule named env
               | none => .ok named) with
        | .error e => .error e
        | .ok kids =>
          let kids := if reverse then kids.reverse else kids
          match indexById n kids with
          | none => .ok (none, env)
          | some index =>
            -- `FunctionalPosition::is_matched` computes in `i64` on `i32` operands (`parse_an_b`
            -- rejects numbers outside `i32`): it is the mathematical function as long as
            -- `index + 1 + 2^31 < 2^63` (`C20.isMatchedI64_exact`) — a node cannot have that many
            -- children in a 64-bit address space — so the position test is total here
            match isMatched stepSize offset index with
            | false => .ok (none, env)
            | true =>
              -- expose the bindings `ofRule` makes for the matched node itself
              match ofRule with
              | none => .ok (some n, env)
              | some rule =>
                match matchRule fuel rule n env with
                | .error e => .error e
                | .ok (some _, env') => .ok (some n, env')
                | .ok (none, env') => .ok (none, env')
    | .all rs kinds =>
      if !(kindsGate kinds n) then .ok (none, env)
      else
        match allLoop fuel rs n env with
        | .error e => .error e
        | .ok (true, env') => .ok (some n, env')                  -- commit
        | .ok (false, _) => .ok (none, env)                       -- scratch copy dropped
    | .any rs kinds =>
      if !(kindsGate kinds n) then .ok (none, env)
      else
        match anyLoop fuel rs n env with
        | .error e => .error e
        | .ok (some env') => .ok (some n, env')
        | .ok none => .ok (none, env)
    | .not r =>
      -- `self.not.match_node_with_env(node.clone(), &mut scratch).xor(Some(node))`: the negated
      -- matcher runs on a scratch copy, the caller's env is never touched
      match matchRule fuel r n env with
      | .error e => .error e
      | .ok (some _, _) => .ok (none, env)
      | .ok (none, _) => .ok (some n, env)
    | .matches id =>
      match alookup id ctx.locals with
      | some r => matchRule fuel r n env
      | none =>
        match alookup id ctx.globals with
        | some core => matchCore fuel core n env
        | none => .ok (none, env)
    | .inside r stop field => withLabel (matchInside fuel r stop field n env)
    | .has r stop field => withLabel (matchHas fuel r stop field n env)
    | .precedes r stop =>
      withLabel (stopByFind fuel stop r none n.id (nextOf ctx.root n) (nextAllOf ctx.root n) env)
    | .follows r stop =>
      withLabel (stopByFind fuel stop r none n.id (prevOf ctx.root n) (prevAllOf ctx.root n) env)

/-- `match_and_add_label`: on success the matched node is appended under `secondary` -/
def withLabel : Except Abn (Option Tree × Env) → Except Abn (Option Tree × Env)
  | .error e => .error e
  | .ok (some m, env) => .ok (some m, env.addLabel secondaryLabel m)
  | .ok (none, env) => .ok (none, env)

/-- `.all(|p| p.match_node_with_env(node, &mut new_env).is_some())` -/
def allLoop : (fuel : Nat) → List Rule → Tree → Env → Except Abn (Bool × Env)
  | 0, _, _, _ => .error .fuel
  | _ + 1, [], _, env => .ok (true, env)
  | fuel + 1, r :: rs, n, env =>
    match matchRule fuel r n env with
    | .error e => .error e
    | .ok (some _, env') => allLoop fuel rs n env'
    | .ok (none, env') => .ok (false, env')

/-- `find_map` of `Any`: every alternative starts from the caller's env -/
def anyLoop : (fuel : Nat) → List Rule → Tree → Env → Except Abn (Option Env)
  | 0, _, _, _ => .error .fuel
  | _ + 1, [], _, _ => .ok none
  | fuel + 1, r :: rs, n, env =>
    match matchRule fuel r n env with
    | .error e => .error e
    | .ok (some _, env') => .ok (some env')
    | .ok (none, _) => anyLoop fuel rs n env

/-- `children.filter(|child| rule.match_node_with_env(child.clone(), &mut scratch).is_some())` of
`NthChild::find_index`: every sibling is tested on a scratch copy of the caller's env -/
def filterMapRule : (fuel : Nat) → Rule → List Tree → Env → Except Abn (List Tree)
  | 0, _, _, _ => .error .fuel
  | _ + 1, _, [], _ => .ok []
  | fuel + 1, r, c :: cs, env =>
    match matchRule fuel r c env with
    | .error e => .error e
    | .ok (m, _) =>
      match filterMapRule fuel r cs env with
      | .error e => .error e
      | .ok rest => .ok (match m with | some _ => c :: rest | none => rest)    -- the sibling itself

/-- `iter.find_map(finder)` where `finder` = the rule, optionally preceded by the `field` test of
`Inside` (`expectId` = id of the node the walk came from; updated at every step) -/
def findMapRule : (fuel : Nat) → Rule → Option Nat → Nat → List Tree → Env →
    Except Abn (Option Tree × Env)
  | 0, _, _, _, _, _ => .error .fuel
  | _ + 1, _, _, _, [], env => .ok (none, env)
  | fuel + 1, r, field, expectId, c :: cs, env =>
    match finderStep fuel r field expectId c env with
    | .error e => .error e
    | .ok (some m, env') => .ok (some m, env')
    | .ok (none, env') => findMapRule fuel r field c.id cs env'

/-- one call of the `finder` closure -/
def finderStep : (fuel : Nat) → Rule → Option Nat → Nat → Tree → Env → Except Abn (Option Tree × Env)
  | 0, _, _, _, _, _ => .error .fuel
  | fuel + 1, r, field, expectId, c, env =>
    match field with
    | none => matchRule fuel r c env
    | some f =>
      match childByField c f with
      | none => .ok (none, env)
      | some ch => if ch.id != expectId then .ok (none, env) else matchRule fuel r c env

/-- `iter.take_while(inclusive_until(stop)).find_map(finder)`; `stopped` = the flag of
`inclusive_until` (the stop rule is tried on a fresh environment: `n.matches(rule)`) -/
def findMapUntil : (fuel : Nat) → Rule → Rule → Option Nat → Nat → Bool → List Tree → Env →
    Except Abn (Option Tree × Env)
  | 0, _, _, _, _, _, _, _ => .error .fuel
  | _ + 1, _, _, _, _, _, [], env => .ok (none, env)
  | fuel + 1, r, stop, field, expectId, stopped, c :: cs, env =>
    if stopped then .ok (none, env)
    else
      match matchRule fuel stop c Env.empty with
      | .error e => .error e
      | .ok (sm, _) =>
        match finderStep fuel r field expectId c env with
        | .error e => .error e
        | .ok (some m, env') => .ok (some m, env')
        | .ok (none, env') => findMapUntil fuel r stop field c.id sm.isSome cs env'

/-- `StopBy::find(once, multi, finder)` -/
def stopByFind : (fuel : Nat) → StopBy → Rule → Option Nat → Nat → Option Tree → List Tree → Env →
    Except Abn (Option Tree × Env)
  | 0, _, _, _, _, _, _, _ => .error .fuel
  | fuel + 1, stop, r, field, expectId, once, multi, env =>
    match stop with
    | .neighbor =>
      match once with
      | none => .ok (none, env)
      | some c => finderStep fuel r field expectId c env
    | .end_ => findMapRule fuel r field expectId multi env
    | .rule s => findMapUntil fuel r s field expectId false multi env

/-- `Inside::match_node_with_env` -/
def matchInside : (fuel : Nat) → Rule → StopBy → Option Nat → Tree → Env →
    Except Abn (Option Tree × Env)
  | 0, _, _, _, _, _ => .error .fuel
  | fuel + 1, r, stop, field, n, env =>
    stopByFind fuel stop r field n.id (parentOf ctx.root n) (ancestorsOf ctx.root n) env

/-- `Has::match_node_with_env` -/
def matchHas : (fuel : Nat) → Rule → StopBy → Option Nat → Tree → Env → Except Abn (Option Tree × Env)
  | 0, _, _, _, _, _ => .error .fuel
  | fuel + 1, r, stop, field, n, env =>
    match field with
    | some f =>
      match childByField n f with
      | none => .ok (none, env)
      | some nd =>
        match stop with
        | .neighbor => matchRule fuel r nd env
        | .end_ => findMapRule fuel r none 0 nd.preorder env
        | .rule s =>
          -- the field child, then (unless it stops) everything below it up to the stop rule
          match matchRule fuel r nd env with
          | .error e => .error e
          | .ok (some m, env') => .ok (some m, env')
          | .ok (none, env') =>
            match matchRule fuel s nd Env.empty with
            | .error e => .error e
            | .ok (some _, _) => .ok (none, env')
            | .ok (none, _) => hasUntil fuel r s nd.children env'
    | none =>
      match stop with
      | .neighbor => findMapRule fuel r none 0 n.children env
      | .end_ => findMapRule fuel r none 0 (n.preorder.drop 1) env
      | .rule s => hasUntil fuel r s n.children env

/-- `node.children().find_map(|n| inner(n).or_else(|| if n.matches(stop) { None } else { self(n) }))` -/
def hasUntil : (fuel : Nat) → Rule → Rule → List Tree → Env → Except Abn (Option Tree × Env)
  | 0, _, _, _, _ => .error .fuel
  | _ + 1, _, _, [], env => .ok (none, env)
  | fuel + 1, r, s, c :: cs, env =>
    match matchRule fuel r c env with
    | .error e => .error e
    | .ok (some m, env') => .ok (some m, env')
    | .ok (none, env') =>
      match matchRule fuel s c Env.empty with
      | .error e => .error e
      | .ok (some _, _) => hasUntil fuel r s cs env'
      | .ok (none, _) =>
        match hasUntil fuel r s c.children env' with
        | .error e => .error e
        | .ok (some m, env'') => .ok (some m, env'')
        | .ok (none, env'') => hasUntil fuel r s cs env''

/-- `RuleCore::do_match` without transformations: kinds gate, rule, constraints -/
def matchCore : (fuel : Nat) → RuleCore → Tree → Env → Except Abn (Option Tree × Env)
  | 0, _, _, _ => .error .fuel
  | fuel + 1, core, n, env =>
    if !(kindsGate core.kinds n) then .ok (none, env)
    else
      -- the rule and its constraints work on a scratch copy of the caller's env, committed on success
      match matchRule fuel core.rule n env with
      | .error e => .error e
      | .ok (none, _) => .ok (none, env)
      | .ok (some ret, env') =>
        -- `match_constraints`: scratch copy, committed when every constraint holds;
        -- the constrained captures are visited in the order of their variable names
        match constraintLoop fuel core.constraints (sortByName env'.single) env' with
        | .error e => .error e
        | .ok (true, env'') => .ok (some ret, env'')
        | .ok (false, _) => .ok (none, env)

/-- the `for (var_id, candidate) in &self.single_matched` loop of `match_constraints` -/
def constraintLoop : (fuel : Nat) → List (Name × Rule) → List (Name × Tree) → Env →
    Except Abn (Bool × Env)
  | 0, _, _, _ => .error .fuel
  | _ + 1, _, [], env => .ok (true, env)
  | fuel + 1, cons, (v, cand) :: rest, env =>
    match alookup v cons with
    | none => constraintLoop fuel cons rest env
    | some m =>
      match matchRule fuel m cand env with
      | .error e => .error e
      | .ok (none, env') => .ok (false, env')
      | .ok (some _, env') => constraintLoop fuel cons rest env'

end

end

/-! ### `potential_kinds` -/

def kindsInter (a b : List Nat) : List Nat := a.filter b.contains
def kindsUnion (a b : List Nat) : List Nat := a ++ b.filter (fun k => !a.contains k)

mutual
/-- `Rule::potential_kinds()`; `locals`/`globals` = the registries *at the time of the call* -/
def potentialKinds (locals : List (Name × Rule)) (globals : List (Name × RuleCore)) :
    (fuel : Nat) → Rule → Option (List Nat)
  | 0, _ => none
  | fuel + 1, r =>
    match r with
    | .pattern p rootKind _ => patternPotentialKinds p rootKind
    | .kind k => some [k]
    | .regex _ => none
    | .range _ _ _ _ => none
    | .nthChild _ _ ofRule _ =>
      match ofRule with
      | some rule => potentialKinds locals globals fuel rule
      | none => none
    | .inside _ _ _ => none
    | .has _ _ _ => none
    | .precedes _ _ => none
    | .follows _ _ => none
    | .all _ kinds => kinds
    | .any _ kinds => kinds
    | .not _ => none
    | .matches id =>
      match alookup id locals with
      | some rule => potentialKinds locals globals fuel rule
      | none =>
        match alookup id globals with
        | some core => potentialKinds locals globals fuel core.rule
        | none => none
end

mutual
/-- `Rule::potential_kinds()` as asked at CONSTRUCTION time since FIX (418aa84, "a local utility
rule shadows a global one of the same name from the start"): `declared` = the ids announced by
`RuleRegistration::declare_local` (`DeserializeEnv::with_utils` announces every local id before it
deserializes any of them); `ReferentRule::eval_global` answers `None` for an announced id, so a
local rule that is declared but not inserted yet has no potential kinds (= any kind) instead of
those of the global rule it shadows.  `potentialKindsD [] = potentialKinds`
(`Lemmas/KindsDeclared.lean`). -/
def potentialKindsD (declared : List Name) (locals : List (Name × Rule))
    (globals : List (Name × RuleCore)) : (fuel : Nat) → Rule → Option (List Nat)
  | 0, _ => none
  | fuel + 1, r =>
    match r with
    | .pattern p rootKind _ => patternPotentialKinds p rootKind
    | .kind k => some [k]
    | .regex _ => none
    | .range _ _ _ _ => none
    | .nthChild _ _ ofRule _ =>
      match ofRule with
      | some rule => potentialKindsD declared locals globals fuel rule
      | none => none
    | .inside _ _ _ => none
    | .has _ _ _ => none
    | .precedes _ _ => none
    | .follows _ _ => none
    | .all _ kinds => kinds
    | .any _ kinds => kinds
    | .not _ => none
    | .matches id =>
      match alookup id locals with
      | some rule => potentialKindsD declared locals globals fuel rule
      | none =>
        if declared.contains id then none
        else
          match alookup id globals with
          | some core => potentialKindsD declared locals globals fuel core.rule
          | none => none
end

/-- `All::compute_kinds`: intersection of the `Some`s, `None` when every part is `None` -/
def allComputeKinds (parts : List (Option (List Nat))) : Option (List Nat) :=
  parts.foldl (fun acc p =>
    match p with
    | none => acc
    | some n => match acc with
      | some s => some (kindsInter s n)
      | none => some n) none

/-- `Any::compute_kinds`: union, `None` as soon as one part is `None` -/
def anyComputeKinds (parts : List (Option (List Nat))) : Option (List Nat) :=
  parts.foldl (fun acc p =>
    match acc, p with
    | some s, some n => some (kindsUnion s n)
    | _, _ => none) (some [])

def ruleFuel (t : Tree) : Nat := 64 * (t.size + 4)

end AGV
