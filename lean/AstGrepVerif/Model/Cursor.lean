/-
The tree-sitter cursor as a zipper, and the node-level navigation of tree-sitter's `Node`.

Mirrors the part of the tree-sitter API that ast-grep uses in
`crates/core/src/traversal.rs` and `crates/core/src/node.rs:339-493`
(`tree_sitter::TreeCursor::{goto_first_child, goto_next_sibling, goto_previous_sibling,
goto_parent, goto_first_child_for_byte, node}`, `tree_sitter::Node::{walk, parent,
next_sibling, prev_sibling, child_with_descendant, children}`).

A cursor created by `node.walk()` is *scoped to that node*: it can never move to the node's
siblings or parent (tree-sitter issue 567, quoted in `node.rs:441-443`).  In the zipper this is
the empty path: every move that needs a frame fails there.

The model has no pointers.  A node-level operation (`parent`, `next_sibling`, ...) is given the
document root and finds its argument by `id` (`node_id()`, unique inside one document).
These are *contract* functions (DESIGN 5.2): tree-sitter is a parameter of the model; what the
proofs use about it is exactly what is written here, and the correspondence run compares every
one of them with the real library on every dumped tree.
-/
import AstGrepVerif.Model.Tree

namespace AGV

/-- one level of the zipper: the parent's own data, the siblings to the left of the focus
(nearest first) and the siblings to the right -/
structure Frame where
  info : Info
  left : List Tree
  right : List Tree
deriving Repr, Inhabited

/-- `tree_sitter::TreeCursor`: the focused node and the way back up to the node the cursor was
created at (innermost frame first).  `path = []` ⇔ the cursor stands on its start node. -/
structure Cursor where
  focus : Tree
  path : List Frame
deriving Repr, Inhabited

namespace Cursor

/-- `node.walk()` -/
def new (n : Tree) : Cursor := ⟨n, []⟩

/-- `cursor.node()` -/
def node (c : Cursor) : Tree := c.focus

/-- `cursor.goto_first_child()`; `none` = returned `false`, cursor unchanged -/
def gotoFirstChild (c : Cursor) : Option Cursor :=
  match c.focus with
  | .node i (k :: ks) => some ⟨k, ⟨i, [], ks⟩ :: c.path⟩
  | .node _ [] => none

/-- `cursor.goto_next_sibling()`; fails on the last child and on the cursor's start node -/
def gotoNextSibling (c : Cursor) : Option Cursor :=
  match c.path with
  | ⟨i, l, r :: rs⟩ :: p => some ⟨r, ⟨i, c.focus :: l, rs⟩ :: p⟩
  | _ => none

/-- `cursor.goto_previous_sibling()`; fails on the first child and on the cursor's start node -/
def gotoPrevSibling (c : Cursor) : Option Cursor :=
  match c.path with
  | ⟨i, l :: ls, r⟩ :: p => some ⟨l, ⟨i, ls, c.focus :: r⟩ :: p⟩
  | _ => none

/-- `cursor.goto_parent()`; fails on the cursor's start node -/
def gotoParent (c : Cursor) : Option Cursor :=
  match c.path with
  | ⟨i, l, r⟩ :: p => some ⟨.node i (l.reverse ++ c.focus :: r), p⟩
  | [] => none

/-- split `ks` at the first element whose end is behind byte `b`:
`(left siblings nearest first, that child, right siblings)` -/
def splitForByte (b : Nat) : (left : List Tree) → (ks : List Tree) → Option (List Tree × Tree × List Tree)
  | _, [] => none
  | l, k :: ks => if k.stop > b then some (l, k, ks) else splitForByte b (k :: l) ks

/-- `cursor.goto_first_child_for_byte(b)`: to the first child that ends after byte `b`
(`entry_end.bytes > goal_byte`, tree-sitter 0.25 `tree_cursor.c:274`);
`none` = no such child, cursor unchanged -/
def gotoFirstChildForByte (b : Nat) (c : Cursor) : Option Cursor :=
  match c.focus with
  | .node i ks =>
    match splitForByte b [] ks with
    | some (l, k, r) => some ⟨k, ⟨i, l, r⟩ :: c.path⟩
    | none => none

/-- number of `goto_parent` steps back to the start node -/
def depth (c : Cursor) : Nat := c.path.length

end Cursor

namespace Tree

mutual
/-- does the subtree contain a node with this id -/
def containsId (x : Nat) : Tree → Bool
  | .node i cs => i.id == x || containsIdList x cs
def containsIdList (x : Nat) : List Tree → Bool
  | [] => false
  | t :: ts => t.containsId x || containsIdList x ts
end

/-- `self.child_with_descendant(d)`: the child of `self` whose subtree contains `d`
(`d` itself when it is a child) -/
def childWithDescendant (self : Tree) (d : Tree) : Option Tree :=
  self.children.find? fun c => c.containsId d.id

/-- the walk of `ts_node_parent` (tree-sitter 0.25 `node.c:545-558`): from `cur` downwards
through `child_with_descendant(self)` until the next step would be `self` (or fails);
`fuel` bounds the descent (any `fuel ≥ size cur` is enough). -/
def parentWalk : (fuel : Nat) → (cur self : Tree) → Tree
  | 0, cur, _ => cur
  | fuel + 1, cur, self =>
    match cur.childWithDescendant self with
    | none => cur
    | some next => if next.id == self.id then cur else parentWalk fuel next self

/-- `node.parent()` inside the document `root` -/
def parent (root : Tree) (self : Tree) : Option Tree :=
  if root.id == self.id then none else some (parentWalk root.size root self)

/-- the sibling after the element with id `x` in a child list -/
def afterId (x : Nat) : List Tree → Option Tree
  | a :: b :: rest => if a.id == x then some b else afterId x (b :: rest)
  | _ => none

/-- the sibling before the element with id `x` in a child list -/
def beforeId (x : Nat) : List Tree → Option Tree
  | a :: b :: rest => if b.id == x then some a else beforeId x (b :: rest)
  | _ => none

/-- `node.next_sibling()` inside the document `root` -/
def nextSibling (root : Tree) (self : Tree) : Option Tree :=
  match parent root self with
  | none => none
  | some p => afterId self.id p.children

/-- `node.prev_sibling()` inside the document `root` -/
def prevSibling (root : Tree) (self : Tree) : Option Tree :=
  match parent root self with
  | none => none
  | some p => beforeId self.id p.children

end Tree

end AGV
