/-
Node navigation of ast-grep's `Node` (`crates/core/src/node.rs:339-493`):
`parent`, `children`, `ancestors`, `next`, `prev`, `next_all`, `prev_all`.

`parent` / `next` / `prev` are thin wrappers of the tree-sitter node API (`Model/Cursor.lean`).
`ancestors` walks *down* from the document root with `child_with_descendant` and reverses.
`next_all` / `prev_all` put a cursor on the parent (on the node itself when there is no
parent: `self.parent().unwrap_or_else(|| self.clone())`), move it with
`goto_first_child_for_byte(self.start_byte())` (result ignored) and then iterate sibling moves
— only when the node has a parent (`has_parent && cursor.goto_next_sibling()`, commit eb8fb43:
before it the root's own children `[1..]` were reported as the root's siblings).
-/
import AstGrepVerif.Model.Traversal

namespace AGV
namespace Nav

/-- `node.parent()` -/
def parent (root self : Tree) : Option Tree := Tree.parent root self

/-- `node.next()` -/
def next (root self : Tree) : Option Tree := Tree.nextSibling root self

/-- `node.prev()` -/
def prev (root self : Tree) : Option Tree := Tree.prevSibling root self

/-- `node.children()` -/
def children (n : Tree) : List Tree := childrenViaCursor n

/-- the `from_fn` closure of `ancestors()`, top-down -/
def ancestorsDown : (fuel : Nat) → (ancestor : Option Tree) → (self : Tree) → TM (List Tree)
  | 0, _, _ => .error .fuel
  | _ + 1, none, _ => .ok []
  | fuel + 1, some inner, self =>
    if inner.id == self.id then .ok []
    else
      match ancestorsDown fuel (inner.childWithDescendant self) self with
      | .ok xs => .ok (inner :: xs)
      | .error e => .error e

/-- `node.ancestors().collect()`: nearest ancestor first -/
def ancestors (root self : Tree) : TM (List Tree) :=
  match ancestorsDown (root.size + 1) (some root) self with
  | .ok xs => .ok xs.reverse
  | .error e => .error e

/-- the cursor of `next_all` / `prev_all` after `goto_first_child_for_byte(self.start_byte())` -/
def siblingCursor (root self : Tree) : Cursor :=
  let node := match parent root self with
    | some p => p
    | none => self
  let c := Cursor.new node
  match c.gotoFirstChildForByte self.start with
  | some c' => c'
  | none => c

def iterNextSibling : (fuel : Nat) → Cursor → TM (List Tree)
  | 0, _ => .error .fuel
  | fuel + 1, c =>
    match c.gotoNextSibling with
    | none => .ok []
    | some c' =>
      match iterNextSibling fuel c' with
      | .ok xs => .ok (c'.node :: xs)
      | .error e => .error e

def iterPrevSibling : (fuel : Nat) → Cursor → TM (List Tree)
  | 0, _ => .error .fuel
  | fuel + 1, c =>
    match c.gotoPrevSibling with
    | none => .ok []
    | some c' =>
      match iterPrevSibling fuel c' with
      | .ok xs => .ok (c'.node :: xs)
      | .error e => .error e

/-- `has_parent` -/
def hasParent (root self : Tree) : Bool := (parent root self).isSome

/-- `node.next_all().collect()` -/
def nextAll (root self : Tree) : TM (List Tree) :=
  if hasParent root self then iterNextSibling (root.size + 1) (siblingCursor root self)
  else .ok []

/-- `node.prev_all().collect()`: nearest sibling first -/
def prevAll (root self : Tree) : TM (List Tree) :=
  if hasParent root self then iterPrevSibling (root.size + 1) (siblingCursor root self)
  else .ok []

end Nav
end AGV
