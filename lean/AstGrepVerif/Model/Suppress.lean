/-
Model of the suppression part of the combined scan (the code AS IT IS at the pinned commit).

Mirrors `crates/config/src/combined.rs`:
  * 252-261  `parse_suppression_set`
  * 53-87    `Suppressions::collect`, `suppression_ids`, `check_suppression`
  * 95-116   `MaySuppressed::suppressed_id`
  * 166-220  `CombinedScan::scan` (the two passes, removal of used suppressions, unused set)
  * 22-50    `ScanResultInner::into_result` (where the unused suppressions go)

The tree is a parameter, not modelled: the input is what the code reads from it.
  * `nodes`    : the nodes met by `root.dfs()` that can pass at least one half of the filter of
                 `collect` (kind contains "comment" / text contains "ast-grep-ignore"), in pre-order,
                 each with its kind, its text, its start/end line and the start/end line of its
                 previous sibling (`node.prev()`), if any.  A node's identity (`node_id()`) is its
                 index in this list.  `lead` (the bytes of the source line before the node) is
                 NOT read by the code; it is there for the specification's textual "own line".
  * `findings` : the (rule, node) pairs for which `rule.matcher.match_node(node)` succeeds, in the
                 order the second pass meets them (pre-order of nodes, rules in `CombinedScan` order),
                 each with the rule id, the start line of the node and whether the rule has a fix.
                 A finding's identity is its index in this list.

`HashMap<usize, Suppression>` is an association list with `insert` = overwrite, exactly like
`HashMap::insert`.  `HashSet<String>` is a list (only membership is ever asked).
`str::trim` trims Unicode `White_Space`; on UTF-8 bytes that is the table `wsLen` below.
-/
import AstGrepVerif.Model.Indent

namespace AGV.Suppress

/-- `IGNORE_TEXT = "ast-grep-ignore"` -/
def ignoreText : Bytes :=
  [0x61, 0x73, 0x74, 0x2D, 0x67, 0x72, 0x65, 0x70, 0x2D, 0x69, 0x67, 0x6E, 0x6F, 0x72, 0x65]

/-- `"comment"` -/
def commentWord : Bytes := [0x63, 0x6F, 0x6D, 0x6D, 0x65, 0x6E, 0x74]

def COLON : UInt8 := 0x3A
def COMMA : UInt8 := 0x2C

/-- `pat` is a prefix of `s`; on success the rest of `s`. -/
def stripPrefix : (pat s : Bytes) → Option Bytes
  | [], s => some s
  | _ :: _, [] => none
  | p :: ps, b :: bs => if p = b then stripPrefix ps bs else none

/-- `str::split_once(pat)`: split at the FIRST occurrence of `pat` (left to right). -/
def splitOnce (pat : Bytes) : Bytes → Option (Bytes × Bytes)
  | [] => match stripPrefix pat [] with
    | some rest => some ([], rest)
    | none => none
  | b :: bs => match stripPrefix pat (b :: bs) with
    | some rest => some ([], rest)
    | none => match splitOnce pat bs with
      | some (pre, post) => some (b :: pre, post)
      | none => none

/-- `str::contains(pat)` -/
def contains (pat s : Bytes) : Bool := (splitOnce pat s).isSome

/-- Length in bytes of the Unicode `White_Space` character at the head of `s`, `0` if none:
U+0009..U+000D, U+0020, U+0085, U+00A0, U+1680, U+2000..U+200A, U+2028, U+2029, U+202F, U+205F,
U+3000 (`char::is_whitespace`). -/
def wsLen : Bytes → Nat
  | [] => 0
  | b :: rest =>
    if (0x09 ≤ b && b ≤ 0x0D) || b == 0x20 then 1
    else match rest with
      | [] => 0
      | c :: rest2 =>
        if b == 0xC2 && (c == 0x85 || c == 0xA0) then 2
        else match rest2 with
          | [] => 0
          | d :: _ =>
            if b == 0xE1 && c == 0x9A && d == 0x80 then 3
            else if b == 0xE2 && c == 0x80 &&
                ((0x80 ≤ d && d ≤ 0x8A) || d == 0xA8 || d == 0xA9 || d == 0xAF) then 3
            else if b == 0xE2 && c == 0x81 && d == 0x9F then 3
            else if b == 0xE3 && c == 0x80 && d == 0x80 then 3
            else 0

/-- `str::trim_start` -/
def trimStart : Bytes → Bytes
  | [] => []
  | b :: rest =>
    match wsLen (b :: rest) with
    | 0 => b :: rest
    | 1 => trimStart rest
    | 2 => match rest with
      | _ :: r2 => trimStart r2
      | [] => b :: rest           -- unreachable: wsLen = 2 needs two bytes
    | _ => match rest with
      | _ :: _ :: r3 => trimStart r3
      | _ => b :: rest            -- unreachable

/-- `str::trim_end`: drop the longest all-white-space suffix.  (A suffix that starts inside a
multi-byte character starts with a continuation byte and is never all white space.) -/
def trimEnd : Bytes → Bytes
  | [] => []
  | b :: rest => if (trimStart (b :: rest)).isEmpty then [] else b :: trimEnd rest

/-- `str::trim` -/
def trim (s : Bytes) : Bytes := trimEnd (trimStart s)

/-- `str::split(',')`: always at least one (possibly empty) piece. -/
def splitOn (sep : UInt8) : Bytes → List Bytes
  | [] => [[]]
  | b :: bs =>
    if b = sep then [] :: splitOn sep bs
    else match splitOn sep bs with
      | [] => [[b]]          -- unreachable
      | l :: ls => (b :: l) :: ls

/-- `parse_suppression_set(text)`: `none` = suppress all.
Note the three ways to get `none`: marker absent (`?`), nothing after the marker, and text after
the marker WITHOUT a colon (`split_once(':')?` returns `None` from the whole function). -/
def parseSuppressionSet (text : Bytes) : Option (List Bytes) :=
  match splitOnce ignoreText (trim text) with
  | none => none
  | some (_, after) =>
    let after := trim after
    if after.isEmpty then none
    else match splitOnce [COLON] after with
      | none => none
      | some (_, rules) => some ((splitOn COMMA rules).map trim)

/-- one node of the pre-order, as far as `collect` looks at it -/
structure CNode where
  kind : Bytes
  text : Bytes
  startLine : Nat
  endLine : Nat
  /-- `node.prev()`: start line and end line of the previous sibling -/
  prev : Option (Nat × Nat)
  /-- bytes of the source line before the node's first byte (not read by the code) -/
  lead : Bytes
deriving DecidableEq, Repr

structure Finding where
  rule : Bytes
  line : Nat
  fix : Bool
deriving DecidableEq, Repr

structure Input where
  nodes : List CNode
  findings : List Finding
deriving Repr

structure Suppression where
  /-- `None` = suppress all -/
  suppressed : Option (List Bytes)
  nodeId : Nat
deriving DecidableEq, Repr

/-- `HashMap<usize, Suppression>` -/
abbrev Table := List (Nat × Suppression)

/-- `HashMap::insert`: an existing entry for the key is OVERWRITTEN. -/
def Table.insert : Table → Nat → Suppression → Table
  | [], k, v => [(k, v)]
  | (k', v') :: rest, k, v =>
    if k' = k then (k, v) :: rest else (k', v') :: Table.insert rest k v

def Table.get : Table → Nat → Option Suppression
  | [], _ => none
  | (k', v') :: rest, k => if k' = k then some v' else Table.get rest k

/-- the early return of `collect` -/
def isSuppressionNode (n : CNode) : Bool :=
  contains commentWord n.kind && contains ignoreText n.text

/-- `suppress_next_line`: no previous sibling, or it STARTS on another line -/
def suppressNextLine (n : CNode) : Bool :=
  match n.prev with
  | some (ps, _) => ps != n.startLine
  | none => true

/-- the key under which `collect` files the node -/
def keyOf (n : CNode) : Nat :=
  if suppressNextLine n then n.startLine + 1 else n.startLine

/-- first pass: `for node in root.dfs() { suppressions.collect(&node) }`; `idx` = node id -/
def collectAux : List CNode → Nat → Table → Table
  | [], _, t => t
  | n :: rest, idx, t =>
    collectAux rest (idx + 1)
      (if isSuppressionNode n then t.insert (keyOf n) ⟨parseSuppressionSet n.text, idx⟩ else t)

def collect (nodes : List CNode) : Table := collectAux nodes 0 []

/-- `suppression_ids()` (a set; here the list of node ids in the table) -/
def suppressionIds (t : Table) : List Nat := t.map (·.2.nodeId)

/-- `check_suppression(node).suppressed_id(rule_id)` -/
def suppressedId (t : Table) (line : Nat) (rule : Bytes) : Option Nat :=
  match t.get line with
  | none => none
  | some sup =>
    match sup.suppressed with
    | some set => if set.contains rule then some sup.nodeId else none
    | none => some sup.nodeId

/-- `HashSet::remove` -/
def removeId (ids : List Nat) (id : Nat) : List Nat := ids.filter (· != id)

/-- second pass over the findings: `(still-unused ids, reported finding indices)` -/
def scanFindings (t : Table) : List Finding → Nat → List Nat → List Nat × List Nat
  | [], _, ids => (ids, [])
  | f :: rest, idx, ids =>
    match suppressedId t f.line f.rule with
    | some id => scanFindings t rest (idx + 1) (removeId ids id)
    | none =>
      let (ids', rep) := scanFindings t rest (idx + 1) ids
      (ids', idx :: rep)

structure Core where
  /-- indices of the findings that are not suppressed, ascending -/
  reported : List Nat
  /-- node ids of the suppressions in the table that suppressed nothing, ascending -/
  unused : List Nat
deriving DecidableEq, Repr

/-- `scan` up to `into_result` -/
def scanCore (inp : Input) : Core :=
  let t := collect inp.nodes
  let ids0 := suppressionIds t
  let (ids, rep) := scanFindings t inp.findings 0 ids0
  -- `suppression_nodes`: the nodes whose id is in `ids0`; kept when still in `ids`
  let unused := (List.range inp.nodes.length).filter fun j => ids0.contains j && ids.contains j
  ⟨rep, unused⟩

structure Result where
  /-- finding indices that end up in `ScanResult.matches` -/
  inMatches : List Nat
  /-- finding indices that end up in `ScanResult.diffs` -/
  inDiffs : List Nat
  /-- node ids reported under the unused-suppression rule inside `matches` -/
  unusedInMatches : List Nat
  /-- node ids reported under the unused-suppression rule inside `diffs` -/
  unusedInDiffs : List Nat
deriving DecidableEq, Repr

/-- does the reported finding `i` go to `diffs`?  (`rule.fix.is_none() || !separate_fix` → `matches`) -/
def toDiff (inp : Input) (separateFix : Bool) (i : Nat) : Bool :=
  match inp.findings[i]? with
  | some f => f.fix && separateFix
  | none => false

/-- `CombinedScan::scan(root, separate_fix)` with `unused_suppression_rule.is_some() = unusedRule` -/
def scan (inp : Input) (separateFix unusedRule : Bool) : Result :=
  let c := scanCore inp
  { inMatches := c.reported.filter (fun i => !toDiff inp separateFix i)
    inDiffs := c.reported.filter (toDiff inp separateFix)
    unusedInMatches := if unusedRule && !separateFix then c.unused else []
    unusedInDiffs := if unusedRule && separateFix then c.unused else [] }

end AGV.Suppress
