/-
Rule documents as the loader sees them (C11 / C12): the *structured part* of a rule file after
serde has produced a `SerializableRuleConfig`.

Mirrors (pinned commit + FIX_C11_1..5):
  * `crates/config/src/rule/mod.rs:33-207`        `SerializableRule` and its three categories
  * `crates/config/src/rule/nth_child.rs:25-147`  `NthChildSimple`, `SerializableNthChild`
  * `crates/config/src/rule/relational_rule.rs`   `Relation` (rule + `stopBy` + `field`)
  * `crates/config/src/transform/transformation.rs:111-120`  `Transformation<String>`
  * `crates/config/src/fixer.rs:14-32`            `SerializableFixer`, `SerializableFixConfig`
  * `crates/config/src/rule_core.rs:43-62`        `SerializableRuleCore`
  * `crates/config/src/rule_config.rs:54-94`      `SerializableRewriter`, `SerializableRuleConfig`
and the error enums `RuleSerializeError`, `NthChildError`, `ReferentRuleError`,
`TransformError`, `FixerError`, `RuleCoreError`, `RuleConfigError`.

What the loader asks tree-sitter / `regex` is *data* of the document (the parser and the regex
engine are parameters of the model, never modelled): whether a pattern parses, the variables it
defines, its potential kinds; whether a kind / field name exists; whether a regex compiles.  The
harness computes these facts by separate calls of the public API (`Pattern::try_new`,
`KindMatcher::try_new`, `Regex::new`, `Language::field_to_id`).

A rule object is the list of its present fields **in the order `deserialize_rule` treats them**
(pattern, kind, regex, nthChild, range, all, any, not, matches, inside, has, precedes, follows);
hash maps (`utils`, `constraints`, `transform`) are association lists in *some* iteration order:
theorems hold for every order, the correspondence compares the error variant only where it does
not depend on the order.
-/
import AstGrepVerif.Model.Env
import AstGrepVerif.Model.Notation
import AstGrepVerif.Model.Template

namespace AGV.Loader

open AGV

/-- `NthChildSimple` -/
inductive NthPos where
  | numeric (n : Nat)                -- `Numeric(usize)`
  | functional (s : List Char)       -- `Functional(String)`
deriving DecidableEq, Repr, Inhabited

/-- `field: Option<String>` of a relation, resolved by `field_name_to_id` -/
inductive SField where
  | absent
  | known (id : Nat)
  | unknown
deriving DecidableEq, Repr, Inhabited

mutual
/-- `SerializableRule`: the present fields, in `deserialize_rule` order -/
inductive SRule where
  | mk (parts : List SPart)
inductive SPart where
  /-- `pattern`: did `Pattern::try_new` / `contextual` succeed, `defined_vars()`, `potential_kinds()` -/
  | pattern (ok : Bool) (vars : List Name) (kinds : Option (List Nat))
  | kind (ok : Bool) (id : Nat)
  | regex (ok : Bool)
  | nthChild (pos : NthPos) (ofRule : Option SRule) (reverse : Bool)
  | range (startLine startCol endLine endCol : Nat)
  | all (rs : List SRule)
  | any (rs : List SRule)
  | not (r : SRule)
  | matches (id : Name)
  | inside (r : SRule) (stop : SStop) (field : SField)
  | has (r : SRule) (stop : SStop) (field : SField)
  | precedes (r : SRule) (stop : SStop) (field : SField)
  | follows (r : SRule) (stop : SStop) (field : SField)
/-- `SerializableStopBy` -/
inductive SStop where
  | neighbor
  | end_
  | rule (r : SRule)
end

instance : Inhabited SRule := ⟨.mk []⟩

def SRule.parts : SRule → List SPart | .mk ps => ps

/-- `Transformation<String>` -/
inductive STrans where
  | substring (source : List Char)
  | replace (source : List Char) (regexOk : Bool)
  | convert (source : List Char)
  | rewrite (source : List Char) (rewriters : List Name)
deriving Repr, Inhabited

def STrans.source : STrans → List Char
  | .substring s => s | .replace s _ => s | .convert s => s | .rewrite s _ => s

def STrans.usedRewriters : STrans → List Name
  | .rewrite _ rs => rs | _ => []

/-- an `expandStart` / `expandEnd` relation of the object-form fix -/
structure SExpansion where
  rule : SRule
  stop : SStop

/-- `SerializableFixer` -/
inductive SFix where
  | str (template : Bytes)
  | config (template : Bytes) (expandStart expandEnd : Option SExpansion)

def SFix.template : SFix → Bytes
  | .str t => t | .config t _ _ => t

/-- `SerializableRuleCore` -/
structure SCore where
  rule : SRule
  constraints : List (Name × SRule) := []          -- `None` and `Some({})` behave alike
  utils : Option (List (Name × SRule)) := none
  transform : Option (List (Name × STrans)) := none
  fix : Option SFix := none

/-- `SerializableRewriter` -/
structure SRewriter where
  id : Name
  core : SCore

/-- a global utility rule already registered when the document is loaded: id and the potential
kinds of its matcher -/
structure GlobalUtil where
  id : Name
  kinds : Option (List Nat)

/-- `SerializableRuleConfig` (the fields that take part in loading) + the language facts -/
structure SDoc where
  core : SCore
  rewriters : Option (List SRewriter) := none
  globals : List GlobalUtil := []
  /-- expando character of the rule's language (`$` for `impl_lang!` languages) -/
  expando : Char := '$'

/-! ### errors -/

/-- `RuleSerializeError` with `NthChildError` and `ReferentRuleError` flattened in -/
inductive RSE where
  | missPositiveMatcher
  | invalidKind
  | invalidPattern
  | nthIllegalCharacter
  | nthInvalidSyntax
  | nthInvalidRule (e : RSE)
  | wrongRegex
  | undefinedUtil
  | duplicateRule
  | cyclicRule
  | invalidRange
  | fieldNotSupported
  | invalidField
deriving DecidableEq, Repr, Inhabited

/-- `TransformError` (`invalidRegex` is new with FIX_C11_2) -/
inductive TE where
  | cyclic | alreadyDefined | malformedVar | invalidRegex
deriving DecidableEq, Repr, Inhabited

inductive Section where
  | constraints | transform | fix
deriving DecidableEq, Repr, Inhabited

/-- `RuleCoreError` -/
inductive CoreErr where
  | utils (e : RSE)
  | rule (e : RSE)
  | constraints (e : RSE)
  | transform (e : TE)
  | fixer (e : RSE)                                   -- `Fixer(WrongExpansion(e))`
  | undefinedMetaVar (v : Name) (s : Section)
deriving DecidableEq, Repr, Inhabited

/-- `RuleConfigError` -/
inductive LoadErr where
  | yaml
  | core (e : CoreErr)
  | rewriter (e : CoreErr) (id : Name)
  | undefinedRewriter (id : Name)
  | noFixInRewriter (id : Name)
  | missingPotentialKinds
deriving DecidableEq, Repr, Inhabited

/-- places where the loader can panic -/
inductive PanicSite where
  | usedVarsSlice        -- `&s[1..]` in `Transformation::used_vars` (H3, pre-fix)
  | anbOverflow          -- i32 arithmetic of `parse_an_b` (H8, pre-fix, debug profile)
  | insertRewriterExpect -- `insert_rewriter(..).expect("should work")` (pre-fix)
  | orderMustExist       -- `utils.get(id).expect("must exist")`, `map[key]`
  | topoFuel             -- model artefact: the sort ran out of fuel (never: `getOrder_ne_fuel`)
deriving DecidableEq, Repr, Inhabited

/-- outcome of a fallible step of the loader -/
inductive Res (ε α : Type) where
  | ok (a : α)
  | err (e : ε)
  | panic (site : PanicSite)
deriving Repr, DecidableEq

namespace Res
variable {ε ε' α β : Type}
@[inline] def bind (x : Res ε α) (f : α → Res ε β) : Res ε β :=
  match x with
  | .ok a => f a
  | .err e => .err e
  | .panic s => .panic s
@[inline] def mapErr (f : ε → ε') (x : Res ε α) : Res ε' α :=
  match x with
  | .ok a => .ok a
  | .err e => .err (f e)
  | .panic s => .panic s
def isPanic : Res ε α → Bool | .panic _ => true | _ => false
def isOk : Res ε α → Bool | .ok _ => true | _ => false
/-- the outcome without the payload of a success -/
def verdict : Res ε α → Res ε Unit
  | .ok _ => .ok ()
  | .err e => .err e
  | .panic s => .panic s
instance : Monad (Res ε) where
  pure := .ok
  bind := bind
end Res

/-- which of the repairs are applied: `Fixes.all` is the code under verification, `Fixes.none`
the pinned code (used for the counter-example theorems) -/
structure Fixes where
  usedVarsSafe : Bool      -- FIX_C11_1 (H3)
  regexAtLoad : Bool       -- FIX_C11_2 (H2)
  anbChecked : Bool        -- FIX_C11_3 (H8)
  fixObjTransform : Bool   -- FIX_C11_4 (H4)
  rewriterErr : Bool       -- FIX_C11_5
  ofRuleCycle : Bool       -- FIX_C11_6: the sort and `check_cyclic` follow `nthChild.ofRule`
  utilsVerified : Bool     -- FIX_C12_1: `matches` inside utils / fix expansions must resolve
  rewriterCheckAlways : Bool  -- FIX_C12_2: rewriter references are checked without `rewriters:` too
  rewriterCaptured : Bool  -- FIX_C12_3: a rewriter's fix may use the CAPTURED variables of the enclosing rule, not its transform keys
deriving DecidableEq, Repr

def Fixes.all : Fixes := ⟨true, true, true, true, true, true, true, true, true⟩
def Fixes.none : Fixes := ⟨false, false, false, false, false, false, false, false, false⟩

/-- bytes of an (ASCII) variable name as a `Name` -/
def nameOfBytes (b : Bytes) : Name := b.map fun x => Char.ofNat x.toNat

def nameToBytes (n : Name) : Bytes := n.map fun c => UInt8.ofNat c.toNat

end AGV.Loader
