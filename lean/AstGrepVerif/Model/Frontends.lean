/-
Model of the front ends' plumbing: how each front end turns one match of one rule into an edit
(C08) and into a reported finding (C09, findings half).

Mirrors (ast-grep 0.37.0)
* `crates/core/src/replacer.rs:20-52`        `Replacer::get_replaced_range` (default body), the blanket
                                              `impl Replacer for &T` (which forwards only
                                              `generate_replacement`),
* `crates/core/src/matcher.rs:46-50,105-123`  `Matcher::get_match_len` (default `None`), `impl Matcher for &T`
                                              (forwards it),
* `crates/core/src/matcher/node_match.rs:39-66` `replace_by`, `make_edit`,
* `crates/core/src/node.rs:529-537`, `lib.rs:52-63`, `source.rs:170-187`
                                              `Node::replace`, `AstGrep::replace`, `accept_edit`,
* `crates/cli/src/print/mod.rs:73-87`         `Diff::generate`,
* `crates/cli/src/verify/snapshot.rs:84-105`  `TestSnapshot::generate`,
* `crates/cli/src/verify/case_result.rs:44-63` `verify_valid` / `verify_invalid`,
* `crates/lsp/src/utils.rs`                   `RewriteData::from_node_match`, `diagnostic_to_code_action`,
                                              `convert_node_to_range`, `get_non_empty_message`,
* `crates/lsp/src/lib.rs:198-221,306-345`     `get_diagnostics`, `compute_all_fixes`,
* `crates/config/src/rule_config.rs:195-200`  `RuleConfig::get_message`,
* `crates/config/src/rule_collection.rs:81-97` `RuleCollection::try_new` (drops `severity: off`),
* `crates/config/src/rule_collection.rs:99-126` `get_rule_from_lang` / `for_path` (the rules of the
                                              file's language),
* `crates/cli/src/scan.rs:194-224,228-291`    `ScanWithConfig::produce_item`, `ScanStdin`,
* `crates/cli/src/print/cloud_print.rs:84-108` GitHub annotations.

The matcher, the tree and the template expansion are parameters (C01-C07 are about them): a match is
its node range, the verdicts of the fixer's expansions on the node's siblings (as in `Model/Edit`),
the replacement text `fixer.generate_replacement(nm)` (the same call in every front end) and the
environment the message template is expanded in.

The code base exists in two states: the pinned one and the one with FIX_C08 / FIX_C09 applied.
`Variant` selects; the harness determines the variant of the code it is linked against by
behaviour on minimal inputs.
-/
import AstGrepVerif.Model.Edit
import AstGrepVerif.Model.Bytes
import AstGrepVerif.Model.Fix

namespace AGV

structure Variant where
  /-- `impl Replacer for &T` forwards `get_replaced_range` (pinned code: it does not) -/
  refForwards : Bool
  /-- the language server's quick fix / fix-all replace the fixer's range (pinned: the node) -/
  lspFixerRange : Bool
  /-- fix-all sorts matches that start together outermost first (pinned: innermost first) -/
  lspOuterFirst : Bool
  /-- `scan --stdin` drops `severity: off` rules (pinned: it runs them) -/
  stdinFiltersOff : Bool
  /-- `scan --stdin` drops rules written for another language than the one stdin is parsed as
  (pinned: it runs them on the foreign tree) -/
  stdinFiltersLang : Bool
deriving DecidableEq, Repr

def Variant.pinned : Variant := ⟨false, false, false, false, false⟩
def Variant.fixed : Variant := ⟨true, true, true, true, true⟩

/-- all results, or `none` when one of them is `none` (a panic anywhere aborts the front end) -/
def allSome {α : Type} : List (Option α) → Option (List α)
  | [] => some []
  | none :: _ => none
  | some a :: r => (allSome r).map (a :: ·)

/-! ### trait dispatch -/

/-- the `Matcher` implementations that occur as the `matcher` argument of `make_edit` -/
inductive MatcherImpl where
  | ruleCore                          -- `RuleCore`: no `get_match_len` ⇒ trait default `None`
  | pattern (len : Option Nat)        -- `Pattern::get_match_len(node)` (C03), `sg run -p`
  | ref (m : MatcherImpl)             -- `&T`
deriving DecidableEq, Repr

/-- `matcher.get_match_len(node)`; `impl Matcher for &T` forwards -/
def MatcherImpl.getMatchLen : MatcherImpl → Option Nat
  | .ruleCore => none
  | .pattern len => len
  | .ref m => m.getMatchLen

/-- the `Replacer` implementations that occur as the `replacer` argument of `make_edit` -/
inductive ReplacerImpl where
  | fixer (es ee : Option ExpandStop) -- `Fixer` (own `get_replaced_range`)
  | str                               -- `str` (trait default)
  | ref (r : ReplacerImpl)            -- `&T`
deriving DecidableEq, Repr

/-- what the tree shows around one match -/
structure MatchSite where
  node : Rng
  prevs : List Sib        -- `node.prev_all()` with the verdicts of `expandStart`
  nexts : List Sib        -- `node.next_all()` with the verdicts of `expandEnd`
  inserted : Bytes        -- `replacer.generate_replacement(nm)`
deriving DecidableEq, Repr

/-- `replacer.get_replaced_range(nm, matcher)` -/
def ReplacerImpl.replacedRange (v : Variant) : ReplacerImpl → MatcherImpl → MatchSite → Rng
  | .fixer es ee, m, s => fixerReplacedRange es ee s.node m.getMatchLen s.prevs s.nexts
  | .str, m, s => defaultReplacedRange s.node m.getMatchLen
  | .ref r, m, s =>
    if v.refForwards then r.replacedRange v m s
    else defaultReplacedRange s.node m.getMatchLen      -- the default body of the trait

/-- `nm.make_edit::<M, R>(matcher: &M, replacer: &R)`: the replacer's own implementation is
called with `matcher` (a `&M`) as its `impl Matcher` argument -/
def nmMakeEdit (v : Variant) (m : MatcherImpl) (r : ReplacerImpl) (s : MatchSite) : REdit :=
  editOfRange (r.replacedRange v (.ref m) s) s.inserted

/-! ### C08: the edit each front end proposes for a match of a rule with fixer `(es, ee)` -/

structure FixRule where
  es : Option ExpandStop
  ee : Option ExpandStop
deriving DecidableEq, Repr

/-- `Diff::generate(nm, &rule.matcher, fixer)` = `nm.make_edit::<RuleCore, Fixer>` (`scan --json`,
the diffs of `scan -U`) -/
def cliEdit (v : Variant) (f : FixRule) (s : MatchSite) : REdit :=
  nmMakeEdit v .ruleCore (.fixer f.es f.ee) s

def cliDiff (v : Variant) (f : FixRule) (s : MatchSite) : Diff := diffOfEdit (cliEdit v f s)

/-- `Node::replace::<M, R>(matcher, replacer)` = `make_edit(&matcher, &replacer)` on the first match -/
def nodeReplace (v : Variant) (m : MatcherImpl) (r : ReplacerImpl) (s : MatchSite) : REdit :=
  nmMakeEdit v m r s

/-- `TestSnapshot::generate`: `sg.replace(rule: &RuleCore, fix: &Fixer)` -/
def snapshotEdit (v : Variant) (f : FixRule) (s : MatchSite) : REdit :=
  nodeReplace v (.ref .ruleCore) (.ref (.fixer f.es f.ee)) s

/-- the library call `node.replace(&rule.matcher, fixer)`, the fixer passed by value or by reference -/
def libEdit (v : Variant) (byRef : Bool) (f : FixRule) (s : MatchSite) : REdit :=
  nodeReplace v (.ref .ruleCore) (if byRef then .ref (.fixer f.es f.ee) else .fixer f.es f.ee) s

/-- `sg run -p PATTERN -r FIX`: `Diff::generate(nm, &pattern, &Fixer::from_str(fix))` -/
def runEdit (v : Variant) (len : Option Nat) (s : MatchSite) : REdit :=
  nmMakeEdit v (.pattern len) (.fixer none none) s

/-- the library call `node.replace(pattern, "fix")` (`R = &str`) -/
def libPatternEdit (v : Variant) (len : Option Nat) (s : MatchSite) : REdit :=
  nodeReplace v (.pattern len) (.ref .str) s

/-- `input.splice(start..old_end, inserted)` of `accept_edit` (`AstGrep::edit`);
`none` = the range panic of `Vec::splice` -/
def acceptEdit (src : Bytes) (e : REdit) : Option Bytes :=
  if e.position + e.deleted ≤ src.length then
    some (src.take e.position ++ e.inserted ++ src.drop (e.position + e.deleted))
  else none

/-- the `fixed` text of a snapshot / the source after `AstGrep::replace`: the first match's edit applied -/
def snapshotFixed (v : Variant) (f : FixRule) (src : Bytes) : List MatchSite → Option (Option Bytes)
  | [] => some none
  | s :: _ => (acceptEdit src (snapshotEdit v f s)).map some

/-- `scan -U`: the diffs of all matches (pre-order), filtered, spliced; nothing written when
nothing is accepted -/
def updateAllText (v : Variant) (f : FixRule) (src : Bytes) (ms : List MatchSite) : Res Bytes :=
  let confirmed := processDiffs (ms.map (cliDiff v f))
  if confirmed.isEmpty then .ok src else applyRewrite src confirmed

/-! ### language server -/

/-- LSP `Position`: (line, character); ast-grep's `character` is the char column -/
abbrev LPos := Nat × Nat

def lposLt (a b : LPos) : Bool := a.1 < b.1 || (a.1 == b.1 && a.2 < b.2)

/-- `start_pos()/end_pos()` + `column(node)` of a node border (`convert_node_to_range`), and
`offset_to_position` of the fixed code; `none` = the slice panic of `get_char_column` -/
def lspPos? (src : Bytes) (off : Nat) : Option LPos :=
  (getCharColumn src off).map fun c => (lineOf src off, c)

/-- a published diagnostic of a rule with a fixer, as far as the fix is concerned -/
structure LspDiag where
  start : LPos
  stop : LPos
  fixed : Option Bytes      -- `data.fixed`
  editStart : LPos          -- the range a quick fix of this diagnostic replaces
  editStop : LPos
deriving DecidableEq, Repr

/-- the edit `RewriteData::from_node_match` records: `replace_by(fixer)` on the pinned code (the
node's own range, `get_replaced_range` is never asked), `make_edit(&rule.matcher, fixer)` with FIX_C08 -/
def lspEdit (v : Variant) (f : FixRule) (s : MatchSite) : REdit :=
  if v.lspFixerRange then nmMakeEdit v .ruleCore (.fixer f.es f.ee) s
  else replaceBy s.node s.inserted

/-- `convert_match_to_diagnostic` (range = the node) + `diagnostic_to_code_action` (the text edit) -/
def lspDiag? (v : Variant) (f : FixRule) (src : Bytes) (s : MatchSite) : Option LspDiag := do
  let a ← lspPos? src s.node.start
  let b ← lspPos? src s.node.stop
  let e := diffOfEdit (lspEdit v f s)
  let ea ← lspPos? src e.start
  let eb ← lspPos? src e.stop
  pure { start := a, stop := b, fixed := some e.rep, editStart := ea, editStop := eb }

def lspDiags? (v : Variant) (f : FixRule) (src : Bytes) (ms : List MatchSite) : Option (List LspDiag) :=
  allSome (ms.map (lspDiag? v f src))

/-- the key order of `diagnostics.sort_by_key(..)` in `compute_all_fixes`:
pinned `(start, end)`, fixed `(start, Reverse(end))` -/
def diagLe (outerFirst : Bool) (a b : LspDiag) : Bool :=
  if lposLt a.start b.start then true
  else if lposLt b.start a.start then false
  else if outerFirst then !lposLt a.stop b.stop else !lposLt b.stop a.stop

/-- stable insertion (an element goes in front of the elements it is not greater than) -/
def insertDiag (outerFirst : Bool) (d : LspDiag) : List LspDiag → List LspDiag
  | [] => [d]
  | x :: xs => if diagLe outerFirst d x then d :: x :: xs else x :: insertDiag outerFirst d xs

/-- `sort_by_key` is a stable sort -/
def sortDiags (outerFirst : Bool) (ds : List LspDiag) : List LspDiag :=
  ds.foldr (insertDiag outerFirst) []

/-- the `filter_map` of `compute_all_fixes`: `last` starts at (0,0); a diagnostic without fix data
is dropped without moving `last`; one whose edit starts before `last` is dropped -/
def lspFixAllGo : LPos → List LspDiag → List LspDiag
  | _, [] => []
  | last, d :: ds =>
    match d.fixed with
    | none => lspFixAllGo last ds
    | some _ =>
      if lposLt d.editStart last then lspFixAllGo last ds
      else d :: lspFixAllGo d.editStop ds

/-- the text edits of the fix-all code action (empty ⇒ `NoActionableFix`, no action) -/
def lspFixAll (v : Variant) (ds : List LspDiag) : List LspDiag :=
  lspFixAllGo (0, 0) (sortDiags v.lspOuterFirst ds)

/-! ### C09 (findings): what each front end reports -/

inductive Sev where
  | error | warning | info | hint | off
deriving DecidableEq, Repr

structure FRule where
  id : Bytes
  sev : Sev
  message : Bytes          -- the message template
  note : Option Bytes
  keys : List Bytes        -- names of the rule's transformations
  /-- the rule is written for another language than the document's (the language of the file;
  for `scan --stdin` the language stdin is parsed as, i.e. the first rule's).  The matches that
  come with a foreign rule are what its matcher reports on the document's tree: the numeric kind
  ids of another grammar compared with this one's -/
  foreign : Bool := false
deriving DecidableEq, Repr

/-- one match of a rule: the node and what the message template sees of its environment -/
structure FMatch where
  node : Rng
  env : TEnv

structure Finding where
  id : Bytes
  range : Rng
  start : LPos
  stop : LPos
  message : Bytes
deriving DecidableEq, Repr

/-- `RuleConfig::get_message(nm)`: the message is a fix template over the rule's transformations -/
def getMessage (src : Bytes) (r : FRule) (m : FMatch) : Bytes :=
  templateFix src m.node.start m.env r.message r.keys

def findingOf? (src : Bytes) (r : FRule) (m : FMatch) : Option Finding := do
  let a ← lspPos? src m.node.start
  let b ← lspPos? src m.node.stop
  pure { id := r.id, range := m.node, start := a, stop := b, message := getMessage src r m }

/-- a rule with its matches on the text (pre-order; texts without suppression comments: every
match is reported) -/
abbrev RuleMatches := FRule × List FMatch

def findingsOfRules (src : Bytes) (rs : List RuleMatches) : Option (List Finding) :=
  (allSome (rs.map fun rm => allSome (rm.2.map (findingOf? src rm.1)))).map List.flatten

/-- `RuleCollection::try_new`: `severity: off` rules are not registered -/
def enabledRules (rs : List RuleMatches) : List RuleMatches := rs.filter fun rm => rm.1.sev != .off

/-- `RuleCollection::for_path` / `get_rule_from_lang`: the rules written for the document's language -/
def ownRules (rs : List RuleMatches) : List RuleMatches := rs.filter fun rm => !rm.1.foreign

/-- the rules a front end that works on a file applies to it: registered, and of the file's language -/
def fileRules (rs : List RuleMatches) : List RuleMatches := ownRules (enabledRules rs)

/-- `scan` on a file (`ScanWithConfig`), every JSON style: the matches of the registered rules of the
file's language -/
def scanFindings (src : Bytes) (rs : List RuleMatches) : Option (List Finding) :=
  findingsOfRules src (fileRules rs)

/-- the rules `ScanStdin::parse_stdin` hands to the combined scan: those of `--rule`/`--inline-rules`;
the text is parsed in the language of the first rule.  Pinned code: all of them; with FIX_C09 the
`filter` drops `severity: off` rules and rules of another language than the first rule's -/
def stdinRules (v : Variant) (rs : List RuleMatches) : List RuleMatches :=
  let rs₁ := if v.stdinFiltersOff then enabledRules rs else rs
  if v.stdinFiltersLang then ownRules rs₁ else rs₁

/-- `scan --stdin` (`ScanStdin`) -/
def stdinFindings (v : Variant) (src : Bytes) (rs : List RuleMatches) : Option (List Finding) :=
  findingsOfRules src (stdinRules v rs)

inductive GhLevel where
  | error | warning | notice
deriving DecidableEq, Repr

/-- `--format github`: `hint` findings are not printed; lines are one-based; no columns -/
def githubOfRule (src : Bytes) (rm : RuleMatches) : Option (List (Bytes × GhLevel × Nat × Nat × Bytes)) :=
  let level : Option GhLevel := match rm.1.sev with
    | .error => some .error | .warning => some .warning | .info => some .notice
    | .hint => none | .off => none
  match level with
  | none => some []
  | some l => (allSome (rm.2.map (findingOf? src rm.1))).map fun fs =>
      fs.map fun f => (f.id, l, f.start.1 + 1, f.stop.1 + 1, f.message)

def githubFindings (src : Bytes) (rs : List RuleMatches) :
    Option (List (Bytes × GhLevel × Nat × Nat × Bytes)) :=
  (allSome ((fileRules rs).map (githubOfRule src))).map List.flatten

/-- `sg test`, a `valid` case: `find(rule)` on the parsed case, no suppression comments applied;
`true` = the case passes. Rules are looked up in the `RuleCollection`, so an `off` rule is
"Configuration not found" (`none`).  The test runner does not select rules by language: a case
has no language of its own and is parsed in the language of the rule under test, so `ms` are the
rule's matches on THAT parse (for a rule that is not foreign: its matches on the document) -/
def testVerdictValid (r : FRule) (ms : List FMatch) : Option Bool :=
  if r.sev = .off then none else some ms.isEmpty

/-- `get_non_empty_message`: an empty template shows the id; the note is appended -/
def lspMessage (r : FRule) (msg : Bytes) : Bytes :=
  let m := if r.message.isEmpty then r.id else msg
  match r.note with
  | some n => m ++ [NL, NL] ++ n
  | none => m

def lspSeverity : Sev → Nat
  | .error => 1 | .warning => 2 | .info => 3 | .hint => 4 | .off => 4

structure LspFinding where
  id : Bytes
  start : LPos
  stop : LPos
  message : Bytes
  severity : Nat
deriving DecidableEq, Repr

def lspFindingsOfRule (src : Bytes) (rm : RuleMatches) : Option (List LspFinding) :=
  (allSome (rm.2.map (findingOf? src rm.1))).map fun fs =>
    fs.map fun f => { id := f.id, start := f.start, stop := f.stop,
                      message := lspMessage rm.1 f.message, severity := lspSeverity rm.1.sev }

/-- `Backend::get_diagnostics`: the rules of the `RuleCollection` (no `off` rules) `for_path` of
the document (no rules of another language) -/
def lspDiagnostics (src : Bytes) (rs : List RuleMatches) : Option (List LspFinding) :=
  (allSome ((fileRules rs).map (lspFindingsOfRule src))).map List.flatten

end AGV
