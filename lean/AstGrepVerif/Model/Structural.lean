/-
The structural replacer (the replacement is a parsed TREE) and contextual patterns.

Mirrors (pinned commit):
  * `crates/core/src/replacer/structural.rs:8-93`   `gen_replacement`, `collect_edits`,
                                                   `merge_edits_to_vec`, `get_meta_var_replacement`
  * `crates/core/src/replacer.rs:41-45`             `impl Replacer for Root<D>`
  * `crates/core/src/meta_var.rs:186-220`           `get_var_bytes_impl`
  * `crates/core/src/matcher/pattern.rs:111-138`    `convert_node_to_pattern`, `extract_var_from_node`
  * `crates/core/src/matcher/pattern.rs:154-166`    `is_single_node`
  * `crates/core/src/matcher/pattern.rs:232-286`    `Pattern::try_new`, `Pattern::contextual`,
                                                   `single_matcher`
  * `crates/core/src/matcher/kind.rs:41-60`         `KindMatcher::try_new` (kind id 0 = invalid)
  * `crates/core/src/matcher.rs:67-77`              `find_node` (first hit of `dfs()`)

The parser is a parameter: a replacement / a pattern context is given as its dumped `Tree` and its
source bytes.  Two documents are involved in a replacement: the replacement's own source `rsrc`
(fragments between the variables are copied from it) and the matched document `dsrc` (captured
texts are slices of it).

`Node::next()` is tree-sitter's `ts_node_next_sibling`, which passes over following siblings of zero
width (MISSING tokens): the walk of `collect_edits` is modelled with that reading (`skippedByNext`),
observed on the real code (`if ($A { $B }`: `$B` is still substituted).

Node text is `&str` in the code and `extract_meta_var` is char-indexed: the text of a node is
decoded from UTF-8 (`decodeUtf8`; Rust's `String` guarantees well-formed input, ill-formed input
is outside the model).
-/
import AstGrepVerif.Model.Pattern
import AstGrepVerif.Model.Bytes

namespace AGV

/-! ### node text as characters -/

/-- UTF-8 decoding as a one-pass state machine: `need` continuation bytes are still expected for
the code point accumulated in `acc`.  A truncated tail is dropped. -/
def decodeUtf8Go : (need acc : Nat) → Bytes → List Char
  | _, _, [] => []
  | 0, _, b :: bs =>
    if b < 0x80 then Char.ofNat b.toNat :: decodeUtf8Go 0 0 bs
    else if b < 0xE0 then decodeUtf8Go 1 (b.toNat % 32) bs
    else if b < 0xF0 then decodeUtf8Go 2 (b.toNat % 16) bs
    else decodeUtf8Go 3 (b.toNat % 8) bs
  | n + 1, acc, b :: bs =>
    let acc' := acc * 64 + b.toNat % 64
    if n = 0 then Char.ofNat acc' :: decodeUtf8Go 0 0 bs else decodeUtf8Go n acc' bs

def decodeUtf8 (b : Bytes) : List Char := decodeUtf8Go 0 0 b

/-- `lang.extract_meta_var(&node.text())` (`extract_var_from_node`, and the same call in
`get_meta_var_replacement`); `mc` = the language's expando char -/
def nodeMetaVar (src : Bytes) (mc : Char) (t : Tree) : Option MetaVar :=
  extractMetaVar (decodeUtf8 (t.text src)) mc

/-! ### (a) the structural replacer -/

/-- `get_var_bytes_impl(env, var)`: the bytes a variable stands for. A single capture = the text
of the captured node, else the transformed string of that name; a multi capture = the text from
the start of the first to the end of the last captured node, **absent when the list is empty**;
`$_`, `$$$` = absent. -/
def Env.varBytes (dsrc : Bytes) (env : Env) : MetaVar → Option Bytes
  | .capture n _ =>
    match alookup n env.single with
    | some node => some (node.text dsrc)
    | none => alookup n env.transformed
  | .multiCapture n =>
    match alookup n env.multi with
    | none => none
    | some [] => none
    | some (f :: rest) => some (slice dsrc f.start ((f :: rest).getLast (List.cons_ne_nil _ _)).stop)
  | .dropped _ => none
  | .multiple => none

/-- `get_meta_var_replacement(node, env, lang)` -/
def metaVarReplacement (rsrc dsrc : Bytes) (mc : Char) (env : Env) (t : Tree) : Option Bytes :=
  if !t.isNamedLeaf then none
  else match nodeMetaVar rsrc mc t with
    | none => none
    | some mv => env.varBytes dsrc mv

/-- `Edit { position, deleted_length, inserted_text }` -/
structure SEdit where
  position : Nat
  deleted : Nat
  inserted : Bytes
deriving Repr, DecidableEq, Inhabited

/-- the `else if node.inner.is_missing()` arm: a childless MISSING node that is not a variable -/
def stuckMissing (rsrc dsrc : Bytes) (mc : Char) (env : Env) (t : Tree) : Bool :=
  (metaVarReplacement rsrc dsrc mc env t).isNone && t.children.isEmpty && t.info.missing

/-- `node.next()` is tree-sitter's `ts_node_next_sibling` (tree-sitter 0.25.3 `node.c:251-308`): the
first child of the parent whose END lies behind the end of the node
(`if (iterator.position.bytes <= target_end_byte) continue;`) — following siblings of zero width at
the node's end (MISSING tokens) are passed over.  `prev` = the end of the sibling the walk comes from
(`none`: the child was reached by `child(0)`). -/
def skippedByNext (prev : Option Nat) (c : Tree) : Bool :=
  match prev with
  | some p => decide (c.stop ≤ p)
  | none => false

mutual
/-- The DFS of `collect_edits` below one node: the edits in the order they are pushed, and
whether the walk was **aborted** (`break` of the `'outer` loop in the MISSING arm: a childless
MISSING node without a next sibling ends the whole traversal, nothing after it is visited). -/
def collectEdits (rsrc dsrc : Bytes) (mc : Char) (env : Env) : Tree → List SEdit × Bool
  | .node i cs =>
    match metaVarReplacement rsrc dsrc mc env (.node i cs) with
    | some text => ([⟨i.start, i.stop - i.start, text⟩], false)
    | none =>
      match cs with
      | [] => ([], false)
      | c :: cs' => collectEditsList rsrc dsrc mc env none (c :: cs')
/-- the walk over a sibling list: `child(0)`, then `next()` until it yields nothing -/
def collectEditsList (rsrc dsrc : Bytes) (mc : Char) (env : Env) :
    Option Nat → List Tree → List SEdit × Bool
  | _, [] => ([], false)
  | prev, c :: cs =>
    if skippedByNext prev c then collectEditsList rsrc dsrc mc env prev cs
    else
      let r := collectEdits rsrc dsrc mc env c
      if r.2 then r
      else if cs.all (fun d => skippedByNext (some c.stop) d) && stuckMissing rsrc dsrc mc env c then
        (r.1, true)
      else
        let r2 := collectEditsList rsrc dsrc mc env (some c.stop) cs
        (r.1 ++ r2.1, r2.2)
end

/-- `merge_edits_to_vec`: one left-to-right pass; `get_range(start..edit.position)` panics
(`none`) when the range is reversed or ends behind the source. -/
def mergeEdits (rsrc : Bytes) : Nat → List SEdit → Option Bytes
  | _, [] => some []
  | start, e :: es =>
    if start ≤ e.position ∧ e.position ≤ rsrc.length then
      match mergeEdits rsrc (e.position + e.deleted) es with
      | some rest => some (slice rsrc start e.position ++ e.inserted ++ rest)
      | none => none
    else none

/-- all edits of `collect_edits(root, env, lang)`: the DFS's edits and "the missing one" at the
end of the root -/
def collectAll (rsrc dsrc : Bytes) (mc : Char) (env : Env) (root : Tree) : List SEdit :=
  (collectEdits rsrc dsrc mc env root).1 ++ [⟨root.stop, 0, []⟩]

/-- `gen_replacement(root, nm)` = `<Root<D> as Replacer>::generate_replacement`; `none` = panic -/
def genReplacement (rsrc dsrc : Bytes) (mc : Char) (env : Env) (root : Tree) : Option Bytes :=
  mergeEdits rsrc 0 (collectAll rsrc dsrc mc env root)

/-! ### (b) patterns made from a parsed tree -/

mutual
/-- `convert_node_to_pattern(node)` -/
def convertNodeToPattern (src : Bytes) (mc : Char) : Tree → PNode
  | .node i cs =>
    match nodeMetaVar src mc (.node i cs) with
    | some mv => .metaVar mv
    | none =>
      match cs with
      | [] => .terminal (Tree.text src (.node i [])) i.named i.kind
      | c :: cs' => .internal i.kind (convertList src mc (c :: cs'))
def convertList (src : Bytes) (mc : Char) : List Tree → List PNode
  | [] => []
  | c :: cs =>
    if c.info.missing then convertList src mc cs
    else convertNodeToPattern src mc c :: convertList src mc cs
end

/-- `is_single_node(n)`; `emptyKind k` = "`kind()` of kind id `k` is the empty string" (a table of
the grammar) -/
def isSingleNode (emptyKind : Nat → Bool) (t : Tree) : Bool :=
  match t.children with
  | [_] => true
  | [_, c] => c.info.missing || emptyKind c.kind
  | _ => false

mutual
/-- `single_matcher(root)`: descend through the first child while the node `is_single_node` -/
def singleMatcher (emptyKind : Nat → Bool) : Tree → Tree
  | .node i cs =>
    if isSingleNode emptyKind (.node i cs) then singleMatcherHead emptyKind (.node i cs) cs
    else .node i cs
/-- `inner.child(0).unwrap()` of the loop (`dflt` never used: a single node has a child) -/
def singleMatcherHead (emptyKind : Nat → Bool) (dflt : Tree) : List Tree → Tree
  | [] => dflt
  | c :: _ => singleMatcher emptyKind c
end

inductive PatternError where
  | noContent | multipleNode | invalidKind | noSelectorInContext
deriving DecidableEq, Repr, Inhabited

/-- `Pattern::try_new` after the parse: `(node, root_kind = None)` -/
def patternTryNew (src : Bytes) (mc : Char) (emptyKind : Nat → Bool) (root : Tree) :
    Except PatternError (PNode × Option Nat) :=
  if root.children.isEmpty then .error .noContent
  else if !isSingleNode emptyKind root then .error .multipleNode
  else .ok (convertNodeToPattern src mc (singleMatcher emptyKind root), none)

mutual
/-- `goal.find(&kind_matcher)`: the first node of kind `k` met by the pre-order walk `dfs()`
(early exit; `Tree.preorder` is the specification it is proved equal to) -/
def contextualNode : Tree → Nat → Option Tree
  | .node i cs, k => if i.kind == k then some (.node i cs) else contextualNodeList cs k
def contextualNodeList : List Tree → Nat → Option Tree
  | [], _ => none
  | c :: cs, k =>
    match contextualNode c k with
    | some n => some n
    | none => contextualNodeList cs k
end

/-- `Pattern::contextual(context, selector, lang)` after the parse; `k` = `id_for_node_kind(selector,
named = true)` (0 = no such kind: `KindMatcher::try_new` fails). Result: `(node, root_kind)`. -/
def contextualPattern (src : Bytes) (mc : Char) (root : Tree) (k : Nat) :
    Except PatternError (PNode × Option Nat) :=
  if k == 0 then .error .invalidKind
  else match contextualNode root k with
    | none => .error .noSelectorInContext
    | some n => .ok (convertNodeToPattern src mc n, some n.kind)

end AGV
