/-
`Node::replace_all` (`crates/core/src/node.rs:538-549`): the library's replace-every-match call.

```rust
Visitor::new(&matcher).reentrant(false).visit(self.clone())
  .map(|matched| matched.make_edit(&matcher, &replacer)).collect()
```
The visit is the pre-order, overlap-free visit of `Model/Traversal.lean` (`Pre.visit false false`);
`make_edit` takes the range from `Replacer::get_replaced_range` — for a plain replacer the
default one (`Model/Edit.lean: defaultReplacedRange`: the node's start and the matcher's
`get_match_len`, else the node's range) — and the text from `generate_replacement`.
The matcher's verdict, its `get_match_len` and the generated text are parameters.
-/
import AstGrepVerif.Model.Traversal
import AstGrepVerif.Model.Edit

namespace AGV

/-- the byte range of a node -/
def Tree.rng (t : Tree) : Rng := ⟨t.start, t.stop⟩

/-- `matched.make_edit(&matcher, &replacer)` for a replacer with the default replaced range -/
def makeEditDefault (matchLen : Tree → Option Nat) (ins : Tree → Bytes) (t : Tree) : REdit :=
  editOfRange (defaultReplacedRange t.rng (matchLen t)) (ins t)

/-- `Node::replace_all(matcher, replacer)` -/
def replaceAll (m : Tree → Bool) (matchLen : Tree → Option Nat) (ins : Tree → Bytes) (n : Tree) :
    TM (List REdit) :=
  match Pre.visit false false m n with
  | .ok ms => .ok (ms.map (makeEditDefault matchLen ins))
  | .error e => .error e

end AGV
