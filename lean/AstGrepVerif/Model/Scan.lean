/-
Searching a document.

Mirrors (pinned commit):
  * `crates/core/src/matcher.rs:125-157`      `FindAllNodes` (kind filter in front of the matcher)
  * `crates/config/src/combined.rs:132-216`   `CombinedScan::new` (sort by (has fix, id), per-kind rule
                                             index) and the dispatch loop of `scan` (suppressions are
                                             modelled separately in `Model/Suppress`)
The document order is the pre-order `Tree.preorder` (C19 relates the cursor traversal to it).
-/
import AstGrepVerif.Model.Rule

namespace AGV

/-- result of one search: matched node and its environment, in document order -/
abbrev Found := List (Tree × Env)

/-- the loop of `FindAllNodes::next` over the remaining pre-order candidates -/
def findAllLoop (ctx : RCtx) (fuel : Nat) (core : RuleCore) (kinds : Option (List Nat)) :
    List Tree → Except Abn Found
  | [] => .ok []
  | cand :: rest =>
    if !(kindsGate kinds cand) then findAllLoop ctx fuel core kinds rest
    else
      match matchCore ctx fuel core cand Env.empty with
      | .error e => .error e
      | .ok (some m, env) =>
        match findAllLoop ctx fuel core kinds rest with
        | .error e => .error e
        | .ok found => .ok ((m, env) :: found)
      | .ok (none, _) => findAllLoop ctx fuel core kinds rest

/-- `node.find_all(matcher)` for a `RuleCore` matcher: `potential_kinds()` is asked once per
`next()`; it is a function of the rule and the registries only -/
def findAllNodes (ctx : RCtx) (fuel : Nat) (core : RuleCore) (start : Tree) : Except Abn Found :=
  findAllLoop ctx fuel core (potentialKinds ctx.locals ctx.globals 64 core.rule) start.preorder

/-- the same search without any acceleration: the matcher tried on every node -/
def bruteForce (ctx : RCtx) (fuel : Nat) (core : RuleCore) (start : Tree) : Except Abn Found :=
  findAllLoop ctx fuel { core with kinds := none } none start.preorder

/-- a rule of a combined scan: id, whether it has a fix, its matcher with its own registries -/
structure ScanRule where
  id : List Char
  hasFix : Bool
  core : RuleCore
  locals : List (Name × Rule) := []
  globals : List (Name × RuleCore) := []

/-- insertion sort by the key `(fix.is_some(), id)` (`sort_unstable_by_key`; ids are unique in
a project, so stability does not matter) -/
def scanRuleLe (a b : ScanRule) : Bool :=
  if a.hasFix != b.hasFix then !a.hasFix else decide (String.ofList a.id ≤ String.ofList b.id)

def insertScanRule (r : ScanRule) : List ScanRule → List ScanRule
  | [] => [r]
  | x :: xs => if scanRuleLe r x then r :: x :: xs else x :: insertScanRule r xs

def sortScanRules (rs : List ScanRule) : List ScanRule := rs.foldr insertScanRule []

/-- `kind_rule_mapping[kind]`: indices (into the sorted list) of the rules indexed under `kind`;
a rule without potential kinds is left out of the index (`must have kind`) -/
def rulesForKind (sorted : List ScanRule) (kind : Nat) : List Nat :=
  (List.range sorted.length).filter fun idx =>
    match sorted[idx]? with
    | some r =>
      match potentialKinds r.locals r.globals 64 r.core.rule with
      | some ks => ks.contains kind
      | none => false
    | none => false

/-- the per-node dispatch of `CombinedScan::scan` (no suppression comments in the document):
every pre-order node is offered to the rules indexed under its kind, in index order -/
def combinedLoop (src : Bytes) (root : Tree) (regex : Nat → Tree → Bool) (fuel : Nat)
    (sorted : List ScanRule) : List Tree → Except Abn (List (Nat × Tree × Env))
  | [] => .ok []
  | node :: rest =>
    let idxs := rulesForKind sorted node.kind
    let here : Except Abn (List (Nat × Tree × Env)) := idxs.foldr (fun idx acc =>
      match acc with
      | Except.error e => Except.error e
      | Except.ok found =>
        match sorted[idx]? with
        | none => Except.ok found
        | some r =>
          let ctx : RCtx := { src, root, regex, locals := r.locals, globals := r.globals }
          match matchCore ctx fuel r.core node Env.empty with
          | Except.error e => Except.error e
          | Except.ok (some m, env) => Except.ok ((idx, m, env) :: found)
          | Except.ok (none, _) => Except.ok found) (Except.ok [])
    match here with
    | .error e => .error e
    | .ok h =>
      match combinedLoop src root regex fuel sorted rest with
      | .error e => .error e
      | .ok t => .ok (h ++ t)

def combinedScan (src : Bytes) (root : Tree) (regex : Nat → Tree → Bool) (fuel : Nat)
    (rules : List ScanRule) : Except Abn (List (Nat × Tree × Env)) :=
  combinedLoop src root regex fuel (sortScanRules rules) root.preorder

end AGV
