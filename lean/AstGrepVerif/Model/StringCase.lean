/-
Model of `crates/config/src/transform/string_case.rs` (the `convert` transformation):
`StringCase::apply`, `capitalize`, `split`, `Delimiter::{all, from, delimit, conclude}`,
`join`, `join_camel_case`, transcribed branch by branch from the code as it is.

Text is `List Char`: the Rust code iterates over `char`s. Offsets: the code keeps byte
offsets `left`/`right` into the UTF-8 string and advances them by `c.len_utf8()`; the model
keeps the same two counters in *characters* (`len_utf8` ↦ 1), so the range `left..right`
of the code is the image of the model's range under "char index ↦ byte offset". The
correspondence exercises multi-byte characters (`é`, `É`, `ß`, `中`, `€`) so that a change of
the byte arithmetic is seen as a different output (or a panic).

ALPHABET. Rust's `char::is_uppercase / is_lowercase / to_uppercase / to_lowercase` and
`str::to_lowercase / to_uppercase` are Unicode-aware. The model fixes the case tables on the
alphabet `inAlphabet`: all of ASCII (U+0000..U+007F), the pairs é/É à/À ü/Ü ñ/Ñ ö/Ö, the
lower-case letter ß (no single-char upper case: `to_uppercase` yields "SS"), and the two
uncased characters 中 and €. No model function is meant to be read outside this alphabet
(`convert?` answers `none` there; the driver turns it into "outside", which the checker skips).
Deliberately excluded: Σ (context-sensitive lower-casing in `str::to_lowercase`), titlecase
letters (ǅ), characters whose lower case is not one char (İ).

No imports: this file is compiled into the native driver.
-/

namespace AGV.StringCase

/-! ## Case tables of the alphabet -/

/-- (lower, upper) pairs with one-char mappings in both directions -/
def casePairs : List (Char × Char) :=
  [('a','A'), ('b','B'), ('c','C'), ('d','D'), ('e','E'), ('f','F'), ('g','G'), ('h','H'),
   ('i','I'), ('j','J'), ('k','K'), ('l','L'), ('m','M'), ('n','N'), ('o','O'), ('p','P'),
   ('q','Q'), ('r','R'), ('s','S'), ('t','T'), ('u','U'), ('v','V'), ('w','W'), ('x','X'),
   ('y','Y'), ('z','Z'),
   ('é','É'), ('à','À'), ('ü','Ü'), ('ñ','Ñ'), ('ö','Ö')]

/-- `ß`: lower-case, `to_uppercase` = "SS", nothing lower-cases to it in the alphabet -/
def sharpS : Char := 'ß'

/-- non-ASCII characters of the alphabet that are neither upper- nor lower-case -/
def uncasedExtra : List Char := ['中', '€']

/-- the model's alphabet -/
def inAlphabet (c : Char) : Bool :=
  c.toNat < 128 || casePairs.any (fun p => p.1 == c || p.2 == c) || c == sharpS
    || uncasedExtra.contains c

/-- `char::is_uppercase` on the alphabet -/
def isUpper (c : Char) : Bool := casePairs.any (fun p => p.2 == c)

/-- `char::is_lowercase` on the alphabet -/
def isLower (c : Char) : Bool := casePairs.any (fun p => p.1 == c) || c == sharpS

/-- `char::to_lowercase` on the alphabet (always one char there) -/
def toLower (c : Char) : Char :=
  match casePairs.find? (fun p => p.2 == c) with
  | some p => p.1
  | none => c

/-- `char::to_uppercase` on the alphabet (`ß` ↦ "SS") -/
def toUpper (c : Char) : List Char :=
  if c == sharpS then ['S', 'S'] else
  match casePairs.find? (fun p => p.1 == c) with
  | some p => [p.2]
  | none => [c]

/-- `str::to_lowercase` (char by char; the final-sigma rule does not arise in the alphabet) -/
def lowerCase (s : List Char) : List Char := s.map toLower

/-- `str::to_uppercase` -/
def upperCase (s : List Char) : List Char := s.flatMap toUpper

/-- `fn capitalize`: `c.to_uppercase().chain(chars).collect()`; the empty string is kept -/
def capitalize : List Char → List Char
  | [] => []
  | c :: cs => toUpper c ++ cs

/-! ## Separators and the delimiter state machine -/

/-- `enum StringCase` (YAML names: lowerCase, upperCase, capitalize, camelCase, snakeCase,
kebabCase, pascalCase) -/
inductive Case where
  | lowerCase | upperCase | capitalize | camelCase | snakeCase | kebabCase | pascalCase
  deriving DecidableEq, Repr

/-- `enum Separator` (YAML names: caseChange, dash, dot, slash, space, underscore) -/
inductive Separator where
  | caseChange | dash | dot | slash | space | underscore
  deriving DecidableEq, Repr

/-- `enum CaseState` -/
inductive CaseState where
  | lower
  | oneUpper
  /-- consecutive non-lower-case characters; the payload is the last one (the code uses
  only its `len_utf8`) -/
  | multiUpper (last : Char)
  | ignoreCase
  deriving DecidableEq, Repr

/-- `struct Delimiter` -/
structure Delimiter where
  left : Nat
  right : Nat
  state : CaseState
  delimiter : List Char
  deriving Repr

/-- `Delimiter::all()` — used when `separatedBy` is absent -/
def Delimiter.all : Delimiter :=
  { left := 0, right := 0, state := .lower, delimiter := ['-', '.', '/', ' ', '_'] }

/-- one step of the `for_each` in `impl From<&[Separator]> for Delimiter` -/
def sepStep (acc : CaseState × List Char) (v : Separator) : CaseState × List Char :=
  match v with
  | .caseChange => (CaseState.lower, acc.2)
  | .dash => (acc.1, acc.2 ++ ['-'])
  | .dot => (acc.1, acc.2 ++ ['.'])
  | .slash => (acc.1, acc.2 ++ ['/'])
  | .space => (acc.1, acc.2 ++ [' '])
  | .underscore => (acc.1, acc.2 ++ ['_'])

/-- `impl From<&[Separator]> for Delimiter`: `caseChange` switches the state machine on,
every other separator pushes its character (in the order given, duplicates kept) -/
def Delimiter.ofSeps (seps : List Separator) : Delimiter :=
  let acc := seps.foldl sepStep (CaseState.ignoreCase, [])
  { left := 0, right := 0, state := acc.1, delimiter := acc.2 }

/-- the delimiter a `split` call starts from -/
def Delimiter.start : Option (List Separator) → Delimiter
  | some seps => Delimiter.ofSeps seps
  | none => Delimiter.all

/-- `c.len_utf8()` in the model's unit (characters) -/
def width (_c : Char) : Nat := 1

/-- `Delimiter::delimit`: the new state of the delimiter and the range it returns.
Branches in the order of the code. `right - width last` is the code's `usize` subtraction
(it would panic on underflow in a debug build; `AGV.C07.delimit_no_underflow` shows it
never underflows on a reachable state). -/
def Delimiter.delimit (d : Delimiter) (c : Char) : Delimiter × Option (Nat × Nat) :=
  -- normal delimiter
  if d.delimiter.contains c then
    let range := (d.left, d.right)
    let left := d.right + 1
    ({ d with left := left, right := left,
              state := if d.state ≠ .ignoreCase then .lower else d.state }, some range)
  -- case delimiter, from lowercase to uppercase
  else if d.state = .lower ∧ isUpper c then
    let range := (d.left, d.right)
    let left := d.right
    ({ d with left := left, right := left + width c, state := .oneUpper }, some range)
  else
    -- case 2, consecutive UpperCases followed by lowercase
    match d.state, isLower c with
    | .multiUpper last, true =>
      let newLeft := d.right - width last
      let range := (d.left, newLeft)
      ({ d with left := newLeft, right := d.right + width c, state := .lower }, some range)
    | _, _ =>
      let d' := { d with right := d.right + width c }
      if d.state = .ignoreCase then (d', none)
      else if isLower c then ({ d' with state := .lower }, none)
      else if d.state = .lower then ({ d' with state := .oneUpper }, none)
      else ({ d' with state := .multiUpper c }, none)

/-- `Delimiter::conclude` (only the returned range is used afterwards) -/
def Delimiter.conclude (d : Delimiter) (len : Nat) : Option (Nat × Nat) :=
  if d.left < d.right ∧ d.right ≤ len then some (d.left, d.right) else none

/-- the non-empty ranges the iterator of `split` yields, in order: one `delimit` per
character, then `conclude(s.len())` -/
def splitRanges (len : Nat) : Delimiter → List Char → List (Nat × Nat)
  | d, [] =>
    match d.conclude len with
    | some r => if r.1 ≠ r.2 then [r] else []
    | none => []
  | d, c :: cs =>
    match d.delimit c with
    | (d', some r) => if r.1 ≠ r.2 then r :: splitRanges len d' cs else splitRanges len d' cs
    | (d', none) => splitRanges len d' cs

/-- `&s[range]` for `range.start ≤ range.end ≤ s.len()` (`AGV.C07.splitRanges_valid`: every
range of `splitRanges` is of this kind, so the slice never panics) -/
def slice (s : List Char) (r : Nat × Nat) : List Char := (s.take r.2).drop r.1

/-- `fn split` -/
def split (s : List Char) (seps : Option (List Separator)) : List (List Char) :=
  (splitRanges s.length (Delimiter.start seps) s).map (slice s)

/-- `fn join`: words lower-cased, `sep` between them -/
def join (sep : Char) : List (List Char) → List Char
  | [] => []
  | w :: ws => lowerCase w ++ (ws.flatMap fun w => sep :: lowerCase w)

/-- `fn join_camel_case`: first word lower-cased, the others capitalized (their tails kept) -/
def joinCamelCase : List (List Char) → List Char
  | [] => []
  | w :: ws => lowerCase w ++ ws.flatMap capitalize

/-- `StringCase::apply` -/
def apply (to : Case) (s : List Char) (seps : Option (List Separator)) : List Char :=
  match to with
  | .lowerCase => lowerCase s
  | .upperCase => upperCase s
  | .capitalize => capitalize s
  | .camelCase => joinCamelCase (split s seps)
  | .snakeCase => join '_' (split s seps)
  | .kebabCase => join '-' (split s seps)
  | .pascalCase => (split s seps).flatMap capitalize

/-- `apply`, defined on the model's alphabet only -/
def convert? (to : Case) (s : List Char) (seps : Option (List Separator)) : Option (List Char) :=
  if s.all inAlphabet then some (apply to s seps) else none

/-! ## YAML names -/

def Case.ofName? : String → Option Case
  | "lowerCase" => some .lowerCase
  | "upperCase" => some .upperCase
  | "capitalize" => some .capitalize
  | "camelCase" => some .camelCase
  | "snakeCase" => some .snakeCase
  | "kebabCase" => some .kebabCase
  | "pascalCase" => some .pascalCase
  | _ => none

def Separator.ofName? : String → Option Separator
  | "caseChange" => some .caseChange
  | "dash" => some .dash
  | "dot" => some .dot
  | "slash" => some .slash
  | "space" => some .space
  | "underscore" => some .underscore
  | _ => none

end AGV.StringCase
