/-
Loading the GLOBAL utility rules (the files of `utilDirs`) as an outcome function (C11 / C12):
`loadGlobals : List SGlobal → ok (registered rules) | err | panic`.

Mirrors (current HEAD, i.e. with the two repairs of this area; `GFixes.none` = before them):
  * `crates/config/src/rule/deserialize_env.rs`  `SerializableGlobalRule`, `into_map`,
        `impl DependentRule for (L, SerializableRuleCore)`, `visit_global_rule_ids`,
        `TopologicalSort::{get_order, visit}` (= `Model/Loader.lean` `getOrder`),
        `DeserializeEnv::parse_global_utils`, `with_globals`
  * `crates/config/src/rule/referent_rule.rs`    `GlobalRules::insert`, `GlobalRules::verify_utils`,
        `RuleRegistration::from_globals`, `ReferentRule::verify_util`
  * `crates/config/src/rule_core.rs`             `SerializableRuleCore::get_matcher_with_hint`
        (= `getMatcher … .global`), `RuleCore::verify_utils`
  * `crates/config/src/check_var.rs`             `check_rule_with_hint(.., CheckHint::Global)`,
        `check_utils_defined`

The two repairs (both found by this project in exactly this area):
  * `verifyGlobals`  (9eaee94)  global rules are built with `CheckHint::Global`, which skips the check
        for undefined utilities; nothing verified them afterwards.  `parse_global_utils` now runs
        `check_utils_defined` on every registered rule once ALL of them are registered.
  * `localCycle`     (4456cb4)  the dependency sort looked at the `rule` of each global only
        (`visit_dependent_rule_ids`); a `matches` naming one of the rule's OWN local utilities is now
        followed into that utility's body (`visit_global_rule_ids`), where the rule itself or another
        global rule may be required on the same node.

Hash maps are association lists in some iteration order (as in `Model/Loader.lean`): `into_map`
keeps the LAST document of an id (`HashMap::insert` replaces); the theorems are stated for
duplicate-free id lists, where `into_map` is the list itself.  A global rule's language enters the
load only through its expando character.
-/
import AstGrepVerif.Model.Loader

namespace AGV.Loader

open AGV

/-- `SerializableGlobalRule` -/
structure SGlobal where
  id : Name
  core : SCore
  /-- expando character of `language` (`$` for `impl_lang!` languages) -/
  expando : Char := '$'

/-- which of the two repairs of global loading are applied -/
structure GFixes where
  /-- 9eaee94: `registration.verify_utils()` after the last rule is registered -/
  verifyGlobals : Bool
  /-- 4456cb4: the sort follows `matches` into the rule's own local utilities -/
  localCycle : Bool
deriving DecidableEq, Repr

def GFixes.all : GFixes := ⟨true, true⟩
def GFixes.none : GFixes := ⟨false, false⟩

/-- `into_map`: `rules.into_iter().map(|r| (r.id, (r.language, r.core))).collect()` -/
def intoMap (gs : List SGlobal) : List (Name × SGlobal) :=
  gs.foldl (fun m g => ainsert g.id g m) []

/-! ### the dependencies of a global rule -/

/-- `visit_global_rule_ids(rule, locals, visiting, sort)`: the ids handed to `sort.visit`, in the
order of the calls.  The traversal of one rule object is that of `visit_dependent_rule_ids`
(`depIds`: `matches`, then `all`, `any`, `not`, `nthChild.ofRule`, nothing below a relation); at
each `matches: m`
  * `m` is one of the rule's own local utilities and is being visited: nothing
    ("a cycle among the local utilities themselves is reported when they are registered"),
  * `m` is one of the rule's own local utilities: `visiting.push(m)`, its body is visited,
    `visiting.pop()`,
  * otherwise `sort.visit(m)`.
The recursion into a utility's body consumes one unit of `fuel`; the depth is bounded by the number
of local utilities (`visiting` holds distinct keys of `locals`), so `locals.length + 1` is never
used up: `globalRuleIds_fuel_stable` in `Lemmas/GlobalLoader.lean` (more fuel never changes the
result). -/
def globalRuleIds (locals : List (Name × SRule)) : Nat → List Name → SRule → List Name
  | 0, _, _ => []                                       -- never reached from `globalDeps`
  | fuel + 1, visiting, rule =>
    (depIds Fixes.all rule).flatMap fun m =>
      match alookup m locals with                       -- `locals.and_then(|l| l.get_key_value(matches))`
      | some body =>
        if visiting.contains m then []
        else globalRuleIds locals fuel (visiting ++ [m]) body
      | none => [m]

/-- `<(L, SerializableRuleCore) as DependentRule>::visit_dependency`: what the sorter is asked to
visit for one global rule -/
def globalDeps (gfx : GFixes) (core : SCore) : List Name :=
  if gfx.localCycle then
    let locals := core.utils.getD []
    globalRuleIds locals (locals.length + 1) [] core.rule
  else depIds Fixes.all core.rule                       -- before: `visit_dependent_rule_ids(&self.1.rule, ..)`

/-- the dependency map `parse_global_utils` hands to `TopologicalSort::get_order` -/
def globalGraph (gfx : GFixes) (utils : List (Name × SGlobal)) : Graph :=
  utils.map fun kv => (kv.1, globalDeps gfx kv.2.core)

/-! ### registration -/

/-- what `GlobalRules` holds about a registered rule -/
structure LoadedGlobal where
  /-- id and `potential_kinds()` of its matcher: what a document loaded later sees (`SDoc.globals`) -/
  util : GlobalUtil
  core : SCore
  /-- `RuleCore.registration.local`: the rule's own local utilities as registered -/
  registry : Registry

def loadedUtils (done : List LoadedGlobal) : List GlobalUtil := done.map (·.util)

/-- the loop `for id in order { get_matcher_with_hint(env, Global)?; registration.insert(id, matcher)? }` -/
def registerGlobals (utils : List (Name × SGlobal)) :
    List Name → List LoadedGlobal → Res CoreErr (List LoadedGlobal)
  | [], done => .ok done
  | id :: ids, done =>
    match alookup id utils with
    | none => .panic .orderMustExist                    -- `utils.get(id).expect("must exist")`
    | some g =>
      -- `DeserializeEnv::new(lang).with_globals(&registration)`: empty local registry, the
      -- global rules registered so far
      match getMatcher Fixes.all g.expando (loadedUtils done) [] g.core .global with
      | .err e => .err e
      | .panic s => .panic s
      | .ok (reg, _) =>
        -- `GlobalRules::insert`: duplicate test, then `check_cyclic(id)` on the inserted rule
        if ((loadedUtils done).map (·.id)).contains id then .err (.rule .duplicateRule)
        else if checkCyclic Fixes.all id g.core.rule then .err (.rule .cyclicRule)
        else
          registerGlobals utils ids
            (done ++ [⟨⟨id, potKinds reg (loadedUtils done) g.core.rule⟩, g.core, reg⟩])

/-- `RuleCore::verify_utils` of one registered rule, all global rules being registered:
`check_utils_defined(rule, registration, constraints, fixer)` — an id is known if it is a local
utility of this rule or any registered global rule -/
def verifyOne (all : List LoadedGlobal) (g : LoadedGlobal) : Res CoreErr Unit :=
  checkUtilsDefined Fixes.all (checkInputOf Fixes.all (loadedUtils all) g.registry g.core)

/-- `GlobalRules::verify_utils`: `self.0.values().try_for_each(|r| r.verify_utils())` -/
def verifyGlobals (all : List LoadedGlobal) : List LoadedGlobal → Res CoreErr Unit
  | [] => .ok ()
  | g :: rest =>
    match verifyOne all g with
    | .err e => .err e
    | .panic s => .panic s
    | .ok () => verifyGlobals all rest

/-- `DeserializeEnv::parse_global_utils(utils)` -/
def loadGlobalsWith (gfx : GFixes) (gs : List SGlobal) : Res CoreErr (List LoadedGlobal) :=
  let utils := intoMap gs
  match getOrder (globalGraph gfx utils) with
  | .error (.cyclic _) => .err (.rule .cyclicRule)      -- `RuleSerializeError::from(CyclicRule(id))`, then `?`
  | .error .fuel => .panic .topoFuel                    -- unreachable (`getOrder_ne_fuel`)
  | .ok order =>
    match registerGlobals utils order [] with
    | .err e => .err e
    | .panic s => .panic s
    | .ok done =>
      if gfx.verifyGlobals then
        match verifyGlobals done done with
        | .err e => .err e
        | .panic s => .panic s
        | .ok () => .ok done
      else .ok done

/-- the loader of global utility rules under verification (both repairs applied) -/
def loadGlobals (gs : List SGlobal) : Res CoreErr (List LoadedGlobal) := loadGlobalsWith GFixes.all gs

/-- the loader before the two repairs -/
def loadGlobalsPreFix (gs : List SGlobal) : Res CoreErr (List LoadedGlobal) := loadGlobalsWith GFixes.none gs

end AGV.Loader
