/-
The consistency checks a rule passes before it is accepted (C12).

Mirrors (pinned commit + FIX_C11_1..5):
  * `crates/config/src/rule/mod.rs:240-279`           `Rule::defined_vars`, `Rule::verify_util`
  * `crates/config/src/rule/relational_rule.rs`       `defined_vars` / `verify_util` of the relations
  * `crates/config/src/rule/nth_child.rs:236-251`     the same for `nthChild.ofRule`
  * `crates/config/src/rule/referent_rule.rs:109-118` `get_local_util_vars`; `:190-201` `verify_util`
  * `crates/config/src/check_var.rs:23-200`           `check_rule_with_hint` and its helpers
  * `crates/config/src/transform/transformation.rs:160-170`  `used_vars`
  * `crates/config/src/fixer.rs:68-127`               `Fixer::parse`, `do_parse`, `with_transform`,
                                                      `used_vars`
  * `crates/core/src/replacer/template.rs:22-40`      `TemplateFix::{try_new, with_transform, used_vars}`

Sets (`HashSet<&str>`) are lists; only membership is ever asked.
-/
import AstGrepVerif.Model.RuleDoc

namespace AGV.Loader

open AGV

/-! ### `defined_vars` -/

mutual
/-- `Rule::defined_vars` of the rule a `SerializableRule` deserialises to (one matcher, or the
`All` of several: the union either way) -/
def definedVars : SRule → List Name
  | .mk ps => definedVarsParts ps
def definedVarsParts : List SPart → List Name
  | [] => []
  | p :: ps => definedVarsPart p ++ definedVarsParts ps
def definedVarsPart : SPart → List Name
  | .pattern _ vars _ => vars
  | .kind _ _ => []
  | .regex _ => []
  | .nthChild _ ofRule _ =>
    match ofRule with
    | some r => definedVars r
    | none => []
  | .range _ _ _ _ => []
  | .all rs => definedVarsList rs
  | .any rs => definedVarsList rs
  | .not r => definedVars r
  -- "TODO: this is not correct, we are collecting util vars else where"
  | .matches _ => []
  | .inside r stop _ => definedVars r ++ definedVarsStop stop
  | .has r stop _ => definedVars r ++ definedVarsStop stop
  | .precedes r stop _ => definedVars r ++ definedVarsStop stop
  | .follows r stop _ => definedVars r ++ definedVarsStop stop
def definedVarsList : List SRule → List Name
  | [] => []
  | r :: rs => definedVars r ++ definedVarsList rs
def definedVarsStop : SStop → List Name
  | .neighbor => []
  | .end_ => []
  | .rule r => definedVars r
end

/-! ### `verify_util` -/

mutual
/-- `Rule::verify_util`: the first `matches` id that is neither a local nor a global utility
(`known`), in the order the code visits the rule (`some id` = `Err(UndefinedUtil(id))`) -/
def verifyUtil (known : Name → Bool) : SRule → Option Name
  | .mk ps => verifyUtilParts known ps
def verifyUtilParts (known : Name → Bool) : List SPart → Option Name
  | [] => none
  | p :: ps =>
    match verifyUtilPart known p with
    | some id => some id
    | none => verifyUtilParts known ps
def verifyUtilPart (known : Name → Bool) : SPart → Option Name
  | .pattern _ _ _ => none
  | .kind _ _ => none
  | .regex _ => none
  | .nthChild _ ofRule _ =>
    match ofRule with
    | some r => verifyUtil known r
    | none => none
  | .range _ _ _ _ => none
  | .all rs => verifyUtilList known rs
  | .any rs => verifyUtilList known rs
  | .not r => verifyUtil known r
  | .matches id => if known id then none else some id
  | .inside r stop _ => (verifyUtil known r).orElse fun _ => verifyUtilStop known stop
  | .has r stop _ => (verifyUtil known r).orElse fun _ => verifyUtilStop known stop
  | .precedes r stop _ => (verifyUtil known r).orElse fun _ => verifyUtilStop known stop
  | .follows r stop _ => (verifyUtil known r).orElse fun _ => verifyUtilStop known stop
def verifyUtilList (known : Name → Bool) : List SRule → Option Name
  | [] => none
  | r :: rs =>
    match verifyUtil known r with
    | some id => some id
    | none => verifyUtilList known rs
def verifyUtilStop (known : Name → Bool) : SStop → Option Name
  | .neighbor => none
  | .end_ => none
  | .rule r => verifyUtil known r
end

/-- `Fixer::verify_util` (FIX_C12_1): the expansions of the object-form fix -/
def verifyUtilExpansions (known : Name → Bool) : List SExpansion → Option Name
  | [] => none
  | e :: es =>
    match verifyUtil known e.rule with
    | some id => some id
    | none =>
      match verifyUtilStop known e.stop with
      | some id => some id
      | none => verifyUtilExpansions known es

/-! ### transformation sources -/

/-- `Transformation::used_vars`: `none` = the slice `&s[1..]` panics (pinned code only: empty
source, or a first char of more than one byte) -/
def usedVars (fx : Fixes) (src : List Char) : Option (List Char) :=
  match stripPrefix? ['$', '$', '$'] src with
  | some rest => some rest
  | none =>
    if fx.usedVarsSafe then some (src.drop 1)          -- `chars.next(); chars.as_str()`
    else
      match src with
      | [] => none                                     -- start byte index 1 is out of bounds
      | c :: rest => if c.toNat < 128 then some rest else none   -- not a char boundary

/-! ### the fixer -/

/-- `$` — `Language::meta_var_char` of every built-in language -/
def metaVarByte : UInt8 := 0x24

/-- `Fixer::parse`: the template knows the transformation names in the string form; in the object
form only with FIX_C11_4 (H4) -/
def fixerTemplate (fx : Fixes) (fix : SFix) (transformKeys : List Name) : Template :=
  match fix with
  | .str t => createTemplate t metaVarByte (transformKeys.map nameToBytes)
  | .config t _ _ =>
    createTemplate t metaVarByte (if fx.fixObjTransform then transformKeys.map nameToBytes else [])

/-- `TemplateFix::used_vars` -/
def templateUsedVars (t : Template) : List Name := t.vars.map fun v => nameOfBytes v.1.usedVar

/-! ### `check_var.rs` -/

def memName (v : Name) (vars : List Name) : Bool := vars.contains v

/-- the loop `for var in constraints.keys()` -/
def firstMissing (vars : List Name) : List Name → Option Name
  | [] => none
  | k :: ks => if memName k vars then firstMissing vars ks else some k

/-- `check_var_in_constraints` -/
def checkVarInConstraints (vars : List Name) (constraints : List (Name × SRule)) :
    Except CoreErr (List Name) :=
  let vars := vars ++ definedVarsList (constraints.map (·.2))
  match firstMissing vars (constraints.map (·.1)) with
  | some k => .error (.undefinedMetaVar k .constraints)
  | none => .ok vars

/-- the loop `for var in transform.keys() { if !vars.insert(var) { AlreadyDefined } }` -/
def insertKeys : List Name → List Name → Except CoreErr (List Name)
  | vars, [] => .ok vars
  | vars, k :: ks =>
    if memName k vars then .error (.transform .alreadyDefined) else insertKeys (vars ++ [k]) ks

/-- the loop `for trans in transform.values()`; `usedVars` cannot panic any more here: `parse`
has accepted every source (a source `parse` accepts starts with `$`) -/
def checkSources (fx : Fixes) (vars : List Name) : List STrans → Res CoreErr Unit
  | [] => .ok ()
  | t :: ts =>
    match usedVars fx t.source with
    | none => .panic .usedVarsSlice
    | some needed =>
      if memName needed vars then checkSources fx vars ts
      else .err (.undefinedMetaVar needed .transform)

/-- `check_var_in_transform` -/
def checkVarInTransform (fx : Fixes) (vars : List Name) (transform : Option (List (Name × STrans))) :
    Res CoreErr (List Name) :=
  match transform with
  | none => .ok vars
  | some tr =>
    match insertKeys vars (tr.map (·.1)) with
    | .error e => .err e
    | .ok vars' =>
      match checkSources fx vars' (tr.map (·.2)) with
      | .ok () => .ok vars'
      | .err e => .err e
      | .panic s => .panic s

/-- `check_var_in_fix` -/
def checkVarInFix (vars : List Name) (used : List Name) : Except CoreErr Unit :=
  match firstMissing vars used with
  | some v => .error (.undefinedMetaVar v .fix)
  | none => .ok ()

/-- `CheckHint` -/
inductive CheckHint where
  | global
  | normal
  | rewriter (upperVars : List Name)

/-- what the checks look at: the rule, the variables all local utilities define
(`get_local_util_vars`), which utility ids resolve, and the parsed fixer's variables -/
structure CheckInput where
  rule : SRule
  /-- the rules of all local utilities registered so far -/
  localUtils : List SRule
  known : Name → Bool
  constraints : List (Name × SRule)
  transform : Option (List (Name × STrans))
  fixVars : Option (List Name)          -- `None` = no fixer
  expansions : List SExpansion          -- `expandStart`, `expandEnd` of the object-form fix

def CheckInput.localUtilVars (i : CheckInput) : List Name := definedVarsList i.localUtils

/-- `check_utils_defined`: rule, constraints; with FIX_C12_1 also the utilities and the fix
expansions -/
def checkUtilsDefined (fx : Fixes) (i : CheckInput) : Res CoreErr Unit :=
  match verifyUtil i.known i.rule with
  | some _ => .err (.rule .undefinedUtil)
  | none =>
    match verifyUtilList i.known (i.constraints.map (·.2)) with
    | some _ => .err (.rule .undefinedUtil)       -- `constraint.verify_util()?` converts to `Rule(..)`
    | none =>
      if !fx.utilsVerified then .ok ()
      else
        match verifyUtilList i.known i.localUtils with
        | some _ => .err (.utils .undefinedUtil)
        | none =>
          match verifyUtilExpansions i.known i.expansions with
          | some _ => .err (.fixer .undefinedUtil)
          | none => .ok ()

/-- `check_vars` / `check_vars_in_rewriter` -/
def checkVars (fx : Fixes) (i : CheckInput) (upper : List Name) : Res CoreErr Unit :=
  let vars := definedVars i.rule ++ i.localUtilVars           -- `get_vars_from_rules`
  match checkVarInConstraints vars i.constraints with
  | .error e => .err e
  | .ok vars =>
    match checkVarInTransform fx vars i.transform with
    | .err e => .err e
    | .panic s => .panic s
    | .ok vars =>
      let vars := vars ++ upper
      match i.fixVars with
      | none => .ok ()
      | some used =>
        match checkVarInFix vars used with
        | .error e => .err e
        | .ok () => .ok ()

/-- `check_rule_with_hint` -/
def checkRuleWithHint (fx : Fixes) (i : CheckInput) (hint : CheckHint) : Res CoreErr Unit :=
  match hint with
  | .global => checkVars fx i []
  | .normal =>
    match checkUtilsDefined fx i with
    | .err e => .err e
    | .panic s => .panic s
    | .ok () => checkVars fx i []
  | .rewriter upper =>
    match checkUtilsDefined fx i with
    | .err e => .err e
    | .panic s => .panic s
    | .ok () => checkVars fx i upper

end AGV.Loader
