/-
Model of the JSON framing of the CLI output: what is written around the per-file buffers.

Mirrors `JSONPrinter::{process, before_print, after_print}` crates/cli/src/print/json_print.rs:286-328
and `JSONProcessor::print_docs` :336-367, over an abstract token alphabet: the serialisation of
one record (by `serde_json`, trusted) is the opaque token `record r`; everything the printer itself
writes is `[`, `]`, `,` or a newline.
-/
namespace AGV

inductive JsonStyle where
  | pretty | stream | compact
deriving DecidableEq, Repr

inductive Tok (ρ : Type) where
  | openB          -- `[`
  | closeB         -- `]`
  | comma          -- `,`
  | nl             -- `\n`
  | record (r : ρ)    -- serde_json::to_writer[_pretty](doc)
deriving DecidableEq, Repr

namespace JsonFrame
variable {ρ : Type}

/-- separator written by `print_docs` between two docs of one buffer -/
def docSep : JsonStyle → List (Tok ρ)
  | .pretty => [.comma, .nl]      -- `writeln!(output, ",")`
  | .stream => [.nl]              -- `writeln!(output)`
  | .compact => [.comma]          -- `write!(output, ",")`

/-- the `for doc in docs` loop of `print_docs` -/
def printRest (style : JsonStyle) : List ρ → List (Tok ρ)
  | [] => []
  | d :: ds => docSep style ++ .record d :: printRest style ds

/-- `JSONProcessor::print_docs(docs)`: the buffer for one file -/
def printDocs (style : JsonStyle) : List ρ → List (Tok ρ)
  | [] => []                                  -- `let Some(doc) = docs.next() else { return Ok(ret) }`
  | d :: ds => .record d :: printRest style ds

/-- `JSONPrinter` state: the `matched` flag and everything written to `output` so far -/
structure Printer (ρ : Type) where
  style : JsonStyle
  matched : Bool
  out : List (Tok ρ)

/-- `JSONPrinter::new` -/
def new (style : JsonStyle) : Printer ρ := { style := style, matched := false, out := [] }

/-- `before_print` -/
def beforePrint (p : Printer ρ) : Printer ρ :=
  if p.style = .stream then p else { p with out := p.out ++ [.openB] }

/-- what `process` writes before a non-empty buffer: the separator if there was a match before,
a newline for the first match in pretty style -/
def sepBefore (style : JsonStyle) (matched : Bool) : List (Tok ρ) :=
  if matched then
    match style with
    | .pretty => [.comma, .nl]      -- ",\n"
    | .stream => [.nl]              -- "\n"
    | .compact => [.comma]          -- ","
  else if style = .pretty then [.nl]
  else []

/-- `process(buffer)` -/
def process (p : Printer ρ) (buffer : List (Tok ρ)) : Printer ρ :=
  if buffer.isEmpty then p
  else
    let matched := p.matched
    { p with matched := true, out := p.out ++ sepBefore p.style matched ++ buffer }

/-- `after_print` -/
def afterPrint (p : Printer ρ) : Printer ρ :=
  if p.style = .stream then p
  else
    let o1 : List (Tok ρ) := if p.matched && p.style = .pretty then [.nl] else []
    { p with out := p.out ++ o1 ++ [.closeB, .nl] }

/-- one CLI run: `before_print`, one `process` per arriving buffer, `after_print` -/
def runBuffers (style : JsonStyle) (buffers : List (List (Tok ρ))) : List (Tok ρ) :=
  (afterPrint (buffers.foldl process (beforePrint (new style)))).out

/-- one CLI run where the i-th file produced the records `files[i]` -/
def run (style : JsonStyle) (files : List (List ρ)) : List (Tok ρ) :=
  runBuffers style (files.map (printDocs style))

end JsonFrame
end AGV
