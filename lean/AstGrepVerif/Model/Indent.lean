/-
Model of indentation-sensitive extraction / insertion.

Mirrors `crates/core/src/replacer/indent.rs:119-253` for `Content = String`
(`Underlying = u8`): text is `List UInt8`, newline = 0x0A, space = 0x20.
-/
namespace AGV

abbrev Bytes := List UInt8

def NL : UInt8 := 0x0A
def SP : UInt8 := 0x20
def MAX_LOOK_AHEAD : Nat := 512

/-- `slice.split(|b| *b == new_line)`: always at least one (possibly empty) piece. -/
def splitNL : Bytes → List Bytes
  | [] => [[]]
  | b :: bs =>
    if b = NL then [] :: splitNL bs
    else match splitNL bs with
      | [] => [[b]]          -- unreachable: splitNL never returns []
      | l :: ls => (b :: l) :: ls

/-- `lines.join(&new_line)` -/
def joinNL : List Bytes → Bytes
  | [] => []
  | [l] => l
  | l :: ls => l ++ NL :: joinNL ls

/-- the loop of `get_indent_at_offset` over `src[lookahead..].iter().rev()`:
`some n` = hit a newline with `n` pending spaces, `none n` = ran out with `n`. -/
def indentScan : (rev : Bytes) → (indent : Nat) → Sum Nat Nat
  | [], indent => .inr indent
  | c :: cs, indent =>
    if c = NL then .inl indent
    else if c = SP then indentScan cs (indent + 1)
    else indentScan cs 0

/-- `get_indent_at_offset(src)` -/
def getIndentAtOffset (src : Bytes) : Nat :=
  let lookahead := (max src.length MAX_LOOK_AHEAD) - MAX_LOOK_AHEAD
  match indentScan (src.drop lookahead).reverse 0 with
  | .inl indent => indent
  | .inr indent => if lookahead == 0 && indent != 0 then indent else 0

inductive Deindented where
  | singleLine (s : Bytes)
  | multiLine (s : Bytes) (indent : Nat)
deriving DecidableEq, Repr

/-- `extract_with_deindent(content, range)` (range as start/stop, in range of `content`) -/
def extractWithDeindent (content : Bytes) (start stop : Nat) : Deindented :=
  let slice := (content.drop start).take (stop - start)
  if !(slice.contains NL) then .singleLine slice
  else .multiLine slice (getIndentAtOffset (content.take start))

/-- `strip_prefix` on byte slices -/
def stripPrefixB? : (pre s : Bytes) → Option Bytes
  | [], s => some s
  | _ :: _, [] => none
  | p :: ps, c :: cs => if p = c then stripPrefixB? ps cs else none

/-- `remove_indent(indent, src)`: `.enumerate().map(|(i, line)| if i == 0 { line } else
{ strip_prefix or line })` — line 0 is kept untouched (repair e39e245) -/
def removeIndent (indent : Nat) (src : Bytes) : Bytes :=
  let indentation := List.replicate indent SP
  let strip := fun (line : Bytes) =>
    match stripPrefixB? indentation line with
    | some stripped => stripped
    | none => line
  match splitNL src with
  | [] => []                       -- unreachable: `split` yields at least one piece
  | l :: ls => joinNL (l :: ls.map strip)

/-- `indent_lines_impl(indent, lines)` -/
def indentLinesImpl (indent : Nat) (lines : List Bytes) : Bytes :=
  let leading := List.replicate indent SP
  match lines with
  | [] => []
  | l :: ls => l ++ (ls.map fun line => NL :: (leading ++ line)).flatten

/-- `indent_lines(indent, extract)` -/
def indentLines (indent : Nat) (extract : Deindented) : Bytes :=
  match extract with
  | .singleLine line => line
  | .multiLine lines orig =>
    if orig = indent then lines
    else if orig > indent then removeIndent (orig - indent) lines
    else indentLinesImpl (indent - orig) (splitNL lines)

/-- `deindent_slice` + `indent_lines(0, ·)` = `formatted_slice(slice, content, start)` -/
def formattedSlice (slice content : Bytes) (start : Nat) : Bytes :=
  let d := if !(slice.contains NL) then Deindented.singleLine slice
           else .multiLine slice (getIndentAtOffset (content.take start))
  indentLines 0 d

end AGV
