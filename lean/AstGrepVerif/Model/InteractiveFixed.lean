/-
Model of the `--update-all` printer **with FIX_C18 applied** (not the pinned code; see
`Model/Interactive.lean` for the code as it is).

FIX_C18 (`crates/cli/src/print/interactive_print.rs`): the printer remembers, per file, the diffs
it has confirmed in this session (`confirmed: HashMap<PathBuf, Vec<(Range, String)>>`);
`process_diffs_interactive` additionally skips a diff that overlaps a diff confirmed earlier for
the same file (another document's payload); `rewrite_action` splices the snapshot with **all**
diffs confirmed for the file so far, sorted by `(start, end)`.
-/
import AstGrepVerif.Model.Interactive

namespace AGV

/-- `r.start < range.end && range.start < r.end` for some confirmed `r` -/
def overlapsConfirmed (prev : List Diff) (d : Diff) : Bool :=
  prev.any fun r => decide (r.start < d.stop) && decide (d.start < r.stop)

def processDiffsFixedGo (prev : List Diff) : Nat → List Diff → List Diff
  | _, [] => []
  | end_, d :: ds =>
    if d.start < end_ ∨ overlapsConfirmed prev d = true then processDiffsFixedGo prev end_ ds
    else d :: processDiffsFixedGo prev d.stop ds

def processDiffsFixed (prev ds : List Diff) : List Diff := processDiffsFixedGo prev 0 ds

/-- insertion by the key `(start, stop)`, before equal keys (stable under `foldr`) -/
def insertDiff (d : Diff) : List Diff → List Diff
  | [] => [d]
  | x :: xs =>
    if d.start < x.start ∨ (d.start = x.start ∧ d.stop ≤ x.stop) then d :: x :: xs
    else x :: insertDiff d xs

/-- `confirmed.extend(new); confirmed.sort_by_key(|d| (start, end))` (stable) -/
def mergeConfirmed (prev new : List Diff) : List Diff :=
  (prev ++ new).foldr insertDiff []

structure UStateF where
  fs : FS
  committed : Nat
  writes : List Nat
  confirmed : List (Nat × List Diff)
deriving DecidableEq, Repr

def confirmedOf (c : List (Nat × List Diff)) (p : Nat) : List Diff := (c.lookup p).getD []

def setConfirmed : List (Nat × List Diff) → Nat → List Diff → List (Nat × List Diff)
  | [], p, ds => [(p, ds)]
  | (q, x) :: c, p, ds => if q = p then (q, ds) :: c else (q, x) :: setConfirmed c p ds

def processPayloadFixed (st : UStateF) (p : Payload) : Res UStateF :=
  let prev := confirmedOf st.confirmed p.path
  let confirmed := processDiffsFixed prev p.diffs
  let st := { st with committed := st.committed + confirmed.length }
  if confirmed.isEmpty then .ok st
  else do
    let all := mergeConfirmed prev confirmed
    let newContent ← applyRewrite p.oldSource all
    pure { st with fs := fsWrite st.fs p.path newContent, writes := st.writes ++ [p.path],
                   confirmed := setConfirmed st.confirmed p.path all }

def updateAllFixedFrom : UStateF → List Payload → Res UStateF
  | st, [] => .ok st
  | st, p :: ps => do
    let st' ← processPayloadFixed st p
    updateAllFixedFrom st' ps

def updateAllFixed (fs : FS) (ps : List Payload) : Res UStateF :=
  updateAllFixedFrom { fs := fs, committed := 0, writes := [], confirmed := [] } ps

end AGV
