/-
Model of the small textual notations.

Mirrors (pinned commit):
  * `crates/config/src/rule/nth_child.rs:35-171`  `parse_an_b`, `NthChildSimple::try_parse`,
                                                 `FunctionalPosition::is_matched`
  * `crates/config/src/transform/transformation.rs:34-62`  `Substring::compute`, `resolve_char`

Machine integers: the Rust code computes in `i32`.  The model computes in `Int` and makes
every place where the `i32` computation can leave the `i32` range an explicit outcome
(`overflow`): in a debug build that is a panic, in a release build a silent wrap.
-/
namespace AGV

def i32Max : Int := 2147483647
def i32Min : Int := -2147483648
def inI32 (x : Int) : Bool := decide (i32Min ≤ x) && decide (x ≤ i32Max)

inductive AnBError where
  | illegalCharacter (c : Char)
  | invalidSyntax
  | overflow            -- i32 arithmetic left the i32 range (debug: panic, release: wrap)
deriving DecidableEq, Repr

inductive ParseState where
  | initial
  | n
  | sign (hasN : Bool)
  | num (hasN : Bool)
deriving DecidableEq, Repr

structure AnBState where
  stepSize : Int := 0
  sign : Int := 1
  num : Int := 0
  state : ParseState := .initial
deriving DecidableEq, Repr

/-- `char::is_whitespace` restricted to what the model needs to agree on: the Unicode
`White_Space` property. -/
def isWhitespace (c : Char) : Bool :=
  let n := c.toNat
  (9 ≤ n && n ≤ 13) || n == 32 || n == 0x85 || n == 0xA0 || n == 0x1680 ||
  (0x2000 ≤ n && n ≤ 0x200A) || n == 0x2028 || n == 0x2029 || n == 0x202F ||
  n == 0x205F || n == 0x3000

def isDigitC (c : Char) : Bool := decide ('0'.toNat ≤ c.toNat) && decide (c.toNat ≤ '9'.toNat)
def digitVal (c : Char) : Int := (c.toNat - '0'.toNat : Nat)
def isPlusMinus (c : Char) : Bool := c == '+' || c == '-'
def isN (c : Char) : Bool := c == 'n' || c == 'N'
def signOf (c : Char) : Int := if c == '+' then 1 else -1

/-- one iteration of the `for c in input.chars()` loop of `parse_an_b` -/
def anbStep (st : AnBState) (c : Char) : Except AnBError AnBState :=
  if isWhitespace c then .ok st else
  match st.state with
  | .initial =>
    if isPlusMinus c then .ok { st with state := .sign false, sign := signOf c }
    else if isDigitC c then .ok { st with state := .num false, num := digitVal c }
    else if isN c then .ok { st with state := .n, stepSize := st.sign }
    else .error (.illegalCharacter c)
  | .sign hasN =>
    if isPlusMinus c then .error .invalidSyntax
    else if isDigitC c then .ok { st with state := .num hasN, num := digitVal c }
    else if isN c then
      if hasN then .error .invalidSyntax
      else .ok { st with state := .n, stepSize := st.sign }
    else .error (.illegalCharacter c)
  | .num hasN =>
    if isPlusMinus c then .error .invalidSyntax
    else if isDigitC c then
      -- `num * 10 + digit` in i32
      if !(inI32 (st.num * 10)) || !(inI32 (st.num * 10 + digitVal c)) then .error .overflow
      else .ok { st with num := st.num * 10 + digitVal c }
    else if isN c then
      if hasN then .error .invalidSyntax
      else .ok { st with state := .n, stepSize := st.sign * st.num, num := 0 }
    else .error (.illegalCharacter c)
  | .n =>
    if isPlusMinus c then .ok { st with state := .sign true, sign := signOf c, num := 0 }
    else if isDigitC c then .error .invalidSyntax
    else if isN c then .error .invalidSyntax
    else .error (.illegalCharacter c)

def anbLoop : AnBState → List Char → Except AnBError AnBState
  | st, [] => .ok st
  | st, c :: cs =>
    match anbStep st c with
    | .ok st' => anbLoop st' cs
    | .error e => .error e

/-- `parse_an_b(input)`: `(step_size, offset)` -/
def parseAnB (input : List Char) : Except AnBError (Int × Int) :=
  match anbLoop {} input with
  | .error e => .error e
  | .ok st =>
    match st.state with
    | .sign _ => .error .invalidSyntax
    | .initial => .error .invalidSyntax
    | _ => .ok (st.stepSize, st.num * st.sign)

/-- `FunctionalPosition::is_matched(index)` on mathematical integers (`Int.tdiv`/`Int.tmod`
are Rust's truncating `/` and `%`). -/
def isMatched (stepSize offset : Int) (index : Nat) : Bool :=
  let idx : Int := (index : Int) + 1
  if stepSize == 0 then idx == offset
  else
    let n := idx - offset
    decide (Int.tdiv n stepSize ≥ 0) && Int.tmod n stepSize == 0

/-- the same computation with the i32 range made explicit: `none` = an intermediate value
left the `i32` range (debug build: panic at match time; release: wrap). -/
def isMatchedI32 (stepSize offset : Int) (index : Nat) : Option Bool :=
  -- `(index + 1) as i32`: an `as` cast wraps silently, it never panics
  let idx : Int := Int.bmod ((index : Int) + 1) (2 ^ 32)
  if stepSize == 0 then some (idx == offset)
  else
    let n := idx - offset
    if !(inI32 n) then none
    else if n == i32Min && stepSize == -1 then none
    else some (decide (Int.tdiv n stepSize ≥ 0) && Int.tmod n stepSize == 0)

/-- `parse_an_b` after FIX_C11_3 (checked arithmetic): a number that leaves the `i32` range is
reported as `InvalidSyntax` at the digit where the pinned code overflows -/
def parseAnBChecked (input : List Char) : Except AnBError (Int × Int) :=
  match parseAnB input with
  | .error .overflow => .error .invalidSyntax
  | r => r

/-- `is_matched` after FIX_C11_3: computed in `i64` on `i32` operands, where neither
`index - offset` nor `n / step_size` can leave the range: the mathematical function -/
def isMatchedChecked (stepSize offset : Int) (index : Nat) : Bool := isMatched stepSize offset index

def i64Max : Int := 9223372036854775807
def i64Min : Int := -9223372036854775808
def inI64 (x : Int) : Bool := decide (i64Min ≤ x) && decide (x ≤ i64Max)

/-- `FunctionalPosition::is_matched(index)` as the code computes it since FIX_C11_3, literally:
in `i64`, with every place where the `i64` computation could leave its range made explicit
(`none` = overflow panic in a debug build).  `index as i64` is an `as` cast (wraps silently),
`+ 1`, `index - offset` and `n / step_size` (`i64::MIN / -1`) are checked operations.
`Props/C20.lean` (`isMatchedI64_exact`): for `i32` operands and `index + 1 + 2^31 < 2^63` this
is `some (isMatched …)`. -/
def isMatchedI64 (stepSize offset : Int) (index : Nat) : Option Bool :=
  let idx0 : Int := Int.bmod (index : Int) (2 ^ 64)
  if !(inI64 (idx0 + 1)) then none
  else
    let idx := idx0 + 1
    if stepSize == 0 then some (idx == offset)
    else
      let n := idx - offset
      if !(inI64 n) then none
      else if n == i64Min && stepSize == -1 then none
      else some (decide (Int.tdiv n stepSize ≥ 0) && Int.tmod n stepSize == 0)

/-- `resolve_char(opt, dft, len)` -/
def resolveChar (opt : Option Int) (dft len : Int) : Nat :=
  let c := opt.getD dft
  if c ≥ len then len.toNat
  else if c ≥ 0 then c.toNat
  else if len + c < 0 then 0
  else (len + c).toNat

/-- `Substring::compute` on the char vector of the text. -/
def substring (chars : List Char) (startChar endChar : Option Int) : List Char :=
  let len : Int := chars.length
  let start := resolveChar startChar 0 len
  let stop := resolveChar endChar len len
  if start > stop || start ≥ chars.length || stop > chars.length then []
  else (chars.drop start).take (stop - start)

end AGV
