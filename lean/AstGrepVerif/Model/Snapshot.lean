/-
Model of snapshot serialisation for `sg test`.

Mirrors (pinned commit):
  * `crates/cli/src/verify/snapshot.rs:62-69,157-165`  `TestSnapshots` / `ordered_map`: the
        `HashMap<Source, TestSnapshot>` is serialised through a `BTreeMap`, i.e. sorted by key
        (`String`'s `Ord` = byte-wise lexicographic)
  * `crates/cli/src/verify/snapshot.rs:18-30`           `merge_snapshots` (`HashMap::extend`:
        an accepted entry replaces an existing one with the same source)

A `HashMap` is an association list with pairwise different keys, in iteration order.
Imports only Model files: compiled into the native driver.
-/
import AstGrepVerif.Model.Topo

namespace AGV.Snapshot

open AGV.Topo

abbrev Source := List UInt8

/-- order of `BTreeMap<&String, _>` entries -/
def keyLt {V : Type} (a b : Source × V) : Bool := bytesLt a.1 b.1

/-- `ordered_map`: the entries in the order they are written -/
def orderedMap {V : Type} (entries : List (Source × V)) : List (Source × V) :=
  sortBy keyLt entries

/-- the serialised text of a `TestSnapshots.snapshots` map, for any rendering of one entry -/
def serialize {V : Type} (render : Source × V → List UInt8) (entries : List (Source × V)) : List UInt8 :=
  (orderedMap entries).flatMap render

/-- `HashMap::insert`: replace the binding of `k` or add one -/
def insertKV {V : Type} (k : Source) (v : V) : List (Source × V) → List (Source × V)
  | [] => [(k, v)]
  | (k', v') :: rest => if k' = k then (k, v) :: rest else (k', v') :: insertKV k v rest

/-- `existing.snapshots.extend(accepted.snapshots)` -/
def mergeSnapshots {V : Type} (accepted existing : List (Source × V)) : List (Source × V) :=
  accepted.foldl (fun m kv => insertKV kv.1 kv.2 m) existing

end AGV.Snapshot
