/-
Model of fix templates.

Mirrors (pinned commit), for `Content = String`:
  * `crates/core/src/replacer.rs:61-119`           `MetaVarExtract`, `split_first_meta_var`
                                                  (with FIX_TMPL_DIGIT; the pinned function is
                                                  `splitFirstMetaVarPinned`)
  * `crates/core/src/replacer/template.rs:13-157`  `create_template`, `replace_fixer`,
                                                  `maybe_get_var`, `TemplateFix::generate_replacement`
  * `crates/core/src/meta_var.rs:178-212`          `get_var_bytes_impl` (ranges only)

The template is a byte list; the meta-variable character is a single byte (`$` for every
built-in language: `Language::meta_var_char` is not overridden by any of them).  All chars
accepted by `is_valid_meta_var_char` are ASCII, and every byte of a multi-byte UTF-8 char is
≥ 0x80, so the char-level scan of the Rust code and this byte-level scan find the same
boundaries (checked by the correspondence on multi-byte templates).
-/
import AstGrepVerif.Model.Indent

namespace AGV

def isValidMetaVarByte (b : UInt8) : Bool :=
  (0x41 ≤ b && b ≤ 0x5A) || b == 0x5F || (0x30 ≤ b && b ≤ 0x39)

inductive MetaVarExtract where
  | single (name : Bytes)
  | multiple (name : Bytes)
  | transformed (name : Bytes)
deriving DecidableEq, Repr

def MetaVarExtract.usedVar : MetaVarExtract → Bytes
  | .single n => n | .multiple n => n | .transformed n => n

/-- number of leading `mc` (at most 3) consumed by the `loop` of `split_first_meta_var`;
`src` starts with `mc` (the caller guarantees it). Returns `(skipped, isMulti)`. -/
def countSigils (mc : UInt8) (src : Bytes) : Nat × Bool :=
  match src with
  | _ :: b :: c :: _ =>
    if b = mc then (if c = mc then (3, true) else (2, false)) else (1, false)
  | [_, b] => if b = mc then (2, false) else (1, false)
  | _ => (1, false)

/-- `is_valid_first_char` (`meta_var.rs`): `'A'..='Z' | '_'` -/
def isValidFirstByte (b : UInt8) : Bool :=
  (0x41 ≤ b && b ≤ 0x5A) || b == 0x5F

/-- `name.starts_with(is_valid_first_char) || transform.contains(&name)`: a candidate name is a
variable name iff it does not start with a digit, or it is the name of a declared
transformation (a transformation may be called anything). -/
def isRecognisedName (transform : List Bytes) (name : Bytes) : Bool :=
  (match name with
    | b :: _ => isValidFirstByte b
    | [] => false) || transform.contains name

/-- `split_first_meta_var` of the pinned commit (before FIX_TMPL_DIGIT): every non-empty run
over `[A-Z0-9_]` after the sigils is a name, so `$100` is the (always unbound) variable `100`.
Kept for the regression statement. -/
def splitFirstMetaVarPinned (src : Bytes) (mc : UInt8) (transform : List Bytes) :
    Option (MetaVarExtract × Nat) :=
  let (skipped, isMulti) := countSigils mc src
  let name := (src.drop skipped).takeWhile isValidMetaVarByte
  if name.length = 0 then none
  else
    let var :=
      if isMulti then MetaVarExtract.multiple name
      else if transform.contains name then .transformed name
      else .single name
    some (var, skipped + name.length)

/-- `split_first_meta_var(src, meta_char, transform)`; `src` starts with `mc`.
Current code (FIX_TMPL_DIGIT): a candidate name that starts with a digit is not a variable
unless it is a declared transformation — `$100` stays literal text. -/
def splitFirstMetaVar (src : Bytes) (mc : UInt8) (transform : List Bytes) :
    Option (MetaVarExtract × Nat) :=
  let (skipped, isMulti) := countSigils mc src
  let name := (src.drop skipped).takeWhile isValidMetaVarByte
  if name.length = 0 then none
  else if isRecognisedName transform name = false then none
  else
    let var :=
      if isMulti then MetaVarExtract.multiple name
      else if transform.contains name then .transformed name
      else .single name
    some (var, skipped + name.length)

/-- The `while let` loop of `create_template`, as a structural scan.
`before` = all bytes already passed (for the indent of a slot), `frag` = the literal
fragment under construction, `skip` = bytes of a recognised variable spelling still to pass. -/
def scanTemplate (mc : UInt8) (transform : List Bytes) :
    (before frag : Bytes) → (skip : Nat) → (rest : Bytes) →
    List Bytes × List (MetaVarExtract × Nat)
  | _, frag, _, [] => ([frag], [])
  | before, frag, skip + 1, c :: cs => scanTemplate mc transform (before ++ [c]) frag skip cs
  | before, frag, 0, c :: cs =>
    if c = mc then
      match splitFirstMetaVar (c :: cs) mc transform with
      | some (mv, skipped) =>
        let (fs, vs) := scanTemplate mc transform (before ++ [c]) [] (skipped - 1) cs
        (frag :: fs, (mv, getIndentAtOffset before) :: vs)
      | none => scanTemplate mc transform (before ++ [c]) (frag ++ [c]) 0 cs
    else scanTemplate mc transform (before ++ [c]) (frag ++ [c]) 0 cs

structure Template where
  fragments : List Bytes
  vars : List (MetaVarExtract × Nat)
deriving DecidableEq, Repr

/-- `create_template`: `Textual` iff `vars = []` (then `fragments = [tmpl]`). -/
def createTemplate (tmpl : Bytes) (mc : UInt8) (transform : List Bytes) : Template :=
  let (fs, vs) := scanTemplate mc transform [] [] 0 tmpl
  { fragments := fs, vars := vs }

/-- What the template needs to know about a `MetaVarEnv`: byte ranges of captures in the
source and transformed strings. `multi` holds `first.start .. last.end` of a non-empty
capture list (an empty list is "absent": `nodes.is_empty() ⇒ None`). -/
structure TEnv where
  single : List (Bytes × (Nat × Nat)) := []
  multi : List (Bytes × (Nat × Nat)) := []
  transformed : List (Bytes × Bytes) := []
deriving Repr

def lookupB {α} (k : Bytes) : List (Bytes × α) → Option α
  | [] => none
  | (k', v) :: rest => if k' = k then some v else lookupB k rest

/-- `maybe_get_var(env, var, indent)` -/
def maybeGetVar (source : Bytes) (env : TEnv) (var : MetaVarExtract) (indent : Nat) : Option Bytes :=
  match var with
  | .transformed name =>
    match lookupB name env.transformed with
    | none => none
    | some s => some (indentLines indent (.multiLine s 0))
  | .single name =>
    match lookupB name env.single with
    | none => none
    | some (s, e) => some (indentLines indent (extractWithDeindent source s e))
  | .multiple name =>
    match lookupB name env.multi with
    | none => none
    | some (s, e) => some (indentLines indent (extractWithDeindent source s e))

/-- the `zip` loop of `replace_fixer` after the first fragment -/
def replaceFixerLoop (source : Bytes) (env : TEnv) :
    List (MetaVarExtract × Nat) → List Bytes → Bytes
  | (var, indent) :: vs, frag :: fs =>
    (match maybeGetVar source env var indent with
      | some b => b
      | none => []) ++ frag ++ replaceFixerLoop source env vs fs
  | _, _ => []

/-- `replace_fixer(fixer, env)` -/
def replaceFixer (source : Bytes) (env : TEnv) (t : Template) : Bytes :=
  match t.fragments with
  | [] => []
  | f :: fs => f ++ replaceFixerLoop source env t.vars fs

/-- `TemplateFix::generate_replacement(nm)`; `matchStart = nm.range().start` -/
def generateReplacement (source : Bytes) (matchStart : Nat) (env : TEnv) (t : Template) : Bytes :=
  let indent := getIndentAtOffset (source.take matchStart)
  indentLines indent (.multiLine (replaceFixer source env t) 0)

end AGV
