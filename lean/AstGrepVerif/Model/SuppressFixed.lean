/-
Model of the suppression part of the combined scan AFTER `FIX_C14.patch`
(`Suppressions(HashMap<usize, Vec<Suppression>>)`).

What changes with respect to `Model/Suppress.lean` (everything else is shared):
  * the table maps a governed line to ALL suppressions filed under it (`collect` pushes instead
    of overwriting);
  * `suppressed_ids(rule_id)` yields the node ids of all suppressions of the line that cover the
    rule; the finding is dropped when there is at least one, and every one of them is removed from
    the unused set;
  * `suppression_ids()` is the set of all suppression nodes (none is lost).
-/
import AstGrepVerif.Model.Suppress

namespace AGV.SuppressFixed
open AGV.Suppress

/-- `HashMap<usize, Vec<Suppression>>` -/
abbrev Table := List (Nat × List Suppression)

/-- `self.0.entry(key).or_default().push(v)` -/
def Table.push : Table → Nat → Suppression → Table
  | [], k, v => [(k, [v])]
  | (k', vs) :: rest, k, v =>
    if k' = k then (k', vs ++ [v]) :: rest else (k', vs) :: Table.push rest k v

def Table.get : Table → Nat → List Suppression
  | [], _ => []
  | (k', vs) :: rest, k => if k' = k then vs else Table.get rest k

def collectAux : List CNode → Nat → Table → Table
  | [], _, t => t
  | n :: rest, idx, t =>
    collectAux rest (idx + 1)
      (if isSuppressionNode n then Table.push t (keyOf n) ⟨parseSuppressionSet n.text, idx⟩ else t)

def collect (nodes : List CNode) : Table := collectAux nodes 0 []

/-- `self.0.values().flatten().map(|s| s.node_id).collect()` -/
def suppressionIds (t : Table) : List Nat := t.flatMap fun e => e.2.map (·.nodeId)

/-- `Suppression::covers(rule_id)` -/
def covers (s : Suppression) (rule : Bytes) : Bool :=
  match s.suppressed with
  | some set => set.contains rule
  | none => true

/-- `check_suppression(node).suppressed_ids(rule_id)` -/
def suppressedIds (t : Table) (line : Nat) (rule : Bytes) : List Nat :=
  ((Table.get t line).filter (covers · rule)).map (·.nodeId)

def removeIds (ids : List Nat) (rm : List Nat) : List Nat := ids.filter (!rm.contains ·)

def scanFindings (t : Table) : List Finding → Nat → List Nat → List Nat × List Nat
  | [], _, ids => (ids, [])
  | f :: rest, idx, ids =>
    match suppressedIds t f.line f.rule with
    | [] =>
      let (ids', rep) := scanFindings t rest (idx + 1) ids
      (ids', idx :: rep)
    | id :: more => scanFindings t rest (idx + 1) (removeIds ids (id :: more))

def scanCore (inp : Input) : Core :=
  let t := collect inp.nodes
  let ids0 := suppressionIds t
  let (ids, rep) := scanFindings t inp.findings 0 ids0
  let unused := (List.range inp.nodes.length).filter fun j => ids0.contains j && ids.contains j
  ⟨rep, unused⟩

def scan (inp : Input) (separateFix unusedRule : Bool) : Result :=
  let c := scanCore inp
  { inMatches := c.reported.filter (fun i => !toDiff inp separateFix i)
    inDiffs := c.reported.filter (toDiff inp separateFix)
    unusedInMatches := if unusedRule && !separateFix then c.unused else []
    unusedInDiffs := if unusedRule && separateFix then c.unused else [] }

end AGV.SuppressFixed
