/-
Model of byte / line / column arithmetic on source text.

Mirrors, for `Content = String` (`Underlying = u8`):
* `position_for_offset`            crates/core/src/source.rs:44-56
* `String::get_char_column`        crates/core/src/source.rs:198-212
* `Position`, `Node::start_pos/end_pos`, `Position::column`
                                   crates/core/src/node.rs:17-46,218-234
* `str::lines` (Rust std: `split_inclusive('\n')`, strip one `\n`, then one `\r`)

Text is `List UInt8` (`AGV.Bytes`, defined in `Model/Indent.lean`). A Rust panic (slice out of
range, failed `debug_assert!`) is the outcome `none`.
-/
import AstGrepVerif.Model.Indent

namespace AGV

def CR : UInt8 := 0x0D

/-- `b & 0b1100_0000 == 0b1000_0000`: a UTF-8 continuation byte -/
def isCont (b : UInt8) : Bool := (b &&& 0xC0) == 0x80

/-- `&s[a..b]` when the caller has already established `a ≤ b ≤ len` -/
def slice (src : Bytes) (a b : Nat) : Bytes := (src.drop a).take (b - a)

/-- `&s[a..b]` with Rust's range check -/
def slice? (src : Bytes) (a b : Nat) : Option Bytes :=
  if a ≤ b ∧ b ≤ src.length then some (slice src a b) else none

/-- the loop of `get_char_column` over `src[..offset].iter().rev()` -/
def colScan : Bytes → Nat → Nat
  | [], col => col
  | b :: bs, col =>
    if b = NL then col
    else colScan bs (if isCont b then col else col + 1)

/-- `String::get_char_column(_col, offset)`; `none` = `src[..offset]` out of range -/
def getCharColumn (src : Bytes) (offset : Nat) : Option Nat :=
  if offset ≤ src.length then some (colScan (src.take offset).reverse 0) else none

/-- the loop of `position_for_offset` over `input[0..offset]` -/
def posScan : Bytes → Nat → Nat → Nat × Nat
  | [], row, col => (row, col)
  | c :: cs, row, col =>
    if c = NL then posScan cs (row + 1) 0 else posScan cs row (col + 1)

/-- `position_for_offset(input, offset)` = (row, byte column); `none` = debug_assert / slice panic -/
def positionForOffset (input : Bytes) (offset : Nat) : Option (Nat × Nat) :=
  if offset ≤ input.length then some (posScan (input.take offset) 0 0) else none

/-- tree-sitter's `Point.row` of byte `off` (tree-sitter contract: equals `position_for_offset`) -/
def lineOf (src : Bytes) (off : Nat) : Nat := (posScan (src.take off) 0 0).1

/-- tree-sitter's `Point.column` (bytes since the line start) -/
def byteColumn (src : Bytes) (off : Nat) : Nat := (posScan (src.take off) 0 0).2

/-- byte offset of the start of the line containing `off` -/
def lineStart (src : Bytes) (off : Nat) : Nat := off - byteColumn src off

/-- `ast_grep_core::Position` -/
structure Position where
  line : Nat
  byteColumn : Nat
  byteOffset : Nat
deriving DecidableEq, Repr

/-- `Node::start_pos` / `Node::end_pos` for a node boundary at byte `off` -/
def posAt (src : Bytes) (off : Nat) : Position :=
  { line := lineOf src off, byteColumn := byteColumn src off, byteOffset := off }

/-- `Position::column(node)` -/
def Position.column (p : Position) (src : Bytes) : Option Nat :=
  getCharColumn src p.byteOffset

/-- `str.chars().count()` of a valid UTF-8 string: one per non-continuation byte -/
def charCount (s : Bytes) : Nat := s.countP fun b => !isCont b

/-- `s.split_inclusive('\n')` -/
def splitInclusiveNL : Bytes → List Bytes
  | [] => []
  | b :: bs =>
    if b = NL then [b] :: splitInclusiveNL bs
    else match splitInclusiveNL bs with
      | [] => [[b]]
      | l :: ls => (b :: l) :: ls

/-- `line.strip_suffix(c)` for a one-byte `c` -/
def stripSuffixByte : Bytes → UInt8 → Option Bytes
  | [], _ => none
  | [b], c => if b = c then some [] else none
  | b :: b' :: bs, c => (stripSuffixByte (b' :: bs) c).map (b :: ·)

/-- the closure of `str::lines`:
`let Some(line) = line.strip_suffix('\n') else { return line };`
`let Some(line) = line.strip_suffix('\r') else { return line }; line` -/
def stripLineEnd (l : Bytes) : Bytes :=
  match stripSuffixByte l NL with
  | none => l
  | some l1 =>
    match stripSuffixByte l1 CR with
    | none => l1
    | some l2 => l2

/-- `s.lines()` -/
def strLines (s : Bytes) : List Bytes := (splitInclusiveNL s).map stripLineEnd

end AGV
