/-
The meta-variable environment.

Mirrors `crates/core/src/meta_var.rs:16-159` (`MetaVarEnv`): three maps, here association
lists keyed by the variable name; `insert` / `insert_multi` refuse a second binding that is
not structurally equal (`match_variable`, `match_multi_var`).
-/
import AstGrepVerif.Model.Tree
import AstGrepVerif.Model.MetaVar

namespace AGV

abbrev Name := List Char

structure Env where
  single : List (Name × Tree) := []
  multi : List (Name × List Tree) := []
  transformed : List (Name × Bytes) := []
deriving Repr, Inhabited

def alookup {β} (k : Name) : List (Name × β) → Option β
  | [] => none
  | (k', v) :: rest => if k' = k then some v else alookup k rest

/-- `HashMap::insert`: replace the value of an existing key, else add -/
def ainsert {β} (k : Name) (v : β) : List (Name × β) → List (Name × β)
  | [] => [(k, v)]
  | (k', v') :: rest => if k' = k then (k, v) :: rest else (k', v') :: ainsert k v rest

namespace Env

def empty : Env := {}

/-- `match_variable(id, candidate)` -/
def matchVariable (src : Bytes) (env : Env) (id : Name) (cand : Tree) : Bool :=
  match alookup id env.single with
  | some m => exactMatch src m cand
  | none => true

/-- `insert(id, ret)` -/
def insert (src : Bytes) (env : Env) (id : Name) (ret : Tree) : Option Env :=
  if env.matchVariable src id ret then some { env with single := ainsert id ret env.single }
  else none

/-- the `loop` of `match_multi_var` over the named nodes of both lists -/
def matchNamedLists (src : Bytes) : List Tree → List Tree → Bool
  | [], [] => true
  | n :: ns, c :: cs => exactMatch src n c && matchNamedLists src ns cs
  | _, _ => false

/-- `match_multi_var(id, cands)` -/
def matchMultiVar (src : Bytes) (env : Env) (id : Name) (cands : List Tree) : Bool :=
  match alookup id env.multi with
  | none => true
  | some nodes => matchNamedLists src (nodes.filter (·.named)) (cands.filter (·.named))

/-- `insert_multi(id, ret)` -/
def insertMulti (src : Bytes) (env : Env) (id : Name) (ret : List Tree) : Option Env :=
  if env.matchMultiVar src id ret then some { env with multi := ainsert id ret env.multi }
  else none

end Env

end AGV
