/-
Model of the `rewrite` transformation's splice.

Mirrors `crates/config/src/transform/rewrite.rs` (ast-grep 0.37.0):
`make_edit` (127-147, overlap skipping), the `joinBy` branch of `Rewrite::compute` (61-82).
The edits come from `find_and_make_edits`/`replace_one` (absolute positions in the document);
`offset`/`start` is the start of the first captured node; `old` is the captured slice
(`get_var_bytes`).  Slices here are byte slices (`&[u8]`), no char-boundary condition.
`usize` subtraction below zero panics (the harness is built with overflow checks).

Pinned vs fixed: `makeEdit` / `joinBy` / `rewriteCompute` are the released code (0.37.0), kept as
regression facts; `makeEditFixed` / `joinByFixed` / `rewriteComputeFixed` are the repaired code
(the driver evaluates these).
-/
import AstGrepVerif.Model.Interactive

namespace AGV

/-- `ast_grep_core::source::Edit` -/
structure REdit where
  position : Nat
  deleted : Nat
  inserted : Bytes
deriving DecidableEq, Repr

/-- `&s[a..b]` on `[u8]` -/
def byteSlice (s : Bytes) (a b : Nat) : Res Bytes :=
  if a ≤ b ∧ b ≤ s.length then .ok ((s.drop a).take (b - a)) else .error .byteSlice

/-- `&s[a..]` on `[u8]` -/
def byteSliceFrom (s : Bytes) (a : Nat) : Res Bytes :=
  if a ≤ s.length then .ok (s.drop a) else .error .byteSlice

/-- `a - b` on `usize` with overflow checks -/
def subUsize (a b : Nat) : Res Nat := if b ≤ a then .ok (a - b) else .error .subOverflow

/-- the loop of `make_edit(old_content, edits, offset)`; `start` = cursor into `old_content` -/
def makeEditGo (old : Bytes) (offset : Nat) : Nat → List REdit → Res Bytes
  | start, [] => byteSliceFrom old start
  | start, e :: es => do
    let pos ← subUsize e.position offset
    if start > pos then makeEditGo old offset start es      -- skip overlapping edits
    else do
      let pre ← byteSlice old start pos
      let rest ← makeEditGo old offset (pos + e.deleted) es
      pure (pre ++ e.inserted ++ rest)

def makeEdit (old : Bytes) (edits : List REdit) (offset : Nat) : Res Bytes :=
  makeEditGo old offset 0 edits

/-- the `for edit in edits` loop of the `joinBy` branch -/
def joinByGo (start : Nat) (joiner : Bytes) : Nat → List REdit → Res Bytes
  | _, [] => .ok []
  | pos, e :: es => do
    let p ← subUsize e.position start
    if pos > p then joinByGo start joiner pos es            -- skip overlapping edits
    else do
      let rest ← joinByGo start joiner (p + e.deleted) es
      pure (joiner ++ e.inserted ++ rest)

/-- the `joinBy` branch of `Rewrite::compute` -/
def joinBy (edits : List REdit) (start : Nat) (joiner : Bytes) : Res Bytes :=
  match edits with
  | [] => .ok []
  | first :: rest => do
    let p ← subUsize first.position start
    let tail ← joinByGo start joiner (p + first.deleted) rest
    pure (first.inserted ++ tail)

/-- `Rewrite::compute` after the edits were collected -/
def rewriteCompute (old : Bytes) (edits : List REdit) (start : Nat) (joiner : Option Bytes) : Res Bytes :=
  match joiner with
  | some j => joinBy edits start j
  | none => makeEdit old edits start

/-! ### the repaired code

`fix: rewrite transformation clamps a rewriter's edit to the text being rewritten`: a fix with
`expandStart` / `expandEnd` (or a rewriter made of a bare relation) may produce an edit that
begins before, or reaches beyond, the captured text.  `make_edit` now clamps both end-points of
the edit to the slice (`saturating_sub`, `min`, `clamp`), the `joinBy` branch subtracts with
`saturating_sub`.  The definitions above are kept as the model of the released code (pinned);
the ones below transcribe the repaired code.  `Nat` subtraction is saturating.  They still return
`Res` because the two slices are still written `&old_content[a..b]` / `&old_content[a..]`:
that they never fail is a theorem (`makeEditFixed_total`), not a convention. -/

/-- the loop of the repaired `make_edit`:
`end = (position + deleted_length).saturating_sub(offset)`,
`pos = position.saturating_sub(offset).min(old_content.len())`,
`start = end.clamp(pos, old_content.len())` -/
def makeEditFixedGo (old : Bytes) (offset : Nat) : Nat → List REdit → Res Bytes
  | start, [] => byteSliceFrom old start
  | start, e :: es =>
    let end_ := (e.position + e.deleted) - offset
    let pos := min (e.position - offset) old.length
    if start > pos then makeEditFixedGo old offset start es      -- skip overlapping edits
    else do
      let pre ← byteSlice old start pos
      let rest ← makeEditFixedGo old offset (max pos (min end_ old.length)) es
      pure (pre ++ e.inserted ++ rest)

def makeEditFixed (old : Bytes) (edits : List REdit) (offset : Nat) : Res Bytes :=
  makeEditFixedGo old offset 0 edits

/-- the `for edit in edits` loop of the repaired `joinBy` branch (`position.saturating_sub(start)`) -/
def joinByFixedGo (start : Nat) (joiner : Bytes) : Nat → List REdit → Res Bytes
  | _, [] => .ok []
  | pos, e :: es =>
    let p := e.position - start
    if pos > p then joinByFixedGo start joiner pos es            -- skip overlapping edits
    else do
      let rest ← joinByFixedGo start joiner (p + e.deleted) es
      pure (joiner ++ e.inserted ++ rest)

/-- the repaired `joinBy` branch of `Rewrite::compute` -/
def joinByFixed (edits : List REdit) (start : Nat) (joiner : Bytes) : Res Bytes :=
  match edits with
  | [] => .ok []
  | first :: rest => do
    let tail ← joinByFixedGo start joiner (first.position - start + first.deleted) rest
    pure (first.inserted ++ tail)

/-- the repaired `Rewrite::compute` after the edits were collected -/
def rewriteComputeFixed (old : Bytes) (edits : List REdit) (start : Nat) (joiner : Option Bytes) : Res Bytes :=
  match joiner with
  | some j => joinByFixed edits start j
  | none => makeEditFixed old edits start

end AGV
