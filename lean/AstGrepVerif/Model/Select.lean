/-
Model of rule selection: which rule runs on which file, with which severity, and the exit
status of `sg scan` in project mode.

Mirrors (pinned commit):
  * `std::path::Path::{file_name, extension}` (unix) as used by
    `crates/language/src/lib.rs:448-455`          `from_extension`
  * `crates/language/src/lib.rs:417-446`          `extensions` (table, also generated)
  * `crates/dynamic/src/lib.rs:212-227`           `DynamicLang::from_path` (extension lookup)
  * `crates/cli/src/lang/lang_globs.rs:14-38,99-106`  `register_impl` / `from_path`
  * `crates/cli/src/lang/mod.rs:162-169`          `SgLang::from_path` precedence
  * `crates/cli/src/lang/mod.rs:35-93`            `file_types` / `augmented_file_type`
  * `crates/cli/src/utils/mod.rs:120-143`         `filter_file_rule` (host document + injected ones)
  * `crates/config/src/rule_collection.rs:25-125,160-171`  `ContingentRule::matches_path`,
        `RuleCollection::{try_new, add_tenured_rule, get_rule_from_lang}`
  * `crates/cli/src/utils/rule_overwrite.rs:19-131`  `read_severity`, `RuleOverwrite::{new,
        process_configs, find}`, `filter_rule_by_regex`, `OverwriteResult::overwrite`
  * `crates/cli/src/utils/args.rs:276-318`        `OverwriteArgs` as filled in by clap
  * `crates/cli/src/scan.rs:118-224`              `ScanWithConfig::{try_new, consume_items,
        produce_item}`, `unused_suppression_rule_config`
  * `crates/cli/src/utils/error_context.rs:69-91` `ErrorContext::exit_code`

Parameters of the model (trusted components, see `Env`): the glob engine (`globset` for
`files`/`ignores`, `ignore::types` for `languageGlobs`), the regex of `--filter`, the parser /
matcher / suppression logic (number of unsuppressed matches of a rule in a document).
`languageGlobs` is a `HashMap` in the code: the model takes the *iteration order* of that map
as data (`Env.langGlobs` is a list of entries `(key as written, language it names, globs)`);
`register_impl` sorts the entries by key before registering them (since 1c5d0c8), modelled by
`registerLangGlobs`, so order (in)dependence is a statement about permutations of `Env.langGlobs`.
No imports beyond Model files: compiled into the native driver.
-/
import AstGrepVerif.Model.Indent
import AstGrepVerif.Model.Topo

namespace AGV.Select

abbrev Path := Bytes
abbrev Glob := Bytes
abbrev RuleId := Bytes
/-- index into `SupportLang::all_langs()` (0..22); numbers ≥ 23 stand for custom languages -/
abbrev Lang := Nat

/-! ## `std::path` -/

/-- split on `/` (every separator produces a boundary, like `str::split`) -/
def splitSlash : Bytes → List Bytes
  | [] => [[]]
  | b :: rest =>
    if b = 0x2F then [] :: splitSlash rest
    else match splitSlash rest with
      | [] => [[b]]
      | c :: cs => (b :: c) :: cs

/-- `Path::file_name` (unix): the last component if it is a normal one. Empty components and
`.` components are skipped by `Components`; a path ending in `..` (or with no normal component)
has no file name. -/
def fileName (p : Path) : Option Bytes :=
  match ((splitSlash p).filter (fun c => c ≠ [] ∧ c ≠ [0x2E])).getLast? with
  | none => none
  | some c => if c = [0x2E, 0x2E] then none else some c

/-- `slice.rsplitn(2, |b| b == '.')` on a reversed name: returns `(after, before?)` -/
def rsplitDot (name : Bytes) : Bytes × Option Bytes :=
  let r := name.reverse
  let afterRev := r.takeWhile (· ≠ 0x2E)
  match r.dropWhile (· ≠ 0x2E) with
  | [] => (name, none)
  | _ :: beforeRev => (afterRev.reverse, some beforeRev.reverse)

/-- `Path::extension`: the part of the file name after its last `.`, none when there is no
dot or when the only dot is the leading one (`.bashrc`). `foo.` has the empty extension. -/
def extension (p : Path) : Option Bytes :=
  match fileName p with
  | none => none
  | some name =>
    match rsplitDot name with
    | (_, none) => none
    | (after, some before) => if before = [] then none else some after

/-! ## extension table of the built-in languages -/

/-- `extensions(lang)` for `SupportLang::all_langs()` in order
(Bash, C, Cpp, CSharp, Css, Elixir, Go, Haskell, Html, Java, JavaScript, Json, Kotlin, Lua, Php,
Python, Ruby, Rust, Scala, Swift, Tsx, TypeScript, Yaml). Written with byte codes because string
literals do not reduce in the kernel; equality with the table generated from the real function is
`AGV.C15.generated_ext_table_agrees`. -/
def extTable : List (Lang × List Bytes) := [
  (0, [[98,97,115,104], [98,97,116,115], [99,103,105], [99,111,109,109,97,110,100], [101,110,118],
       [102,99,103,105], [107,115,104], [115,104], [116,109,117,120], [116,111,111,108], [122,115,104]]),
  (1, [[99], [104]]),
  (2, [[99,99], [104,112,112], [99,112,112], [99,43,43], [104,104], [99,120,120], [99,117], [105,110,111]]),
  (3, [[99,115]]),
  (4, [[99,115,115], [115,99,115,115]]),
  (5, [[101,120], [101,120,115]]),
  (6, [[103,111]]),
  (7, [[104,115]]),
  (8, [[104,116,109,108], [104,116,109], [120,104,116,109,108]]),
  (9, [[106,97,118,97]]),
  (10, [[99,106,115], [106,115], [109,106,115], [106,115,120]]),
  (11, [[106,115,111,110]]),
  (12, [[107,116], [107,116,109], [107,116,115]]),
  (13, [[108,117,97]]),
  (14, [[112,104,112]]),
  (15, [[112,121], [112,121,51], [112,121,105], [98,122,108]]),
  (16, [[114,98], [114,98,119], [103,101,109,115,112,101,99]]),
  (17, [[114,115]]),
  (18, [[115,99,97,108,97], [115,99], [115,98,116]]),
  (19, [[115,119,105,102,116]]),
  (20, [[116,115,120]]),
  (21, [[116,115], [99,116,115], [109,116,115]]),
  (22, [[121,97,109,108], [121,109,108]])
]

/-- `Language::injectable_languages` resolved with `SgLang::from_str` (names that are not a
language, e.g. `scss`, `less`, are dropped as in `injectable_sg_langs`): only Html (8) hosts
other built-in languages: css, js, ts, tsx. -/
def injectTable : List (Lang × List Lang) := [(8, [4, 10, 21, 20])]

/-- `all_langs().find(|l| extensions(l).contains(ext))` over a table -/
def langOfExt (table : List (Lang × List Bytes)) (ext : Bytes) : Option Lang :=
  (table.find? (fun row => row.2.contains ext)).map (·.1)

/-- `SupportLang::from_path` = `from_extension` -/
def builtinFromPath (p : Path) : Option Lang :=
  match extension p with
  | none => none
  | some ext => langOfExt extTable ext

/-! ## the environment: trusted components as parameters -/

inductive Severity where
  | hint | info | warning | error | off
deriving DecidableEq, Repr, Inhabited

structure Rule where
  id : RuleId
  lang : Lang
  severity : Severity
  files : Option (List Glob)
  ignores : Option (List Glob)
deriving DecidableEq, Repr

structure Env where
  /-- `globset::Glob::new(g).compile_matcher().is_match(path)` -/
  globMatch : Glob → Path → Bool
  /-- `globset::Glob::new(g).is_ok()` -/
  globValid : Glob → Bool
  /-- one `languageGlobs` glob (an `ignore::types` definition) whitelists the path -/
  typeMatch : Glob → Path → Bool
  /-- the `languageGlobs` map of `sgconfig.yml` in the iteration order of the `HashMap`:
  `(key as written, language the key names, globs)`; keys are pairwise different, two keys may
  name the same language (`js`, `javascript`) -/
  langGlobs : List (Bytes × Lang × List Glob)
  /-- `LANG_INDEX` of the dynamic languages: extension ↦ language -/
  customExts : List (Bytes × Lang)
  /-- languages that can be injected into documents of a language -/
  injectable : List (Lang × List Lang)
  /-- injected languages for which the parser produced a document in this file -/
  present : Path → List Lang
  /-- number of unsuppressed matches the scan engine reports for a rule in the document of the
  given language of a file (parser + matcher + suppression comments: C01/C05/C14) -/
  matchCount : RuleId → Path → Lang → Nat
  /-- number of suppression comments of the document left unused when exactly the rules with
  the given ids run on it -/
  unusedCount : List RuleId → Path → Lang → Nat

/-! ## language of a path -/

/-- `lang_globs::from_path`: the first registered language one of whose globs matches -/
def langGlobsFromPath (tm : Glob → Path → Bool) : List (Lang × List Glob) → Path → Option Lang
  | [], _ => none
  | (l, gs) :: rest, p => if gs.any (fun g => tm g p) then some l else langGlobsFromPath tm rest p

/-- `register_impl` (since 1c5d0c8): `regs.sort()` — by key, keys being pairwise different —
then one `(language, types)` entry per key is pushed onto `LANG_GLOBS` in that order -/
def registerLangGlobs (entries : List (Bytes × Lang × List Glob)) : List (Lang × List Glob) :=
  (AGV.Topo.sortBy (fun a b => AGV.Topo.bytesLt a.1 b.1) entries).map (fun e => e.2)

/-- `register_impl` before 1c5d0c8: the entries in the iteration order of the `HashMap` -/
def registerLangGlobsUnsorted (entries : List (Bytes × Lang × List Glob)) : List (Lang × List Glob) :=
  entries.map (fun e => e.2)

/-- `lang_globs::get_types`: the types of the *first* registered entry of that language -/
def langTypes (registered : List (Lang × List Glob)) (l : Lang) : List Glob :=
  match registered.find? (fun e => e.1 = l) with
  | some e => e.2
  | none => []

/-- `DynamicLang::from_path`: first entry of the extension index equal to the extension -/
def customFromPath (idx : List (Bytes × Lang)) (p : Path) : Option Lang :=
  match extension p with
  | none => none
  | some ext => (idx.find? (fun e => e.1 = ext)).map (·.2)

/-- `SgLang::from_path`: language globs, then custom languages, then built-in extensions -/
def fromPath (env : Env) (p : Path) : Option Lang :=
  match langGlobsFromPath env.typeMatch (registerLangGlobs env.langGlobs) p with
  | some l => some l
  | none =>
    match customFromPath env.customExts p with
    | some l => some l
    | none => builtinFromPath p

def injectableOf (env : Env) (l : Lang) : List Lang :=
  match env.injectable.find? (fun e => e.1 = l) with
  | none => []
  | some e => e.2

/-- `filter_file_rule`: the languages of the documents scanned for a path: the file's own
language first, then every injectable language for which a document exists. -/
def docLangs (env : Env) (p : Path) : List Lang :=
  match fromPath env p with
  | none => []
  | some l => l :: (injectableOf env l).filter (fun i => (env.present p).contains i)

/-! ## RuleCollection -/

structure Bucket where
  lang : Lang
  rules : List Rule
deriving DecidableEq, Repr

structure Collection where
  tenured : List Bucket
  contingent : List Rule
deriving DecidableEq, Repr

/-- `add_tenured_rule` -/
def addTenured : List Bucket → Rule → List Bucket
  | [], r => [⟨r.lang, [r]⟩]
  | b :: bs, r =>
    if b.lang = r.lang then { b with rules := b.rules ++ [r] } :: bs
    else b :: addTenured bs r

def globsValid (env : Env) : Option (List Glob) → Bool
  | none => true
  | some gs => gs.all env.globValid

/-- `RuleCollection::try_new`; `none` = `globset::Error` (→ `EC::GlobPattern`). A rule that is
`off` is dropped before its globs are compiled. -/
def tryNewLoop (env : Env) : List Rule → Collection → Option Collection
  | [], acc => some acc
  | r :: rest, acc =>
    if r.severity = .off then tryNewLoop env rest acc
    else if r.files = none ∧ r.ignores = none then
      tryNewLoop env rest { acc with tenured := addTenured acc.tenured r }
    else if globsValid env r.files && globsValid env r.ignores then
      tryNewLoop env rest { acc with contingent := acc.contingent ++ [r] }
    else none

def tryNew (env : Env) (configs : List Rule) : Option Collection :=
  tryNewLoop env configs ⟨[], []⟩

/-- `ContingentRule::matches_path`: ignores first, then files -/
def matchesPath (gm : Glob → Path → Bool) (r : Rule) (p : Path) : Bool :=
  if (match r.ignores with | some ig => ig.any (fun g => gm g p) | none => false) then false
  else match r.files with
    | some fg => fg.any (fun g => gm g p)
    | none => true

/-- `get_rule_from_lang`: the rules of the *first* bucket of that language, then the contingent
rules of that language whose globs accept the path -/
def getRuleFromLang (gm : Glob → Path → Bool) (c : Collection) (p : Path) (l : Lang) : List Rule :=
  (match c.tenured.find? (fun b => b.lang = l) with
   | some b => b.rules
   | none => []) ++
  c.contingent.filter (fun r => r.lang = l ∧ matchesPath gm r p)

/-- `for_each_rule`: all rules of the collection -/
def allRules (c : Collection) : List Rule :=
  c.tenured.flatMap (·.rules) ++ c.contingent

/-! ## command-line overrides -/

/-- `OverwriteArgs` as clap fills it in: per severity `None` when the flag does not occur,
otherwise the ids of the occurrences that carry one (a bare `--error` contributes nothing). -/
structure OverwriteArgs where
  /-- `--filter REGEX` as the predicate `regex.is_match(id)` -/
  filter : Option (RuleId → Bool) := none
  error : Option (List RuleId) := none
  warning : Option (List RuleId) := none
  info : Option (List RuleId) := none
  hint : Option (List RuleId) := none
  off : Option (List RuleId) := none

/-- one `--<severity>[=RULE_ID]` occurrence on the command line -/
structure FlagOcc where
  sev : Severity
  id : Option RuleId
deriving DecidableEq, Repr

/-- clap (`ArgAction::Append`, `num_args(0..)`, `require_equals`): -/
def collectFlag (occs : List FlagOcc) (sv : Severity) : Option (List RuleId) :=
  if occs.any (fun o => o.sev = sv) then
    some (occs.filterMap (fun o => if o.sev = sv then o.id else none))
  else none

def parseFlags (filter : Option (RuleId → Bool)) (occs : List FlagOcc) : OverwriteArgs :=
  { filter := filter
    error := collectFlag occs .error
    warning := collectFlag occs .warning
    info := collectFlag occs .info
    hint := collectFlag occs .hint
    off := collectFlag occs .off }

/-- `RuleOverwrite`; `byRuleId` is the `HashMap` as an association list, newest binding first -/
structure Overwrite where
  defaultSeverity : Option Severity
  byRuleId : List (RuleId × Severity)
  filter : Option (RuleId → Bool)

/-- `read_severity` -/
def readSeverity (sv : Severity) (ids : Option (List RuleId))
    (st : List (RuleId × Severity) × Option Severity) : List (RuleId × Severity) × Option Severity :=
  match ids with
  | none => st
  | some [] => (st.1, some sv)
  | some ids => (ids.foldl (fun m id => (id, sv) :: m) st.1, st.2)

/-- `RuleOverwrite::new`: error, warning, info, hint, off — in this order -/
def Overwrite.new (a : OverwriteArgs) : Overwrite :=
  let st := readSeverity .error a.error ([], none)
  let st := readSeverity .warning a.warning st
  let st := readSeverity .info a.info st
  let st := readSeverity .hint a.hint st
  let st := readSeverity .off a.off st
  { defaultSeverity := st.2, byRuleId := st.1, filter := a.filter }

def lookupId (id : RuleId) : List (RuleId × Severity) → Option Severity
  | [] => none
  | (k, v) :: rest => if k = id then some v else lookupId id rest

/-- `RuleOverwrite::find` -/
def Overwrite.find (o : Overwrite) (id : RuleId) : Option Severity :=
  match lookupId id o.byRuleId with
  | some sv => some sv
  | none => o.defaultSeverity

inductive LoadError where
  | ruleNotFound    -- `--filter` selects nothing
  | globPattern     -- a `files`/`ignores` glob does not compile
deriving DecidableEq, Repr

/-- `OverwriteResult::overwrite` -/
def overwriteRule (o : Overwrite) (r : Rule) : Rule :=
  match o.find r.id with
  | some sv => { r with severity := sv }
  | none => r

/-- `process_configs` -/
def processConfigs (o : Overwrite) (configs : List Rule) : Except LoadError (List Rule) :=
  match o.filter with
  | some f =>
    let selected := configs.filter (fun r => f r.id)
    if selected.isEmpty then .error .ruleNotFound
    else .ok (selected.map (overwriteRule o))
  | none => .ok (configs.map (overwriteRule o))

/-- `read_directory_yaml` after the rule files are parsed -/
def loadCollection (env : Env) (a : OverwriteArgs) (configs : List Rule) : Except LoadError Collection :=
  match processConfigs (Overwrite.new a) configs with
  | .error e => .error e
  | .ok cs =>
    match tryNew env cs with
    | none => .error .globPattern
    | some c => .ok c

/-! ## scanning -/

/-- `"unused-suppression"` -/
def unusedId : RuleId := [117,110,117,115,101,100,45,115,117,112,112,114,101,115,115,105,111,110]

/-- `OverwriteArgs::include_all_rules` (no `--filter`, no `--off`) && no `--rule`/`--inline-rules` -/
def includeAllRules (a : OverwriteArgs) : Bool :=
  a.filter.isNone && a.off.isNone

/-- `unused_suppression_rule_config`: severity of the pseudo rule `unused-suppression` -/
def unusedSeverity (a : OverwriteArgs) : Severity :=
  match (Overwrite.new a).find unusedId with
  | some sv => sv
  | none => if includeAllRules a then .hint else .off

/-- the rules `produce_item` hands to `CombinedScan` for one document of a path -/
def rulesOn (env : Env) (c : Collection) (p : Path) : List (Lang × Rule) :=
  (docLangs env p).flatMap (fun l => (getRuleFromLang env.globMatch c p l).map (fun r => (l, r)))

/-- contribution of one document to `error_count` -/
def docErrors (env : Env) (a : OverwriteArgs) (c : Collection) (p : Path) (l : Lang) : Nat :=
  let rules := getRuleFromLang env.globMatch c p l
  ((rules.filter (fun r => r.severity = .error)).map (fun r => env.matchCount r.id p l)).sum +
  (if unusedSeverity a = .error then env.unusedCount (rules.map (·.id)) p l else 0)

def fileErrors (env : Env) (a : OverwriteArgs) (c : Collection) (p : Path) : Nat :=
  ((docLangs env p).map (docErrors env a c p)).sum

/-- `error_count` after all visited paths were processed -/
def errorCount (env : Env) (a : OverwriteArgs) (c : Collection) (visited : List Path) : Nat :=
  (visited.map (fileErrors env a c)).sum

/-- `ErrorContext::exit_code` for the outcomes of a project scan, 0 = `Ok(())` -/
def exitCodeOf : Except LoadError Nat → Nat
  | .error .ruleNotFound => 2
  | .error .globPattern => 9
  | .ok 0 => 0
  | .ok (_ + 1) => 1        -- `DiagnosticError(n)`

/-- exit status of `sg scan` in project mode, non-interactive, no I/O error during the walk -/
def scanExit (env : Env) (a : OverwriteArgs) (configs : List Rule) (visited : List Path) : Nat :=
  exitCodeOf (match loadCollection env a configs with
    | .error e => .error e
    | .ok c => .ok (errorCount env a c visited))

/-! ## the walker's file-type filter -/

/-- glob `*.ext` of `add_custom_file_type`, matched against the file name -/
def hasSuffixExt (name ext : Bytes) : Bool :=
  (0x2E :: ext).isSuffixOf name

/-- `SgLang::file_types` (built-in or custom extensions merged by `merge_globs` with the globs of
the language's *first* registered `languageGlobs` entry, `get_types`) applied to a path: some
definition whitelists the file name -/
def langTypeMatch (env : Env) (l : Lang) (p : Path) : Bool :=
  (match fileName p with
   | none => false
   | some name =>
     ((extTable.filter (fun row => row.1 = l)).any (fun row => row.2.any (hasSuffixExt name))) ||
     ((env.customExts.filter (fun e => e.2 = l)).any (fun e => hasSuffixExt name e.1))) ||
  ((langTypes (registerLangGlobs env.langGlobs) l).any (fun g => env.typeMatch g p))

/-- languages that can host `l` (`augmented_file_type`) -/
def hostsOf (env : Env) (l : Lang) : List Lang :=
  (env.injectable.filter (fun e => e.2.contains l)).map (·.1)

/-- `file_types_for_langs(langs)` selects the path -/
def typeSelected (env : Env) (langs : List Lang) (p : Path) : Bool :=
  langs.any (fun l => langTypeMatch env l p || (hostsOf env l).any (fun h => langTypeMatch env h p))

/-- a directory component (every component but the last) starting with `.` other than `.`/`..` -/
def underHiddenDir (p : Path) : Bool :=
  match ((splitSlash p).filter (fun c => c ≠ [])).reverse with
  | [] => false
  | _ :: dirs => dirs.any (fun c => c.head? = some 0x2E ∧ c ≠ [0x2E] ∧ c ≠ [0x2E, 0x2E])

/-- the paths the `ignore` walker hands to `produce_item` (no ignore files in the project):
files selected by the type filter that are not below a hidden directory. A hidden *file* whose
name matches a selected type is visited (the type whitelist wins over the hidden-file rule). With
no rule at all the type filter is empty and every non-hidden file is visited. -/
def walkerVisits (env : Env) (c : Collection) (p : Path) : Bool :=
  let langs := (allRules c).map (·.lang)
  if langs.isEmpty then
    !underHiddenDir p && (match fileName p with | some n => n.head? ≠ some 0x2E | none => false)
  else typeSelected env langs p && !underHiddenDir p

/-- findings of a scan, per (path, rule id): what `--json=stream` shows, as a list of
`(path, id, count)` with `count > 0`, in model order (the driver sorts) -/
def findingsOn (env : Env) (a : OverwriteArgs) (c : Collection) (p : Path) : List (Path × RuleId × Nat) :=
  (docLangs env p).flatMap (fun l =>
    let rules := getRuleFromLang env.globMatch c p l
    (rules.map (fun r => (p, r.id, env.matchCount r.id p l))) ++
    (if unusedSeverity a = .off then [] else [(p, unusedId, env.unusedCount (rules.map (·.id)) p l)]))
  |>.filter (fun t => t.2.2 > 0)

end AGV.Select
