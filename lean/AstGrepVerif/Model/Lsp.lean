/-
Model of the language server's document map (LSP-history half of C09).

Mirrors `crates/lsp/src/lib.rs`:
  * `VersionedAst { version: i32, root }`, `Backend.map : DashMap<String, VersionedAst>` (22-32)
  * `on_open`   (246-274): skip when outside the first workspace folder; language inferred
                from the uri's path (else return); **always** publish, then `map.insert`
                (replaces whatever was stored, whatever its version);
  * `on_change` (276-311): `text = &params.content_changes.last()?.text` (full sync: the last
                change holds the resulting document; an empty list ⇒ return, nothing happens);
                language inferred (else return); `map.get_mut(uri)?` (unknown uri ⇒ ignored);
                `stored.version > incoming` ⇒ ignored (so an **equal** version is accepted and
                replaces); otherwise replace, release the map guard, publish;
  * `on_close`  (302-304): `map.remove(uri)`; nothing is published;
  * `publish_diagnostics` (223-230): diagnostics = a function of (uri, stored text), sent
                with `Some(version)`.

The handlers are modelled as run one after the other (each notification completely handled
before the next one is read): `sg lsp` builds the server with `concurrency_level(1)`
(crates/cli/src/lsp.rs), so this is how the shipped server dispatches; the oracle unit
`lsp_unawaited` checks it end to end on the real process.  No handler has a panic site left
(the former `content_changes[0]` is gone), so `step` is total.
A publish carries the *text* it was computed from: diagnostics are a function of
(uri, text) for fixed rules, the harness maps texts to diagnostics.
-/
import AstGrepVerif.Model.Indent

namespace AGV.Lsp

abbrev Uri := Nat
abbrev Version := Int          -- `i32` on the wire; no arithmetic is done on it
abbrev Text := Bytes

/-- one notification of a history -/
inductive Op
  | open (u : Uri) (v : Version) (t : Text)              -- textDocument/didOpen
  | change (u : Uri) (v : Version) (ts : List Text)      -- textDocument/didChange, `contentChanges[*].text`
  | close (u : Uri)                                      -- textDocument/didClose
  deriving DecidableEq, Repr

/-- `textDocument/publishDiagnostics` for `uri`, `version = Some(version)`, diagnostics of `text` -/
structure Publish where
  uri : Uri
  version : Version
  text : Text
  deriving DecidableEq, Repr

/-- the document map, as an association list with unique keys -/
abbrev State := List (Uri × Version × Text)

/-- per-uri facts that are constant over a history -/
structure Config where
  /-- `infer_lang_from_uri` succeeds (file uri whose extension maps to a language) -/
  langKnown : Uri → Bool
  /-- the client reports workspace folders and the document is outside the first one -/
  outside : Uri → Bool

def lookup : State → Uri → Option (Version × Text)
  | [], _ => none
  | (u', v, t) :: rest, u => if u' = u then some (v, t) else lookup rest u

/-- `DashMap::remove` -/
def remove : State → Uri → State
  | [], _ => []
  | (u', v, t) :: rest, u => if u' = u then remove rest u else (u', v, t) :: remove rest u

/-- `DashMap::insert` / `*guard = …`: replaces the entry of `u` -/
def insert (s : State) (u : Uri) (v : Version) (t : Text) : State := (u, v, t) :: remove s u

/-- `Backend::on_open` -/
def onOpen (cfg : Config) (s : State) (u : Uri) (v : Version) (t : Text) : State × List Publish :=
  if cfg.outside u then (s, [])
  else if !cfg.langKnown u then (s, [])
  else (insert s u v t, [⟨u, v, t⟩])

/-- `Backend::on_change` -/
def onChange (cfg : Config) (s : State) (u : Uri) (v : Version) (ts : List Text) :
    State × List Publish :=
  match ts.getLast? with
  | none => (s, [])                          -- `content_changes.last()?`
  | some t =>
    if !cfg.langKnown u then (s, [])
    else match lookup s u with
      | none => (s, [])
      | some (stored, _) =>
        if stored > v then (s, [])            -- "skip old version update"
        else (insert s u v t, [⟨u, v, t⟩])

/-- `Backend::on_close` -/
def onClose (s : State) (u : Uri) : State × List Publish := (remove s u, [])

def step (cfg : Config) (s : State) : Op → State × List Publish
  | .open u v t => onOpen cfg s u v t
  | .change u v ts => onChange cfg s u v ts
  | .close u => onClose s u

structure RunResult where
  state : State
  pubs : List Publish          -- the publish log, oldest first
  deriving Repr, DecidableEq

/-- handle the notifications one after the other -/
def runFrom (cfg : Config) : State → List Publish → List Op → RunResult
  | s, acc, [] => ⟨s, acc⟩
  | s, acc, op :: ops => runFrom cfg (step cfg s op).1 (acc ++ (step cfg s op).2) ops

def run (cfg : Config) (h : List Op) : RunResult := runFrom cfg [] [] h

/-- the last publish for `u` in a publish log -/
def lastPub (u : Uri) (pubs : List Publish) : Option (Version × Text) :=
  match (pubs.filter (fun p => p.uri = u)).getLast? with
  | some p => some (p.version, p.text)
  | none => none

def Op.uri : Op → Uri
  | .open u _ _ => u
  | .change u _ _ => u
  | .close u => u

end AGV.Lsp
