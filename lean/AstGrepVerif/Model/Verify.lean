/-
Model of the rule-test runner `sg test`.

Mirrors (commit de3941d), branch by branch:
  * `crates/cli/src/verify/test_case.rs`    `TestCase`, `verify_test_case` (`verify_rule`),
        `verify_test_case_with_snapshots` (`verify_with_snapshot`)
  * `crates/cli/src/verify/case_result.rs`  `CaseStatus` (`verify_valid`, `verify_invalid`,
        `verify_snapshot`, `accept`, `is_pass`), `CaseResult` (`passed`, `changed_snapshots`)
  * `crates/cli/src/verify/snapshot.rs`     `TestSnapshots`, `SnapshotCollection`, `merge_snapshots`,
        `SnapshotAction::update_snapshot_collection`, `ordered_map`
  * `crates/cli/src/verify/find_file.rs`    `deserialize_test_yaml` / `deserialize_snapshot_yaml`
        (what ends up in `test_cases`, `snapshots`, `path_map`; the filter)
  * `crates/cli/src/verify/reporter.rs`     `DefaultReporter` (`report_failed_cases`,
        `report_case_detail`, `collect_snapshot_action`, `after_report`)
  * `crates/cli/src/verify.rs`              `verify_test_case_simple`, `run_test_rule_impl`,
        `apply_snapshot_action`, `write_merged_to_disk`

Abstractions (stated, not hidden):
  * "run the rule (+ fixer + labels) on a source" = `TestSnapshot::generate` is the parameter
    `gen : Id → Source → Gen V` (`noMatch` = `Ok(None)`, `fixError` = `Err(_)`, `snap v` =
    `Ok(Some(v))`); `verify_valid` / `verify_invalid` only ask `root.find(rule).is_some()`, which is
    `gen ≠ noMatch` (the first statement of `generate` is the same `find`).
  * a `HashMap` is an association list with pairwise different keys; its iteration order is the
    list order (arbitrary in the code: the theorems show where it does not matter).
  * one test directory with one snapshot directory (`testConfigs` with a single entry): `path_map`
    then maps every id of a loaded test case to that one directory, only its key set matters.
  * the snapshot directory is the list of its files in the order the directory walk yields them;
    a file = its name, the `id:` inside, the `snapshots:` entries in file order.  Where a newly
    created file appears in a later walk is the file system's business: `writeFile` appends it
    (the correspondence compares directories as name-indexed maps).
  * `parallel_collect` keeps the order of the cases (chunks are joined in order); only the order
    of the "Configuration not found!" lines is left to the scheduler (compared as a multiset).
  * the interactive reporter (`SnapshotAction` after selective accepts) is NOT modelled: only
    `DefaultReporter` with `update_all` (accept all) or without (accept none).
Imports only Model files: compiled into the native driver.
-/
import AstGrepVerif.Model.Snapshot

namespace AGV.Verify

open AGV.Snapshot (Source orderedMap)

abbrev Id := List UInt8
abbrev Name := List UInt8

/-! ## `HashMap` as association list -/

section Assoc
variable {κ : Type} [DecidableEq κ] {β : Type}

/-- `HashMap::get` -/
def alookup (k : κ) : List (κ × β) → Option β
  | [] => none
  | (k', v) :: rest => if k' = k then some v else alookup k rest

/-- `HashMap::insert`: replace the binding of `k` or add one (= `Snapshot.insertKV`) -/
def ainsert (k : κ) (v : β) : List (κ × β) → List (κ × β)
  | [] => [(k, v)]
  | (k', v') :: rest => if k' = k then (k, v) :: rest else (k', v') :: ainsert k v rest

/-- `HashMap::extend(more)` -/
def aextend (m more : List (κ × β)) : List (κ × β) :=
  more.foldl (fun m kv => ainsert kv.1 kv.2 m) m

/-- `iter.collect::<HashMap<_, _>>()` -/
def afromList (l : List (κ × β)) : List (κ × β) := aextend [] l

end Assoc

/-! ## test cases, statuses, results -/

/-- result of `TestSnapshot::generate(rule, source)` -/
inductive Gen (V : Type) where
  | noMatch
  | fixError
  | snap (v : V)
deriving DecidableEq, Repr

/-- one document of a rule-test file -/
structure TestCase where
  id : Id
  valid : List Source
  invalid : List Source
deriving DecidableEq, Repr

inductive CaseStatus (V : Type) where
  | validated
  | reported
  | updated (source : Source) (updated : V)
  | wrong (source : Source) (actual : V) (expected : Option V)
  | missing (source : Source)
  | noisy (source : Source)
  | error
deriving DecidableEq, Repr

structure CaseResult (V : Type) where
  id : Id
  cases : List (CaseStatus V)
deriving DecidableEq, Repr

variable {V : Type} [DecidableEq V]

/-- `CaseStatus::verify_valid` -/
def verifyValid (g : Source → Gen V) (case : Source) : CaseStatus V :=
  match g case with
  | .noMatch => .validated
  | _ => .noisy case

/-- `CaseStatus::verify_invalid` (no snapshot is generated: a failing fix goes unnoticed) -/
def verifyInvalid (g : Source → Gen V) (case : Source) : CaseStatus V :=
  match g case with
  | .noMatch => .missing case
  | _ => .reported

/-- `CaseStatus::verify_snapshot` -/
def verifySnapshot (g : Source → Gen V) (case : Source) (snapshot : Option V) : CaseStatus V :=
  match g case with
  | .noMatch => .missing case
  | .fixError => .error
  | .snap actual =>
    match snapshot with
    | some e => if e = actual then .reported else .wrong case actual (some e)
    | none => .wrong case actual none

/-- `CaseStatus::accept` -/
def CaseStatus.accept : CaseStatus V → CaseStatus V
  | .wrong source actual _ => .updated source actual
  | s => s

/-- `CaseStatus::is_pass` -/
def CaseStatus.isPass : CaseStatus V → Bool
  | .validated | .reported | .updated _ _ => true
  | _ => false

/-- `CaseResult::passed` -/
def CaseResult.passed (r : CaseResult V) : Bool := r.cases.all CaseStatus.isPass

def updatedEntry : CaseStatus V → Option (Source × V)
  | .updated s v => some (s, v)
  | _ => none

/-- `CaseResult::changed_snapshots` (the `snapshots` map; the `id` is the result's) -/
def CaseResult.changedSnapshots (r : CaseResult V) : List (Source × V) :=
  afromList (r.cases.filterMap updatedEntry)

/-- `verify_test_case` (`TestCase::verify_rule`): `--skip-snapshot-tests` -/
def verifyTestCase (gen : Id → Source → Gen V) (tc : TestCase) : CaseResult V :=
  { id := tc.id
    cases := tc.valid.map (verifyValid (gen tc.id)) ++ tc.invalid.map (verifyInvalid (gen tc.id)) }

/-- `verify_test_case_with_snapshots` (`TestCase::verify_with_snapshot`); `snapshots` = the
`TestSnapshots` stored for the id, if any -/
def verifyTestCaseWithSnapshots (gen : Id → Source → Gen V) (tc : TestCase)
    (snapshots : Option (List (Source × V))) : CaseResult V :=
  { id := tc.id
    cases := tc.valid.map (verifyValid (gen tc.id)) ++
      tc.invalid.map (fun inv => verifySnapshot (gen tc.id) inv (snapshots.bind (alookup inv))) }

/-- `SnapshotCollection = HashMap<CaseId, TestSnapshots>` -/
abbrev Coll (V : Type) := List (Id × List (Source × V))

/-- `verify_test_case_simple`: `None` = "Configuration not found!" (`rules.get_rule(id)?`) -/
def verifyTestCaseSimple (rules : List Id) (gen : Id → Source → Gen V) (snapshots : Option (Coll V))
    (tc : TestCase) : Option (CaseResult V) :=
  if tc.id ∈ rules then
    match snapshots with
    | some snaps => some (verifyTestCaseWithSnapshots gen tc (alookup tc.id snaps))
    | none => some (verifyTestCase gen tc)
  else none

/-! ## snapshot actions -/

/-- `SnapshotAction` as `DefaultReporter::collect_snapshot_action` produces it -/
inductive SnapshotAction where
  | needUpdate
  | acceptNone
deriving DecidableEq, Repr

/-- the loop body of the `NeedUpdate` arm: several results can carry the same id -/
def acceptStep (accepted : Coll V) (r : CaseResult V) : Coll V :=
  match alookup r.id accepted with
  | some tests => ainsert r.id (aextend tests r.changedSnapshots) accepted
  | none => ainsert r.id r.changedSnapshots accepted

def buildAccepted (results : List (CaseResult V)) : Coll V := results.foldl acceptStep []

/-- loop body of `merge_snapshots` -/
def mergeStep (existing : Coll V) (e : Id × List (Source × V)) : Coll V :=
  match alookup e.1 existing with
  | some ex => ainsert e.1 (aextend ex e.2) existing
  | none => ainsert e.1 e.2 existing

/-- `merge_snapshots(accepted, existing)` -/
def mergeSnapshots (accepted existing : Coll V) : Coll V := accepted.foldl mergeStep existing

/-- `SnapshotAction::update_snapshot_collection` -/
def updateSnapshotCollection (action : SnapshotAction) (existing : Coll V)
    (results : List (CaseResult V)) : Option (Coll V) :=
  match action with
  | .needUpdate => some (mergeSnapshots (buildAccepted results) existing)
  | .acceptNone => none

/-! ## the test harness (find_file.rs) and the snapshot directory -/

structure SnapFile (V : Type) where
  name : Name
  id : Id
  entries : List (Source × V)
deriving DecidableEq, Repr

abbrev Dir (V : Type) := List (SnapFile V)

structure Harness (V : Type) where
  testCases : List TestCase
  snapshots : Coll V
  /-- key set of `path_map` -/
  pathIds : List Id

/-- `deserialize_snapshot_yaml` over the walk: `snapshots.insert(id, snapshot)`, a later file with
the same id replaces the earlier one ("Warning: found duplicate test case snapshot") -/
def loadSnapshots (filter : Id → Bool) (dir : Dir V) : Coll V :=
  dir.foldl (fun c f => if filter f.id then ainsert f.id (afromList f.entries) c else c) []

/-- `read_test_files`: test documents and snapshot files that pass the filter -/
def loadHarness (filter : Id → Bool) (tests : List TestCase) (dir : Dir V) : Harness V :=
  let tcs := tests.filter (fun t => filter t.id)
  { testCases := tcs, snapshots := loadSnapshots filter dir, pathIds := tcs.map (·.id) }

/-- `format!("{id}-snapshot.yml")` -/
def snapSuffix : Name := [45, 115, 110, 97, 112, 115, 104, 111, 116, 46, 121, 109, 108]

def snapName (id : Id) : Name := id ++ snapSuffix

/-- `std::fs::write(path.join(name), …)`: replace the file of that name or create it -/
def writeFile (f : SnapFile V) : Dir V → Dir V
  | [] => [f]
  | g :: rest => if g.name = f.name then f :: rest else g :: writeFile f rest

def readFile (name : Name) : Dir V → Option (SnapFile V)
  | [] => none
  | g :: rest => if g.name = name then some g else readFile name rest

/-- `write_merged_to_disk`: every id of the merged collection that has a test directory is
(re)written as `<id>-snapshot.yml`, its entries sorted by source (`ordered_map`) -/
def writeMergedToDisk (merged : Coll V) (pathIds : List Id) (dir : Dir V) : Dir V :=
  merged.foldl (fun d e =>
    if e.1 ∈ pathIds then writeFile { name := snapName e.1, id := e.1, entries := orderedMap e.2 } d
    else d) dir

/-- `apply_snapshot_action` -/
def applySnapshotAction (action : SnapshotAction) (results : List (CaseResult V))
    (snapshots : Option (Coll V)) (pathIds : List Id) (dir : Dir V) : Dir V :=
  match snapshots with
  | none => dir
  | some snaps =>
    match updateSnapshotCollection action snaps results with
    | none => dir
    | some merged => writeMergedToDisk merged pathIds dir

/-! ## the reporter (DefaultReporter) -/

/-- `report_failed_cases` with `DefaultReporter::report_case_detail`: only results that did not
pass are visited; with `update_all` every status of such a result is `accept`ed -/
def reportFailedCases (updateAll : Bool) (results : List (CaseResult V)) : List (CaseResult V) :=
  results.map fun r =>
    if r.passed then r
    else if updateAll then { r with cases := r.cases.map CaseStatus.accept } else r

/-- `DefaultReporter::collect_snapshot_action` -/
def collectSnapshotAction (updateAll : Bool) : SnapshotAction :=
  if updateAll then .needUpdate else .acceptNone

/-- `after_report`: `failed == 0` -/
def afterReport (results : List (CaseResult V)) : Bool := results.all CaseResult.passed

/-! ## the run -/

structure Flags where
  skipSnapshotTests : Bool
  updateAll : Bool
  /-- `--filter REGEX` as a predicate on ids (`None` = everything) -/
  filter : Id → Bool

structure Project (V : Type) where
  /-- ids `RuleCollection::get_rule` finds -/
  rules : List Id
  gen : Id → Source → Gen V
  /-- the test documents in walk order -/
  tests : List TestCase
  /-- the snapshot directory in walk order -/
  dir : Dir V

structure Outcome (V : Type) where
  /-- ids of the "Configuration not found!" lines (in test order; the code's order is scheduling) -/
  notFound : List Id
  /-- the results as `report_summaries` lists them -/
  results : List (CaseResult V)
  /-- `Ok(())` (exit 0) vs `TestFail` -/
  passed : Bool
  dir : Dir V

/-- `run_test_rule_impl` with `DefaultReporter { update_all }` -/
def run (p : Project V) (fl : Flags) : Outcome V :=
  let h := loadHarness fl.filter p.tests p.dir
  let snapshots : Option (Coll V) := if fl.skipSnapshotTests then none else some h.snapshots
  let checked := h.testCases.map (fun tc => (tc.id, verifyTestCaseSimple p.rules p.gen snapshots tc))
  let notFound := checked.filterMap (fun x => if x.2.isNone then some x.1 else none)
  let results := checked.filterMap (·.2)
  let results := reportFailedCases fl.updateAll results
  let action := collectSnapshotAction fl.updateAll
  let dir := applySnapshotAction action results snapshots h.pathIds p.dir
  { notFound, results, passed := afterReport results, dir }

/-- summary character of `report_summary` (≤ 40 cases) -/
def CaseStatus.summaryChar : CaseStatus V → Char
  | .validated | .reported => '.'
  | .wrong _ _ _ => 'W'
  | .updated _ _ => 'U'
  | .missing _ => 'M'
  | .noisy _ => 'N'
  | .error => 'E'

/-- label of `report_case_summary` -/
def CaseResult.label (r : CaseResult V) : String :=
  if r.cases.isEmpty then "SKIP" else if r.passed then "PASS" else "FAIL"

end AGV.Verify
