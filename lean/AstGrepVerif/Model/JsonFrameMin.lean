/-
Minimal model of the JSON printer's framing state machine (the part C17 needs).

Mirrors `crates/cli/src/print/json_print.rs`:
  * `JSONProcessor::print_docs`  (lines 333-367): one *buffer* per item = the serialised
    records of that item joined by the style's separator; an empty iterator gives an empty
    buffer;
  * `JSONPrinter::before_print / process / after_print` (lines 276-330): the single consumer
    writes `[`, then for each arriving buffer — skipping empty ones — a separator (or, for the
    first one in pretty style, a newline) followed by the buffer, then the closing bracket.
    The only state is the `matched` flag.

A *record* is the serialisation of one `MatchJSON`/`RuleMatchJSON` by `serde_json`
(`to_writer` / `to_writer_pretty`): opaque bytes here (the serialiser is in the trusted base).
(The full frame model for C16 is built elsewhere; this file is deliberately small.)
-/
import AstGrepVerif.Model.Indent

namespace AGV.JsonFrameMin

/-- `JsonStyle` -/
inductive Style
  | pretty
  | stream
  | compact
  deriving DecidableEq, Repr, Inhabited

abbrev Record := Bytes
abbrev Buffer := Bytes

def COMMA : UInt8 := 0x2C
def LBRACK : UInt8 := 0x5B
def RBRACK : UInt8 := 0x5D

/-- separator written between two docs inside one buffer (`print_docs`):
`writeln!(",")`, `writeln!()`, `write!(",")` -/
def docSep : Style → Bytes
  | .pretty => [COMMA, NL]
  | .stream => [NL]
  | .compact => [COMMA]

/-- the `for doc in docs { sep; write doc }` loop of `print_docs` -/
def printDocsTail (s : Style) : List Record → Buffer
  | [] => []
  | d :: ds => docSep s ++ d ++ printDocsTail s ds

/-- `JSONProcessor::print_docs` -/
def printDocs (s : Style) : List Record → Buffer
  | [] => []
  | d :: ds => d ++ printDocsTail s ds

/-- `JSONPrinter { output, style, matched }` (style is passed separately) -/
structure Printer where
  out : Bytes
  matched : Bool
  deriving Repr, DecidableEq

def Printer.init : Printer := { out := [], matched := false }

/-- `JSONPrinter::before_print` -/
def beforePrint (s : Style) (p : Printer) : Printer :=
  if s = .stream then p else { p with out := p.out ++ [LBRACK] }

/-- separator written by `process` before a buffer when something was printed before -/
def procSep : Style → Bytes
  | .pretty => [COMMA, NL]
  | .stream => [NL]
  | .compact => [COMMA]

/-- `JSONPrinter::process` -/
def process (s : Style) (p : Printer) (b : Buffer) : Printer :=
  if b.isEmpty then p
  else
    let pre : Bytes :=
      if p.matched then procSep s
      else if s = .pretty then [NL] else []
    { out := p.out ++ pre ++ b, matched := true }

/-- `JSONPrinter::after_print` -/
def afterPrint (s : Style) (p : Printer) : Printer :=
  if s = .stream then p
  else
    let nl : Bytes := if p.matched && s = .pretty then [NL] else []
    { p with out := p.out ++ nl ++ [RBRACK, NL] }

/-- the consumer loop shared by `consume_items` of `run` and `scan`:
`before_print; for item in items { process(item) }; after_print` -/
def consume (s : Style) (buffers : List Buffer) : Printer :=
  afterPrint s (buffers.foldl (process s) (beforePrint s Printer.init))

end AGV.JsonFrameMin
