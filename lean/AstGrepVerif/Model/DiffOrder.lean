/-
Order of the fixes of one document between `CombinedScan::scan` and the `--update-all` /
`--interactive` printer.

Mirrors
* `crates/config/src/combined.rs`
    `CombinedScan::scan(root, separate_fix = true)`: the document is walked in pre-order
    (`root.root().dfs()`); for each node, for each rule index of `kind_rule_mapping[kind]`
    (increasing; the rules are sorted by `(fix.is_some(), id)`) whose matcher matches the node and
    whose match is not suppressed: a rule with a fix pushes `(idx, match)` to `result.diffs`.
    `ScanResultInner::into_result`: when the unused-suppression rule is configured (every project
    scan) `diffs.extend(unused_suppressions); diffs.sort_by_key(|(_, nm)| nm.range().start)`.
    Since b082f8d this is the STABLE sort; the pinned v0.37.0 has `sort_unstable_by_key`, whose
    only contract is "a permutation sorted by the key".  Without the rule `diffs` is untouched.
* `crates/cli/src/scan.rs` `match_rule_diff_on_file`: each `(rule, match)` becomes one
  `Diff::generate(..)` in the same order; the printer (`Model/Interactive.lean` `processDiffs`,
  `Model/InteractiveFixed.lean` `processDiffsFixed`) filters that list greedily.

The sort key is the start of the MATCHED NODE (`nm.range().start`); the range of the generated
`Diff` is the range of the fix, which `expandStart` may move to the left of the node.  The two are
kept apart: `DiffItem.key` and `DiffItem.diff.start`.
-/
import AstGrepVerif.Model.InteractiveFixed
import AstGrepVerif.Model.Topo
import AstGrepVerif.Model.Tree

namespace AGV

/-- one entry of `ScanResultInner::diffs` -/
structure DiffItem where
  /-- `nm.range().start`: start byte of the matched node, the key of `sort_by_key` -/
  key : Nat
  /-- index of the rule in `CombinedScan::rules` (for an unused suppression: any number, the
  unused-suppression rule is not in that vector) -/
  rule : Nat
  /-- what `Diff::generate` makes of the match: range of the fix and replacement -/
  diff : Diff
deriving DecidableEq, Repr

/-- the comparison `sort_by_key` performs -/
def DiffItem.keyLe (a b : DiffItem) : Bool := decide (a.key ≤ b.key)

/-- sorted by the key (what any `sort*_by_key` establishes) -/
def SortedByKey (l : List DiffItem) : Prop := l.Pairwise fun a b => a.key ≤ b.key

instance (l : List DiffItem) : Decidable (SortedByKey l) :=
  inferInstanceAs (Decidable (l.Pairwise _))

/-- `slice::sort_by_key` (stable), as the insertion sort `sortByLe` of `Model/Topo.lean`:
`x :: xs` ↦ `x` inserted into the sorted `xs` before the first element whose key is not smaller,
so an earlier element stays in front of the later ones with the same key. -/
def stableSortByKey (l : List DiffItem) : List DiffItem := Topo.sortByLe DiffItem.keyLe l

/-- the inner loop of `scan` at one node: the rule indices in increasing order; `hit idx n` is
`some d` iff rule `idx` has a fix, its matcher matches `n`, and the match is not suppressed —
`d` is the `Diff` generated for it.  (Modelling assumption: the match returned by
`match_node(n)` is a match of `n` itself, so its key is `n.start`.) -/
def discoveredAt (nRules : Nat) (hit : Nat → Tree → Option Diff) (n : Tree) : List DiffItem :=
  (List.range nRules).filterMap fun idx => (hit idx n).map fun d => ⟨n.start, idx, d⟩

/-- `result.diffs` when the loop of `scan` ends: pre-order position of the node, then rule index -/
def discoveryOrder (nRules : Nat) (hit : Nat → Tree → Option Diff) (root : Tree) : List DiffItem :=
  root.preorder.flatMap (discoveredAt nRules hit)

/-- `ScanResultInner::into_result` (the `diffs` field, `separate_fix = true`), code as it is in
`/repo` (b082f8d): `unusedRule` = the unused-suppression rule is configured, `unused` = the
unused suppression comments (in the arbitrary order of `HashMap::into_values`) -/
def intoResultDiffs (unusedRule : Bool) (diffs unused : List DiffItem) : List DiffItem :=
  if unusedRule then stableSortByKey (diffs ++ unused) else diffs

/-- the contract of `sort_unstable_by_key` — all that is known of it -/
def IsSortByKey (sort : List DiffItem → List DiffItem) : Prop :=
  ∀ l, (sort l).Perm l ∧ SortedByKey (sort l)

/-- `into_result` of the pinned v0.37.0: `diffs.sort_unstable_by_key(..)`, `sort` any function
with `IsSortByKey sort` -/
def intoResultDiffsUnstable (sort : List DiffItem → List DiffItem) (unusedRule : Bool)
    (diffs unused : List DiffItem) : List DiffItem :=
  if unusedRule then sort (diffs ++ unused) else diffs

/-- `match_rule_diff_on_file`: the list the printer receives for the document -/
def printerDiffs (items : List DiffItem) : List Diff := items.map (·.diff)

/-- one legal `sort_unstable_by_key`: among equal keys the LAST found comes first -/
def reversingSort (l : List DiffItem) : List DiffItem := stableSortByKey l.reverse

end AGV
